(* C10 — the correspondence functions evaluate the functions the theorems are
   about.  [run_obs] / [prun_obs] are the strict replays the suites evaluate
   (a disabled action = sentinel -1); [run] / [trace] / [prun] are what the
   theorems quantify over (a disabled action is skipped).  On a schedule whose
   actions are all enabled — which is what an accepted case is — they agree. *)
From Coq Require Import List ZArith Bool Lia.
From Verif Require Import C10.Model C10.Proofs C10.Plugin.
Import ListNotations.
Open Scope Z_scope.

Definition counts_of (c : cfg) (s : st) (acts : list action) : list Z :=
  map (fun tr : trans => qcount (reqs (snd tr))) (trace c s acts).

Lemma run_obs_enabled : forall c acts s,
  enabled c s acts = true ->
  run_obs c s acts = (counts_of c s acts, run c s acts).
Proof.
  intros c acts. induction acts as [|a rest IH]; intros s E; simpl in *; [reflexivity|].
  unfold counts_of. simpl. unfold exec. destruct (step c s a) as [s'|]; [|discriminate].
  rewrite (IH s' E). reflexivity.
Qed.

Lemma run_obs_disabled : forall c acts s,
  enabled c s acts = false -> In (-1) (fst (run_obs c s acts)).
Proof.
  intros c acts. induction acts as [|a rest IH]; intros s E; simpl in *; [discriminate|].
  destruct (step c s a) as [s'|]; [|simpl; auto].
  specialize (IH s' E). destruct (run_obs c s' rest) as [l sf]. simpl in *. now right.
Qed.

Lemma counts_of_nonneg : forall c acts s, Forall (fun x => 0 <= x) (counts_of c s acts).
Proof.
  intros c acts s. unfold counts_of. apply Forall_forall. intros x I.
  apply in_map_iff in I. destruct I as [tr [E _]]. subst x. apply qcount_nonneg.
Qed.

Lemma run_obs_sentinel : forall c acts s,
  In (-1) (fst (run_obs c s acts)) <-> enabled c s acts = false.
Proof.
  intros c acts s. split; [|apply run_obs_disabled].
  intro I. destruct (enabled c s acts) eqn:E; [exfalso|reflexivity].
  rewrite (run_obs_enabled c acts s E) in I. simpl in I.
  pose proof (counts_of_nonneg c acts s) as F. rewrite Forall_forall in F. specialize (F _ I). lia.
Qed.

Definition obs_ok (o : option Z) : Prop := match o with Some y => 0 <= y | None => True end.

Lemma eq_zs_nonneg : forall a b, eq_zs a b = true -> Forall obs_ok b -> Forall (fun x => 0 <= x) a.
Proof.
  induction a as [|x a IH]; intros [|y b] E F; simpl in E; try discriminate; [constructor|].
  inversion F as [|? ? Fy Fb]; subst. destruct y as [y|]; apply andb_prop in E; destruct E as [E1 E2].
  - apply Z.eqb_eq in E1. subst y. constructor; [exact Fy|eauto].
  - apply Z.leb_le in E1. constructor; [exact E1|eauto].
Qed.

(* ---- plugin ---- *)

Section P.
Variable tv : ttl_variant.

Definition pcounts_of (v : variant) (s : pst) (acts : list paction) : list Z :=
  map (fun s' => pcount (keys s')) (pstates tv v s acts).

Lemma prun_obs_enabled : forall v acts s,
  penabled tv v s acts = true ->
  prun_obs tv v s acts = (pcounts_of v s acts, prun tv v s acts).
Proof.
  intros v acts. induction acts as [|a rest IH]; intros s E; simpl in *; [reflexivity|].
  unfold pcounts_of, prun. simpl. unfold pexec. destruct (pstep tv v s a) as [s'|]; [|discriminate].
  rewrite (IH s' E). reflexivity.
Qed.

Lemma prun_obs_disabled : forall v acts s,
  penabled tv v s acts = false -> In (-1) (fst (prun_obs tv v s acts)).
Proof.
  intros v acts. induction acts as [|a rest IH]; intros s E; simpl in *; [discriminate|].
  destruct (pstep tv v s a) as [s'|]; [|simpl; auto].
  specialize (IH s' E). destruct (prun_obs tv v s' rest) as [l sf]. simpl in *. now right.
Qed.

Lemma kcount_nonneg : forall l, 0 <= kcount l.
Proof. induction l as [|s t IH]; simpl; [lia|]. pose proof (qcount_nonneg (reqs s)). lia. Qed.

Lemma pcount_nonneg : forall l, 0 <= pcount l.
Proof.
  induction l as [|[k ks] t IH]; simpl; [lia|]. pose proof (kcount_nonneg (insts ks)). lia.
Qed.

Lemma prun_obs_sentinel : forall v acts s,
  In (-1) (fst (prun_obs tv v s acts)) <-> penabled tv v s acts = false.
Proof.
  intros v acts s. split; [|apply prun_obs_disabled].
  intro I. destruct (penabled tv v s acts) eqn:E; [exfalso|reflexivity].
  rewrite (prun_obs_enabled v acts s E) in I. simpl in I. unfold pcounts_of in I.
  apply in_map_iff in I. destruct I as [s' [E' _]]. pose proof (pcount_nonneg (keys s')). lia.
Qed.

End P.

(* ---- what an accepted case says about [run] / [prun] ---- *)

Lemma run_case_accepts : forall q w n t0 acts counts results,
  Forall obs_ok counts ->
  run_case ((q, w, n), t0, acts, counts, results) = None ->
  let c := {| quota := q; wsize := w; qsize := n |} in
  enabled c (init c t0) acts = true /\
  eq_zs (counts_of c (init c t0) acts) counts = true /\
  eq_ress (map result_of (reqs (run c (init c t0) acts))) results = true.
Proof.
  intros q w n t0 acts counts results F H c. unfold run_case in H. fold c in H.
  destruct (run_obs c (init c t0) acts) as [cs sf] eqn:R.
  destruct (eq_zs cs counts && eq_ress (map result_of (reqs sf)) results) eqn:E; [|discriminate].
  apply andb_prop in E. destruct E as [E1 E2].
  assert (En : enabled c (init c t0) acts = true).
  { destruct (enabled c (init c t0) acts) eqn:En; [reflexivity|exfalso].
    apply run_obs_sentinel in En. rewrite R in En. simpl in En.
    pose proof (eq_zs_nonneg _ _ E1 F) as NN. rewrite Forall_forall in NN. specialize (NN _ En). lia. }
  rewrite (run_obs_enabled c acts _ En) in R. inversion R; subst cs sf. auto.
Qed.

(* [run_plugin] is the replay function WITHOUT metrics reads; no suite evaluates
   it any more (suite plugin evaluates Scrape.run_mplugin, whose accepted-case
   lemma is ScrapeProofs.run_mplugin_accepts).  Kept as the special case. *)
Lemma run_plugin_accepts : forall tbl cacts counts results,
  Forall obs_ok counts ->
  run_plugin (tbl, cacts, counts, results) = None ->
  exists acts,
    expand_all tbl cacts = Some acts /\
    penabled code_ttl code_variant pinit acts = true /\
    eq_zs (pcounts_of code_ttl code_variant pinit acts) counts = true /\
    fst (prun_obs code_ttl code_variant pinit acts) = pcounts_of code_ttl code_variant pinit acts /\
    snd (prun_obs code_ttl code_variant pinit acts) = prun code_ttl code_variant pinit acts.
Proof.
  intros tbl cacts counts results F H. unfold run_plugin in H.
  destruct (expand_all tbl cacts) as [acts|]; [|discriminate]. exists acts. split; [reflexivity|].
  destruct (prun_obs code_ttl code_variant pinit acts) as [cs sf] eqn:R.
  match type of H with (if ?b then _ else _) = _ => destruct b eqn:E end; [|discriminate].
  apply andb_prop in E. destruct E as [E1 E2].
  assert (En : penabled code_ttl code_variant pinit acts = true).
  { destruct (penabled code_ttl code_variant pinit acts) eqn:En; [reflexivity|exfalso].
    apply prun_obs_sentinel in En. rewrite R in En. simpl in En.
    pose proof (eq_zs_nonneg _ _ E1 F) as NN. rewrite Forall_forall in NN. specialize (NN _ En). lia. }
  rewrite (prun_obs_enabled code_ttl code_variant acts _ En) in R. inversion R; subst cs sf.
  simpl. auto.
Qed.

(* ---- the timer suite ---- *)

Definition is_tick (tr : trans) : bool :=
  match snd (fst tr) with Tick _ => true | _ => false end.

Lemma run_ticks_enabled : forall c acts s,
  enabled c s acts = true ->
  run_ticks c s acts = map (fun tr : trans => next_tick (snd tr)) (filter is_tick (trace c s acts)).
Proof.
  intros c acts. induction acts as [|a rest IH]; intros s E; simpl in *; [reflexivity|].
  unfold exec. destruct (step c s a) as [s'|]; [|discriminate].
  rewrite (IH s' E). unfold is_tick at 2. simpl. destruct a; reflexivity.
Qed.

(* a disabled action shows in what suite timer evaluates *)
Lemma run_ticks_disabled : forall c acts s,
  enabled c s acts = false -> In (-1) (run_ticks c s acts).
Proof.
  intros c acts. induction acts as [|a rest IH]; intros s E; simpl in *; [discriminate|].
  destruct (step c s a) as [s'|]; [|simpl; auto].
  specialize (IH s' E). destruct a; simpl; auto.
Qed.

(* an accepted case of suite timer (deadlines as observed are never negative)
   is a schedule of enabled actions, and the observed deadlines are [next_tick]
   after the passes of [trace] *)
Lemma run_timer_accepts : forall q w n t0 acts nexts,
  Forall obs_ok nexts ->
  run_timer ((q, w, n), t0, acts, nexts) = None ->
  let c := {| quota := q; wsize := w; qsize := n |} in
  enabled c (init c t0) acts = true /\
  eq_zs (map (fun tr : trans => next_tick (snd tr)) (filter is_tick (trace c (init c t0) acts)))
        nexts = true.
Proof.
  intros q w n t0 acts nexts F H c. unfold run_timer in H. fold c in H.
  destruct (eq_zs (run_ticks c (init c t0) acts) nexts) eqn:E; [|discriminate].
  assert (En : enabled c (init c t0) acts = true).
  { destruct (enabled c (init c t0) acts) eqn:En; [reflexivity|exfalso].
    apply run_ticks_disabled in En.
    pose proof (eq_zs_nonneg _ _ E F) as NN. rewrite Forall_forall in NN. specialize (NN _ En). lia. }
  split; [exact En|]. rewrite <- (run_ticks_enabled c acts _ En). exact E.
Qed.
