(* C10 — lemmas, part 2: the heap, processQueueItems, no-strand / no-barging. *)
From Coq Require Import List ZArith Bool Lia Sorting.Sorted.
From Verif Require Import C10.Model C10.Proofs.
Import ListNotations.
Open Scope Z_scope.

Ltac splits := repeat match goal with |- _ /\ _ => split end.

Definition kle (a b : entry) : Prop := key_ltb (ekey b) (ekey a) = false.
Definition entry_of (r : req) : entry := (prio r, ts r, rid r).
Definition rsig (r : req) : Z * Z * Z := (rid r, prio r, ts r).
Definition spres (f : req -> req) : Prop := forall r, rsig (f r) = rsig r.
Definition noU (l : list req) : Prop := forall r, In r l -> ph r <> Unlocked.

Lemma spres_set_ph : forall p, spres (set_ph p). Proof. intros p r; reflexivity. Qed.
Lemma spres_set_park : forall n, spres (set_park n). Proof. intros n r; reflexivity. Qed.
Lemma spres_set_ret : forall n, spres (set_ret n). Proof. intros n r; reflexivity. Qed.

Lemma spres_fpres : forall f, spres f -> fpres f.
Proof. intros f S r. specialize (S r). unfold rsig in S. congruence. Qed.

Lemma kle_trans : forall a b c, kle a b -> kle b c -> kle a c.
Proof.
  unfold kle. intros a b c H1 H2. apply key_ltb_false in H1. apply key_ltb_false in H2.
  apply key_ltb_false. lia.
Qed.

Lemma ltb_kle : forall a b, key_ltb (ekey a) (ekey b) = true -> kle a b.
Proof.
  unfold kle. intros a b H. apply key_ltb_spec in H. apply key_ltb_false. lia.
Qed.

Lemma In_insert : forall x h e, In e (insert x h) <-> e = x \/ In e h.
Proof.
  intros x h e. induction h as [|y t IH]; simpl.
  - split; intros [H|H]; auto.
  - destruct (key_ltb (ekey x) (ekey y)); simpl; [|rewrite IH]; split; intro H;
      repeat destruct H as [H|H]; auto.
Qed.

Lemma insert_sorted : forall x h, StronglySorted kle h -> StronglySorted kle (insert x h).
Proof.
  intros x h S. induction S as [|y t S IH F]; simpl.
  - constructor; constructor.
  - destruct (key_ltb (ekey x) (ekey y)) eqn:E.
    + constructor; [constructor; auto|].
      pose proof (ltb_kle _ _ E) as K. constructor; [exact K|].
      eapply Forall_impl; [|exact F]. intros a Ha. eapply kle_trans; eauto.
    + constructor; [exact IH|]. apply Forall_forall. intros a Ha.
      apply In_insert in Ha. destruct Ha as [Ha|Ha]; [subst; exact E|].
      rewrite Forall_forall in F. auto.
Qed.

Lemma SS_suffix : forall (pre l : list entry), StronglySorted kle (pre ++ l) -> StronglySorted kle l.
Proof.
  induction pre as [|x t IH]; simpl; intros l S; [exact S|].
  apply IH. now apply StronglySorted_inv in S.
Qed.

Lemma map_rsig_upd : forall id f l, spres f -> map rsig (upd id f l) = map rsig l.
Proof.
  intros id f l F. induction l as [|x t IH]; simpl; [reflexivity|].
  destruct (rid x =? id); simpl; [now rewrite F|now rewrite IH].
Qed.

Lemma map_rid_rsig : forall l, map rid l = map (fun x : Z * Z * Z => fst (fst x)) (map rsig l).
Proof. intros. rewrite map_map. reflexivity. Qed.

Lemma find_same_sig : forall id l l' r,
  map rsig l' = map rsig l -> find id l = Some r ->
  exists r', find id l' = Some r' /\ rsig r' = rsig r.
Proof.
  intros id l. induction l as [|x t IH]; intros l' r M F; [discriminate|].
  destruct l' as [|x' t']; [discriminate|]. simpl in M. inversion M as [[M1 M2 M3 M4]].
  simpl in *. rewrite M1. destruct (rid x =? id).
  - inversion F; subst. exists x'. split; [reflexivity|]. unfold rsig. congruence.
  - eauto.
Qed.

(* ------------------------------------------------------------------ *)
(* invariants that hold on every schedule                              *)

Record HA (s : st) : Prop := {
  ha_sorted : StronglySorted kle (heap s);
  ha_keys : forall e, In e (heap s) ->
            exists r, find (eid e) (reqs s) = Some r /\ ekey e = rkey r;
  ha_nodup : NoDup (map rid (reqs s))
}.

(* every waiter is still in the heap (holds as long as no pass ran while a
   waiter was between Unlock and select) *)
Definition HL (s : st) : Prop :=
  forall r, In r (reqs s) -> live r = true -> In (entry_of r) (heap s).

(* free quota implies nobody waits (needs the roll-over pass to come first) *)
Definition KQ (c : cfg) (s : st) : Prop :=
  forall r, In r (reqs s) -> live r = true -> quota c <= counter s.

Lemma HA_init : forall c t0, HA (init c t0).
Proof. intros. constructor; simpl; [constructor|tauto|constructor]. Qed.

Lemma phase_of_Released_upd : forall s id id' h k w lg,
  phase_of s id' = Some Released ->
  phase_of {| heap := h; counter := k; wend := w;
              reqs := upd id (set_ph Released) (reqs s); log := lg |} id' = Some Released.
Proof.
  intros s id id' h k w lg H. unfold phase_of in *. simpl.
  destruct (Z.eq_dec id' id) as [E|E].
  - subst. rewrite find_upd_same by apply fpres_set_ph.
    destruct (find id (reqs s)); [reflexivity|discriminate].
  - rewrite find_upd_other by (auto using fpres_set_ph). exact H.
Qed.

(* facts about processQueueItems valid in every state *)
Lemma drain_all : forall c now h s s' rel,
  drain c now h s = (s', rel) ->
  (exists pre, h = pre ++ heap s') /\
  map rsig (reqs s') = map rsig (reqs s) /\
  wend s' = wend s /\
  log s' = rev (map (fun e => (eid e, wend s, now)) rel) ++ log s /\
  Forall (fun e => In e h) rel /\
  (StronglySorted kle h -> StronglySorted kle rel) /\
  (forall e, In e rel -> exists r, find (eid e) (reqs s) = Some r /\ ph r = Parked) /\
  (forall id, phase_of s id = Some Released -> phase_of s' id = Some Released) /\
  (NoDup (map rid (reqs s)) -> forall e, In e rel -> phase_of s' (eid e) = Some Released).
Proof.
  intros c now h. induction h as [|e h' IH]; intros s s' rel D; simpl in D.
  - inversion D; subst. simpl. splits; auto;
      try (exists []; reflexivity); try (now constructor); try (intros; now constructor);
      try (intros; simpl in *; contradiction).
  - destruct (counter s <? quota c).
    + destruct (is_parked s (eid e)) eqn:P.
      * destruct (drain c now h' (release s (eid e) now)) as [s2 rel2] eqn:D2.
        inversion D; subst s2 rel. clear D.
        destruct (IH _ _ _ D2) as (A & B & W & L & F & S & K & R & N). clear IH.
        assert (Pk : exists r, find (eid e) (reqs s) = Some r /\ ph r = Parked).
        { unfold is_parked in P. destruct (find (eid e) (reqs s)) as [r|]; [|discriminate].
          exists r. split; [reflexivity|]. now apply phase_eqb_eq. }
        splits.
        -- destruct A as [pre A]. exists (e :: pre). simpl. now rewrite A.
        -- rewrite B. simpl. apply map_rsig_upd. apply spres_set_ph.
        -- rewrite W. reflexivity.
        -- rewrite L. simpl. rewrite <- app_assoc. reflexivity.
        -- constructor; [now left|]. eapply Forall_impl; [|exact F]. intros a Ha. now right.
        -- intros SS. apply StronglySorted_inv in SS. destruct SS as [SS FF].
           constructor; [auto|]. apply Forall_forall. intros a Ha.
           rewrite Forall_forall in F, FF. auto.
        -- intros a [Ha|Ha]; [subst; exact Pk|].
           destruct (K a Ha) as [r [Fr Pr]]. simpl in Fr.
           destruct (Z.eq_dec (eid a) (eid e)) as [E|E].
           ++ rewrite E in *. rewrite find_upd_same in Fr by apply fpres_set_ph.
              destruct Pk as [r0 [F0 P0]]. rewrite F0 in Fr. simpl in Fr.
              inversion Fr; subst r. simpl in Pr. discriminate.
           ++ rewrite find_upd_other in Fr by (auto using fpres_set_ph). eauto.
        -- intros id H. apply R. unfold release. now apply phase_of_Released_upd.
        -- intros ND a [Ha|Ha].
           ++ subst a. apply R. unfold phase_of, release. simpl.
              rewrite find_upd_same by apply fpres_set_ph.
              destruct Pk as [r0 [F0 _]]. rewrite F0. reflexivity.
           ++ apply N; [|exact Ha]. simpl. rewrite map_rid_upd by apply fpres_set_ph. exact ND.
      * destruct (IH _ _ _ D) as (A & B & W & L & F & S & K & R & N). clear IH.
        splits; auto.
        -- destruct A as [pre A]. exists (e :: pre). simpl. now rewrite A.
        -- eapply Forall_impl; [|exact F]. intros a Ha. now right.
        -- intros SS. apply StronglySorted_inv in SS. tauto.
    + inversion D; subst. simpl. splits; auto;
        try (exists []; reflexivity); try (now constructor); try (intros; now constructor);
        try (intros; simpl in *; contradiction).
Qed.

Lemma NoDup_snoc : forall (l : list Z) x, NoDup l -> ~ In x l -> NoDup (l ++ [x]).
Proof.
  induction l as [|y t IH]; simpl; intros x N NI.
  - constructor; [tauto|constructor].
  - inversion N; subst. constructor.
    + intro I. apply in_app_or in I. destruct I as [I|[I|[]]]; [tauto|]. subst. tauto.
    + apply IH; [assumption|tauto].
Qed.

Lemma HA_enq : forall c s id p t l now,
  find id (reqs s) = None -> HA s -> HA (enq_locked c s id p t l now).
Proof.
  intros c s id p t l now Fd [S K N].
  assert (ND : forall r0, rid r0 = id -> NoDup (map rid (reqs s ++ [r0]))).
  { intros r0 E. rewrite map_app. simpl. apply NoDup_snoc; [exact N|].
    rewrite E. now apply find_None. }
  assert (KK : forall r0 e, In e (heap s) ->
            exists r, find (eid e) (reqs s ++ [r0]) = Some r /\ ekey e = rkey r).
  { intros r0 e I. destruct (K e I) as [r [A B]]. exists r. rewrite find_app, A. auto. }
  unfold enq_locked. set (s1 := roll c s now).
  assert (R1 : reqs s1 = reqs s) by apply roll_reqs.
  assert (H1 : heap s1 = heap s) by apply roll_heap.
  destruct (counter s1 <? quota c); [|destruct (qsize c <=? qcount (reqs s1))];
    constructor; simpl; rewrite ?R1, ?H1; auto.
  - apply insert_sorted; auto.
  - intros e I. apply In_insert in I. destruct I as [I|I]; [|auto].
    subst e. eexists. unfold eid. simpl snd. rewrite find_app, Fd. simpl. rewrite Z.eqb_refl.
    split; reflexivity.
Qed.

Lemma HA_upd : forall s id f, spres f -> HA s -> HA (set_reqs (upd id f (reqs s)) s).
Proof.
  intros s id f F [S K N]. constructor; simpl; auto.
  - intros e I. destruct (K e I) as [r [A B]].
    destruct (find_same_sig (eid e) (reqs s) (upd id f (reqs s)) r) as [r' [A' B']]; auto.
    + apply map_rsig_upd; auto.
    + exists r'. split; [exact A'|]. rewrite B. unfold rsig in B'. unfold rkey. congruence.
  - rewrite map_rid_upd; auto. now apply spres_fpres.
Qed.

Lemma HA_tick : forall c s now, HA s -> HA (fst (tick c s now)).
Proof.
  intros c s now [S K N]. unfold tick. set (s1 := roll c s now).
  assert (R1 : reqs s1 = reqs s) by apply roll_reqs.
  assert (H1 : heap s1 = heap s) by apply roll_heap.
  destruct (drain c now (heap s1) s1) as [s' rel] eqn:D. simpl.
  destruct (drain_all _ _ _ _ _ _ D) as ((pre & A) & B & _ & _ & _ & _ & _ & _ & _).
  rewrite H1 in A. rewrite R1 in B.
  constructor.
  - rewrite A in S. eapply SS_suffix; eauto.
  - intros e I. assert (I' : In e (heap s)) by (rewrite A; apply in_or_app; now right).
    destruct (K e I') as [r [Fr Er]].
    destruct (find_same_sig (eid e) (reqs s) (reqs s') r B Fr) as [r' [A' B']].
    exists r'. split; [exact A'|]. rewrite Er. unfold rsig in B'. unfold rkey. congruence.
  - rewrite map_rid_rsig, B, <- map_rid_rsig. exact N.
Qed.

Lemma HA_exec : forall c s a, HA s -> HA (exec c s a).
Proof.
  intros c s a H. unfold exec, step.
  destruct a as [id p t l now|id now|now|id now|id now].
  - destruct (find id (reqs s)) eqn:Fd; [exact H|]. now apply HA_enq.
  - destruct (find id (reqs s)) as [r|]; [|exact H].
    destruct (phase_eqb (ph r) Unlocked); [|exact H]. apply HA_upd; auto using spres_set_park.
  - now apply HA_tick.
  - destruct (find id (reqs s)) as [r|]; [|exact H].
    destruct (phase_eqb (ph r) Parked && (dl r <=? now)); [|exact H].
    apply HA_upd; auto using spres_set_ph.
  - destruct (find id (reqs s)) as [r|]; [|exact H].
    destruct ((phase_eqb (ph r) Released || phase_eqb (ph r) Expired) && counted r); [|exact H].
    apply HA_upd; auto using spres_set_ret.
Qed.

Lemma HA_run : forall c acts s, HA s -> HA (run c s acts).
Proof.
  intros c acts. induction acts as [|a rest IH]; intros s H; simpl; [exact H|].
  apply IH. now apply HA_exec.
Qed.

(* ------------------------------------------------------------------ *)
(* processQueueItems when every waiter is parked                        *)

Lemma drain_parked : forall c now h s s' rel,
  drain c now h s = (s', rel) ->
  StronglySorted kle h ->
  NoDup (map rid (reqs s)) ->
  (forall e, In e h -> exists r, find (eid e) (reqs s) = Some r /\ ekey e = rkey r) ->
  noU (reqs s) ->
  (forall r, In r (reqs s) -> live r = true -> In (entry_of r) h) ->
  (forall r, In r (reqs s') -> live r = true -> In (entry_of r) (heap s')) /\
  (counter s' < quota c -> heap s' = []) /\
  (forall r, In r (reqs s) -> live r = true -> phase_of s' (rid r) = Some Released ->
     forall e', In e' (heap s') -> key_ltb (ekey e') (rkey r) = false) /\
  noU (reqs s') /\
  (forall e', In e' (heap s') -> In e' h).
Proof.
  intros c now h. induction h as [|e h' IH]; intros s s' rel D SS ND KS NU LV; simpl in D.
  - inversion D; subst. simpl. splits; auto;
      try (intros r I L; destruct (LV r I L)).
  - assert (Contra : forall r sx, In r (reqs s) -> live r = true ->
              reqs sx = reqs s -> phase_of sx (rid r) = Some Released -> False).
    { intros r sx I L E P. unfold phase_of in P. rewrite E, (In_find _ _ ND I) in P.
      unfold live in L. destruct (ph r); inversion P; discriminate. }
    destruct (counter s <? quota c) eqn:CQ.
    + apply StronglySorted_inv in SS. destruct SS as [SS FF]. rewrite Forall_forall in FF.
      destruct (is_parked s (eid e)) eqn:P.
      * destruct (drain c now h' (release s (eid e) now)) as [s2 rel2] eqn:D2.
        inversion D; subst s2 rel. clear D.
        assert (Pk : exists r, find (eid e) (reqs s) = Some r /\ ph r = Parked).
        { unfold is_parked in P. destruct (find (eid e) (reqs s)) as [r|]; [|discriminate].
          exists r. split; [reflexivity|]. now apply phase_eqb_eq. }
        destruct Pk as [r0 [F0 P0]].
        assert (ND1 : NoDup (map rid (reqs (release s (eid e) now)))).
        { simpl. rewrite map_rid_upd by apply fpres_set_ph. exact ND. }
        assert (KS1 : forall a, In a h' -> exists r,
                  find (eid a) (reqs (release s (eid e) now)) = Some r /\ ekey a = rkey r).
        { intros a Ha. destruct (KS a (or_intror Ha)) as [r [Fr Er]]. simpl.
          destruct (Z.eq_dec (eid a) (eid e)) as [E|E].
          - rewrite E in *. rewrite find_upd_same by apply fpres_set_ph. rewrite Fr. simpl.
            eexists. split; [reflexivity|]. exact Er.
          - rewrite find_upd_other by (auto using fpres_set_ph). eauto. }
        assert (NU1 : noU (reqs (release s (eid e) now))).
        { intros r I. simpl in I. apply In_upd_weak in I.
          destruct I as [I|[r1 [_ E]]]; [auto|subst; discriminate]. }
        assert (LV1 : forall r, In r (reqs (release s (eid e) now)) -> live r = true ->
                  In (entry_of r) h').
        { intros r I L. simpl in I. apply In_upd in I; [|exact ND].
          destruct I as [[I NE]|[r1 [_ E]]]; [|subst; discriminate].
          destruct (LV r I L) as [Q|Q]; [|exact Q].
          exfalso. apply NE. rewrite Q. reflexivity. }
        destruct (IH _ _ _ D2 SS ND1 KS1 NU1 LV1) as (C2 & C3 & C4 & C5 & C6). clear IH.
        splits; auto; try (intros e' He'; right; now auto).
        -- intros r I L PR e' He'.
           destruct (Z.eq_dec (rid r) (eid e)) as [E|E].
           ++ assert (r = r0).
              { pose proof (In_find _ _ ND I) as Fr. rewrite E, F0 in Fr. now inversion Fr. }
              subst r0. destruct (KS e (or_introl eq_refl)) as [r1 [F1 E1]].
              rewrite F0 in F1. inversion F1; subst r1. rewrite <- E1.
              apply (FF e'). auto.
           ++ apply C4; auto. simpl. now apply In_upd_other.
      * assert (LV1 : forall r, In r (reqs s) -> live r = true -> In (entry_of r) h').
        { intros r I L. destruct (LV r I L) as [Q|Q]; [|exact Q]. exfalso.
          unfold is_parked in P. rewrite Q in P. unfold eid, entry_of in P. simpl in P.
          rewrite (In_find _ _ ND I) in P. specialize (NU r I).
          unfold live in L. destruct (ph r); simpl in P; congruence. }
        assert (KS1 : forall a, In a h' -> exists r,
                  find (eid a) (reqs s) = Some r /\ ekey a = rkey r).
        { intros a Ha. apply KS. now right. }
        destruct (IH _ _ _ D SS ND KS1 NU LV1) as (C2 & C3 & C4 & C5 & C6). clear IH.
        splits; auto; try (intros e' He'; right; now auto).
    + inversion D; subst. simpl. splits; auto.
      * apply Z.ltb_ge in CQ. intro. lia.
      * intros r I L PR. exfalso. eapply (Contra r); eauto.
Qed.

(* ------------------------------------------------------------------ *)
(* spec-level helpers                                                   *)

Lemma live_in_true : forall s id, live_in s id = true ->
  exists r, find id (reqs s) = Some r /\ live r = true.
Proof.
  unfold live_in. intros s id H. destruct (find id (reqs s)) as [r|]; [eauto|discriminate].
Qed.

Lemma noU_of_okP : forall s now s', okP (s, Tick now, s') = true -> noU (reqs s).
Proof.
  unfold okP, noU. intros s now s' H r I. rewrite forallb_forall in H. specialize (H r I).
  intro E. rewrite E in H. discriminate.
Qed.

(* a processing pass with every waiter parked passes nobody over *)
Lemma tick_no_pass : forall c s now id,
  HA s -> HL s -> noU (reqs s) ->
  passed_over c (s, Tick now, fst (tick c s now)) id = false.
Proof.
  intros c s now id [S K N] L NU.
  destruct (passed_over c (s, Tick now, fst (tick c s now)) id) eqn:PO; [exfalso|reflexivity].
  unfold passed_over in PO. unfold tick in PO. set (s1 := roll c s now) in *.
  assert (R1 : reqs s1 = reqs s) by apply roll_reqs.
  assert (H1 : heap s1 = heap s) by apply roll_heap.
  destruct (drain c now (heap s1) s1) as [s' rel] eqn:D. simpl in PO.
  destruct (drain_all _ _ _ _ _ _ D) as (_ & B & _).
  rewrite R1 in B.
  destruct (drain_parked _ _ _ _ _ _ D) as (C2 & C3 & C4 & C5 & C6);
    rewrite ?R1, ?H1; auto.
  apply andb_prop in PO. destruct PO as [PO Alt].
  apply andb_prop in PO. destruct PO as [PO _].
  apply andb_prop in PO. destruct PO as [Ls Ls'].
  apply live_in_true in Ls. destruct Ls as [r0 [F0 L0]].
  apply live_in_true in Ls'. destruct Ls' as [r' [F' L']].
  pose proof (find_In _ _ _ F') as [I' E'].
  pose proof (C2 r' I' L') as Hin.
  destruct (find_same_sig id (reqs s) (reqs s') r0 B F0) as [r'' [F'' Sg]].
  rewrite F' in F''. inversion F''; subst r''.
  apply orb_prop in Alt. destruct Alt as [Alt|Alt].
  - apply Z.ltb_lt in Alt. rewrite (C3 Alt) in Hin. destruct Hin.
  - apply existsb_exists in Alt. destruct Alt as [r [Ir Hr]].
    apply andb_prop in Hr. destruct Hr as [Rb Kl].
    unfold released_by in Rb. apply andb_prop in Rb. destruct Rb as [Lr Pr].
    assert (PR : phase_of s' (rid r) = Some Released).
    { destruct (phase_of s' (rid r)) as [[]|]; try discriminate. reflexivity. }
    rewrite <- R1 in Ir.
    pose proof (C4 r Ir Lr PR _ Hin) as Q.
    unfold key_of in Kl. rewrite F0 in Kl.
    assert (EK : ekey (entry_of r') = rkey r0).
    { unfold ekey, entry_of, rkey. simpl. unfold rsig in Sg. congruence. }
    rewrite EK in Q. congruence.
Qed.

Lemma HL_enq : forall c s id p t l now,
  HL s -> HL (enq_locked c s id p t l now).
Proof.
  intros c s id p t l now L. unfold HL, enq_locked. set (s1 := roll c s now).
  assert (R1 : reqs s1 = reqs s) by apply roll_reqs.
  assert (H1 : heap s1 = heap s) by apply roll_heap.
  destruct (counter s1 <? quota c); [|destruct (qsize c <=? qcount (reqs s1))];
    simpl; rewrite ?R1, ?H1; intros r I Lv; apply in_app_or in I;
    destruct I as [I|[I|[]]]; try (subst r; discriminate); auto.
  - apply In_insert. right. auto.
  - subst r. apply In_insert. left. reflexivity.
Qed.

Lemma HL_exec : forall c s a,
  HA s -> HL s -> okP (s, a, exec c s a) = true -> HL (exec c s a).
Proof.
  intros c s a H L OK. unfold exec, step in *.
  destruct a as [id p t l now|id now|now|id now|id now].
  - destruct (find id (reqs s)) eqn:Fd; [exact L|]. now apply HL_enq.
  - destruct (find id (reqs s)) as [r|] eqn:Fd; [|exact L].
    destruct (phase_eqb (ph r) Unlocked) eqn:E; [|exact L].
    apply phase_eqb_eq in E. intros r1 I Lv. simpl in *.
    apply In_upd_weak in I. destruct I as [I|[r0 [A B]]]; [auto|].
    rewrite Fd in A. inversion A; subst r0 r1.
    change (entry_of (set_park now r)) with (entry_of r).
    apply L; [apply (find_In _ _ _ Fd)|]. unfold live. now rewrite E.
  - apply noU_of_okP in OK. destruct H as [S K N].
    unfold tick. set (s1 := roll c s now).
    assert (R1 : reqs s1 = reqs s) by apply roll_reqs.
    assert (H1 : heap s1 = heap s) by apply roll_heap.
    destruct (drain c now (heap s1) s1) as [s' rel] eqn:D. simpl.
    destruct (drain_parked _ _ _ _ _ _ D) as (C2 & _); rewrite ?R1, ?H1; auto.
  - destruct (find id (reqs s)) as [r|] eqn:Fd; [|exact L].
    destruct (phase_eqb (ph r) Parked && (dl r <=? now)); [|exact L].
    intros r1 I Lv. simpl in *.
    apply In_upd_weak in I. destruct I as [I|[r0 [A B]]]; [auto|subst; discriminate].
  - destruct (find id (reqs s)) as [r|] eqn:Fd; [|exact L].
    destruct ((phase_eqb (ph r) Released || phase_eqb (ph r) Expired) && counted r) eqn:E; [|exact L].
    intros r1 I Lv. simpl in *.
    apply In_upd_weak in I. destruct I as [I|[r0 [A B]]]; [auto|].
    rewrite Fd in A. inversion A; subst r0 r1. exfalso.
    apply andb_prop in E. destruct E as [E _]. unfold live in Lv. simpl in Lv.
    apply orb_prop in E. destruct E as [E|E]; apply phase_eqb_eq in E; rewrite E in Lv; discriminate.
Qed.

(* KQ is restored by every pass with parked waiters, kept by arrivals on a
   fresh window and by the waiter-side steps *)
Lemma KQ_exec : forall c s a,
  HA s -> HL s -> KQ c s ->
  okP (s, a, exec c s a) = true -> okQ c (s, a, exec c s a) = true ->
  KQ c (exec c s a).
Proof.
  intros c s a H L K OKP OKQ. unfold exec, step in *.
  destruct a as [id p t l now|id now|now|id now|id now].
  - destruct (find id (reqs s)) eqn:Fd; [exact K|].
    simpl in OKQ. apply negb_true_iff in OKQ.
    unfold KQ, enq_locked, roll. rewrite OKQ.
    destruct (counter s <? quota c) eqn:CQ.
    + simpl. intros r I Lv. apply in_app_or in I.
      destruct I as [I|[I|[]]]; [|subst r; discriminate].
      specialize (K r I Lv). apply Z.ltb_lt in CQ. lia.
    + apply Z.ltb_ge in CQ. destruct (qsize c <=? qcount (reqs s)); simpl; intros; lia.
  - destruct (find id (reqs s)) as [r|] eqn:Fd; [|exact K].
    destruct (phase_eqb (ph r) Unlocked) eqn:E; [|exact K].
    apply phase_eqb_eq in E. intros r1 I Lv. simpl in *.
    apply In_upd_weak in I. destruct I as [I|[r0 [A B]]]; [apply (K r1); auto|].
    rewrite Fd in A. inversion A; subst r0.
    apply (K r); [apply (find_In _ _ _ Fd)|]. unfold live. now rewrite E.
  - apply noU_of_okP in OKP. destruct H as [S KS N].
    unfold tick. set (s1 := roll c s now).
    assert (R1 : reqs s1 = reqs s) by apply roll_reqs.
    assert (H1 : heap s1 = heap s) by apply roll_heap.
    destruct (drain c now (heap s1) s1) as [s' rel] eqn:D. simpl.
    destruct (drain_parked _ _ _ _ _ _ D) as (C2 & C3 & _); rewrite ?R1, ?H1; auto.
    intros r I Lv. specialize (C2 r I Lv).
    destruct (Z_lt_le_dec (counter s') (quota c)) as [Q|Q]; [|exact Q].
    rewrite (C3 Q) in C2. destruct C2.
  - destruct (find id (reqs s)) as [r|] eqn:Fd; [|exact K].
    destruct (phase_eqb (ph r) Parked && (dl r <=? now)); [|exact K].
    intros r1 I Lv. simpl in *.
    apply In_upd_weak in I. destruct I as [I|[r0 [A B]]]; [apply (K r1); auto|subst; discriminate].
  - destruct (find id (reqs s)) as [r|] eqn:Fd; [|exact K].
    destruct ((phase_eqb (ph r) Released || phase_eqb (ph r) Expired) && counted r) eqn:E; [|exact K].
    intros r1 I Lv. simpl in *.
    apply In_upd_weak in I. destruct I as [I|[r0 [A B]]]; [apply (K r1); auto|].
    rewrite Fd in A. inversion A; subst r0 r1. exfalso.
    apply andb_prop in E. destruct E as [E _]. unfold live in Lv. simpl in Lv.
    apply orb_prop in E. destruct E as [E|E]; apply phase_eqb_eq in E; rewrite E in Lv; discriminate.
Qed.

(* a new arrival on a fresh window is given a slot only when nobody waits *)
Lemma enq_no_pass : forall c s id p t l now r,
  KQ c s -> okQ c (s, EnqLocked id p t l now, exec c s (EnqLocked id p t l now)) = true ->
  find id (reqs s) = None ->
  phase_of (exec c s (EnqLocked id p t l now)) id = Some Slot ->
  In r (reqs s) -> live r = false.
Proof.
  intros c s id p t l now r K OKQ Fd PS I.
  destruct (live r) eqn:Lv; [exfalso|reflexivity].
  specialize (K r I Lv).
  unfold exec, step in *. rewrite Fd in *. simpl in OKQ. apply negb_true_iff in OKQ.
  unfold phase_of, enq_locked, roll in PS. rewrite OKQ in PS.
  destruct (counter s <? quota c) eqn:CQ; [apply Z.ltb_lt in CQ; lia|].
  destruct (qsize c <=? qcount (reqs s)); simpl in PS;
    rewrite find_app, Fd in PS; simpl in PS; rewrite Z.eqb_refl in PS; discriminate.
Qed.

(* ------------------------------------------------------------------ *)
(* along a trace                                                        *)

Definition GI (c : cfg) (s : st) : Prop := HA s /\ HL s /\ KQ c s.

Lemma GI_init : forall c t0, GI c (init c t0).
Proof.
  intros. split; [apply HA_init|]. split; intros r I; destruct I.
Qed.

Lemma passed_over_false : forall c s a id,
  GI c s -> okP (s, a, exec c s a) = true -> okQ c (s, a, exec c s a) = true ->
  passed_over c (s, a, exec c s a) id = false.
Proof.
  intros c s a id (H & L & K) OKP OKQ.
  destruct a as [id' p t l now|id' now|now|id' now|id' now];
    try (unfold passed_over; now rewrite andb_false_r).
  - destruct (passed_over c (s, EnqLocked id' p t l now, exec c s (EnqLocked id' p t l now)) id)
      eqn:PO; [exfalso|reflexivity].
    unfold passed_over in PO.
    apply andb_prop in PO. destruct PO as [PO Alt].
    apply andb_prop in PO. destruct PO as [PO _].
    apply andb_prop in PO. destruct PO as [Ls _].
    apply live_in_true in Ls. destruct Ls as [r0 [F0 L0]].
    destruct (find id' (reqs s)) eqn:Fd; [discriminate|].
    destruct (phase_of (exec c s (EnqLocked id' p t l now)) id') as [[]|] eqn:PS; try discriminate.
    pose proof (enq_no_pass c s id' p t l now r0 K OKQ Fd PS (proj1 (find_In _ _ _ F0))).
    congruence.
  - change (exec c s (Tick now)) with (fst (tick c s now)).
    apply tick_no_pass; auto. eapply noU_of_okP. exact OKP.
Qed.

Lemma trace_outside : forall c acts s,
  GI c s ->
  Forall (fun tr => okP tr = true /\ okQ c tr = true) (trace c s acts) ->
  Forall (fun tr => forall id, passed_over c tr id = false) (trace c s acts).
Proof.
  intros c acts. induction acts as [|a rest IH]; intros s G F; simpl in *; constructor.
  - inversion F as [|? ? [P Q] F']; subst. intros id. now apply passed_over_false.
  - inversion F as [|? ? [P Q] F']; subst. apply IH; [|exact F'].
    destruct G as (H & L & K). split; [now apply HA_exec|].
    split; [now apply HL_exec|now apply KQ_exec].
Qed.

Lemma strand_false : forall c tr,
  Forall (fun j => forall id, passed_over c j id = false) tr -> strand c tr = false.
Proof.
  intros c tr F. induction F as [|j rest Hj F IH]; simpl; [reflexivity|].
  rewrite IH, orb_false_r.
  destruct (existsb _ (reqs (snd j))) eqn:E; [|reflexivity].
  apply existsb_exists in E. destruct E as [r [_ E]]. rewrite Hj in E. discriminate.
Qed.

(* only with okP: passes never pass anybody over *)
Lemma trace_ticks_outside : forall c acts s,
  HA s -> HL s ->
  Forall (fun tr => okP tr = true) (trace c s acts) ->
  Forall (fun tr => forall id now, snd (fst tr) = Tick now -> passed_over c tr id = false)
         (trace c s acts).
Proof.
  intros c acts. induction acts as [|a rest IH]; intros s H L F; simpl in *; constructor.
  - inversion F as [|? ? P F']; subst. intros id now E. simpl in E. subst a.
    change (exec c s (Tick now)) with (fst (tick c s now)).
    apply tick_no_pass; auto. eapply noU_of_okP. exact P.
  - inversion F as [|? ? P F']; subst. apply IH; [now apply HA_exec|now apply HL_exec|exact F'].
Qed.

(* ------------------------------------------------------------------ *)
(* the design's syntactic side condition implies okP everywhere         *)

Lemma noU_exec_other : forall c s a,
  noU (reqs s) ->
  match a with EnqLocked _ _ _ _ _ => False | _ => True end ->
  noU (reqs (exec c s a)).
Proof.
  intros c s a NU NA. unfold exec, step.
  destruct a as [id p t l now|id now|now|id now|id now]; [destruct NA| | | |].
  - destruct (find id (reqs s)) as [r|] eqn:Fd; [|exact NU].
    destruct (phase_eqb (ph r) Unlocked) eqn:E; [|exact NU].
    apply phase_eqb_eq in E. exfalso. apply (NU r); [apply (find_In _ _ _ Fd)|exact E].
  - unfold tick. set (s1 := roll c s now).
    destruct (drain c now (heap s1) s1) as [s' rel] eqn:D. simpl.
    assert (G : forall h sx sy rl, noU (reqs sx) -> drain c now h sx = (sy, rl) -> noU (reqs sy)).
    { induction h as [|e h' IH]; intros sx sy rl N0 D0; simpl in D0.
      - inversion D0; subst. exact N0.
      - destruct (counter sx <? quota c).
        + destruct (is_parked sx (eid e)).
          * destruct (drain c now h' (release sx (eid e) now)) as [s2 rel2] eqn:D2.
            inversion D0; subst. eapply IH; [|exact D2].
            intros r I. simpl in I. apply In_upd_weak in I.
            destruct I as [I|[r1 [_ E]]]; [auto|subst; discriminate].
          * eauto.
        + inversion D0; subst. exact N0. }
    eapply G; [|exact D]. unfold s1. now rewrite roll_reqs.
  - destruct (find id (reqs s)) as [r|] eqn:Fd; [|exact NU].
    destruct (phase_eqb (ph r) Parked && (dl r <=? now)); [|exact NU].
    intros r1 I. simpl in I. apply In_upd_weak in I.
    destruct I as [I|[r0 [_ E]]]; [auto|subst; discriminate].
  - destruct (find id (reqs s)) as [r|] eqn:Fd; [|exact NU].
    destruct ((phase_eqb (ph r) Released || phase_eqb (ph r) Expired) && counted r); [|exact NU].
    intros r1 I. simpl in I. apply In_upd_weak in I.
    destruct I as [I|[r0 [A E]]]; [auto|]. subst r1. simpl.
    apply (NU r0). apply (find_In _ _ _ A).
Qed.

Lemma noU_enq_park : forall c s id p t l now now',
  noU (reqs s) ->
  noU (reqs (exec c (exec c s (EnqLocked id p t l now)) (Park id now'))).
Proof.
  intros c s id p t l now now' NU.
  unfold exec at 2. unfold step.
  destruct (find id (reqs s)) eqn:Fd.
  - (* id is not new: nothing happens, and Park finds no Unlocked request *)
    apply noU_exec_other; [exact NU|exact I].
  - assert (App : forall r0 : req, ph r0 <> Unlocked -> noU (reqs s ++ [r0])).
    { intros r0 N r I. apply in_app_or in I. destruct I as [I|[I|[]]]; [auto|subst; exact N]. }
    unfold enq_locked. set (s1 := roll c s now).
    assert (R1 : reqs s1 = reqs s) by apply roll_reqs.
    destruct (counter s1 <? quota c); [|destruct (qsize c <=? qcount (reqs s1))].
    + apply noU_exec_other; [|exact I]. simpl. rewrite R1. apply App. discriminate.
    + apply noU_exec_other; [|exact I]. simpl. rewrite R1. apply App. discriminate.
    + unfold exec, step. simpl. rewrite R1, find_app, Fd. simpl. rewrite Z.eqb_refl. simpl.
      rewrite upd_app_fresh by auto. apply App. discriminate.
Qed.

Lemma parks_immediately_okP : forall c n acts s,
  (length acts <= n)%nat -> noU (reqs s) -> parks_immediately acts = true ->
  Forall (fun tr => okP tr = true) (trace c s acts).
Proof.
  intros c n. induction n as [|n IH]; intros acts s Len NU PI.
  - destruct acts; [constructor|simpl in Len; lia].
  - destruct acts as [|a rest]; [constructor|]. simpl in Len.
    destruct a as [id p t l now|id now|now|id now|id now].
    + simpl in PI. destruct rest as [|b rest']; [discriminate|].
      destruct b as [| id' now' | | |]; try discriminate.
      apply andb_prop in PI. destruct PI as [E PI]. apply Z.eqb_eq in E. subst id'.
      simpl. constructor; [reflexivity|]. constructor; [reflexivity|].
      apply IH; [simpl in Len; lia| |exact PI]. apply noU_enq_park. exact NU.
    + simpl in PI. discriminate.
    + simpl. constructor.
      * simpl. apply forallb_forall. intros r I. specialize (NU r I).
        destruct (ph r); simpl; congruence.
      * apply IH; [lia| |exact PI]. apply noU_exec_other; [exact NU|exact I].
    + simpl. constructor; [reflexivity|].
      apply IH; [lia| |exact PI]. apply noU_exec_other; [exact NU|exact I].
    + simpl. constructor; [reflexivity|].
      apply IH; [lia| |exact PI]. apply noU_exec_other; [exact NU|exact I].
Qed.

(* ------------------------------------------------------------------ *)
(* more facts along a trace                                             *)

Lemma trace_reject_ok : forall c acts s,
  Forall (fun tr => reject_ok c tr = true) (trace c s acts).
Proof.
  intros c acts. induction acts as [|a rest IH]; intros s; simpl; constructor; auto.
  apply reject_ok_exec.
Qed.

Lemma trace_GI : forall c acts s,
  GI c s ->
  Forall (fun tr => okP tr = true /\ okQ c tr = true) (trace c s acts) ->
  Forall (fun tr => GI c (fst (fst tr))) (trace c s acts).
Proof.
  intros c acts. induction acts as [|a rest IH]; intros s G F; simpl in *; constructor.
  - exact G.
  - inversion F as [|? ? [P Q] F']; subst. apply IH; [|exact F'].
    destruct G as (H & L & K). split; [now apply HA_exec|].
    split; [now apply HL_exec|now apply KQ_exec].
Qed.

(* under both side conditions a new arrival is served at once only when
   nobody waits *)
Lemma trace_no_barging : forall c acts s0,
  GI c s0 ->
  Forall (fun tr => okP tr = true /\ okQ c tr = true) (trace c s0 acts) ->
  forall s id p t l now s' r,
  In (s, EnqLocked id p t l now, s') (trace c s0 acts) ->
  find id (reqs s) = None -> phase_of s' id = Some Slot ->
  In r (reqs s) -> live r = false.
Proof.
  intros c acts s0 G F s id p t l now s' r I Fd PS Ir.
  pose proof (trace_GI c acts s0 G F) as TG.
  rewrite Forall_forall in TG, F.
  destruct (TG _ I) as (_ & _ & K). destruct (F _ I) as [_ Q].
  pose proof (trace_step _ _ _ _ I) as E. simpl in E, K. subst s'.
  eapply enq_no_pass; eauto.
Qed.

(* what one pass releases, in all states reachable or not *)
Lemma tick_order : forall c s now,
  HA s ->
  let s' := fst (tick c s now) in
  let rel := snd (tick c s now) in
  log s' = rev (map (fun e => (eid e, wend s', now)) rel) ++ log s /\
  StronglySorted kle rel /\
  (forall e, In e rel ->
     exists r, find (eid e) (reqs s) = Some r /\ ph r = Parked /\ ekey e = rkey r /\
               phase_of s' (eid e) = Some Released).
Proof.
  intros c s now [S K N]. unfold tick. set (s1 := roll c s now).
  assert (R1 : reqs s1 = reqs s) by apply roll_reqs.
  assert (H1 : heap s1 = heap s) by apply roll_heap.
  assert (L1 : log s1 = log s) by apply roll_log.
  destruct (drain c now (heap s1) s1) as [s' rel] eqn:D. simpl.
  destruct (drain_all _ _ _ _ _ _ D) as (_ & _ & Wd & Lg & Fi & So & Pk & _ & Rl).
  rewrite H1 in *. rewrite R1 in *. splits.
  - rewrite Lg, L1, Wd. reflexivity.
  - auto.
  - intros e I. destruct (Pk e I) as [r [Fr Pr]]. exists r. splits; auto.
    rewrite Forall_forall in Fi. destruct (K e (Fi e I)) as [r2 [F2 E2]].
    rewrite Fr in F2. inversion F2; subst r2. exact E2.
Qed.
