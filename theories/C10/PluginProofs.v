(* C10 — lemmas about the plugin layer (Plugin.v). *)
From Coq Require Import List ZArith Bool Lia.
From Verif Require Import C10.Model C10.Proofs C10.Proofs2 C10.Proofs3 C10.Plugin.
Import ListNotations.
Open Scope Z_scope.

Section WithTtl.
(* everything below holds for either TTL conversion *)
Variable tv : ttl_variant.
Local Notation kstep := (Plugin.kstep tv).
Local Notation kexec := (Plugin.kexec tv).
Local Notation krun := (Plugin.krun tv).
Local Notation pstep := (Plugin.pstep tv).
Local Notation pexec := (Plugin.pexec tv).
Local Notation prun := (Plugin.prun tv).

(* ------------------------------------------------------------------ *)
(* specification vocabulary                                            *)

(* grants of all queues of a key counted in the window that ends at w *)
Fixpoint kgrants (w : Z) (l : list st) : Z :=
  match l with
  | [] => 0
  | s :: t => count_win w (log s) + kgrants w t
  end.

(* grants of all queues of a key by the instant at which they were given:
   aligned window ending at w *)
Fixpoint kgrants_at (c : cfg) (w : Z) (l : list st) : Z :=
  match l with
  | [] => 0
  | s :: t => count_at c w (log s) + kgrants_at c w t
  end.

Definition kact_now (a : kaction) : Z :=
  match a with
  | KLookup _ now | KStore _ now | KEnq _ _ _ _ now | KR _ _ now | KTick _ now => now
  end.

Fixpoint kmonotone (t : Z) (acts : list kaction) : bool :=
  match acts with
  | [] => true
  | a :: rest => (t <=? kact_now a) && kmonotone (kact_now a) rest
  end.

(* ------------------------------------------------------------------ *)
(* keys and the map                                                    *)

Lemma qkey_eqb_eq : forall a b, qkey_eqb a b = true <-> a = b.
Proof.
  intros [[n1 q1] w1] [[n2 q2] w2]. unfold qkey_eqb. split.
  - intro H. apply andb_prop in H. destruct H as [H H3]. apply andb_prop in H. destruct H as [H1 H2].
    apply Z.eqb_eq in H1, H2, H3. subst. reflexivity.
  - intro H. inversion H; subst. rewrite !Z.eqb_refl. reflexivity.
Qed.

Lemma qkey_eqb_refl : forall a, qkey_eqb a a = true.
Proof. intro a. now apply qkey_eqb_eq. Qed.

Lemma kget_kset_same : forall k ks l, kget k (kset k ks l) = ks.
Proof.
  intros k ks l. induction l as [|[k' ks'] t IH]; simpl.
  - now rewrite qkey_eqb_refl.
  - destruct (qkey_eqb k' k) eqn:E; simpl; rewrite E; auto.
Qed.

Lemma kget_kset_other : forall k1 k2 ks l,
  qkey_eqb k1 k2 = false -> kget k2 (kset k1 ks l) = kget k2 l.
Proof.
  intros k1 k2 ks l N. induction l as [|[k' ks'] t IH]; simpl.
  - now rewrite N.
  - destruct (qkey_eqb k' k1) eqn:E; simpl.
    + apply qkey_eqb_eq in E. subst k'. now rewrite N.
    + destruct (qkey_eqb k' k2); auto.
Qed.

(* ------------------------------------------------------------------ *)
(* frame: the state of a key is a function of the actions of that key  *)

Lemma pget_pexec_same : forall v s k a,
  pget k (pexec v s (PK k a)) = kexec v k (pget k s) a.
Proof.
  intros v s k a. unfold Plugin.pexec, Plugin.kexec. simpl.
  destruct (kstep v k (pget k s) a) as [ks'|]; [|reflexivity].
  unfold pget. simpl. apply kget_kset_same.
Qed.

Lemma pget_pexec_other : forall v s k k' a,
  qkey_eqb k' k = false -> pget k (pexec v s (PK k' a)) = pget k s.
Proof.
  intros v s k k' a N. unfold Plugin.pexec. simpl.
  destruct (kstep v k' (pget k' s) a) as [ks'|]; [|reflexivity].
  unfold pget. simpl. now apply kget_kset_other.
Qed.

Lemma pget_pexec_noconf : forall v s k rid now,
  pget k (pexec v s (PNoConfig rid now)) = pget k s.
Proof. reflexivity. Qed.

Lemma pget_prun : forall v acts s k,
  pget k (prun v s acts) = krun v k (pget k s) (proj k acts).
Proof.
  intros v acts. induction acts as [|a rest IH]; intros s k; simpl; [reflexivity|].
  unfold Plugin.prun in *. simpl. rewrite IH. destruct a as [k' a|rid now].
  - destruct (qkey_eqb k' k) eqn:E.
    + apply qkey_eqb_eq in E. subst k'. simpl. now rewrite pget_pexec_same.
    + now rewrite pget_pexec_other.
  - reflexivity.
Qed.

Lemma pget_pinit : forall k, pget k pinit = kinit.
Proof. reflexivity. Qed.

(* an invariant of every step of a key holds after every schedule *)
Lemma krun_inv : forall (P : kst -> Prop) v k,
  (forall ks a ks', P ks -> kstep v k ks a = Some ks' -> P ks') ->
  forall acts ks, P ks -> P (krun v k ks acts).
Proof.
  intros P v k Step acts. induction acts as [|a rest IH]; intros ks H; simpl; [exact H|].
  apply IH. unfold Plugin.kexec. destruct (kstep v k ks a) eqn:E; [eapply Step; eauto|exact H].
Qed.

(* ------------------------------------------------------------------ *)
(* lists of instances                                                  *)

Lemma length_set_nth : forall n x l, length (set_nth n x l) = length l.
Proof.
  induction n as [|n IH]; intros x [|y t]; simpl; auto.
Qed.

Lemma Forall_set_nth : forall (P : st -> Prop) n x l,
  Forall P l -> P x -> Forall P (set_nth n x l).
Proof.
  intros P n. induction n as [|n IH]; intros x [|y t] F Px; simpl; auto;
    inversion F; subst; constructor; auto.
Qed.

Lemma nth_error_Forall : forall (P : st -> Prop) l n x,
  Forall P l -> nth_error l n = Some x -> P x.
Proof.
  intros P l n x F H. rewrite Forall_forall in F. apply F. eapply nth_error_In; eauto.
Qed.

Lemma Forall_snoc : forall (P : st -> Prop) l x, Forall P l -> P x -> Forall P (l ++ [x]).
Proof.
  intros P l x F Px. apply Forall_app. split; [exact F|constructor; auto].
Qed.

Lemma step_exec : forall c s a s', step c s a = Some s' -> exec c s a = s'.
Proof. intros c s a s' H. unfold exec. now rewrite H. Qed.

(* a step that changes one instance by a queue step (or adds a fresh queue)
   keeps every instance-wise invariant that queue steps and init keep *)
Lemma kstep_insts : forall (P : st -> Prop) v k,
  (forall now, P (new_inst k now)) ->
  (forall qs s a s', P s -> step (ccfg k qs) s a = Some s' -> P s') ->
  forall ks a ks', Forall P (insts ks) -> kstep v k ks a = Some ks' -> Forall P (insts ks').
Proof.
  intros P v k Pinit Pstep ks a ks' F H.
  destruct a as [rid now|rid now|rid p hdrs t now|rid ra now|h now]; cbn [Plugin.kstep] in H.
  - destruct (pfind rid (preqs ks)); [discriminate|].
    destruct (cur ks).
    + inversion H; subst; exact F.
    + destruct v; inversion H; subst; simpl; [apply Forall_snoc; auto|exact F].
  - destruct v; [discriminate|]. destruct (pfind rid (preqs ks)) as [q|]; [|discriminate].
    destruct (q_inst q); [discriminate|]. inversion H; subst; simpl. apply Forall_snoc; auto.
  - destruct (pfind rid (preqs ks)) as [q|]; [|discriminate].
    destruct (q_inst q) as [h|]; [|discriminate]. destruct (q_status q); [discriminate|].
    destruct (nth_error (insts ks) h) as [s|] eqn:N; [|discriminate].
    destruct (step _ s _) as [s'|] eqn:S; [|discriminate].
    inversion H; subst; simpl. apply Forall_set_nth; [exact F|].
    eapply Pstep; [eapply nth_error_Forall; eauto|exact S].
  - destruct (pfind rid (preqs ks)) as [q|]; [|discriminate].
    destruct (q_inst q) as [h|]; [|discriminate]. destruct (q_status q); [|discriminate].
    destruct (nth_error (insts ks) h) as [s|] eqn:N; [|discriminate].
    destruct (step _ s _) as [s'|] eqn:S; [|discriminate].
    inversion H; subst; simpl. apply Forall_set_nth; [exact F|].
    eapply Pstep; [eapply nth_error_Forall; eauto|exact S].
  - destruct (nth_error (insts ks) h) as [s|] eqn:N; [|discriminate].
    destruct (step _ s _) as [s'|] eqn:S; [|discriminate].
    inversion H; subst; simpl. apply Forall_set_nth; [exact F|].
    eapply Pstep; [eapply nth_error_Forall; eauto|exact S].
Qed.

(* ------------------------------------------------------------------ *)
(* release bound per queue instance (any variant)                      *)

Lemma RB_cfg : forall c c' s, quota c = quota c' -> RB c s -> RB c' s.
Proof. intros c c' s E [A B C D F]. constructor; auto; rewrite <- E; auto. Qed.

Lemma RB_insts : forall v k acts,
  Forall (RB (ccfg k 0)) (insts (krun v k kinit acts)).
Proof.
  intros v k acts.
  apply (krun_inv (fun ks => Forall (RB (ccfg k 0)) (insts ks)) v k); [|constructor].
  intros ks a ks' F H. eapply kstep_insts; eauto.
  - intro now. apply RB_init.
  - intros qs s a0 s' R S. apply (RB_cfg (ccfg k qs)); [reflexivity|].
    rewrite <- (step_exec _ _ _ _ S). apply RB_exec. apply (RB_cfg (ccfg k 0)); [reflexivity|exact R].
Qed.

(* ------------------------------------------------------------------ *)
(* at most one queue per key (HEAD)                                    *)

Definition ONE (ks : kst) : Prop :=
  (cur ks = None /\ insts ks = []) \/ (cur ks = Some 0%nat /\ length (insts ks) = 1%nat).

Lemma ONE_kstep : forall k ks a ks',
  ONE ks -> kstep Atomic k ks a = Some ks' -> ONE ks'.
Proof.
  intros k ks a ks' O H. unfold ONE in *.
  destruct a as [rid now|rid now|rid p hdrs t now|rid ra now|h now]; cbn [Plugin.kstep] in H.
  - destruct (pfind rid (preqs ks)); [discriminate|].
    destruct (cur ks) eqn:C.
    + inversion H; subst; simpl. destruct O as [[O1 O2]|[O1 O2]]; [congruence|]. right. split; congruence.
    + inversion H; subst; simpl. destruct O as [[O1 O2]|[O1 O2]]; [|congruence].
      right. rewrite O2. simpl. auto.
  - discriminate.
  - destruct (pfind rid (preqs ks)) as [q|]; [|discriminate].
    destruct (q_inst q) as [h|]; [|discriminate]. destruct (q_status q); [discriminate|].
    destruct (nth_error (insts ks) h) as [s|] eqn:N; [|discriminate].
    destruct (step _ s _) as [s'|] eqn:S; [|discriminate].
    inversion H; subst; simpl. destruct O as [[O1 O2]|[O1 O2]].
    + rewrite O2 in N. destruct h; discriminate.
    + right. simpl. rewrite length_set_nth. auto.
  - destruct (pfind rid (preqs ks)) as [q|]; [|discriminate].
    destruct (q_inst q) as [h|]; [|discriminate]. destruct (q_status q); [|discriminate].
    destruct (nth_error (insts ks) h) as [s|] eqn:N; [|discriminate].
    destruct (step _ s _) as [s'|] eqn:S; [|discriminate].
    inversion H; subst; simpl. destruct O as [[O1 O2]|[O1 O2]].
    + rewrite O2 in N. destruct h; discriminate.
    + right. simpl. rewrite length_set_nth. auto.
  - destruct (nth_error (insts ks) h) as [s|] eqn:N; [|discriminate].
    destruct (step _ s _) as [s'|] eqn:S; [|discriminate].
    inversion H; subst; simpl. destruct O as [[O1 O2]|[O1 O2]].
    + rewrite O2 in N. destruct h; discriminate.
    + right. simpl. rewrite length_set_nth. auto.
Qed.

Lemma ONE_krun : forall k acts, ONE (krun Atomic k kinit acts).
Proof.
  intros k acts. apply (krun_inv ONE Atomic k); [|left; auto].
  intros ks a ks' O H. eapply ONE_kstep; eauto.
Qed.

Lemma ONE_length : forall ks, ONE ks -> (length (insts ks) <= 1)%nat.
Proof. intros ks [[_ E]|[_ E]]; rewrite E; simpl; lia. Qed.

(* every request that finished its lookup holds the queue stored under the key *)
Definition BOUND (ks : kst) : Prop :=
  forall q, In q (preqs ks) -> q_inst q = cur ks /\ cur ks <> None.

Lemma pfind_In : forall id l q, pfind id l = Some q -> In q l.
Proof.
  induction l as [|x t IH]; simpl; intros q H; [discriminate|].
  destruct (q_rid x =? id); [inversion H; auto|right; auto].
Qed.

Lemma In_pupd : forall id f l q, In q (pupd id f l) ->
  In q l \/ exists q0, In q0 l /\ q_rid q0 = id /\ q = f q0.
Proof.
  induction l as [|x t IH]; simpl; intros q H; [tauto|].
  destruct (q_rid x =? id) eqn:E; cbn [Plugin.kstep] in H.
  - apply Z.eqb_eq in E. destruct H as [H|H]; [right; exists x; auto|left; auto].
  - destruct H as [H|H]; [left; auto|].
    destruct (IH _ H) as [G|[q0 [G1 [G2 G3]]]]; [left; auto|right; exists q0; auto].
Qed.

Lemma BOUND_kstep : forall k ks a ks',
  BOUND ks -> kstep Atomic k ks a = Some ks' -> BOUND ks'.
Proof.
  intros k ks a ks' B H.
  destruct a as [rid now|rid now|rid p hdrs t now|rid ra now|h now]; cbn [Plugin.kstep] in H.
  - destruct (pfind rid (preqs ks)); [discriminate|].
    destruct (cur ks) eqn:C; inversion H; subst; simpl; intros q I; apply in_app_or in I;
      destruct I as [I|[I|[]]].
    + rewrite <- C. destruct (B q I). rewrite C in *. auto.
    + subst q. simpl. split; congruence.
    + destruct (B q I) as [_ N]. congruence.
    + subst q. simpl. split; congruence.
  - discriminate.
  - destruct (pfind rid (preqs ks)) as [q|]; [|discriminate].
    destruct (q_inst q) as [h|]; [|discriminate]. destruct (q_status q); [discriminate|].
    destruct (nth_error (insts ks) h) as [s|]; [|discriminate].
    destruct (step _ s _) as [s'|]; [|discriminate].
    inversion H; subst; simpl. intros q1 I. apply In_pupd in I.
    destruct I as [I|[q0 [I [_ E]]]]; [now apply B|]. subst q1. simpl. now apply B.
  - destruct (pfind rid (preqs ks)) as [q|]; [|discriminate].
    destruct (q_inst q) as [h|]; [|discriminate]. destruct (q_status q); [|discriminate].
    destruct (nth_error (insts ks) h) as [s|]; [|discriminate].
    destruct (step _ s _) as [s'|]; [|discriminate].
    inversion H; subst; simpl. exact B.
  - destruct (nth_error (insts ks) h) as [s|]; [|discriminate].
    destruct (step _ s _) as [s'|]; [|discriminate].
    inversion H; subst; simpl. exact B.
Qed.

Lemma BOUND_krun : forall k acts, BOUND (krun Atomic k kinit acts).
Proof.
  intros k acts. apply (krun_inv BOUND Atomic k); [|intros q []].
  intros ks a ks' B H. eapply BOUND_kstep; eauto.
Qed.

Lemma kgrants_le : forall q w l,
  Forall (fun s => count_win w (log s) <= Z.max 0 q) l -> (length l <= 1)%nat ->
  kgrants w l <= Z.max 0 q.
Proof.
  intros q w [|s [|s2 t]] F L; simpl in *; try lia.
  inversion F; subst. lia.
Qed.

Lemma release_bound_atomic : forall k acts w,
  kgrants w (insts (krun Atomic k kinit acts)) <= Z.max 0 (kquota k).
Proof.
  intros k acts w. apply kgrants_le.
  - pose proof (RB_insts Atomic k acts) as F. rewrite Forall_forall in *. intros s I.
    apply (rb_all _ _ (F s I)).
  - apply ONE_length. apply ONE_krun.
Qed.

(* ------------------------------------------------------------------ *)
(* grants by instant (monotone clock)                                  *)

Definition ATL (c : cfg) (s : st) : Prop := Forall (fun g => gwin g = uend c (gat g)) (log s).

Lemma AT_cfg : forall c c' s tl, wsize c = wsize c' -> AT c s tl -> AT c' s tl.
Proof.
  intros c c' s tl E [A L R D]. unfold uend in *. constructor; auto; unfold uend; rewrite <- E; auto.
Qed.

Lemma AT_later : forall c s tl tl', 0 < wsize c -> tl <= tl' -> AT c s tl -> AT c s tl'.
Proof.
  intros c s tl tl' W Le [A L R D]. constructor; auto.
  - pose proof (uend_mono c tl tl' W Le). lia.
  - intros r I. specialize (R r I). lia.
Qed.

Lemma kstep_AT : forall v k ks a ks' tl,
  0 < kwsize k -> tl <= kact_now a ->
  Forall (fun s => AT (ccfg k 0) s tl) (insts ks) -> kstep v k ks a = Some ks' ->
  Forall (fun s => AT (ccfg k 0) s (kact_now a)) (insts ks').
Proof.
  intros v k ks a ks' tl W Le F H.
  assert (F' : Forall (fun s => AT (ccfg k 0) s (kact_now a)) (insts ks)).
  { rewrite Forall_forall in *. intros s I. apply (AT_later _ _ tl); auto. }
  assert (St : forall qs s a0 s', act_now a0 = kact_now a ->
             AT (ccfg k 0) s tl -> step (ccfg k qs) s a0 = Some s' -> AT (ccfg k 0) s' (kact_now a)).
  { intros qs s a0 s' E A S. rewrite <- E. apply (AT_cfg (ccfg k qs)); [reflexivity|].
    rewrite <- (step_exec _ _ _ _ S). apply (AT_exec _ _ tl); [exact W| |rewrite E; exact Le].
    apply (AT_cfg (ccfg k 0)); [reflexivity|exact A]. }
  destruct a as [rid now|rid now|rid p hdrs t now|rid ra now|h now]; cbn [Plugin.kstep] in H; simpl kact_now in *.
  - destruct (pfind rid (preqs ks)); [discriminate|].
    destruct (cur ks).
    + inversion H; subst; exact F'.
    + destruct v; inversion H; subst; simpl; [apply Forall_app; split; [exact F'|]|exact F'].
      constructor; [apply AT_init|constructor].
  - destruct v; [discriminate|]. destruct (pfind rid (preqs ks)) as [q|]; [|discriminate].
    destruct (q_inst q); [discriminate|]. inversion H; subst; simpl.
    apply Forall_app; split; [exact F'|]. constructor; [apply AT_init|constructor].
  - destruct (pfind rid (preqs ks)) as [q|]; [|discriminate].
    destruct (q_inst q) as [h|]; [|discriminate]. destruct (q_status q); [discriminate|].
    destruct (nth_error (insts ks) h) as [s|] eqn:N; [|discriminate].
    destruct (step _ s _) as [s'|] eqn:S; [|discriminate].
    inversion H; subst; simpl.
    apply (Forall_set_nth (fun s => AT (ccfg k 0) s now)); [exact F'|].
    apply (fun e a => St _ s _ s' e a S); [reflexivity|].
    apply (nth_error_Forall (fun s => AT (ccfg k 0) s tl) _ _ _ F N).
  - destruct (pfind rid (preqs ks)) as [q|]; [|discriminate].
    destruct (q_inst q) as [h|]; [|discriminate]. destruct (q_status q); [|discriminate].
    destruct (nth_error (insts ks) h) as [s|] eqn:N; [|discriminate].
    destruct (step _ s _) as [s'|] eqn:S; [|discriminate].
    inversion H; subst; simpl.
    apply (Forall_set_nth (fun s => AT (ccfg k 0) s now)); [exact F'|].
    apply (fun e a => St _ s _ s' e a S); [destruct ra; reflexivity|].
    apply (nth_error_Forall (fun s => AT (ccfg k 0) s tl) _ _ _ F N).
  - destruct (nth_error (insts ks) h) as [s|] eqn:N; [|discriminate].
    destruct (step _ s _) as [s'|] eqn:S; [|discriminate].
    inversion H; subst; simpl.
    apply (Forall_set_nth (fun s => AT (ccfg k 0) s now)); [exact F'|].
    apply (fun e a => St _ s _ s' e a S); [reflexivity|].
    apply (nth_error_Forall (fun s => AT (ccfg k 0) s tl) _ _ _ F N).
Qed.

Lemma krun_AT : forall v k acts ks tl,
  0 < kwsize k -> kmonotone tl acts = true ->
  Forall (fun s => AT (ccfg k 0) s tl) (insts ks) ->
  exists tl', Forall (fun s => AT (ccfg k 0) s tl') (insts (krun v k ks acts)).
Proof.
  intros v k acts. induction acts as [|a rest IH]; intros ks tl W M F; simpl in *.
  - eauto.
  - apply andb_prop in M. destruct M as [M1 M2]. apply Z.leb_le in M1.
    unfold Plugin.kexec. destruct (kstep v k ks a) as [ks'|] eqn:E.
    + eapply IH; eauto. eapply kstep_AT; eauto.
    + eapply (IH ks (kact_now a)); eauto.
      rewrite Forall_forall in *. intros s I. apply (AT_later _ _ tl); auto.
Qed.

Lemma proj_monotone : forall k acts t, pmonotone t acts = true -> kmonotone t (proj k acts) = true.
Proof.
  intros k acts. induction acts as [|a rest IH]; intros t M; simpl in *; [reflexivity|].
  apply andb_prop in M. destruct M as [M1 M2]. apply Z.leb_le in M1.
  assert (Skip : kmonotone t (proj k rest) = true).
  { apply IH. clear IH. revert M1 M2. generalize (pact_now a). intros u M1 M2.
    destruct rest as [|b r]; simpl in *; [reflexivity|].
    apply andb_prop in M2. destruct M2 as [M3 M4]. apply Z.leb_le in M3.
    apply andb_true_intro. split; [apply Z.leb_le; lia|exact M4]. }
  destruct a as [k' a|rid now]; [|exact Skip].
  destruct (qkey_eqb k' k); [|exact Skip].
  simpl. apply andb_true_intro. split.
  - apply Z.leb_le. destruct a; exact M1.
  - replace (kact_now a) with (pact_now (PK k' a)) by (destruct a; reflexivity). now apply IH.
Qed.

Lemma kgrants_at_win : forall c w l,
  Forall (fun s => Forall (fun g => gwin g = uend c (gat g)) (log s)) l ->
  kgrants_at c w l = kgrants w l.
Proof.
  intros c w l F. induction F as [|s t A F IH]; simpl; [reflexivity|].
  rewrite IH. now rewrite (count_at_win c w (log s) A).
Qed.

(* ------------------------------------------------------------------ *)
(* verdict mapping                                                     *)

Lemma pfind_app : forall id l q0,
  pfind id (l ++ [q0]) =
  match pfind id l with
  | Some q => Some q
  | None => if q_rid q0 =? id then Some q0 else None
  end.
Proof.
  induction l as [|x t IH]; simpl; intros q0; [reflexivity|].
  destruct (q_rid x =? id); auto.
Qed.

(* the status a request carries is the ResponseStatusCode of its own KEnq *)
Definition STAT (k : qkey) (Q : Z -> Z -> Prop) (ks : kst) : Prop :=
  forall q sc, In q (preqs ks) -> q_status q = Some sc -> Q (q_rid q) sc.

Lemma STAT_kstep : forall v k (Q : Z -> Z -> Prop) ks a ks',
  (forall rid p hdrs t now, a = KEnq rid p hdrs t now -> Q rid (p_status p)) ->
  STAT k Q ks -> kstep v k ks a = Some ks' -> STAT k Q ks'.
Proof.
  intros v k Q ks a ks' QA S H.
  destruct a as [rid now|rid now|rid p hdrs t now|rid ra now|h now]; cbn [Plugin.kstep] in H.
  - destruct (pfind rid (preqs ks)); [discriminate|].
    destruct (cur ks); [|destruct v]; inversion H; subst; simpl; intros q sc I E;
      apply in_app_or in I; destruct I as [I|[I|[]]]; try (now apply S); subst q; discriminate.
  - destruct v; [discriminate|]. destruct (pfind rid (preqs ks)) as [q|]; [|discriminate].
    destruct (q_inst q); [discriminate|]. inversion H; subst; simpl. intros q1 sc I E.
    apply In_pupd in I. destruct I as [I|[q0 [I [_ E0]]]]; [now apply S|]. subst q1. simpl in *. now apply S.
  - destruct (pfind rid (preqs ks)) as [q|] eqn:PF; [|discriminate].
    destruct (q_inst q) as [h|]; [|discriminate]. destruct (q_status q); [discriminate|].
    destruct (nth_error (insts ks) h) as [s|]; [|discriminate].
    destruct (step _ s _) as [s'|]; [|discriminate].
    inversion H; subst; simpl. intros q1 sc I E.
    apply In_pupd in I. destruct I as [I|[q0 [I [R0 E0]]]]; [now apply S|]. subst q1. simpl in *.
    inversion E; subst sc. rewrite R0. eapply QA. reflexivity.
  - destruct (pfind rid (preqs ks)) as [q|]; [|discriminate].
    destruct (q_inst q) as [h|]; [|discriminate]. destruct (q_status q); [|discriminate].
    destruct (nth_error (insts ks) h) as [s|]; [|discriminate].
    destruct (step _ s _) as [s'|]; [|discriminate].
    inversion H; subst; simpl. exact S.
  - destruct (nth_error (insts ks) h) as [s|]; [|discriminate].
    destruct (step _ s _) as [s'|]; [|discriminate].
    inversion H; subst; simpl. exact S.
Qed.

Lemma STAT_krun : forall v k (Q : Z -> Z -> Prop) acts ks,
  (forall rid p hdrs t now, In (KEnq rid p hdrs t now) acts -> Q rid (p_status p)) ->
  STAT k Q ks -> STAT k Q (krun v k ks acts).
Proof.
  intros v k Q acts. induction acts as [|a rest IH]; intros ks QA S; simpl; [exact S|].
  apply IH; [intros rid p hdrs t now I; apply (QA rid p hdrs t now); right; exact I|].
  unfold Plugin.kexec. destruct (kstep v k ks a) as [ks'|] eqn:E; [|exact S].
  eapply STAT_kstep; eauto. intros rid p hdrs t now Ea. apply (QA rid p hdrs t now). left. exact Ea.
Qed.

Lemma pfind_rid : forall id l q, pfind id l = Some q -> q_rid q = id.
Proof.
  induction l as [|x t IH]; simpl; intros q H; [discriminate|].
  destruct (q_rid x =? id) eqn:E; [inversion H; subst; now apply Z.eqb_eq|auto].
Qed.

Lemma proj_In : forall k a acts, In a (proj k acts) -> In (PK k a) acts.
Proof.
  intros k a acts. induction acts as [|b rest IH]; simpl; intro I; [tauto|].
  destruct b as [k' b|rid now]; [|right; auto].
  destruct (qkey_eqb k' k) eqn:E; [|right; auto].
  apply qkey_eqb_eq in E. subst k'. destruct I as [I|I]; [left; congruence|right; auto].
Qed.

(* the status code a request carries comes from its own KEnq in the schedule *)
Lemma kstatus_from_schedule : forall v k acts rid sc,
  kstatus (krun v k kinit acts) rid = Some sc ->
  exists p hdrs t now, In (KEnq rid p hdrs t now) acts /\ p_status p = sc.
Proof.
  intros v k acts rid sc H. unfold kstatus in H.
  destruct (pfind rid (preqs (krun v k kinit acts))) as [q|] eqn:F; [|discriminate].
  pose proof (STAT_krun v k
    (fun rid sc => exists p hdrs t now, In (KEnq rid p hdrs t now) acts /\ p_status p = sc)
    acts kinit) as S.
  rewrite <- (pfind_rid _ _ _ F).
  apply (S (fun rid p hdrs t now I => ex_intro _ p (ex_intro _ hdrs (ex_intro _ t (ex_intro _ now (conj I eq_refl)))))
           (fun q sc (I : In q []) => match I with end) q sc); [eapply pfind_In; eauto|exact H].
Qed.

Lemma release_bound_at_atomic : forall k acts t0 w,
  0 < kwsize k -> kmonotone t0 acts = true ->
  kgrants_at (ccfg k 0) w (insts (krun Atomic k kinit acts)) <= Z.max 0 (kquota k).
Proof.
  intros k acts t0 w W M.
  destruct (krun_AT Atomic k acts kinit t0 W M) as [tl F]; [constructor|].
  rewrite kgrants_at_win; [apply release_bound_atomic|].
  rewrite Forall_forall in *. intros s I. apply (at_log _ _ _ (F s I)).
Qed.

(* each grant of each queue of the key lies in the aligned window it was counted in *)
Lemma grants_in_window : forall v k acts t0,
  0 < kwsize k -> kmonotone t0 acts = true ->
  forall s g, In s (insts (krun v k kinit acts)) -> In g (log s) ->
  gwin g = uend (ccfg k 0) (gat g) /\ gwin g - kwsize k <= gat g < gwin g.
Proof.
  intros v k acts t0 W M s g Is Ig.
  destruct (krun_AT v k acts kinit t0 W M) as [tl F]; [constructor|].
  rewrite Forall_forall in F. pose proof (at_log _ _ _ (F s Is)) as L.
  rewrite Forall_forall in L. rewrite (L g Ig). split; [reflexivity|].
  apply (uend_window (ccfg k 0)). exact W.
Qed.

Lemma kverdict_spec : forall ks rid vd t,
  kverdict ks rid = Some (vd, t) <->
  exists b sc, kanswer ks rid = Some (b, t) /\ kstatus ks rid = Some sc /\
               vd = (if b then VNoOp else VEarly sc).
Proof.
  intros ks rid vd t. unfold kverdict, verdict_of.
  destruct (kanswer ks rid) as [[b t']|]; [destruct (kstatus ks rid) as [sc|]|]; split.
  - intro H. inversion H; subst. exists b, sc. auto.
  - intros [b0 [sc0 [A [S E]]]]. inversion A; inversion S; subst. reflexivity.
  - discriminate.
  - intros [b0 [sc0 [_ [S _]]]]. discriminate.
  - discriminate.
  - intros [b0 [sc0 [A _]]]. discriminate.
Qed.

(* ------------------------------------------------------------------ *)
(* a request the queue has answered carries its status code            *)

Lemma step_ids : forall c s a s', step c s a = Some s' ->
  map rid (reqs s') = map rid (reqs s) ++
    match a with EnqLocked id _ _ _ _ => [id] | _ => [] end.
Proof.
  intros c s a s' H. destruct a as [id p t l now|id now|now|id now|id now]; cbn [step] in H.
  - destruct (find id (reqs s)); [discriminate|]. inversion H; subst. unfold enq_locked.
    destruct (counter (roll c s now) <? quota c);
      [|destruct (qsize c <=? qcount (reqs (roll c s now)))]; simpl;
      rewrite map_app, roll_reqs; reflexivity.
  - destruct (find id (reqs s)) as [r|]; [|discriminate].
    destruct (phase_eqb (ph r) Unlocked); [|discriminate]. inversion H; subst; simpl.
    rewrite map_rid_upd; [now rewrite app_nil_r|apply fpres_set_park].
  - inversion H; subst. unfold tick.
    destruct (drain c now (heap (roll c s now)) (roll c s now)) as [s1 rel] eqn:D. simpl.
    apply drain_all in D. destruct D as [_ [E _]].
    rewrite app_nil_r, !map_rid_rsig, E, roll_reqs. reflexivity.
  - destruct (find id (reqs s)) as [r|]; [|discriminate].
    destruct (phase_eqb (ph r) Parked && (dl r <=? now)); [|discriminate]. inversion H; subst; simpl.
    rewrite map_rid_upd; [now rewrite app_nil_r|apply fpres_set_ph].
  - destruct (find id (reqs s)) as [r|]; [|discriminate].
    destruct ((phase_eqb (ph r) Released || phase_eqb (ph r) Expired) && counted r); [|discriminate].
    inversion H; subst; simpl.
    rewrite map_rid_upd; [now rewrite app_nil_r|apply fpres_set_ret].
Qed.

Definition ENQD (ks : kst) : Prop :=
  NoDup (map q_rid (preqs ks)) /\
  (forall s r, In s (insts ks) -> In r (reqs s) ->
     exists q, In q (preqs ks) /\ q_rid q = rid r /\ q_status q <> None).

Lemma pfind_None : forall id l, pfind id l = None -> ~ In id (map q_rid l).
Proof.
  induction l as [|x t IH]; simpl; intros H; [tauto|].
  destruct (q_rid x =? id) eqn:E; [discriminate|]. apply Z.eqb_neq in E.
  intros [G|G]; [auto|]. now apply IH.
Qed.

Lemma map_q_rid_pupd : forall id f l, (forall q, q_rid (f q) = q_rid q) ->
  map q_rid (pupd id f l) = map q_rid l.
Proof.
  intros id f l P. induction l as [|x t IH]; simpl; [reflexivity|].
  destruct (q_rid x =? id); simpl; [now rewrite P|now rewrite IH].
Qed.

Lemma In_pupd_fwd : forall id f l q, In q l -> In q (pupd id f l) \/ In (f q) (pupd id f l).
Proof.
  induction l as [|x t IH]; simpl; intros q I; [tauto|].
  destruct (q_rid x =? id); simpl.
  - destruct I as [I|I]; [subst; right; auto|left; auto].
  - destruct I as [I|I]; [left; auto|]. destruct (IH _ I); [left|right]; auto.
Qed.

Lemma pfind_pupd_In : forall id f l q, pfind id l = Some q -> In (f q) (pupd id f l).
Proof.
  induction l as [|x t IH]; simpl; intros q H; [discriminate|].
  destruct (q_rid x =? id); simpl; [inversion H; subst; auto|right; auto].
Qed.

Lemma In_set_nth : forall n (x : st) l y, In y (set_nth n x l) -> In y l \/ y = x.
Proof.
  induction n as [|n IH]; intros x [|z t] y I; simpl in *; try tauto.
  - destruct I as [I|I]; auto.
  - destruct I as [I|I]; [auto|]. destruct (IH _ _ _ I); auto.
Qed.

Lemma NoDup_map_inj : forall (l : list preq) a b,
  NoDup (map q_rid l) -> In a l -> In b l -> q_rid a = q_rid b -> a = b.
Proof.
  induction l as [|x t IH]; simpl; intros a b N Ia Ib E; [tauto|].
  inversion N as [|? ? NI N']; subst.
  destruct Ia as [Ia|Ia], Ib as [Ib|Ib]; subst; auto.
  - exfalso. apply NI. rewrite E. now apply in_map.
  - exfalso. apply NI. rewrite <- E. now apply in_map.
Qed.

(* witnesses survive an update that keeps ids and does not erase a status *)
Lemma witness_pupd : forall id f l (rd : Z),
  (forall q, q_rid (f q) = q_rid q) ->
  (forall q, q_status q <> None -> q_status (f q) <> None) ->
  (exists q, In q l /\ q_rid q = rd /\ q_status q <> None) ->
  exists q, In q (pupd id f l) /\ q_rid q = rd /\ q_status q <> None.
Proof.
  intros id f l rd P1 P2 [q [I [E S]]].
  destruct (In_pupd_fwd id f l q I) as [G|G]; [exists q; auto|].
  exists (f q). split; [exact G|]. split; [now rewrite P1|now apply P2].
Qed.

Lemma ENQD_kstep : forall v k ks a ks', ENQD ks -> kstep v k ks a = Some ks' -> ENQD ks'.
Proof.
  intros v k ks a ks' [ND W] H.
  assert (Upd : forall h s s' (P : preq -> preq) l',
            nth_error (insts ks) h = Some s ->
            map rid (reqs s') = map rid (reqs s) ->
            (forall rd, (exists q, In q (preqs ks) /\ q_rid q = rd /\ q_status q <> None) ->
                        exists q, In q l' /\ q_rid q = rd /\ q_status q <> None) ->
            forall s1 r, In s1 (set_nth h s' (insts ks)) -> In r (reqs s1) ->
            exists q, In q l' /\ q_rid q = rid r /\ q_status q <> None).
  { intros h s s' P l' N E K s1 r I1 Ir. apply K.
    destruct (In_set_nth _ _ _ _ I1) as [I|I]; [eapply W; eauto|]. subst s1.
    assert (Ir' : In (rid r) (map rid (reqs s))) by (rewrite <- E; now apply in_map).
    apply in_map_iff in Ir'. destruct Ir' as [r0 [E0 I0]]. rewrite <- E0.
    eapply W; eauto. eapply nth_error_In; eauto. }
  destruct a as [rid0 now|rid0 now|rid0 p hdrs t now|rid0 ra now|h now]; cbn [Plugin.kstep] in H.
  - destruct (pfind rid0 (preqs ks)) eqn:PF; [discriminate|].
    assert (ND' : forall q0, q_rid q0 = rid0 -> NoDup (map q_rid (preqs ks ++ [q0]))).
    { intros q0 E0. rewrite map_app. simpl. apply NoDup_snoc; [exact ND|]. rewrite E0. now apply pfind_None. }
    assert (W' : forall q0 s r, In s (insts ks) -> In r (reqs s) ->
              exists q, In q (preqs ks ++ [q0]) /\ q_rid q = rid r /\ q_status q <> None).
    { intros q0 s r Is Ir. destruct (W s r Is Ir) as [q [I [E S]]]. exists q. split; [apply in_or_app; auto|auto]. }
    destruct (cur ks).
    + inversion H; subst; unfold ENQD; simpl. split; [now apply ND'|apply W'].
    + destruct v; inversion H; subst; unfold ENQD; simpl; (split; [now apply ND'|]).
      * intros s r Is Ir. apply in_app_or in Is. destruct Is as [Is|[Is|[]]]; [apply (W' _ s r Is Ir)|].
        subst s. simpl in Ir. tauto.
      * apply W'.
  - destruct v; [discriminate|]. destruct (pfind rid0 (preqs ks)) as [q|]; [|discriminate].
    destruct (q_inst q); [discriminate|]. inversion H; subst; unfold ENQD; simpl. split.
    + rewrite map_q_rid_pupd; [exact ND|reflexivity].
    + intros s r Is Ir. apply in_app_or in Is. destruct Is as [Is|[Is|[]]]; [|subst s; simpl in Ir; tauto].
      apply witness_pupd; [reflexivity|auto|]. eapply W; eauto.
  - destruct (pfind rid0 (preqs ks)) as [q|] eqn:PF; [|discriminate].
    destruct (q_inst q) as [h|]; [|discriminate]. destruct (q_status q); [discriminate|].
    destruct (nth_error (insts ks) h) as [s|] eqn:N; [|discriminate].
    destruct (step _ s _) as [s'|] eqn:S; [|discriminate].
    inversion H; subst; unfold ENQD; simpl. split.
    + rewrite map_q_rid_pupd; [exact ND|reflexivity].
    + pose proof (step_ids _ _ _ _ S) as E. simpl in E.
      intros s1 r I1 Ir.
      assert (K : forall rd, (exists q, In q (preqs ks) /\ q_rid q = rd /\ q_status q <> None) ->
                  exists q, In q (pupd rid0 (set_status (p_status p)) (preqs ks)) /\ q_rid q = rd /\ q_status q <> None).
      { intros rd X. apply witness_pupd; [reflexivity|simpl; discriminate|exact X]. }
      destruct (In_set_nth _ _ _ _ I1) as [I|I]; [apply K; eapply W; eauto|]. subst s1.
      assert (Ir' : In (rid r) (map rid (reqs s'))) by now apply in_map.
      rewrite E in Ir'. apply in_app_or in Ir'. destruct Ir' as [Ir'|[Ir'|[]]].
      * apply in_map_iff in Ir'. destruct Ir' as [r0 [E0 I0]]. rewrite <- E0.
        apply K. eapply W; eauto. eapply nth_error_In; eauto.
      * exists (set_status (p_status p) q). split; [now apply pfind_pupd_In|]. simpl.
        split; [rewrite <- Ir'; now apply (pfind_rid _ _ _ PF)|discriminate].
  - destruct (pfind rid0 (preqs ks)) as [q|]; [|discriminate].
    destruct (q_inst q) as [h|]; [|discriminate]. destruct (q_status q); [|discriminate].
    destruct (nth_error (insts ks) h) as [s|] eqn:N; [|discriminate].
    destruct (step _ s _) as [s'|] eqn:S; [|discriminate].
    inversion H; subst; unfold ENQD; simpl. split; [exact ND|].
    pose proof (step_ids _ _ _ _ S) as E.
    apply (Upd h s s' (fun q => q) (preqs ks) N); [|auto].
    rewrite E. destruct ra; simpl; apply app_nil_r.
  - destruct (nth_error (insts ks) h) as [s|] eqn:N; [|discriminate].
    destruct (step _ s _) as [s'|] eqn:S; [|discriminate].
    inversion H; subst; unfold ENQD; simpl. split; [exact ND|].
    pose proof (step_ids _ _ _ _ S) as E. simpl in E. rewrite app_nil_r in E.
    apply (Upd h s s' (fun q => q) (preqs ks) N); auto.
Qed.

Lemma ENQD_krun : forall v k acts, ENQD (krun v k kinit acts).
Proof.
  intros v k acts. apply (krun_inv ENQD v k).
  - intros ks a ks' E H. eapply ENQD_kstep; eauto.
  - split; [constructor|intros s r []].
Qed.

Lemma answer_has_status : forall ks rid,
  ENQD ks -> kanswer ks rid <> None -> kstatus ks rid <> None.
Proof.
  intros ks rid0 [ND W] A. unfold kanswer, kstatus in *.
  destruct (pfind rid0 (preqs ks)) as [q|] eqn:PF; [|congruence].
  destruct (q_inst q) as [h|]; [|congruence].
  destruct (nth_error (insts ks) h) as [s|] eqn:N; [|congruence].
  destruct (find rid0 (reqs s)) as [r|] eqn:F; [|congruence].
  destruct (find_In _ _ _ F) as [Ir Er].
  destruct (W s r (nth_error_In _ _ N) Ir) as [q' [I' [E' S']]].
  assert (q = q').
  { apply (NoDup_map_inj (preqs ks)); auto; [eapply pfind_In; eauto|].
    rewrite (pfind_rid _ _ _ PF). congruence. }
  subst q'. exact S'.
Qed.

(* ------------------------------------------------------------------ *)
(* the TTL branch fires only after the TTL handed to Enqueue elapsed    *)

Lemma drain_recs : forall c now h s s' rel,
  drain c now h s = (s', rel) ->
  forall r', In r' (reqs s') ->
  exists r, In r (reqs s) /\ rid r' = rid r /\ arr r' = arr r /\ ttl r' = ttl r.
Proof.
  intros c now h. induction h as [|e h' IH]; intros s s' rel D r' I; simpl in D.
  - inversion D; subst. exists r'. simpl in I. auto.
  - destruct (counter s <? quota c).
    + destruct (is_parked s (eid e)).
      * destruct (drain c now h' (release s (eid e) now)) as [s2 rel2] eqn:D2.
        inversion D; subst s2 rel.
        destruct (IH _ _ _ D2 r' I) as [r1 [I1 [A [B C]]]]. simpl in I1.
        apply In_upd_weak in I1. destruct I1 as [I1|[r0 [F0 E0]]].
        -- exists r1. auto.
        -- subst r1. exists r0. simpl in *. split; [apply (find_In _ _ _ F0)|auto].
      * eauto.
    + inversion D; subst. exists r'. simpl in I. auto.
Qed.

Lemma step_recs : forall c s a s', step c s a = Some s' ->
  forall r', In r' (reqs s') ->
  (exists r, In r (reqs s) /\ rid r' = rid r /\ arr r' = arr r /\ ttl r' = ttl r) \/
  (exists id p t l now, a = EnqLocked id p t l now /\ rid r' = id /\ arr r' = now /\ ttl r' = l).
Proof.
  intros c s a s' H r' I.
  assert (Upd : forall id f, (forall r, rid (f r) = rid r /\ arr (f r) = arr r /\ ttl (f r) = ttl r) ->
            In r' (upd id f (reqs s)) ->
            exists r, In r (reqs s) /\ rid r' = rid r /\ arr r' = arr r /\ ttl r' = ttl r).
  { intros id f P J. apply In_upd_weak in J. destruct J as [J|[r0 [F0 E0]]]; [exists r'; auto|].
    subst r'. exists r0. split; [apply (find_In _ _ _ F0)|apply P]. }
  destruct a as [id p t l now|id now|now|id now|id now]; cbn [step] in H.
  - destruct (find id (reqs s)); [discriminate|]. inversion H; subst. unfold enq_locked in I.
    assert (App : forall r0, rid r0 = id -> arr r0 = now -> ttl r0 = l ->
              In r' (reqs (roll c s now) ++ [r0]) ->
              (exists r, In r (reqs s) /\ rid r' = rid r /\ arr r' = arr r /\ ttl r' = ttl r) \/
              (exists id0 p0 t0 l0 now0, EnqLocked id p t l now = EnqLocked id0 p0 t0 l0 now0 /\
                                         rid r' = id0 /\ arr r' = now0 /\ ttl r' = l0)).
    { intros r0 E1 E2 E3 J. apply in_app_or in J. destruct J as [J|[J|[]]].
      - left. rewrite roll_reqs in J. exists r'. auto.
      - right. subst r'. exists id, p, t, l, now. auto. }
    destruct (counter (roll c s now) <? quota c);
      [|destruct (qsize c <=? qcount (reqs (roll c s now)))]; simpl in I;
      eapply App; eauto; reflexivity.
  - destruct (find id (reqs s)) as [r|]; [|discriminate].
    destruct (phase_eqb (ph r) Unlocked); [|discriminate]. inversion H; subst; simpl in I.
    left. eapply Upd; eauto. intro r0. simpl. auto.
  - inversion H; subst. unfold tick in I.
    destruct (drain c now (heap (roll c s now)) (roll c s now)) as [s1 rel] eqn:D. simpl in I.
    left. destruct (drain_recs _ _ _ _ _ _ D r' I) as [r [J K]]. rewrite roll_reqs in J. exists r. auto.
  - destruct (find id (reqs s)) as [r|]; [|discriminate].
    destruct (phase_eqb (ph r) Parked && (dl r <=? now)); [|discriminate]. inversion H; subst; simpl in I.
    left. eapply Upd; eauto. intro r0. simpl. auto.
  - destruct (find id (reqs s)) as [r|]; [|discriminate].
    destruct ((phase_eqb (ph r) Released || phase_eqb (ph r) Expired) && counted r); [|discriminate].
    inversion H; subst; simpl in I.
    left. eapply Upd; eauto. intro r0. simpl. auto.
Qed.

(* where a request record of a queue comes from *)
Definition ORIG (Q : Z -> Z -> Z -> Prop) (ks : kst) : Prop :=
  forall s r, In s (insts ks) -> In r (reqs s) -> Q (rid r) (arr r) (ttl r).

Lemma ORIG_kstep : forall v k (Q : Z -> Z -> Z -> Prop) ks a ks',
  (forall rid p hdrs t now, a = KEnq rid p hdrs t now -> Q rid now (ttl_ns tv p)) ->
  ORIG Q ks -> kstep v k ks a = Some ks' -> ORIG Q ks'.
Proof.
  intros v k Q ks a ks' QA O H. unfold ORIG in *.
  assert (Old : forall h s s' a0, nth_error (insts ks) h = Some s -> step (ccfg k 0) s a0 = Some s' ->
            (forall id p t l now, a0 <> EnqLocked id p t l now) ->
            forall s1 r, In s1 (set_nth h s' (insts ks)) -> In r (reqs s1) -> Q (rid r) (arr r) (ttl r)).
  { intros h s s' a0 N S NE s1 r I1 Ir.
    destruct (In_set_nth _ _ _ _ I1) as [I|I]; [eapply O; eauto|]. subst s1.
    destruct (step_recs _ _ _ _ S r Ir) as [[r0 [I0 [E1 [E2 E3]]]]|[id [p [t [l [now [E _]]]]]]].
    - rewrite E1, E2, E3. eapply O; eauto. eapply nth_error_In; eauto.
    - exfalso. eapply NE; eauto. }
  destruct a as [rid0 now|rid0 now|rid0 p hdrs t now|rid0 ra now|h now]; cbn [Plugin.kstep] in H.
  - destruct (pfind rid0 (preqs ks)); [discriminate|].
    destruct (cur ks); [|destruct v]; inversion H; subst; simpl; intros s r Is Ir; try (eapply O; eauto; fail).
    apply in_app_or in Is. destruct Is as [Is|[Is|[]]]; [eapply O; eauto|subst s; simpl in Ir; tauto].
  - destruct v; [discriminate|]. destruct (pfind rid0 (preqs ks)) as [q|]; [|discriminate].
    destruct (q_inst q); [discriminate|]. inversion H; subst; simpl. intros s r Is Ir.
    apply in_app_or in Is. destruct Is as [Is|[Is|[]]]; [eapply O; eauto|subst s; simpl in Ir; tauto].
  - destruct (pfind rid0 (preqs ks)) as [q|]; [|discriminate].
    destruct (q_inst q) as [h|]; [|discriminate]. destruct (q_status q); [discriminate|].
    destruct (nth_error (insts ks) h) as [s|] eqn:N; [|discriminate].
    destruct (step _ s _) as [s'|] eqn:S; [|discriminate].
    inversion H; subst; simpl. intros s1 r I1 Ir.
    destruct (In_set_nth _ _ _ _ I1) as [I|I]; [eapply O; eauto|]. subst s1.
    destruct (step_recs _ _ _ _ S r Ir) as [[r0 [I0 [E1 [E2 E3]]]]|[id [p0 [t0 [l [now0 [E [E1 [E2 E3]]]]]]]]].
    + rewrite E1, E2, E3. eapply O; eauto. eapply nth_error_In; eauto.
    + injection E as H1 H2 H3 H4 H5. rewrite E1, E2, E3, <- H1, <- H4, <- H5.
      apply (QA rid0 p hdrs t now). reflexivity.
  - destruct (pfind rid0 (preqs ks)) as [q|]; [|discriminate].
    destruct (q_inst q) as [h|]; [|discriminate]. destruct (q_status q); [|discriminate].
    destruct (nth_error (insts ks) h) as [s|] eqn:N; [|discriminate].
    destruct (step _ s _) as [s'|] eqn:S; [|discriminate].
    inversion H; subst; simpl. eapply Old; eauto. intros; destruct ra; discriminate.
  - destruct (nth_error (insts ks) h) as [s|] eqn:N; [|discriminate].
    destruct (step _ s _) as [s'|] eqn:S; [|discriminate].
    inversion H; subst; simpl. eapply Old; eauto. intros; discriminate.
Qed.

Lemma ORIG_krun : forall v k (Q : Z -> Z -> Z -> Prop) acts ks,
  (forall rid p hdrs t now, In (KEnq rid p hdrs t now) acts -> Q rid now (ttl_ns tv p)) ->
  ORIG Q ks -> ORIG Q (krun v k ks acts).
Proof.
  intros v k Q acts. induction acts as [|a rest IH]; intros ks QA O; simpl; [exact O|].
  apply IH; [intros rid p hdrs t now I; apply (QA rid p hdrs t now); right; exact I|].
  unfold Plugin.kexec. destruct (kstep v k ks a) as [ks'|] eqn:E; [|exact O].
  eapply ORIG_kstep; eauto. intros rid p hdrs t now Ea. apply (QA rid p hdrs t now). left. exact Ea.
Qed.

(* after any schedule with a monotone clock: if the TTL branch of request rid
   can be taken at clock reading now, the TTL that was handed to Enqueue has
   elapsed since the request entered Enqueue *)
Lemma ttl_branch_origin : forall v pre k t0 rid now,
  0 < kwsize k -> pmonotone t0 pre = true ->
  kstep v k (pget k (prun v pinit pre)) (KR rid RTtl now) <> None ->
  exists p hdrs t enq, In (PK k (KEnq rid p hdrs t enq)) pre /\ enq + ttl_ns tv p <= now.
Proof.
  intros v pre k t0 rid0 now W M H. rewrite pget_prun, pget_pinit in H.
  set (ks := krun v k kinit (proj k pre)) in *.
  cbn [Plugin.kstep] in H.
  destruct (pfind rid0 (preqs ks)) as [q|]; [|congruence].
  destruct (q_inst q) as [h|]; [|congruence]. destruct (q_status q); [|congruence].
  destruct (nth_error (insts ks) h) as [s|] eqn:N; [|congruence].
  cbn [ract_action step] in H.
  destruct (find rid0 (reqs s)) as [r|] eqn:F; [|congruence].
  destruct (phase_eqb (ph r) Parked && (dl r <=? now)) eqn:C; [|congruence].
  apply andb_prop in C. destruct C as [C1 C2]. apply phase_eqb_eq in C1. apply Z.leb_le in C2.
  destruct (find_In _ _ _ F) as [Ir Er].
  pose proof (nth_error_In _ _ N) as Is.
  destruct (krun_AT v k (proj k pre) kinit t0 W (proj_monotone k pre t0 M)) as [tl A]; [constructor|].
  fold ks in A. rewrite Forall_forall in A. pose proof (at_dl _ _ _ (A s Is) r Ir C1) as D.
  pose proof (ORIG_krun v k
    (fun id a l => exists p hdrs t, In (KEnq id p hdrs t a) (proj k pre) /\ l = ttl_ns tv p)
    (proj k pre) kinit) as O.
  destruct (O (fun id p hdrs t nw I => ex_intro _ p (ex_intro _ hdrs (ex_intro _ t (conj I eq_refl))))
              (fun s0 r0 (I : In s0 []) => match I with end) s r Is Ir) as [p [hdrs [t [I E]]]].
  exists p, hdrs, t, (arr r). split; [apply proj_In; rewrite <- Er; exact I|]. rewrite <- E. lia.
Qed.

End WithTtl.
