(* C10 — lemmas, part 4: the exact negations of F-C10 / F-C10b.

   [no_lost_handoff] (no pass pops the entry of a request that is between
   Unlock and the select) keeps the invariant HL (every waiter is in the heap);
   [no_barging] (no stale arrival takes a slot while somebody waits) keeps KQ
   (free quota implies nobody waits).  okP implies the first, okQ the second. *)
From Coq Require Import List ZArith Bool Lia Sorting.Sorted.
From Verif Require Import C10.Model C10.Proofs C10.Proofs2.
Import ListNotations.
Open Scope Z_scope.

(* ------------------------------------------------------------------ *)
(* is_unlocked / is_parked across a hand-off                            *)

Lemma is_unlocked_release : forall s id now x,
  is_parked s id = true -> is_unlocked (release s id now) x = is_unlocked s x.
Proof.
  intros s id now x P. unfold is_unlocked, release. simpl.
  destruct (Z.eq_dec x id) as [E|E].
  - subst x. rewrite find_upd_same by apply fpres_set_ph.
    unfold is_parked in P. destruct (find id (reqs s)) as [r|]; [|reflexivity].
    simpl. apply phase_eqb_eq in P. rewrite P. reflexivity.
  - rewrite find_upd_other by (auto using fpres_set_ph). reflexivity.
Qed.

Lemma is_parked_release_other : forall s id now x,
  x <> id -> is_parked (release s id now) x = is_parked s x.
Proof.
  intros s id now x N. unfold is_parked, release. simpl.
  rewrite find_upd_other by (auto using fpres_set_ph). reflexivity.
Qed.

Lemma is_unlocked_roll : forall c s now x, is_unlocked (roll c s now) x = is_unlocked s x.
Proof. intros. unfold is_unlocked. now rewrite roll_reqs. Qed.

Lemma live_not_parked_unlocked : forall s r,
  NoDup (map rid (reqs s)) -> In r (reqs s) -> live r = true ->
  is_parked s (rid r) = false -> is_unlocked s (rid r) = true.
Proof.
  intros s r ND I L P. unfold is_parked in P. unfold is_unlocked.
  rewrite (In_find _ _ ND I) in *. unfold live in L. destruct (ph r); simpl in *; congruence.
Qed.

(* ------------------------------------------------------------------ *)
(* processQueueItems when no popped entry belongs to an unparked waiter *)

Lemma drain_exact : forall c now h s s' rel,
  drain c now h s = (s', rel) ->
  StronglySorted kle h ->
  NoDup (map rid (reqs s)) ->
  (forall e, In e h -> exists r, find (eid e) (reqs s) = Some r /\ ekey e = rkey r) ->
  (forall e, In e (drops c now h s) -> is_unlocked s (eid e) = false) ->
  (forall r, In r (reqs s) -> live r = true -> In (entry_of r) h) ->
  (forall r, In r (reqs s') -> live r = true -> In (entry_of r) (heap s')) /\
  (counter s' < quota c -> heap s' = []) /\
  (forall r, In r (reqs s) -> live r = true -> phase_of s' (rid r) = Some Released ->
     forall e', In e' (heap s') -> key_ltb (ekey e') (rkey r) = false) /\
  (forall e', In e' (heap s') -> In e' h).
Proof.
  intros c now h. induction h as [|e h' IH]; intros s s' rel D SS ND KS NL LV; simpl in D.
  - inversion D; subst. simpl. splits; auto;
      try (intros r I L; destruct (LV r I L)).
  - assert (Contra : forall r sx, In r (reqs s) -> live r = true ->
              reqs sx = reqs s -> phase_of sx (rid r) = Some Released -> False).
    { intros r sx I L E P. unfold phase_of in P. rewrite E, (In_find _ _ ND I) in P.
      unfold live in L. destruct (ph r); inversion P; discriminate. }
    simpl in NL.
    destruct (counter s <? quota c) eqn:CQ.
    + apply StronglySorted_inv in SS. destruct SS as [SS FF]. rewrite Forall_forall in FF.
      destruct (is_parked s (eid e)) eqn:P.
      * destruct (drain c now h' (release s (eid e) now)) as [s2 rel2] eqn:D2.
        inversion D; subst s2 rel. clear D.
        assert (Pk : exists r, find (eid e) (reqs s) = Some r /\ ph r = Parked).
        { unfold is_parked in P. destruct (find (eid e) (reqs s)) as [r|]; [|discriminate].
          exists r. split; [reflexivity|]. now apply phase_eqb_eq. }
        destruct Pk as [r0 [F0 P0]].
        assert (ND1 : NoDup (map rid (reqs (release s (eid e) now)))).
        { simpl. rewrite map_rid_upd by apply fpres_set_ph. exact ND. }
        assert (KS1 : forall a, In a h' -> exists r,
                  find (eid a) (reqs (release s (eid e) now)) = Some r /\ ekey a = rkey r).
        { intros a Ha. destruct (KS a (or_intror Ha)) as [r [Fr Er]]. simpl.
          destruct (Z.eq_dec (eid a) (eid e)) as [E|E].
          - rewrite E in *. rewrite find_upd_same by apply fpres_set_ph. rewrite Fr. simpl.
            eexists. split; [reflexivity|]. exact Er.
          - rewrite find_upd_other by (auto using fpres_set_ph). eauto. }
        assert (NL1 : forall a, In a (drops c now h' (release s (eid e) now)) ->
                  is_unlocked (release s (eid e) now) (eid a) = false).
        { intros a Ha. rewrite is_unlocked_release by exact P. now apply NL. }
        assert (LV1 : forall r, In r (reqs (release s (eid e) now)) -> live r = true ->
                  In (entry_of r) h').
        { intros r I L. simpl in I. apply In_upd in I; [|exact ND].
          destruct I as [[I NE]|[r1 [_ E]]]; [|subst; discriminate].
          destruct (LV r I L) as [Q|Q]; [|exact Q].
          exfalso. apply NE. rewrite Q. reflexivity. }
        destruct (IH _ _ _ D2 SS ND1 KS1 NL1 LV1) as (C2 & C3 & C4 & C6). clear IH.
        splits; auto; try (intros e' He'; right; now auto).
        intros r I L PR e' He'.
        destruct (Z.eq_dec (rid r) (eid e)) as [E|E].
        -- assert (r = r0).
           { pose proof (In_find _ _ ND I) as Fr. rewrite E, F0 in Fr. now inversion Fr. }
           subst r0. destruct (KS e (or_introl eq_refl)) as [r1 [F1 E1]].
           rewrite F0 in F1. inversion F1; subst r1. rewrite <- E1.
           apply (FF e'). auto.
        -- apply C4; auto. simpl. now apply In_upd_other.
      * assert (LV1 : forall r, In r (reqs s) -> live r = true -> In (entry_of r) h').
        { intros r I L. destruct (LV r I L) as [Q|Q]; [|exact Q]. exfalso.
          assert (U : is_unlocked s (rid r) = true).
          { apply live_not_parked_unlocked; auto. rewrite Q in P. exact P. }
          rewrite Q in NL. specialize (NL (entry_of r) (or_introl eq_refl)).
          unfold eid, entry_of in NL. simpl in NL. congruence. }
        assert (KS1 : forall a, In a h' -> exists r,
                  find (eid a) (reqs s) = Some r /\ ekey a = rkey r).
        { intros a Ha. apply KS. now right. }
        assert (NL1 : forall a, In a (drops c now h' s) -> is_unlocked s (eid a) = false).
        { intros a Ha. apply NL. now right. }
        destruct (IH _ _ _ D SS ND KS1 NL1 LV1) as (C2 & C3 & C4 & C6). clear IH.
        splits; auto; try (intros e' He'; right; now auto).
    + inversion D; subst. simpl. splits; auto.
      * apply Z.ltb_ge in CQ. intro. lia.
      * intros r I L PR. exfalso. eapply (Contra r); eauto.
Qed.

Lemma nolost_tick : forall c s now s',
  no_lost_handoff c (s, Tick now, s') = true ->
  forall e, In e (drops c now (heap (roll c s now)) (roll c s now)) ->
            is_unlocked (roll c s now) (eid e) = false.
Proof.
  intros c s now s' H e I. simpl in H. rewrite forallb_forall in H. specialize (H e I).
  rewrite is_unlocked_roll. now apply negb_true_iff in H.
Qed.

(* what a pass leaves behind, under the exact condition *)
Lemma tick_exact : forall c s now,
  HA s -> HL s -> no_lost_handoff c (s, Tick now, fst (tick c s now)) = true ->
  let s' := fst (tick c s now) in
  HL s' /\ (counter s' < quota c -> heap s' = []) /\
  (forall r, In r (reqs s) -> live r = true -> phase_of s' (rid r) = Some Released ->
     forall e', In e' (heap s') -> key_ltb (ekey e') (rkey r) = false).
Proof.
  intros c s now [S K N] L NL. pose proof (nolost_tick _ _ _ _ NL) as NL'. clear NL.
  unfold tick in *. set (s1 := roll c s now) in *.
  assert (R1 : reqs s1 = reqs s) by apply roll_reqs.
  assert (H1 : heap s1 = heap s) by apply roll_heap.
  destruct (drain c now (heap s1) s1) as [s' rel] eqn:D. simpl.
  destruct (drain_exact _ _ _ _ _ _ D) as (C2 & C3 & C4 & C6);
    rewrite ?R1, ?H1; auto.
  - rewrite <- H1. exact NL'.
  - splits; auto. rewrite <- R1. exact C4.
Qed.

(* a processing pass that pops no unparked waiter passes nobody over *)
Lemma tick_no_pass_exact : forall c s now id,
  HA s -> HL s -> no_lost_handoff c (s, Tick now, fst (tick c s now)) = true ->
  passed_over c (s, Tick now, fst (tick c s now)) id = false.
Proof.
  intros c s now id H L NL.
  destruct (tick_exact c s now H L NL) as (C2 & C3 & C4).
  destruct H as [S K N].
  destruct (passed_over c (s, Tick now, fst (tick c s now)) id) eqn:PO; [exfalso|reflexivity].
  unfold passed_over in PO.
  assert (B : map rsig (reqs (fst (tick c s now))) = map rsig (reqs s)).
  { unfold tick. destruct (drain c now (heap (roll c s now)) (roll c s now)) as [s' rel] eqn:D.
    simpl. destruct (drain_all _ _ _ _ _ _ D) as (_ & B & _). now rewrite roll_reqs in B. }
  set (s' := fst (tick c s now)) in *.
  apply andb_prop in PO. destruct PO as [PO Alt].
  apply andb_prop in PO. destruct PO as [PO _].
  apply andb_prop in PO. destruct PO as [Ls Ls'].
  apply live_in_true in Ls. destruct Ls as [r0 [F0 L0]].
  apply live_in_true in Ls'. destruct Ls' as [r' [F' L']].
  pose proof (find_In _ _ _ F') as [I' E'].
  pose proof (C2 r' I' L') as Hin.
  destruct (find_same_sig id (reqs s) (reqs s') r0 B F0) as [r'' [F'' Sg]].
  rewrite F' in F''. inversion F''; subst r''.
  apply orb_prop in Alt. destruct Alt as [Alt|Alt].
  - apply Z.ltb_lt in Alt. rewrite (C3 Alt) in Hin. destruct Hin.
  - apply existsb_exists in Alt. destruct Alt as [r [Ir Hr]].
    apply andb_prop in Hr. destruct Hr as [Rb Kl].
    unfold released_by in Rb. apply andb_prop in Rb. destruct Rb as [Lr Pr].
    assert (PR : phase_of s' (rid r) = Some Released).
    { destruct (phase_of s' (rid r)) as [[]|]; try discriminate. reflexivity. }
    pose proof (C4 r Ir Lr PR _ Hin) as Q.
    unfold key_of in Kl. rewrite F0 in Kl.
    assert (EK : ekey (entry_of r') = rkey r0).
    { unfold ekey, entry_of, rkey. simpl. unfold rsig in Sg. congruence. }
    rewrite EK in Q. congruence.
Qed.

(* ------------------------------------------------------------------ *)
(* the invariants under the exact conditions                            *)

Lemma HL_exec_exact : forall c s a,
  HA s -> HL s -> no_lost_handoff c (s, a, exec c s a) = true -> HL (exec c s a).
Proof.
  intros c s a H L OK.
  destruct a as [id p t l now|id now|now|id now|id now].
  - apply HL_exec; auto.
  - apply HL_exec; auto.
  - change (exec c s (Tick now)) with (fst (tick c s now)) in *.
    now destruct (tick_exact c s now H L OK) as (C2 & _).
  - apply HL_exec; auto.
  - apply HL_exec; auto.
Qed.

Lemma existsb_live_false : forall l r, existsb live l = false -> In r l -> live r = false.
Proof.
  intros l r E I. destruct (live r) eqn:Lv; [|reflexivity].
  assert (existsb live l = true) by (apply existsb_exists; eauto). congruence.
Qed.

Lemma phase_of_new : forall s0 id r0 h k w lg,
  find id (reqs s0) = None -> rid r0 = id ->
  phase_of {| heap := h; counter := k; wend := w; reqs := reqs s0 ++ [r0]; log := lg |} id
    = Some (ph r0).
Proof.
  intros s0 id r0 h k w lg Fd E. unfold phase_of. simpl. rewrite find_app, Fd, E, Z.eqb_refl.
  reflexivity.
Qed.

Lemma KQ_exec_exact : forall c s a,
  HA s -> HL s -> KQ c s ->
  no_lost_handoff c (s, a, exec c s a) = true -> no_barging c (s, a, exec c s a) = true ->
  KQ c (exec c s a).
Proof.
  intros c s a H L K OKP OKQ.
  destruct a as [id p t l now|id now|now|id now|id now];
    try (apply KQ_exec; auto; reflexivity).
  - (* arrival *)
    unfold exec, step in *. destruct (find id (reqs s)) eqn:Fd; [exact K|].
    simpl in OKQ. rewrite Fd in OKQ.
    unfold KQ, enq_locked, roll in *.
    destruct (stale c s now) eqn:St.
    + (* stale window: the arrival rolls it itself *)
      cbn [counter heap reqs wend log] in *.
      destruct (0 <? quota c) eqn:Q0.
      * (* it takes a slot: allowed only when nobody waits *)
        rewrite phase_of_new in OKQ by (auto; reflexivity). simpl in OKQ.
        rewrite andb_true_r in OKQ. apply negb_true_iff in OKQ.
        simpl. intros r I Lv. apply in_app_or in I.
        destruct I as [I|[I|[]]]; [|subst r; discriminate].
        rewrite (existsb_live_false _ _ OKQ I) in Lv. discriminate.
      * apply Z.ltb_ge in Q0.
        destruct (qsize c <=? qcount (reqs s)); simpl; intros; lia.
    + destruct (counter s <? quota c) eqn:CQ.
      * simpl. intros r I Lv. apply in_app_or in I.
        destruct I as [I|[I|[]]]; [|subst r; discriminate].
        specialize (K r I Lv). apply Z.ltb_lt in CQ. lia.
      * apply Z.ltb_ge in CQ. destruct (qsize c <=? qcount (reqs s)); simpl; intros; lia.
  - (* pass *)
    change (exec c s (Tick now)) with (fst (tick c s now)) in *.
    destruct (tick_exact c s now H L OKP) as (C2 & C3 & _).
    intros r I Lv. specialize (C2 r I Lv).
    destruct (Z_lt_le_dec (counter (fst (tick c s now))) (quota c)) as [Q|Q]; [|exact Q].
    rewrite (C3 Q) in C2. destruct C2.
Qed.

(* a new arrival is given a slot only when nobody waits *)
Lemma enq_no_pass_exact : forall c s id p t l now r,
  KQ c s -> no_barging c (s, EnqLocked id p t l now, exec c s (EnqLocked id p t l now)) = true ->
  find id (reqs s) = None ->
  phase_of (exec c s (EnqLocked id p t l now)) id = Some Slot ->
  In r (reqs s) -> live r = false.
Proof.
  intros c s id p t l now r K OKQ Fd PS I.
  destruct (live r) eqn:Lv; [exfalso|reflexivity].
  pose proof (K r I Lv) as Kr.
  simpl in OKQ. rewrite Fd, PS in OKQ. rewrite andb_true_r in OKQ.
  apply negb_true_iff in OKQ. apply andb_false_iff in OKQ.
  destruct OKQ as [St|Ex].
  - unfold exec, step in PS. rewrite Fd in PS.
    unfold phase_of, enq_locked, roll in PS. rewrite St in PS.
    destruct (counter s <? quota c) eqn:CQ; [apply Z.ltb_lt in CQ; lia|].
    destruct (qsize c <=? qcount (reqs s)); simpl in PS;
      rewrite find_app, Fd in PS; simpl in PS; rewrite Z.eqb_refl in PS; discriminate.
  - rewrite (existsb_live_false _ _ Ex I) in Lv. discriminate.
Qed.

Lemma passed_over_false_exact : forall c s a id,
  GI c s -> no_lost_handoff c (s, a, exec c s a) = true -> no_barging c (s, a, exec c s a) = true ->
  passed_over c (s, a, exec c s a) id = false.
Proof.
  intros c s a id (H & L & K) OKP OKQ.
  destruct a as [id' p t l now|id' now|now|id' now|id' now];
    try (unfold passed_over; now rewrite andb_false_r).
  - destruct (passed_over c (s, EnqLocked id' p t l now, exec c s (EnqLocked id' p t l now)) id)
      eqn:PO; [exfalso|reflexivity].
    unfold passed_over in PO.
    apply andb_prop in PO. destruct PO as [PO Alt].
    apply andb_prop in PO. destruct PO as [PO _].
    apply andb_prop in PO. destruct PO as [Ls _].
    apply live_in_true in Ls. destruct Ls as [r0 [F0 L0]].
    destruct (find id' (reqs s)) eqn:Fd; [discriminate|].
    destruct (phase_of (exec c s (EnqLocked id' p t l now)) id') as [[]|] eqn:PS; try discriminate.
    pose proof (enq_no_pass_exact c s id' p t l now r0 K OKQ Fd PS (proj1 (find_In _ _ _ F0))).
    congruence.
  - change (exec c s (Tick now)) with (fst (tick c s now)) in *.
    apply tick_no_pass_exact; auto.
Qed.

Lemma GI_exec_exact : forall c s a,
  GI c s -> no_lost_handoff c (s, a, exec c s a) = true -> no_barging c (s, a, exec c s a) = true ->
  GI c (exec c s a).
Proof.
  intros c s a (H & L & K) P Q. split; [now apply HA_exec|].
  split; [now apply HL_exec_exact|now apply KQ_exec_exact].
Qed.

Lemma trace_outside_exact : forall c acts s,
  GI c s ->
  Forall (fun tr => no_lost_handoff c tr = true /\ no_barging c tr = true) (trace c s acts) ->
  Forall (fun tr => forall id, passed_over c tr id = false) (trace c s acts).
Proof.
  intros c acts. induction acts as [|a rest IH]; intros s G F; simpl in *; constructor.
  - inversion F as [|? ? [P Q] F']; subst. intros id. now apply passed_over_false_exact.
  - inversion F as [|? ? [P Q] F']; subst. apply IH; [|exact F']. now apply GI_exec_exact.
Qed.

Lemma trace_GI_exact : forall c acts s,
  GI c s ->
  Forall (fun tr => no_lost_handoff c tr = true /\ no_barging c tr = true) (trace c s acts) ->
  Forall (fun tr => GI c (fst (fst tr))) (trace c s acts) /\ GI c (run c s acts).
Proof.
  intros c acts. induction acts as [|a rest IH]; intros s G F; simpl in *.
  - split; [constructor|exact G].
  - inversion F as [|? ? [P Q] F']; subst.
    destruct (IH (exec c s a) (GI_exec_exact c s a G P Q) F') as [A B].
    split; [constructor; [exact G|exact A]|exact B].
Qed.

(* only no_lost_handoff: passes never pass anybody over *)
Lemma trace_ticks_outside_exact : forall c acts s,
  HA s -> HL s ->
  Forall (fun tr => no_lost_handoff c tr = true) (trace c s acts) ->
  Forall (fun tr => forall id now, snd (fst tr) = Tick now -> passed_over c tr id = false)
         (trace c s acts).
Proof.
  intros c acts. induction acts as [|a rest IH]; intros s H L F; simpl in *; constructor.
  - inversion F as [|? ? P F']; subst. intros id now E. simpl in E. subst a.
    change (exec c s (Tick now)) with (fst (tick c s now)) in *.
    apply tick_no_pass_exact; auto.
  - inversion F as [|? ? P F']; subst.
    apply IH; [now apply HA_exec|now apply HL_exec_exact|exact F'].
Qed.

Lemma trace_no_barging_exact : forall c acts s0,
  GI c s0 ->
  Forall (fun tr => no_lost_handoff c tr = true /\ no_barging c tr = true) (trace c s0 acts) ->
  forall s id p t l now s' r,
  In (s, EnqLocked id p t l now, s') (trace c s0 acts) ->
  find id (reqs s) = None -> phase_of s' id = Some Slot ->
  In r (reqs s) -> live r = false.
Proof.
  intros c acts s0 G F s id p t l now s' r I Fd PS Ir.
  destruct (trace_GI_exact c acts s0 G F) as [TG _].
  rewrite Forall_forall in TG, F.
  destruct (TG _ I) as (_ & _ & K). destruct (F _ I) as [_ Q].
  pose proof (trace_step _ _ _ _ I) as E. simpl in E, K. subst s'.
  eapply enq_no_pass_exact; eauto.
Qed.

(* ------------------------------------------------------------------ *)
(* okP / okQ are special cases                                          *)

Lemma okP_no_lost_handoff : forall c tr, okP tr = true -> no_lost_handoff c tr = true.
Proof.
  intros c [[s a] s'] H. destruct a as [| |now| |]; try reflexivity.
  simpl in *. apply forallb_forall. intros e _. apply negb_true_iff.
  unfold is_unlocked. destruct (find (eid e) (reqs s)) as [r|] eqn:F; [|reflexivity].
  rewrite forallb_forall in H. specialize (H r (proj1 (find_In _ _ _ F))).
  now apply negb_true_iff in H.
Qed.

Lemma okQ_no_barging : forall c tr, okQ c tr = true -> no_barging c tr = true.
Proof.
  intros c [[s a] s'] H. destruct a as [id p t l now| | | |]; try reflexivity.
  simpl in *. apply negb_true_iff in H. rewrite H. reflexivity.
Qed.

Lemma Forall_ok_exact : forall c (l : list trans),
  Forall (fun tr => okP tr = true /\ okQ c tr = true) l ->
  Forall (fun tr => no_lost_handoff c tr = true /\ no_barging c tr = true) l.
Proof.
  intros c l F. eapply Forall_impl; [|exact F]. intros tr [P Q].
  split; [now apply okP_no_lost_handoff|now apply okQ_no_barging].
Qed.

(* ------------------------------------------------------------------ *)
(* the conditions say what their names say                              *)

(* a violation of no_lost_handoff IS a lost hand-off: the pass removes from the
   heap the entry of a request that is (and stays) between Unlock and select *)
Lemma drops_popped : forall c now h s s' rel,
  drain c now h s = (s', rel) ->
  forall e, In e (drops c now h s) ->
  In e h /\ (exists pre, h = pre ++ heap s' /\ In e pre).
Proof.
  intros c now h. induction h as [|e0 h' IH]; intros s s' rel D e I; simpl in *; [tauto|].
  destruct (counter s <? quota c); [|simpl in I; tauto].
  destruct (is_parked s (eid e0)); simpl in I.
  - destruct (drain c now h' (release s (eid e0) now)) as [s2 rel2] eqn:D2.
    inversion D; subst s2 rel. destruct (IH _ _ _ D2 e I) as [A [pre [B C]]].
    split; [now right|]. exists (e0 :: pre). simpl. split; [now rewrite B|now right].
  - destruct I as [I|I].
    + subst e0. split; [now left|].
      destruct (drain_all _ _ _ _ _ _ D) as [[pre A] _].
      exists (e :: pre). simpl. split; [now rewrite A|now left].
    + destruct (IH _ _ _ D e I) as [A [pre [B C]]].
      split; [now right|]. exists (e0 :: pre). simpl. split; [now rewrite B|now right].
Qed.

Lemma drain_keeps_unlocked : forall c now h s s' rel x,
  drain c now h s = (s', rel) -> is_unlocked s' x = is_unlocked s x.
Proof.
  intros c now h. induction h as [|e h' IH]; intros s s' rel x D; simpl in D.
  - inversion D; subst. reflexivity.
  - destruct (counter s <? quota c); [|inversion D; subst; reflexivity].
    destruct (is_parked s (eid e)) eqn:P.
    + destruct (drain c now h' (release s (eid e) now)) as [s2 rel2] eqn:D2.
      inversion D; subst s2 rel. rewrite (IH _ _ _ _ D2). now apply is_unlocked_release.
    + eauto.
Qed.

Lemma lost_handoff_is_loss : forall c s now,
  HA s -> NoDup (map eid (heap s)) ->
  no_lost_handoff c (s, Tick now, fst (tick c s now)) = false ->
  exists e, In e (heap s) /\ is_unlocked s (eid e) = true /\
            is_unlocked (fst (tick c s now)) (eid e) = true /\
            ~ In e (heap (fst (tick c s now))).
Proof.
  intros c s now [S K N] NDh V. simpl in V.
  assert (X : exists e, In e (drops c now (heap (roll c s now)) (roll c s now)) /\
                        is_unlocked s (eid e) = true).
  { destruct (forallb _ _) eqn:E in V; [discriminate|]. clear V.
    induction (drops c now (heap (roll c s now)) (roll c s now)) as [|e t IH]; simpl in E; [discriminate|].
    destruct (is_unlocked s (eid e)) eqn:U; simpl in E.
    - exists e. split; [now left|exact U].
    - destruct (IH E) as [e' [A B]]. exists e'. split; [now right|exact B]. }
  destruct X as [e [I U]]. unfold tick.
  destruct (drain c now (heap (roll c s now)) (roll c s now)) as [s' rel] eqn:D. simpl.
  destruct (drops_popped _ _ _ _ _ _ D e I) as [Ih [pre [Hp Ip]]].
  rewrite roll_heap in Ih, Hp.
  exists e. splits; auto.
  - rewrite (drain_keeps_unlocked _ _ _ _ _ _ _ D). now rewrite is_unlocked_roll.
  - intro J. rewrite Hp, map_app in NDh.
    apply in_split in Ip. destruct Ip as [p1 [p2 Ep]]. subst pre.
    rewrite map_app in NDh. simpl in NDh. rewrite <- app_assoc in NDh. simpl in NDh.
    apply NoDup_remove_2 in NDh. apply NDh. apply in_or_app. right. apply in_or_app. right.
    now apply in_map.
Qed.

(* ------------------------------------------------------------------ *)
(* prefixes: nobody is passed over before the first finding             *)

Lemma trace_firstn : forall c n acts s, firstn n (trace c s acts) = trace c s (firstn n acts).
Proof.
  intros c n. induction n as [|n IH]; intros [|a rest] s; simpl; try reflexivity.
  now rewrite IH.
Qed.

Lemma trace_app : forall c a1 a2 s,
  trace c s (a1 ++ a2) = trace c s a1 ++ trace c (run c s a1) a2.
Proof.
  intros c a1. induction a1 as [|a rest IH]; intros a2 s; simpl; [reflexivity|]. now rewrite IH.
Qed.
