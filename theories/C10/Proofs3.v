(* C10 — lemmas, part 3: monotone clocks.  Grants are counted in the grid window
   that contains their instant; a waiter expires only after its TTL elapsed. *)
From Coq Require Import List ZArith Bool Lia.
From Verif Require Import C10.Model C10.Proofs C10.Proofs2.
Import ListNotations.
Open Scope Z_scope.

Lemma uend_mono : forall c a b, 0 < wsize c -> a <= b -> uend c a <= uend c b.
Proof.
  intros c a b W L. unfold uend.
  assert (a / wsize c <= b / wsize c) by (apply Z.div_le_mono; lia). nia.
Qed.

Lemma uend_window : forall c t, 0 < wsize c -> uend c t - wsize c <= t < uend c t.
Proof.
  intros c t W. unfold uend.
  pose proof (Z.div_mod t (wsize c)) as D. pose proof (Z.mod_pos_bound t (wsize c) W) as B.
  nia.
Qed.

Record AT (c : cfg) (s : st) (tl : Z) : Prop := {
  at_wend : wend s <= uend c tl;
  at_log : Forall (fun g => gwin g = uend c (gat g)) (log s);
  at_arr : forall r, In r (reqs s) -> arr r <= tl;
  at_dl : forall r, In r (reqs s) -> ph r = Parked -> arr r + ttl r <= dl r
}.

Lemma AT_init : forall c t0, AT c (init c t0) t0.
Proof. intros. constructor; simpl; try lia; try tauto. constructor. Qed.

Lemma roll_wend : forall c s tl now,
  0 < wsize c -> wend s <= uend c tl -> tl <= now -> wend (roll c s now) = uend c now.
Proof.
  intros c s tl now W A L. pose proof (uend_mono c tl now W L) as M.
  unfold roll, stale. destruct (wend s <? uend c now) eqn:E; simpl; [reflexivity|].
  apply Z.ltb_ge in E. lia.
Qed.

(* what a pass does to the request table *)
Lemma drain_reqs_rel : forall c now h s s' rel,
  drain c now h s = (s', rel) ->
  forall r', In r' (reqs s') ->
  exists r, In r (reqs s) /\ arr r' = arr r /\ ttl r' = ttl r /\ dl r' = dl r /\
            (ph r' = ph r \/ ph r' = Released).
Proof.
  intros c now h. induction h as [|e h' IH]; intros s s' rel D r' I; simpl in D.
  - inversion D; subst. exists r'. simpl in I. splits; auto.
  - destruct (counter s <? quota c).
    + destruct (is_parked s (eid e)).
      * destruct (drain c now h' (release s (eid e) now)) as [s2 rel2] eqn:D2.
        inversion D; subst s2 rel.
        destruct (IH _ _ _ D2 r' I) as [r1 [I1 [A [B [C P]]]]]. simpl in I1.
        apply In_upd_weak in I1. destruct I1 as [I1|[r0 [F0 E0]]].
        -- exists r1. splits; auto.
        -- subst r1. exists r0. simpl in *. split; [apply (find_In _ _ _ F0)|].
           splits; auto. destruct P as [P|P]; auto.
      * eauto.
    + inversion D; subst. exists r'. simpl in I. splits; auto.
Qed.

Lemma AT_exec : forall c s tl a,
  0 < wsize c -> AT c s tl -> tl <= act_now a -> AT c (exec c s a) (act_now a).
Proof.
  intros c s tl a W [A L R D] Le.
  assert (Keep : AT c s (act_now a)).
  { constructor; auto.
    - pose proof (uend_mono c tl (act_now a) W Le). lia.
    - intros r I. specialize (R r I). lia. }
  unfold exec, step.
  destruct a as [id p t l now|id now|now|id now|id now]; simpl in Le |- *.
  - destruct (find id (reqs s)); [exact Keep|].
    unfold enq_locked. pose proof (roll_wend c s tl now W A Le) as RW.
    set (s1 := roll c s now) in *.
    assert (R1 : reqs s1 = reqs s) by apply roll_reqs.
    assert (L1 : log s1 = log s) by apply roll_log.
    assert (AR : forall r0 : req, arr r0 = now -> ph r0 <> Parked ->
              (forall r, In r (reqs s ++ [r0]) -> arr r <= now) /\
              (forall r, In r (reqs s ++ [r0]) -> ph r = Parked -> arr r + ttl r <= dl r)).
    { intros r0 E NP. split; intros r I; apply in_app_or in I; destruct I as [I|[I|[]]].
      - specialize (R r I). lia.
      - subst. lia.
      - auto.
      - subst. tauto. }
    destruct (counter s1 <? quota c); [|destruct (qsize c <=? qcount (reqs s1))].
    + destruct (AR (new_req id p t l now Slot false (Some now)) eq_refl) as [X Y]; [discriminate|].
      constructor; simpl; rewrite ?R1, ?L1, ?RW; auto; try lia.
    + destruct (AR (new_req id p t l now Rejected false (Some now)) eq_refl) as [X Y]; [discriminate|].
      constructor; simpl; rewrite ?R1, ?L1, ?RW; auto; try lia.
    + destruct (AR (new_req id p t l now Unlocked true None) eq_refl) as [X Y]; [discriminate|].
      constructor; simpl; rewrite ?R1, ?L1, ?RW; auto; try lia.
  - destruct (find id (reqs s)) as [r|] eqn:Fd; [|exact Keep].
    destruct (phase_eqb (ph r) Unlocked); [|exact Keep].
    destruct Keep as [A' L' R' D']. cbn [act_now] in *. constructor; simpl; auto.
    + intros r1 I. apply In_upd_weak in I. destruct I as [I|[r0 [F0 E0]]]; [auto|].
      subst r1. simpl. apply R'. apply (find_In _ _ _ F0).
    + intros r1 I P. apply In_upd_weak in I. destruct I as [I|[r0 [F0 E0]]]; [auto|].
      subst r1. simpl. specialize (R' r0 (proj1 (find_In _ _ _ F0))). lia.
  - unfold tick. pose proof (roll_wend c s tl now W A Le) as RW.
    set (s1 := roll c s now) in *.
    assert (R1 : reqs s1 = reqs s) by apply roll_reqs.
    assert (L1 : log s1 = log s) by apply roll_log.
    destruct (drain c now (heap s1) s1) as [s' rel] eqn:Dr. simpl.
    destruct (drain_all _ _ _ _ _ _ Dr) as (_ & _ & Wd & Lg & _).
    pose proof (drain_reqs_rel _ _ _ _ _ _ Dr) as RR. rewrite R1 in RR.
    constructor.
    + rewrite Wd, RW. lia.
    + rewrite Lg, L1. apply Forall_app. split; [|exact L].
      apply Forall_rev. apply Forall_forall. intros g I. apply in_map_iff in I.
      destruct I as [e [E _]]. subst g. unfold gwin, gat. simpl. exact RW.
    + intros r' I. destruct (RR r' I) as [r [Ir [E1 _]]]. specialize (R r Ir). lia.
    + intros r' I P. destruct (RR r' I) as [r [Ir [E1 [E2 [E3 [E4|E4]]]]]].
      * rewrite E1, E2, E3. apply D; [exact Ir|congruence].
      * congruence.
  - destruct (find id (reqs s)) as [r|] eqn:Fd; [|exact Keep].
    destruct (phase_eqb (ph r) Parked && (dl r <=? now)); [|exact Keep].
    destruct Keep as [A' L' R' D']. cbn [act_now] in *. constructor; simpl; auto.
    + intros r1 I. apply In_upd_weak in I. destruct I as [I|[r0 [F0 E0]]]; [auto|].
      subst r1. simpl. apply R'. apply (find_In _ _ _ F0).
    + intros r1 I P. apply In_upd_weak in I. destruct I as [I|[r0 [F0 E0]]]; [auto|].
      subst r1. simpl in P. discriminate.
  - destruct (find id (reqs s)) as [r|] eqn:Fd; [|exact Keep].
    destruct ((phase_eqb (ph r) Released || phase_eqb (ph r) Expired) && counted r); [|exact Keep].
    destruct Keep as [A' L' R' D']. cbn [act_now] in *. constructor; simpl; auto.
    + intros r1 I. apply In_upd_weak in I. destruct I as [I|[r0 [F0 E0]]]; [auto|].
      subst r1. simpl. apply R'. apply (find_In _ _ _ F0).
    + intros r1 I P. apply In_upd_weak in I. destruct I as [I|[r0 [F0 E0]]]; [auto|].
      subst r1. simpl in *. apply D'; [apply (find_In _ _ _ F0)|exact P].
Qed.

Lemma AT_run : forall c acts s tl,
  0 < wsize c -> monotone tl acts = true -> AT c s tl ->
  exists tl', AT c (run c s acts) tl'.
Proof.
  intros c acts. induction acts as [|a rest IH]; intros s tl W M A; simpl in *.
  - eauto.
  - apply andb_prop in M. destruct M as [M1 M2]. apply Z.leb_le in M1.
    eapply IH; eauto. eapply AT_exec; eauto.
Qed.

(* a waiter expires only after its TTL, counted from its arrival, elapsed *)
Lemma expires_after_ttl : forall c acts s tl,
  0 < wsize c -> monotone tl acts = true -> AT c s tl ->
  Forall (fun tr => forall id, expires tr id = true ->
            exists r, find id (reqs (fst (fst tr))) = Some r /\
                      arr r + ttl r <= act_now (snd (fst tr)))
         (trace c s acts).
Proof.
  intros c acts. induction acts as [|a rest IH]; intros s tl W M A; simpl in *; constructor.
  - simpl. intros id E. unfold expires in E.
    destruct a as [| | |id' now|]; try discriminate.
    apply andb_prop in E. destruct E as [E PE].
    apply andb_prop in E. destruct E as [E Lv]. apply Z.eqb_eq in E. subst id'.
    apply live_in_true in Lv. destruct Lv as [r [Fd Lr]].
    exists r. split; [exact Fd|]. simpl.
    unfold exec, step in PE. rewrite Fd in PE.
    destruct (phase_eqb (ph r) Parked && (dl r <=? now)) eqn:En.
    + apply andb_prop in En. destruct En as [P Dl]. apply phase_eqb_eq in P. apply Z.leb_le in Dl.
      destruct A as [_ _ _ D]. specialize (D r (proj1 (find_In _ _ _ Fd)) P). lia.
    + exfalso. unfold phase_of in PE. rewrite Fd in PE. unfold live in Lr.
      destruct (ph r); discriminate.
  - apply andb_prop in M. destruct M as [M1 M2]. apply Z.leb_le in M1.
    eapply IH; eauto. eapply AT_exec; eauto.
Qed.

(* releases counted by the instant at which they were granted *)
Definition count_at (c : cfg) (w : Z) (l : list grant) : Z :=
  Z.of_nat (length (filter (fun g => uend c (gat g) =? w) l)).

Lemma count_at_win : forall c w l,
  Forall (fun g => gwin g = uend c (gat g)) l -> count_at c w l = count_win w l.
Proof.
  intros c w l F. unfold count_at, count_win. induction F as [|g t E F IH]; simpl; [reflexivity|].
  rewrite <- E. destruct (gwin g =? w); simpl length; lia.
Qed.
