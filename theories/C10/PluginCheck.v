(* C10 — the side condition of C10_plugin_holds_outside_findings_decidable,
   evaluated on the histories suite plugin executes (suite [plugin_outside]:
   the same cases as suite plugin).  Definitions only.

   [run_plugin_outside] answers None when [outsideb] holds for every remedy key
   of the case, i.e. the executed plugin history contains neither an F-C10
   (lost hand-off) nor an F-C10b (barging) event in any queue instance;
   otherwise the keys for which it fails, with the located events
   ([sched_findings]: step in the computed schedule, no_lost_handoff,
   no_barging). *)
From Coq Require Import List ZArith Bool.
From Verif Require Import C10.Model C10.Sized C10.Plugin C10.PluginLift C10.PluginSched C10.Scrape.
Import ListNotations.
Open Scope Z_scope.

Definition outside_report (acts : list paction) (k : qkey) : list (qkey * list (list (nat * bool * bool))) :=
  if outsideb code_ttl code_variant k acts then []
  else [(k, map (sched_findings k) (psched code_ttl code_variant k acts))].

Definition run_plugin_outside (k : case_mplugin)
  : option (list (qkey * list (list (nat * bool * bool)))) :=
  let '(tbl, cacts, _, _) := k in
  match mexpand_all tbl cacts with
  | None => Some []
  | Some macts =>
      match flat_map (outside_report (strip macts)) (map fst tbl) with
      | [] => None
      | bad => Some bad
      end
  end.
