(* C10 — lemmas, part 5: what a pass releases (positive form).

   On every schedule a pass hands its free slots to the FIRST parked entries of
   the heap, in heap order: rel = firstn (quota - counter) (parked entries).
   Consequences: the best parked waiter whose entry is in the heap is released
   by every pass that has a slot; no pass serves a worse request while a better
   parked one is in the heap. *)
From Coq Require Import List ZArith Bool Lia Sorting.Sorted.
From Verif Require Import C10.Model C10.Proofs C10.Proofs2 C10.Exact.
Import ListNotations.
Open Scope Z_scope.

(* ------------------------------------------------------------------ *)
(* heap entries carry distinct request ids                              *)

Definition HN (s : st) : Prop := NoDup (map eid (heap s)).

Lemma NoDup_insert : forall x h,
  NoDup (map eid h) -> ~ In (eid x) (map eid h) -> NoDup (map eid (insert x h)).
Proof.
  intros x h. induction h as [|y t IH]; simpl; intros N NI.
  - constructor; [tauto|constructor].
  - destruct (key_ltb (ekey x) (ekey y)); simpl.
    + constructor; [exact NI|exact N].
    + inversion N as [|? ? Ny Nt]; subst. constructor.
      * intro I. apply in_map_iff in I. destruct I as [z [Ez Iz]].
        apply In_insert in Iz. destruct Iz as [Iz|Iz].
        -- subst z. apply NI. left. auto.
        -- apply Ny. rewrite <- Ez. now apply in_map.
      * apply IH; [exact Nt|]. intro I. apply NI. now right.
Qed.

Lemma NoDup_app_r : forall (A : Type) (l1 l2 : list A), NoDup (l1 ++ l2) -> NoDup l2.
Proof.
  intros A l1. induction l1 as [|x t IH]; simpl; intros l2 N; [exact N|].
  inversion N; subst. auto.
Qed.

Lemma HN_init : forall c t0, HN (init c t0).
Proof. intros. unfold HN. simpl. constructor. Qed.

Lemma HN_exec : forall c s a, HA s -> HN s -> HN (exec c s a).
Proof.
  intros c s a [S K N] H. unfold exec, step.
  destruct a as [id p t l now|id now|now|id now|id now].
  - destruct (find id (reqs s)) eqn:Fd; [exact H|].
    unfold HN, enq_locked. set (s1 := roll c s now).
    assert (H1 : heap s1 = heap s) by apply roll_heap.
    destruct (counter s1 <? quota c); [|destruct (qsize c <=? qcount (reqs s1))];
      simpl; rewrite ?H1; auto.
    apply NoDup_insert; [exact H|]. simpl. intro I. apply in_map_iff in I.
    destruct I as [e [Ee Ie]]. destruct (K e Ie) as [r [Fr _]]. rewrite Ee in Fr. congruence.
  - destruct (find id (reqs s)) as [r|]; [|exact H].
    destruct (phase_eqb (ph r) Unlocked); exact H.
  - unfold HN, tick. set (s1 := roll c s now).
    assert (H1 : heap s1 = heap s) by apply roll_heap.
    destruct (drain c now (heap s1) s1) as [s' rel] eqn:D. simpl.
    destruct (drain_all _ _ _ _ _ _ D) as ((pre & A) & _).
    rewrite H1 in A. unfold HN in H. rewrite A, map_app in H. eapply NoDup_app_r; eauto.
  - destruct (find id (reqs s)) as [r|]; [|exact H].
    destruct (phase_eqb (ph r) Parked && (dl r <=? now)); exact H.
  - destruct (find id (reqs s)) as [r|]; [|exact H].
    destruct ((phase_eqb (ph r) Released || phase_eqb (ph r) Expired) && counted r); exact H.
Qed.

Lemma HAN_run : forall c acts s, HA s -> HN s -> HA (run c s acts) /\ HN (run c s acts).
Proof.
  intros c acts. induction acts as [|a rest IH]; intros s H N; simpl; [auto|].
  apply IH; [now apply HA_exec|now apply HN_exec].
Qed.

(* ------------------------------------------------------------------ *)
(* processQueueItems = the first free-slots parked entries              *)

Lemma drain_firstn : forall c now h s s' rel,
  drain c now h s = (s', rel) -> NoDup (map eid h) ->
  rel = firstn (Z.to_nat (quota c - counter s)) (filter (fun e => is_parked s (eid e)) h).
Proof.
  intros c now h. induction h as [|e h' IH]; intros s s' rel D N; simpl in D.
  - inversion D; subst. now rewrite firstn_nil.
  - inversion N as [|? ? Ne Nh]; subst.
    destruct (counter s <? quota c) eqn:CQ.
    + apply Z.ltb_lt in CQ. simpl. destruct (is_parked s (eid e)) eqn:P.
      * destruct (drain c now h' (release s (eid e) now)) as [s2 rel2] eqn:D2.
        inversion D; subst s2 rel. rewrite (IH _ _ _ D2 Nh).
        replace (Z.to_nat (quota c - counter s))
          with (S (Z.to_nat (quota c - counter (release s (eid e) now)))) by (simpl; lia).
        simpl. f_equal. f_equal. apply filter_ext_in. intros a Ia.
        apply is_parked_release_other. intro E. apply Ne. rewrite <- E. now apply in_map.
      * eauto.
    + apply Z.ltb_ge in CQ. inversion D; subst.
      replace (Z.to_nat (quota c - counter s)) with 0%nat by lia. reflexivity.
Qed.

Lemma is_parked_roll : forall c s now x, is_parked (roll c s now) x = is_parked s x.
Proof. intros. unfold is_parked. now rewrite roll_reqs. Qed.

Lemma tick_firstn : forall c s now,
  HN s -> snd (tick c s now) = firstn (free_slots c s now) (parked_entries s).
Proof.
  intros c s now N. unfold tick, free_slots, parked_entries. set (s1 := roll c s now).
  destruct (drain c now (heap s1) s1) as [s' rel] eqn:D. simpl.
  rewrite (drain_firstn _ _ _ _ _ _ D) by (unfold s1; rewrite roll_heap; exact N).
  unfold s1. rewrite roll_heap. f_equal. apply filter_ext. intro a. apply is_parked_roll.
Qed.

(* ------------------------------------------------------------------ *)
(* sorted lists                                                         *)

Lemma SS_filter : forall (f : entry -> bool) l, StronglySorted kle l -> StronglySorted kle (filter f l).
Proof.
  intros f l S. induction S as [|x t S IH F]; simpl; [constructor|].
  destruct (f x); [|exact IH]. constructor; [exact IH|].
  rewrite Forall_forall in *. intros y I. apply filter_In in I. apply F. tauto.
Qed.

Lemma SS_app_le : forall (l1 l2 : list entry) a b,
  StronglySorted kle (l1 ++ l2) -> In a l1 -> In b l2 -> kle a b.
Proof.
  induction l1 as [|x t IH]; simpl; intros l2 a b S Ia Ib; [tauto|].
  apply StronglySorted_inv in S. destruct S as [S F]. destruct Ia as [Ia|Ia].
  - subst x. rewrite Forall_forall in F. apply F. apply in_or_app. now right.
  - eapply IH; eauto.
Qed.

(* in a sorted list, whatever is strictly better than a member of the first n
   elements is itself among the first n *)
Lemma firstn_better : forall n (l : list entry) a b,
  StronglySorted kle l -> In a (firstn n l) -> In b l ->
  key_ltb (ekey b) (ekey a) = true -> In b (firstn n l).
Proof.
  intros n l a b S Ia Ib Lt. rewrite <- (firstn_skipn n l) in Ib, S.
  apply in_app_or in Ib. destruct Ib as [Ib|Ib]; [exact Ib|exfalso].
  pose proof (SS_app_le _ _ _ _ S Ia Ib) as K. unfold kle in K. congruence.
Qed.

(* ------------------------------------------------------------------ *)
(* the pass, positively                                                 *)

Lemma entry_eq : forall (e : entry) r, eid e = rid r -> ekey e = rkey r -> e = entry_of r.
Proof.
  intros [[p t] i] r E K. unfold eid, ekey, rkey, entry_of in *. simpl in *. congruence.
Qed.

Lemma parked_entry_In : forall s r,
  NoDup (map rid (reqs s)) -> In r (reqs s) -> ph r = Parked -> In (entry_of r) (heap s) ->
  In (entry_of r) (parked_entries s).
Proof.
  intros s r ND I P Ih. unfold parked_entries. apply filter_In. split; [exact Ih|].
  unfold is_parked, eid, entry_of. simpl. rewrite (In_find _ _ ND I), P. reflexivity.
Qed.

Lemma parked_entries_spec : forall s e, HA s -> In e (parked_entries s) ->
  exists r, In r (reqs s) /\ ph r = Parked /\ e = entry_of r /\ In e (heap s).
Proof.
  intros s e [S K N] I. unfold parked_entries in I. apply filter_In in I. destruct I as [Ih P].
  destruct (K e Ih) as [r [Fr Er]]. unfold is_parked in P. rewrite Fr in P.
  apply phase_eqb_eq in P. destruct (find_In _ _ _ Fr) as [Ir Eid].
  exists r. splits; auto. apply entry_eq; auto.
Qed.

Lemma req_eq_dec : forall a b : req, {a = b} + {a <> b}.
Proof. repeat decide equality. Qed.

(* every signalled entry is Released afterwards *)
Lemma tick_rel_released : forall c s now e,
  HA s -> In e (snd (tick c s now)) -> phase_of (fst (tick c s now)) (eid e) = Some Released.
Proof.
  intros c s now e H I. pose proof (tick_order c s now H) as T. cbv zeta in T.
  destruct T as (_ & _ & R). destruct (R e I) as [r (_ & _ & _ & P)]. exact P.
Qed.

(* All schedules.  A pass that has at least one slot to give (a new window
   with quota > 0, or quota left in the current one) releases the parked
   request of strictly best (priority, arrival) among the parked requests whose
   entry is in the heap. *)
Lemma tick_releases_best : forall c s now r,
  HA s -> HN s ->
  counter (roll c s now) < quota c ->
  In r (reqs s) -> ph r = Parked -> In (entry_of r) (heap s) ->
  (forall r', In r' (reqs s) -> ph r' = Parked -> In (entry_of r') (heap s) -> r' <> r ->
              key_ltb (rkey r) (rkey r') = true) ->
  In (entry_of r) (snd (tick c s now)) /\
  phase_of (fst (tick c s now)) (rid r) = Some Released.
Proof.
  intros c s now r H N Q I P Ih Best.
  assert (Irel : In (entry_of r) (snd (tick c s now))).
  { rewrite (tick_firstn c s now N).
    pose proof (parked_entry_In s r (ha_nodup _ H) I P Ih) as IF.
    assert (SF : StronglySorted kle (parked_entries s))
      by (apply SS_filter; apply (ha_sorted _ H)).
    unfold free_slots. destruct (Z.to_nat (quota c - counter (roll c s now))) as [|k] eqn:E; [lia|].
    destruct (parked_entries s) as [|f1 rest] eqn:EF; [destruct IF|].
    simpl. destruct IF as [IF|IF]; [now left|]. left.
    assert (I1 : In f1 (parked_entries s)) by (rewrite EF; now left).
    destruct (parked_entries_spec s f1 H I1) as [r1 (Ir1 & P1 & E1 & Ih1)].
    destruct (req_eq_dec r1 r) as [Eq|Ne]; [subst r1; exact E1|exfalso].
    rewrite E1 in Ih1. pose proof (Best r1 Ir1 P1 Ih1 Ne) as Lt.
    apply StronglySorted_inv in SF. destruct SF as [_ FF]. rewrite Forall_forall in FF.
    specialize (FF _ IF). unfold kle in FF. rewrite E1 in FF.
    unfold ekey, entry_of in FF. simpl in FF. unfold rkey in Lt. congruence. }
  split; [exact Irel|]. apply (tick_rel_released c s now (entry_of r) H Irel).
Qed.

(* All schedules.  A pass never serves a request while a parked request of
   strictly better (priority, arrival) whose entry is in the heap is left
   behind: whoever is better than a released one is released too. *)
Lemma tick_no_worse_first : forall c s now e e',
  HA s -> HN s ->
  In e (snd (tick c s now)) -> In e' (parked_entries s) ->
  key_ltb (ekey e') (ekey e) = true ->
  In e' (snd (tick c s now)) /\ phase_of (fst (tick c s now)) (eid e') = Some Released.
Proof.
  intros c s now e e' H N I I' Lt.
  assert (Irel : In e' (snd (tick c s now))).
  { rewrite (tick_firstn c s now N) in *.
    eapply firstn_better; eauto. apply SS_filter. apply (ha_sorted _ H). }
  split; [exact Irel|]. now apply tick_rel_released.
Qed.

(* the number of requests a pass releases *)
Lemma tick_count : forall c s now,
  HN s -> length (snd (tick c s now)) = Nat.min (free_slots c s now) (length (parked_entries s)).
Proof. intros c s now N. rewrite (tick_firstn c s now N). apply firstn_length. Qed.
