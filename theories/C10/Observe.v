(* C10 — no_lost_handoff, as seen from outside.

   The monitor cannot look into the heap.  What it sees of a pass: which
   waiters were between Unlock and select meanwhile, who was released, how much
   quota of the window is used afterwards.  [lost_observed] (Model.v) is that
   view; here: on reachable states with distinct heap keys it is exactly the
   negation of [no_lost_handoff]. *)
From Coq Require Import List ZArith Bool Lia Sorting.Sorted.
From Verif Require Import C10.Model C10.Proofs C10.Proofs2 C10.Exact C10.Release.
Import ListNotations.
Open Scope Z_scope.

Definition DK (s : st) : Prop := NoDup (map ekey (heap s)).

(* ------------------------------------------------------------------ *)
(* more facts about processQueueItems                                   *)

Lemma drain_partition : forall c now h s s' rel,
  drain c now h s = (s', rel) ->
  forall e, In e h -> In e (drops c now h s) \/ In e rel \/ In e (heap s').
Proof.
  intros c now h. induction h as [|e0 h' IH]; intros s s' rel D e I; simpl in *; [tauto|].
  destruct (counter s <? quota c).
  - destruct (is_parked s (eid e0)).
    + destruct (drain c now h' (release s (eid e0) now)) as [s2 rel2] eqn:D2.
      inversion D; subst s2 rel. destruct I as [I|I]; [subst; right; left; now left|].
      destruct (IH _ _ _ D2 e I) as [A|[A|A]]; auto. right. left. now right.
    + destruct I as [I|I]; [subst; left; now left|].
      destruct (IH _ _ _ D e I) as [A|[A|A]]; auto. left. now right.
  - inversion D; subst. simpl. auto.
Qed.

Lemma drain_end : forall c now h s s' rel,
  drain c now h s = (s', rel) -> quota c <= counter s' \/ heap s' = [].
Proof.
  intros c now h. induction h as [|e0 h' IH]; intros s s' rel D; simpl in D.
  - inversion D; subst. now right.
  - destruct (counter s <? quota c) eqn:CQ.
    + destruct (is_parked s (eid e0)); [|eauto].
      destruct (drain c now h' (release s (eid e0) now)) as [s2 rel2] eqn:D2.
      inversion D; subst s2 rel. eauto.
    + apply Z.ltb_ge in CQ. inversion D; subst. simpl. now left.
Qed.

Lemma drain_counter : forall c now h s s' rel,
  drain c now h s = (s', rel) -> counter s' = counter s + Z.of_nat (length rel).
Proof.
  intros c now h. induction h as [|e0 h' IH]; intros s s' rel D; simpl in D.
  - inversion D; subst. simpl. lia.
  - destruct (counter s <? quota c).
    + destruct (is_parked s (eid e0)); [|eauto].
      destruct (drain c now h' (release s (eid e0) now)) as [s2 rel2] eqn:D2.
      inversion D; subst s2 rel. rewrite (IH _ _ _ D2). simpl counter. simpl length. lia.
    + inversion D; subst. simpl. lia.
Qed.

(* an entry that was popped without a receiver although the pass ended with the
   quota used: somebody behind it in the heap was released *)
Lemma drops_then_released : forall c now h s s' rel e,
  drain c now h s = (s', rel) -> In e (drops c now h s) -> quota c <= counter s' ->
  exists pre x post, h = pre ++ e :: post /\ In x post /\ In x rel.
Proof.
  intros c now h. induction h as [|e0 h' IH]; intros s s' rel e D I Q; simpl in *; [tauto|].
  destruct (counter s <? quota c) eqn:CQ; [|simpl in I; tauto].
  destruct (is_parked s (eid e0)).
  - destruct (drain c now h' (release s (eid e0) now)) as [s2 rel2] eqn:D2.
    inversion D; subst s2 rel.
    destruct (IH _ _ _ _ D2 I Q) as [pre [x [post [E [Ix Ir]]]]].
    exists (e0 :: pre), x, post. simpl. rewrite E. splits; auto.
  - simpl in I. destruct I as [I|I].
    + subst e0. apply Z.ltb_lt in CQ.
      pose proof (drain_counter _ _ _ _ _ _ D) as Cn.
      destruct rel as [|x rel']; [simpl in Cn; lia|].
      destruct (drain_all _ _ _ _ _ _ D) as (_ & _ & _ & _ & Fi & _).
      inversion Fi; subst. exists [], x, h'. simpl. splits; auto.
    + destruct (IH _ _ _ _ D I Q) as [pre [x [post [E [Ix Ir]]]]].
      exists (e0 :: pre), x, post. simpl. rewrite E. splits; auto.
Qed.

(* a request becomes Released in a pass only by being signalled *)
Lemma drain_released_in_rel : forall c now h s s' rel id,
  drain c now h s = (s', rel) -> phase_of s' id = Some Released ->
  phase_of s id = Some Released \/ In id (map eid rel).
Proof.
  intros c now h. induction h as [|e0 h' IH]; intros s s' rel id D P; simpl in D.
  - inversion D; subst. now left.
  - destruct (counter s <? quota c); [|inversion D; subst; now left].
    destruct (is_parked s (eid e0)); [|eauto].
    destruct (drain c now h' (release s (eid e0) now)) as [s2 rel2] eqn:D2.
    inversion D; subst s2 rel. destruct (IH _ _ _ _ D2 P) as [A|A]; [|right; simpl; now right].
    destruct (Z.eq_dec id (eid e0)) as [E|E]; [right; simpl; now left|].
    left. unfold phase_of, release in A. simpl in A.
    rewrite find_upd_other in A by (auto using fpres_set_ph). exact A.
Qed.

(* the signalled entries are among the popped ones *)
Lemma drain_rel_popped : forall c now h s s' rel,
  drain c now h s = (s', rel) ->
  exists pp, h = pp ++ heap s' /\ forall y, In y rel -> In y pp.
Proof.
  intros c now h. induction h as [|y h IH]; intros s s' rel D; simpl in D.
  - inversion D; subst. exists []. simpl. split; [reflexivity|tauto].
  - destruct (counter s <? quota c).
    + destruct (is_parked s (eid y)).
      * destruct (drain c now h (release s (eid y) now)) as [s3 r3] eqn:D3.
        inversion D; subst s3 rel. destruct (IH _ _ _ D3) as [pp [Ep Hp]].
        exists (y :: pp). simpl. split; [now rewrite Ep|].
        intros z [Z|Z]; [now left|right; auto].
      * destruct (IH _ _ _ D) as [pp [Ep Hp]].
        exists (y :: pp). simpl. split; [now rewrite Ep|]. intros z Z. right. auto.
    + inversion D; subst. exists []. simpl. split; [reflexivity|tauto].
Qed.

Lemma key_ltb_total : forall a b : Z * Z, a <> b -> key_ltb a b = false -> key_ltb b a = true.
Proof.
  intros [a1 a2] [b1 b2] N F. apply key_ltb_false in F. apply key_ltb_spec. simpl in *.
  destruct F as [F|[F1 F2]]; [now left|]. right. split; [lia|].
  destruct (Z.eq_dec a2 b2); [exfalso; apply N; congruence|lia].
Qed.

Lemma nolost_false_witness : forall c s now s',
  no_lost_handoff c (s, Tick now, s') = false ->
  exists e, In e (drops c now (heap (roll c s now)) (roll c s now)) /\ is_unlocked s (eid e) = true.
Proof.
  intros c s now s' V. simpl in V.
  induction (drops c now (heap (roll c s now)) (roll c s now)) as [|e t IH]; simpl in V; [discriminate|].
  destruct (is_unlocked s (eid e)) eqn:U; simpl in V.
  - exists e. split; [now left|exact U].
  - destruct (IH V) as [e' [A B]]. exists e'. split; [now right|exact B].
Qed.

Lemma in_heap_true : forall s id, in_heap s id = true <-> exists e, In e (heap s) /\ eid e = id.
Proof.
  intros s id. unfold in_heap. rewrite existsb_exists. split; intros [e [I E]]; exists e;
    (split; [exact I|]); [now apply Z.eqb_eq|now apply Z.eqb_eq].
Qed.

(* ------------------------------------------------------------------ *)

Lemma lost_observed_iff : forall c s now,
  HA s -> DK s ->
  lost_observed c (s, Tick now, fst (tick c s now)) =
  negb (no_lost_handoff c (s, Tick now, fst (tick c s now))).
Proof.
  intros c s now [S K N] Dk.
  set (s1 := roll c s now).
  assert (R1 : reqs s1 = reqs s) by apply roll_reqs.
  assert (H1 : heap s1 = heap s) by apply roll_heap.
  destruct (drain c now (heap s1) s1) as [s' rel] eqn:D.
  assert (T : fst (tick c s now) = s') by (unfold tick; fold s1; now rewrite D).
  rewrite T.
  destruct (drain_all _ _ _ _ _ _ D) as ((pre & A) & B & _ & _ & Fi & _ & Pk & _ & Rl).
  rewrite H1 in A, Fi. rewrite R1 in B, Pk, Rl.
  (* a signalled entry belongs to a request that [released_by] recognises *)
  assert (RelReq : forall x, In x rel -> exists rx, In rx (reqs s) /\ rid rx = eid x /\
                     rkey rx = ekey x /\ released_by s s' rx = true).
  { intros x Ix. destruct (Pk x Ix) as [rx [Fx Px]]. rewrite Forall_forall in Fi.
    destruct (K x (Fi x Ix)) as [rx' [Fx' Ex]]. rewrite Fx in Fx'. inversion Fx'; subst rx'.
    destruct (find_In _ _ _ Fx) as [Irx Erx]. exists rx. splits; auto.
    unfold released_by, live. rewrite Px, Erx, (Rl N x Ix). reflexivity. }
  destruct (no_lost_handoff c (s, Tick now, s')) eqn:NL; simpl negb.
  - (* nothing unparked was popped: the observer sees nothing *)
    destruct (lost_observed c (s, Tick now, s')) eqn:LO; [exfalso|reflexivity].
    simpl in LO. apply existsb_exists in LO. destruct LO as [r [Ir Hr]].
    apply andb_prop in Hr. destruct Hr as [Hr Alt]. apply andb_prop in Hr. destruct Hr as [U Ih].
    apply phase_eqb_eq in U. apply in_heap_true in Ih. destruct Ih as [e [Ie Ee]].
    destruct (K e Ie) as [r' [Fr Er]]. rewrite Ee, (In_find _ _ N Ir) in Fr. inversion Fr; subst r'.
    assert (Ue : is_unlocked s (eid e) = true).
    { unfold is_unlocked. rewrite Ee, (In_find _ _ N Ir), U. reflexivity. }
    assert (Ie1 : In e (heap s1)) by (rewrite H1; exact Ie).
    destruct (drain_partition _ _ _ _ _ _ D e Ie1) as [Dr|[Re|He]].
    + simpl in NL. fold s1 in NL. rewrite forallb_forall in NL. specialize (NL e Dr).
      rewrite Ue in NL. discriminate.
    + destruct (Pk e Re) as [rr [Frr Prr]]. rewrite Ee, (In_find _ _ N Ir) in Frr.
      inversion Frr; subst rr. congruence.
    + apply orb_prop in Alt. destruct Alt as [Alt|Alt].
      * apply Z.ltb_lt in Alt. destruct (drain_end _ _ _ _ _ _ D) as [Q|Em]; [lia|].
        rewrite Em in He. destruct He.
      * apply existsb_exists in Alt. destruct Alt as [x [Ix Hx]].
        apply andb_prop in Hx. destruct Hx as [Rb Lt].
        unfold released_by in Rb. apply andb_prop in Rb. destruct Rb as [Lx Px].
        assert (PR : phase_of s' (rid x) = Some Released).
        { destruct (phase_of s' (rid x)) as [[]|]; try discriminate. reflexivity. }
        destruct (drain_released_in_rel _ _ _ _ _ _ _ D PR) as [Old|InR].
        -- unfold phase_of in Old. rewrite R1, (In_find _ _ N Ix) in Old.
           unfold live in Lx. destruct (ph x); inversion Old; discriminate.
        -- apply in_map_iff in InR. destruct InR as [ex [Eex Iex]].
           rewrite Forall_forall in Fi. pose proof (Fi ex Iex) as Ihx.
           destruct (K ex Ihx) as [rx' [Fx' Ekx]]. rewrite Eex, (In_find _ _ N Ix) in Fx'.
           inversion Fx'; subst rx'.
           (* ex was popped (it is in pre), e stayed: ex is before e in the sorted heap *)
           assert (Ipre : In ex pre).
           { destruct (drain_rel_popped _ _ _ _ _ _ D) as [pp [Epp Hpp]]. rewrite H1, A in Epp.
             apply app_inv_tail in Epp. subst pp. exact (Hpp ex Iex). }
           rewrite A in S. pose proof (SS_app_le _ _ _ _ S Ipre He) as Kl. unfold kle in Kl.
           rewrite Er, Ekx in Kl. congruence.
  - (* an unparked entry was popped: the observer sees it *)
    destruct (nolost_false_witness c s now s' NL) as [e [Idr Ue]]. fold s1 in Idr.
    destruct (drops_popped _ _ _ _ _ _ D e Idr) as [Ie _]. rewrite H1 in Ie.
    destruct (K e Ie) as [r [Fr Er]]. destruct (find_In _ _ _ Fr) as [Ir Eid].
    unfold is_unlocked in Ue. rewrite Fr in Ue.
    simpl. apply existsb_exists. exists r. split; [exact Ir|].
    rewrite Ue. simpl. replace (in_heap s (rid r)) with true
      by (symmetry; apply in_heap_true; exists e; auto). simpl.
    destruct (counter s' <? quota c) eqn:CQ; [reflexivity|]. apply Z.ltb_ge in CQ. simpl.
    destruct (drops_then_released _ _ _ _ _ _ _ D Idr CQ) as [p1 [x [p2 [Eh [Ix Irx]]]]].
    rewrite H1 in Eh. destruct (RelReq x Irx) as [rx [Irxs [_ [Kx Rb]]]].
    apply existsb_exists. exists rx. split; [exact Irxs|]. rewrite Rb. cbn [andb].
    assert (Ne : ekey x <> ekey e).
    { unfold DK in Dk. rewrite Eh, map_app in Dk. simpl in Dk. apply NoDup_remove_2 in Dk.
      intro Eq. apply Dk. apply in_or_app. right. rewrite <- Eq. now apply in_map. }
    assert (Le : key_ltb (ekey x) (ekey e) = false).
    { rewrite Eh in S. apply SS_suffix in S. apply StronglySorted_inv in S. destruct S as [_ Fs].
      rewrite Forall_forall in Fs. exact (Fs x Ix). }
    rewrite Kx, <- Er. exact (key_ltb_total (ekey x) (ekey e) Ne Le).
Qed.
