(* C10 — the meaning of the two calls of in_memory_delayed_priority_queue.go the source
   translator /verif/gotocoq does not look into (intrinsics of gotocoq/C10.json; trusted,
   listed in props/C10.json).  Definitions only.

   heap_push_by: container/heap.Push(&dpq.queue, req) with PriorityQueue.{Len, Swap, Push}.
   The binary heap is not modelled: the queue is the LIST OF ITS ENTRIES IN THE ORDER
   heap.Pop WOULD DELIVER THEM; Push is the insertion in front of the first entry the new
   one is less than (behind the entries it is not less than: ties between equal keys are not
   fixed by the code).  The comparison [lt] is supplied by the configuration: the
   TRANSLATED PriorityQueue.Less applied to the two entries.

   counts_total: dpq.totalQueueCount(), a `range` over the map requestCounts that sums the
   values (the order of a map range does not matter for a sum). *)
From Coq Require Import List ZArith Bool.
Import ListNotations.
Open Scope Z_scope.

Fixpoint heap_push_by {A : Type} (lt : A -> A -> bool) (h : list A) (x : A) : list A :=
  match h with
  | [] => [x]
  | y :: t => if lt x y then x :: y :: t else y :: heap_push_by lt t x
  end.

Definition counts_total (m : list (Z * Z)) : Z :=
  fold_right (fun kv a => snd kv + a) 0 m.
