(* C10 — lemmas about metrics reads (Scrape.v): the read-only callback is a
   stutter step of the plugin model. *)
From Coq Require Import List ZArith Bool Lia.
From Verif Require Import C10.Model C10.Plugin C10.PluginProofs C10.Scrape.
Import ListNotations.
Open Scope Z_scope.

Lemma kscrape_map_readonly : forall l : list (qkey * kst),
  map (fun e : qkey * kst => (fst e, kscrape ReadOnly (snd e))) l = l.
Proof.
  induction l as [|[k ks] t IH]; [reflexivity|]. simpl. f_equal. exact IH.
Qed.

Lemma pscrape_readonly : forall s, pscrape ReadOnly s = s.
Proof.
  intros [ks nc]. unfold pscrape. cbn [keys noconf]. now rewrite kscrape_map_readonly.
Qed.

Lemma gauge_sum_nonneg : forall l, 0 <= gauge_sum l.
Proof.
  induction l as [|[k ks] t IH]; simpl; [lia|].
  unfold kgauge. destruct (cur ks) as [h|]; [|lia].
  destruct (nth_error (insts ks) h) as [s|]; [|lia].
  unfold qcount. lia.
Qed.

Lemma drop_scrapes_nil : forall acts, drop_scrapes acts [] = [].
Proof. intros [|a rest]; reflexivity. Qed.

Section S.
Variable tv : ttl_variant.

Lemma mexec_scrape_readonly : forall v s now, mexec tv ReadOnly v s (MScrape now) = s.
Proof. intros. unfold mexec. simpl. apply pscrape_readonly. Qed.

Lemma mrun_readonly : forall v acts s,
  mrun tv ReadOnly v s acts = prun tv v s (strip acts).
Proof.
  intros v acts. induction acts as [|a rest IH]; intro s; [reflexivity|].
  unfold mrun, prun in *. destruct a as [a|now]; simpl.
  - rewrite IH. reflexivity.
  - rewrite mexec_scrape_readonly. apply IH.
Qed.

Lemma mrun_obs_readonly : forall v acts s,
  prun_obs tv v s (strip acts) =
  (drop_scrapes acts (fst (mrun_obs tv ReadOnly v s acts)), snd (mrun_obs tv ReadOnly v s acts)).
Proof.
  intros v acts. induction acts as [|a rest IH]; intro s; [reflexivity|].
  destruct a as [a|now]; simpl.
  - destruct (pstep tv v s a) as [s'|]; [|simpl; now rewrite drop_scrapes_nil].
    rewrite (IH s'). destruct (mrun_obs tv ReadOnly v s' rest) as [l sf]. reflexivity.
  - rewrite pscrape_readonly, (IH s).
    destruct (mrun_obs tv ReadOnly v s rest) as [l sf]. reflexivity.
Qed.

(* the value a metrics read reports is never the sentinel *)
Lemma gauge_total_nonneg : forall s, 0 <= gauge_total s.
Proof. intro s. apply gauge_sum_nonneg. Qed.

End S.
