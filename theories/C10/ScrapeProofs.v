(* C10 — lemmas about metrics reads (Scrape.v): the read-only callback is a
   stutter step of the plugin model. *)
From Coq Require Import List ZArith Bool Lia.
From Verif Require Import C10.Model C10.Plugin C10.PluginProofs C10.Bridge C10.Scrape.
Import ListNotations.
Open Scope Z_scope.

Lemma kscrape_map_readonly : forall l : list (qkey * kst),
  map (fun e : qkey * kst => (fst e, kscrape ReadOnly (snd e))) l = l.
Proof.
  induction l as [|[k ks] t IH]; [reflexivity|]. simpl. f_equal. exact IH.
Qed.

Lemma pscrape_readonly : forall s, pscrape ReadOnly s = s.
Proof.
  intros [ks nc]. unfold pscrape. cbn [keys noconf]. now rewrite kscrape_map_readonly.
Qed.

Lemma gauge_sum_nonneg : forall l, 0 <= gauge_sum l.
Proof.
  induction l as [|[k ks] t IH]; simpl; [lia|].
  unfold kgauge. destruct (cur ks) as [h|]; [|lia].
  destruct (nth_error (insts ks) h) as [s|]; [|lia].
  unfold qcount. lia.
Qed.

Lemma drop_scrapes_nil : forall acts, drop_scrapes acts [] = [].
Proof. intros [|a rest]; reflexivity. Qed.

Section S.
Variable tv : ttl_variant.

Lemma mexec_scrape_readonly : forall v s now, mexec tv ReadOnly v s (MScrape now) = s.
Proof. intros. unfold mexec. simpl. apply pscrape_readonly. Qed.

Lemma mrun_readonly : forall v acts s,
  mrun tv ReadOnly v s acts = prun tv v s (strip acts).
Proof.
  intros v acts. induction acts as [|a rest IH]; intro s; [reflexivity|].
  unfold mrun, prun in *. destruct a as [a|now]; simpl.
  - rewrite IH. reflexivity.
  - rewrite mexec_scrape_readonly. apply IH.
Qed.

Lemma mrun_obs_readonly : forall v acts s,
  prun_obs tv v s (strip acts) =
  (drop_scrapes acts (fst (mrun_obs tv ReadOnly v s acts)), snd (mrun_obs tv ReadOnly v s acts)).
Proof.
  intros v acts. induction acts as [|a rest IH]; intro s; [reflexivity|].
  destruct a as [a|now]; simpl.
  - destruct (pstep tv v s a) as [s'|]; [|simpl; now rewrite drop_scrapes_nil].
    rewrite (IH s'). destruct (mrun_obs tv ReadOnly v s' rest) as [l sf]. reflexivity.
  - rewrite pscrape_readonly, (IH s).
    destruct (mrun_obs tv ReadOnly v s rest) as [l sf]. reflexivity.
Qed.

(* the value a metrics read reports is never the sentinel *)
Lemma gauge_total_nonneg : forall s, 0 <= gauge_total s.
Proof. intro s. apply gauge_sum_nonneg. Qed.

End S.

(* ---- what an accepted case of suite plugin says (the suite evaluates
   [run_mplugin]: histories with metrics reads) ---- *)

Lemma mexpand_all_strip : forall tbl l macts,
  mexpand_all tbl l = Some macts ->
  expand_all tbl (cstrip l) = Some (strip macts).
Proof.
  intros tbl l. induction l as [|a t IH]; intros macts H; simpl in H.
  - inversion H; subst. reflexivity.
  - destruct a as [a|now].
    + destruct (expand tbl a) as [x|] eqn:X; [|discriminate].
      destruct (mexpand_all tbl t) as [r|]; [|discriminate].
      inversion H; subst. simpl. rewrite X, (IH r eq_refl). reflexivity.
    + destruct (mexpand_all tbl t) as [r|]; [|discriminate].
      inversion H; subst. simpl. exact (IH r eq_refl).
Qed.

Lemma drop_scrapes_incl : forall cs acts x, In x (drop_scrapes acts cs) -> In x cs.
Proof.
  induction cs as [|c cs IH]; intros acts x I; [now rewrite drop_scrapes_nil in I|].
  destruct acts as [|[a|now] rest]; simpl in I.
  - exact I.
  - destruct I as [E|I]; [now left|right; eauto].
  - right. eauto.
Qed.

Lemma run_mplugin_accepts : forall tbl cacts counts results,
  Forall obs_ok counts ->
  run_mplugin (tbl, cacts, counts, results) = None ->
  exists macts,
    mexpand_all tbl cacts = Some macts /\
    expand_all tbl (cstrip cacts) = Some (strip macts) /\
    penabled code_ttl code_variant pinit (strip macts) = true /\
    eq_zs (fst (mrun_obs code_ttl code_scrape code_variant pinit macts)) counts = true /\
    drop_scrapes macts (fst (mrun_obs code_ttl code_scrape code_variant pinit macts)) =
      pcounts_of code_ttl code_variant pinit (strip macts) /\
    snd (mrun_obs code_ttl code_scrape code_variant pinit macts) =
      prun code_ttl code_variant pinit (strip macts) /\
    mrun code_ttl code_scrape code_variant pinit macts =
      prun code_ttl code_variant pinit (strip macts) /\
    eq_press (cverdicts tbl (prun code_ttl code_variant pinit (strip macts)) results)
             (map snd results) = true.
Proof.
  intros tbl cacts counts results F H. unfold run_mplugin in H.
  destruct (mexpand_all tbl cacts) as [macts|] eqn:X; [|discriminate]. exists macts.
  split; [reflexivity|]. split; [now apply mexpand_all_strip|].
  pose proof (mrun_obs_readonly code_ttl code_variant macts pinit) as B.
  change ReadOnly with code_scrape in B.
  destruct (mrun_obs code_ttl code_scrape code_variant pinit macts) as [cs sf] eqn:R.
  cbn [fst snd] in *.
  match type of H with (if ?b then _ else _) = _ => destruct b eqn:E end; [|discriminate].
  apply andb_prop in E. destruct E as [E1 E2].
  assert (En : penabled code_ttl code_variant pinit (strip macts) = true).
  { destruct (penabled code_ttl code_variant pinit (strip macts)) eqn:En; [reflexivity|exfalso].
    apply prun_obs_sentinel in En. rewrite B in En. cbn [fst] in En.
    apply drop_scrapes_incl in En.
    pose proof (eq_zs_nonneg _ _ E1 F) as NN. rewrite Forall_forall in NN. specialize (NN _ En). lia. }
  rewrite (prun_obs_enabled code_ttl code_variant (strip macts) _ En) in B.
  injection B as B1 B2.
  split; [exact En|]. split; [exact E1|]. split; [symmetry; exact B1|]. split; [symmetry; exact B2|].
  split; [apply mrun_readonly|]. rewrite B2. exact E2.
Qed.
