(* C10 — the sized schedule of every queue instance of the plugin, COMPUTED from
   the plugin history (audit 2, suggestion 3).

   PluginLift.v shows that every queue instance is a sized queue run over SOME
   schedule whose elements come from actions of the key ([rep_by]: membership
   only, neither order nor multiplicity).  Here the schedule is a function of
   the history: [ksched v k acts] lists, for every queue instance ever
   constructed for the key (in construction order = index in [insts]), the
   instant of its construction and the queue-level content ([kq_of]) of the
   enabled actions that worked on it, in the order of the history, each once.
   [rep_byb] is the decidable form of [rep_by]; the side conditions of the
   no-strand theorem become the boolean [outsideb] of the history. *)
From Coq Require Import List ZArith Bool Lia Arith.
From Verif Require Import C10.Model C10.Proofs C10.Proofs2 C10.Proofs3 C10.Exact C10.Release
  C10.Sized C10.SizedProofs C10.Plugin C10.PluginProofs C10.PluginLift.
Import ListNotations.
Open Scope Z_scope.

(* per queue instance: (instant of construction, sized schedule so far) *)
Definition hist := list (Z * list qaction).

Definition inst_of (k : qkey) (tl : Z * list qaction) : st :=
  qrun (ccfg k 0) (init (ccfg k 0) (fst tl)) (snd tl).

Fixpoint app_nth (n : nat) (qa : qaction) (H : hist) : hist :=
  match H, n with
  | [], _ => []
  | tl :: t, O => (fst tl, snd tl ++ [qa]) :: t
  | y :: t, S n' => y :: app_nth n' qa t
  end.

(* the queue instance an action works on *)
Definition ktarget (ks : kst) (a : kaction) : option nat :=
  match a with
  | KEnq rid _ _ _ _ | KR rid _ _ =>
      match pfind rid (preqs ks) with Some q => q_inst q | None => None end
  | KTick h _ => Some h
  | KLookup _ _ | KStore _ _ => None
  end.

(* the exact side conditions (negations of F-C10 / F-C10b) along the sized run
   of one queue instance *)
Definition exactb (c : cfg) (qt : Z * trans) : bool :=
  no_lost_handoff c (snd qt) && no_barging c (snd qt).

Definition sched_outsideb (k : qkey) (tl : Z * list qaction) : bool :=
  forallb (exactb (ccfg k 0)) (qtrace (ccfg k 0) (init (ccfg k 0) (fst tl)) (snd tl)).

(* which of the two is violated where: (index of the step, no_lost_handoff, no_barging) *)
Fixpoint locate_from (c : cfg) (i : nat) (l : list (Z * trans)) : list (nat * bool * bool) :=
  match l with
  | [] => []
  | qt :: t =>
      let rest := locate_from c (S i) t in
      if exactb c qt then rest else (i, no_lost_handoff c (snd qt), no_barging c (snd qt)) :: rest
  end.

Definition sched_findings (k : qkey) (tl : Z * list qaction) : list (nat * bool * bool) :=
  locate_from (ccfg k 0) 0 (qtrace (ccfg k 0) (init (ccfg k 0) (fst tl)) (snd tl)).

Section WithTtl.
Variable tv : ttl_variant.
Local Notation kstep := (Plugin.kstep tv).
Local Notation krun := (Plugin.krun tv).
Local Notation prun := (Plugin.prun tv).

(* how an ENABLED action (ks -> ks') extends the schedules *)
Definition hupd (ks ks' : kst) (a : kaction) (H : hist) : hist :=
  match kq_of tv a, ktarget ks a with
  | Some qa, Some h => app_nth h qa H
  | _, _ =>
      match kbuilt a with
      | Some now => if Nat.ltb (length (insts ks)) (length (insts ks')) then H ++ [(now, [])] else H
      | None => H
      end
  end.

Definition hexec (v : variant) (k : qkey) (x : kst * hist) (a : kaction) : kst * hist :=
  match kstep v k (fst x) a with
  | Some ks' => (ks', hupd (fst x) ks' a (snd x))
  | None => x
  end.

Definition hrun (v : variant) (k : qkey) (acts : list kaction) : kst * hist :=
  fold_left (hexec v k) acts (kinit, []).

(* the schedules of the queue instances of key k after the actions of the key *)
Definition ksched (v : variant) (k : qkey) (acts : list kaction) : hist := snd (hrun v k acts).

(* ... after a plugin-level history *)
Definition psched (v : variant) (k : qkey) (acts : list paction) : hist := ksched v k (proj k acts).

(* decidable [rep_by]: s is instance number h of key k and (t0, l) is its
   computed schedule ... *)
Definition rep_byb (v : variant) (k : qkey) (acts : list paction) (h : nat) (t0 : Z) (l : list qaction)
  : Prop := nth_error (psched v k acts) h = Some (t0, l).

(* the side conditions of the no-strand theorem, as a boolean of the history:
   for queue instance h of key k / for all instances of key k *)
Definition inst_outsideb (v : variant) (k : qkey) (acts : list paction) (h : nat) : bool :=
  match nth_error (psched v k acts) h with
  | Some tl => sched_outsideb k tl
  | None => false
  end.

Definition outsideb (v : variant) (k : qkey) (acts : list paction) : bool :=
  forallb (sched_outsideb k) (psched v k acts).

(* ------------------------------------------------------------------ *)

Lemma fst_hrun_gen : forall v k acts x,
  fst (fold_left (hexec v k) acts x) = krun v k (fst x) acts.
Proof.
  intros v k acts. induction acts as [|a rest IH]; intro x; simpl; [reflexivity|].
  rewrite IH. f_equal. unfold hexec, Plugin.kexec. now destruct (kstep v k (fst x) a).
Qed.

Lemma fst_hrun : forall v k acts, fst (hrun v k acts) = krun v k kinit acts.
Proof. intros. unfold hrun. now rewrite fst_hrun_gen. Qed.

Lemma inst_of_snoc : forall k t0 l qa s',
  step (ccfg k (fst qa)) (inst_of k (t0, l)) (snd qa) = Some s' ->
  inst_of k (t0, l ++ [qa]) = s'.
Proof.
  intros k t0 l qa s' S. unfold inst_of in *. simpl in *. rewrite qrun_app. simpl. unfold qexec.
  change (with_qsize (ccfg k 0) (fst qa)) with (ccfg k (fst qa)). now apply step_exec.
Qed.

Lemma map_app_nth : forall k h qa H s s',
  nth_error (map (inst_of k) H) h = Some s ->
  step (ccfg k (fst qa)) s (snd qa) = Some s' ->
  map (inst_of k) (app_nth h qa H) = set_nth h s' (map (inst_of k) H).
Proof.
  intros k h. induction h as [|h IH]; intros qa [|tl t] s s' N S; simpl in *; try discriminate.
  - inversion N; subst s. f_equal. destruct tl as [t0 l]. now apply inst_of_snoc.
  - f_equal. eapply IH; eauto.
Qed.

Lemma ltb_snoc : forall (A : Type) (l : list A) x, Nat.ltb (length l) (length (l ++ [x])) = true.
Proof. intros. apply Nat.ltb_lt. rewrite app_length. simpl. lia. Qed.

Lemma ltb_same : forall n, Nat.ltb n n = false.
Proof. intros. apply Nat.ltb_irrefl. Qed.

Definition INV (k : qkey) (x : kst * hist) : Prop := insts (fst x) = map (inst_of k) (snd x).

Lemma hexec_INV : forall v k x a, INV k x -> INV k (hexec v k x a).
Proof.
  intros v k [ks H] a I. unfold INV in *. unfold hexec. simpl in *.
  destruct (kstep v k ks a) as [ks'|] eqn:E; [|exact I]. simpl.
  destruct a as [rid now|rid now|rid p hdrs t now|rid ra now|h now]; cbn [Plugin.kstep] in E;
    unfold hupd; cbn [kq_of ktarget kbuilt].
  - destruct (pfind rid (preqs ks)); [discriminate|].
    destruct (cur ks).
    + inversion E; subst; simpl. now rewrite ltb_same.
    + destruct v; inversion E; subst; simpl.
      * rewrite ltb_snoc, map_app, <- I. reflexivity.
      * now rewrite ltb_same.
  - destruct v; [discriminate|]. destruct (pfind rid (preqs ks)) as [q|]; [|discriminate].
    destruct (q_inst q); [discriminate|]. inversion E; subst; simpl.
    rewrite ltb_snoc, map_app, <- I. reflexivity.
  - destruct (pfind rid (preqs ks)) as [q|]; [|discriminate].
    destruct (q_inst q) as [h|]; [|discriminate]. destruct (q_status q); [discriminate|].
    destruct (nth_error (insts ks) h) as [s|] eqn:N; [|discriminate].
    destruct (step _ s _) as [s'|] eqn:S; [|discriminate].
    inversion E; subst; simpl. rewrite I in N |- *. symmetry. eapply map_app_nth; [exact N|exact S].
  - destruct (pfind rid (preqs ks)) as [q|]; [|discriminate].
    destruct (q_inst q) as [h|]; [|discriminate]. destruct (q_status q); [|discriminate].
    destruct (nth_error (insts ks) h) as [s|] eqn:N; [|discriminate].
    destruct (step _ s _) as [s'|] eqn:S; [|discriminate].
    inversion E; subst; simpl. rewrite I in N |- *. symmetry. eapply map_app_nth; [exact N|exact S].
  - destruct (nth_error (insts ks) h) as [s|] eqn:N; [|discriminate].
    destruct (step _ s _) as [s'|] eqn:S; [|discriminate].
    inversion E; subst; simpl. rewrite I in N |- *. symmetry. eapply map_app_nth; [exact N|exact S].
Qed.

Lemma hrun_INV_gen : forall v k acts x, INV k x -> INV k (fold_left (hexec v k) acts x).
Proof.
  intros v k acts. induction acts as [|a rest IH]; intros x I; simpl; [exact I|].
  apply IH. now apply hexec_INV.
Qed.

(* the queue instances ARE the sized runs of the computed schedules, in order *)
Lemma insts_ksched : forall v k acts,
  insts (krun v k kinit acts) = map (inst_of k) (ksched v k acts).
Proof.
  intros v k acts. rewrite <- fst_hrun. unfold ksched.
  apply (hrun_INV_gen v k acts (kinit, [])). reflexivity.
Qed.

Lemma insts_psched : forall v k acts,
  insts (pget k (prun v pinit acts)) = map (inst_of k) (psched v k acts).
Proof. intros. rewrite pget_prun, pget_pinit. apply insts_ksched. Qed.

(* soundness of [rep_byb] *)
Lemma rep_byb_sound : forall v k acts h s,
  nth_error (insts (pget k (prun v pinit acts))) h = Some s ->
  exists t0 l, rep_byb v k acts h t0 l /\ s = qrun (ccfg k 0) (init (ccfg k 0) t0) l.
Proof.
  intros v k acts h s N. rewrite insts_psched in N.
  destruct (nth_error (psched v k acts) h) as [[t0 l]|] eqn:E.
  - exists t0, l. split; [exact E|]. erewrite map_nth_error in N; [|exact E]. now inversion N.
  - apply nth_error_None in E. assert (L : nth_error (map (inst_of k) (psched v k acts)) h = None).
    { apply nth_error_None. now rewrite map_length. }
    congruence.
Qed.

Lemma rep_byb_complete : forall v k acts h t0 l,
  rep_byb v k acts h t0 l ->
  nth_error (insts (pget k (prun v pinit acts))) h = Some (qrun (ccfg k 0) (init (ccfg k 0) t0) l).
Proof.
  intros v k acts h t0 l R. rewrite insts_psched. unfold rep_byb in R.
  erewrite map_nth_error; [|exact R]. reflexivity.
Qed.

Lemma sched_outsideb_spec : forall k tl,
  sched_outsideb k tl = true <->
  Forall (qexact (ccfg k 0)) (qtrace (ccfg k 0) (init (ccfg k 0) (fst tl)) (snd tl)).
Proof.
  intros k tl. unfold sched_outsideb. rewrite forallb_forall, Forall_forall. unfold exactb, qexact.
  split; intros H x I; specialize (H x I).
  - now apply andb_true_iff in H.
  - now apply andb_true_iff.
Qed.

Lemma outsideb_inst : forall v k acts h,
  outsideb v k acts = true -> (h < length (psched v k acts))%nat -> inst_outsideb v k acts h = true.
Proof.
  intros v k acts h O L. unfold inst_outsideb, outsideb in *.
  destruct (nth_error (psched v k acts) h) as [tl|] eqn:E.
  - rewrite forallb_forall in O. apply O. eapply nth_error_In; eauto.
  - apply nth_error_None in E. lia.
Qed.

(* the computed schedule is made of actions of the key: [rep_byb] gives back the
   membership conjunct of [rep_by] *)
Definition FROM (acts : list kaction) (H : hist) : Prop :=
  Forall (fun tl => Forall (fun qa => exists a, In a acts /\ kq_of tv a = Some qa) (snd tl)) H.

Lemma FROM_mono : forall acts acts' H, incl acts acts' -> FROM acts H -> FROM acts' H.
Proof.
  intros acts acts' H I F. eapply Forall_impl; [|exact F]. intros tl G.
  eapply Forall_impl; [|exact G]. intros qa [a [Ia Q]]. exists a. auto.
Qed.

Lemma FROM_app_nth : forall acts h qa H,
  (exists a, In a acts /\ kq_of tv a = Some qa) -> FROM acts H -> FROM acts (app_nth h qa H).
Proof.
  intros acts h. induction h as [|h IH]; intros qa [|tl t] X F; simpl; try exact F;
    inversion F as [|y t' Fy Ft]; subst; constructor.
  - simpl. apply Forall_app. split; [exact Fy|constructor; [exact X|constructor]].
  - exact Ft.
  - exact Fy.
  - apply IH; [exact X|exact Ft].
Qed.

Lemma ksched_snoc : forall v k acts a,
  hrun v k (acts ++ [a]) = hexec v k (hrun v k acts) a.
Proof. intros. unfold hrun. now rewrite fold_left_app. Qed.

Lemma FROM_ksched : forall v k acts, FROM acts (ksched v k acts).
Proof.
  intros v k acts. unfold ksched. induction acts as [|a acts IH] using rev_ind; [constructor|].
  rewrite ksched_snoc.
  assert (IH' : FROM (acts ++ [a]) (snd (hrun v k acts))).
  { eapply FROM_mono; [|exact IH]. intros x I. apply in_or_app. now left. }
  unfold hexec. destruct (kstep v k (fst (hrun v k acts)) a) as [ks'|]; [|exact IH']. simpl.
  unfold hupd. destruct (kq_of tv a) as [qa|] eqn:Q.
  - destruct (ktarget (fst (hrun v k acts)) a).
    + apply FROM_app_nth; [|exact IH']. exists a. split; [apply in_or_app; right; now left|exact Q].
    + destruct (kbuilt a); [|exact IH'].
      destruct (Nat.ltb _ _); [|exact IH']. apply Forall_app. split; [exact IH'|repeat constructor].
  - destruct (kbuilt a); [|exact IH'].
    destruct (Nat.ltb _ _); [|exact IH']. apply Forall_app. split; [exact IH'|repeat constructor].
Qed.

Lemma rep_byb_from : forall v k acts h t0 l,
  rep_byb v k acts h t0 l ->
  Forall (fun qa => exists a, In (PK k a) acts /\ kq_of tv a = Some qa) l.
Proof.
  intros v k acts h t0 l R. unfold rep_byb, psched in R.
  pose proof (FROM_ksched v k (proj k acts)) as F. unfold FROM in F. rewrite Forall_forall in F.
  specialize (F (t0, l) (nth_error_In _ _ R)). simpl in F.
  eapply Forall_impl; [|exact F]. intros qa [a [Ia Q]]. exists a. split; [now apply proj_In|exact Q].
Qed.

End WithTtl.
