(* C10 — the atomicity assumption behind [EnqLocked], made explicit.

   Model.v treats the locked part of DelayedPriorityQueue.Enqueue as ONE atomic
   step: ensureWindowIsUpdated, the quota test, the queue-size test and
   heap.Push + requestCounts[p]++ all happen between one dpq.mutex.Lock() and
   the matching Unlock() (in_memory_delayed_priority_queue.go:49-82).  This
   file contains the variant in which that section is TWO steps,

     SDecide id p t ttl now   first critical section: ensureWindowIsUpdated; take
                              a slot / refuse as full exactly as [enq_locked];
                              otherwise only DECIDE to queue (the request is
                              remembered in [pend]; nothing is pushed, nothing is
                              counted) and release the mutex;
     SPush id                 second critical section: heap.Push and
                              requestCounts[p]++ of a request decided earlier;
     SA a                     any other atomic action of Model.v (Park, Tick, Ttl,
                              Return), unchanged,

   (the check-then-act shape of seeded change C10-6: the trace line "Sending
   request to be processed in queue" logged between the two sections).  Any
   step may be scheduled between the SDecide and the SPush of a request.

   [lift] embeds the schedules of Model.v (EnqLocked = SDecide immediately
   followed by its SPush); SplitProofs.v proves that on lifted schedules the
   split model IS the model of Model.v, and Property.v refutes the size bound
   for the split model.

   The harness suite [atomic] reports the schedule it observed on the real
   queue in this vocabulary (an operation started while a request is stopped
   on that trace line either blocks on dpq.mutex until the push is done, or
   runs in between); [run_atomic] accepts a case only if the observed schedule
   is a lifted one, i.e. nothing ever ran between a decision and its push, and
   then compares the observables with the model of Model.v. *)
From Coq Require Import List ZArith Bool.
From Verif Require Import C10.Model.
Import ListNotations.
Open Scope Z_scope.

Inductive saction :=
| SDecide (id p t ttl now : Z)
| SPush (id : Z)
| SA (a : action).

(* [pend]: requests that decided to queue and have not pushed yet, oldest first *)
Record sst := { base : st; pend : list req }.

Definition sinit (c : cfg) (t0 : Z) : sst := {| base := init c t0; pend := [] |}.

Fixpoint remove_req (id : Z) (l : list req) : list req :=
  match l with
  | [] => []
  | r :: t => if rid r =? id then t else r :: remove_req id t
  end.

(* the outcome of the two tests on an already rolled state: "queue it" *)
Definition will_queue (c : cfg) (s : st) : bool :=
  negb (counter s <? quota c) && negb (qsize c <=? qcount (reqs s)).

(* heap.Push + requestCounts[p]++ *)
Definition push (r : req) (s : st) : st :=
  {| heap := insert (prio r, ts r, rid r) (heap s); counter := counter s; wend := wend s;
     reqs := reqs s ++ [r]; log := log s |}.

Definition sstep (c : cfg) (s : sst) (a : saction) : option sst :=
  match a with
  | SDecide id p t l now =>
      match find id (reqs (base s)), find id (pend s) with
      | None, None =>
          let b := roll c (base s) now in
          if will_queue c b
          then Some {| base := b; pend := pend s ++ [new_req id p t l now Unlocked true None] |}
          else Some {| base := enq_locked c (base s) id p t l now; pend := pend s |}
      | _, _ => None
      end
  | SPush id =>
      match find id (pend s) with
      | Some r => Some {| base := push r (base s); pend := remove_req id (pend s) |}
      | None => None
      end
  | SA (EnqLocked _ _ _ _ _) => None
  | SA a =>
      match step c (base s) a with
      | Some b => Some {| base := b; pend := pend s |}
      | None => None
      end
  end.

Definition sexec (c : cfg) (s : sst) (a : saction) : sst :=
  match sstep c s a with Some s' => s' | None => s end.

Definition srun (c : cfg) (s : sst) (acts : list saction) : sst :=
  fold_left (sexec c) acts s.

(* the schedules of Model.v inside the split model *)
Definition lift1 (a : action) : list saction :=
  match a with
  | EnqLocked id p t l now => [SDecide id p t l now; SPush id]
  | _ => [SA a]
  end.
Definition lift (acts : list action) : list saction := flat_map lift1 acts.

(* requests blocked in Enqueue in the split model: the waiters of the base
   state plus those between their decision and their push *)
Definition swaiting (s : sst) : Z :=
  Z.of_nat (length (filter live (reqs (base s)))) + Z.of_nat (length (pend s)).

(* ------------------------------------------------------------------ *)
(* correspondence entry point of suite [atomic]                        *)

(* Observed schedule -> schedule of Model.v, when it is a lifted one.  The
   observation attached to an SDecide (never taken: Counts() would block on the
   mutex) is dropped, the one after its SPush is the observation of the
   EnqLocked.  [None] = some step was observed between a decision and its push
   (or a push without a decision): not a schedule of the atomic model. *)
Fixpoint unlift (l : list saction) (cs : list (option Z))
  : option (list action * list (option Z)) :=
  match l with
  | [] => match cs with [] => Some ([], []) | _ => None end
  | SDecide id p t tl now :: l1 =>
      match l1, cs with
      | SPush id' :: rest, _ :: c2 :: cs' =>
          if id =? id' then
            match unlift rest cs' with
            | Some (a, o) => Some (EnqLocked id p t tl now :: a, c2 :: o)
            | None => None
            end
          else None
      | _, _ => None
      end
  | SPush _ :: _ => None
  | SA (EnqLocked _ _ _ _ _) :: _ => None
  | SA a :: rest =>
      match cs with
      | c1 :: cs' =>
          match unlift rest cs' with
          | Some (al, o) => Some (a :: al, c1 :: o)
          | None => None
          end
      | [] => None
      end
  end.

Definition case_atomic :=
  ((Z * Z * Z) * Z * list saction * list (option Z) * list (Z * option (bool * Z)))%type.

(* [Some ([-2], [])]: the implementation let a step run between the decision
   and the push of one Enqueue; the model says that never happens. *)
Definition run_atomic (k : case_atomic) : option (list Z * list (Z * option (bool * Z))) :=
  let '(p, t0, sacts, counts, results) := k in
  match unlift sacts counts with
  | None => Some ([-2], [])
  | Some (acts, cs) => run_case (p, t0, acts, cs, results)
  end.

(* what the SPLIT model says about an observed schedule (used by the examples
   of Property.v: the outcomes a non-atomic Enqueue would produce) *)
Definition sresults (c : cfg) (t0 : Z) (sacts : list saction)
  : Z * Z * list (Z * option (bool * Z)) :=
  let s := srun c (sinit c t0) sacts in
  (qcount (reqs (base s)), swaiting s, map result_of (reqs (base s))).
