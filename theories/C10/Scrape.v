(* C10 — metrics reads of the plugin (definitions only).

   services/remedies/strategy_based_queue_plugin.go registers an observable
   gauge (lunar_remedies.strategy_based_queue.requests_in_queue) whose callback
   observeRequestsInQueue runs on every metrics collection (Prometheus scrape /
   OTel reader export), on a goroutine of the metrics SDK, at any point of a
   plugin-level schedule:

       queuesMutex.RLock
       for queueKey, q := range plugin.queues      (the STORED queue of every key)
           for priority, count := range q.Counts() -> observer.Observe(count, ...)
       queuesMutex.RUnlock

   It is one atomic step (one queuesMutex section; Counts() takes the queue's
   mutex in shared mode) and it is READ-ONLY: no map entry, no queue and no
   request record changes.  A plugin-level schedule with metrics reads is a list
   of [maction]s: the actions of Plugin.v plus [MScrape now].

   Variant switch [scrape_variant]:
     ReadOnly  = the code;
     DropsIdle = seeded change C10-10: the callback also deletes from the map
                 every queue whose counts sum to 0 ("nothing waits on it,
                 OnRequest builds it again").  The queue object stays alive for
                 whoever already holds it ([insts] keeps it, requests stay bound
                 to their handle), but the next lookup of the key misses and
                 constructs a NEW queue whose window counter is 0.

   Observable of a scrape: the sum of the values the callback reports
   ([gauge_total] = total Counts() of the stored queues). *)
From Coq Require Import List ZArith Bool.
From Verif Require Import C10.Model C10.Plugin.
Import ListNotations.
Open Scope Z_scope.

Inductive scrape_variant := ReadOnly | DropsIdle.

(* what the callback reports for one key: total of Counts() of plugin.queues[key] *)
Definition kgauge (ks : kst) : option Z :=
  match cur ks with
  | Some h => match nth_error (insts ks) h with
              | Some s => Some (qcount (reqs s))
              | None => None
              end
  | None => None
  end.

Definition kscrape (sv : scrape_variant) (ks : kst) : kst :=
  match sv with
  | ReadOnly => ks
  | DropsIdle =>
      match kgauge ks with
      | Some 0 => {| cur := None; insts := insts ks; preqs := preqs ks |}
      | _ => ks
      end
  end.

Definition pscrape (sv : scrape_variant) (s : pst) : pst :=
  {| keys := map (fun e : qkey * kst => (fst e, kscrape sv (snd e))) (keys s);
     noconf := noconf s |}.

Fixpoint gauge_sum (l : list (qkey * kst)) : Z :=
  match l with
  | [] => 0
  | (_, ks) :: t => (match kgauge ks with Some n => n | None => 0 end) + gauge_sum t
  end.

Definition gauge_total (s : pst) : Z := gauge_sum (keys s).

Inductive maction :=
| MA (a : paction)
| MScrape (now : Z).     (* one run of observeRequestsInQueue at clock reading [now] *)

Fixpoint strip (acts : list maction) : list paction :=
  match acts with
  | [] => []
  | MA a :: rest => a :: strip rest
  | MScrape _ :: rest => strip rest
  end.

Definition mact_now (a : maction) : Z :=
  match a with MA a => pact_now a | MScrape now => now end.

Section Steps.
Variable tv : ttl_variant.

(* a metrics read is always enabled *)
Definition mstep (sv : scrape_variant) (v : variant) (s : pst) (a : maction) : option pst :=
  match a with
  | MA a => pstep tv v s a
  | MScrape _ => Some (pscrape sv s)
  end.

Definition mexec (sv : scrape_variant) (v : variant) (s : pst) (a : maction) : pst :=
  match mstep sv v s a with Some s' => s' | None => s end.

Definition mrun (sv : scrape_variant) (v : variant) (s : pst) (acts : list maction) : pst :=
  fold_left (mexec sv v) acts s.

(* strict run (suite plugin): a disabled action is reported as -1; after an
   action of Plugin.v the observable is the total Counts() of all constructed
   queues, at a metrics read it is what the callback reported *)
Fixpoint mrun_obs (sv : scrape_variant) (v : variant) (s : pst) (acts : list maction)
  : list Z * pst :=
  match acts with
  | [] => ([], s)
  | MA a :: rest =>
      match pstep tv v s a with
      | None => ([-1], s)
      | Some s' => let '(l, sf) := mrun_obs sv v s' rest in (pcount (keys s') :: l, sf)
      end
  | MScrape _ :: rest =>
      let '(l, sf) := mrun_obs sv v (pscrape sv s) rest in (gauge_total s :: l, sf)
  end.

End Steps.

(* the observations of a schedule with the metrics reads taken out *)
Fixpoint drop_scrapes (acts : list maction) (cs : list Z) : list Z :=
  match cs with
  | [] => []
  | c :: cs' =>
      match acts with
      | MA _ :: rest => c :: drop_scrapes rest cs'
      | MScrape _ :: rest => drop_scrapes rest cs'
      | [] => cs
      end
  end.

(* the code under test: the callback only reads *)
Definition code_scrape : scrape_variant := ReadOnly.

(* ------------------------------------------------------------------ *)
(* correspondence entry point (suite plugin, histories with metrics reads) *)

Inductive mcact :=
| MC (a : cact)
| MCScrape (now : Z).

Fixpoint mexpand_all (tbl : list (qkey * par)) (l : list mcact) : option (list maction) :=
  match l with
  | [] => Some []
  | MC a :: t =>
      match expand tbl a, mexpand_all tbl t with
      | Some x, Some r => Some (MA x :: r)
      | _, _ => None
      end
  | MCScrape now :: t =>
      match mexpand_all tbl t with
      | Some r => Some (MScrape now :: r)
      | None => None
      end
  end.

(* the compact actions of a history with the metrics reads taken out (what
   [strip] is on expanded actions; ScrapeProofs.mexpand_all_strip) *)
Fixpoint cstrip (l : list mcact) : list cact :=
  match l with
  | [] => []
  | MC a :: t => a :: cstrip t
  | MCScrape _ :: t => cstrip t
  end.

(* the verdicts the model gives for the requests of a case, read off a final state *)
Definition cverdicts (tbl : list (qkey * par)) (sf : pst) (results : list cres)
  : list (option (verdict * Z)) :=
  map (fun r : cres =>
         match fst (fst r) with
         | None => pverdict sf None (snd (fst r))
         | Some rem =>
             match nth_error tbl rem with
             | Some (key, _) => pverdict sf (Some key) (snd (fst r))
             | None => Some (VOther, -2)
             end
         end) results.

(* (tbl, actions, after each action of Plugin.v: total Counts() of all
    constructed queues / at each metrics read: sum of the values the gauge
    callback reported, per request: remedy, id, action returned by OnRequest and
    the instant of the return) *)
Definition case_mplugin :=
  (list (qkey * par) * list mcact * list (option Z) * list cres)%type.

Definition run_mplugin (k : case_mplugin) : option (list Z * list (option (verdict * Z))) :=
  let '(tbl, cacts, counts, results) := k in
  match mexpand_all tbl cacts with
  | None => Some ([-2], [])
  | Some acts =>
      let '(cs, sf) := mrun_obs code_ttl code_scrape code_variant pinit acts in
      let rs := map (fun r : cres =>
                       match fst (fst r) with
                       | None => pverdict sf None (snd (fst r))
                       | Some rem =>
                           match nth_error tbl rem with
                           | Some (key, _) => pverdict sf (Some key) (snd (fst r))
                           | None => Some (VOther, -2)
                           end
                       end) results in
      if eq_zs cs counts && eq_press rs (map snd results) then None else Some (cs, rs)
  end.
