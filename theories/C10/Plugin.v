(* C10 — model of the plugin layer,
   services/remedies/strategy_based_queue_plugin.go (StrategyBasedQueuePlugin),
   as coded, on top of the queue model of Model.v.

   OnRequest(onRequest, scopedRemedy):
     remedyConfig == nil                 -> NoOpAction, ErrMissingConfig  (PNoConfig)
     queueKey = {Remedy.Name, {AllowedRequestCount, WindowSizeInSeconds * 1 s}}
     queuesMutex.Lock
       queues[queueKey] found ? use it : initQueue(queueKey), store       (KLookup: ONE atomic step)
     queuesMutex.Unlock
     priority = extractPriority(headers, config)
     request  = NewRequest(id, priority, clock)      (timestamp t = clock.Now())
     canProceed = queue.Enqueue(request, Duration(TTLSeconds) * 1 s, QueueSize)
                                                     (KEnq = locked part of Enqueue;
                                                      then KR Park/Ttl/Return, KTick of Model.v)
     canProceed ? NoOpAction : EarlyResponseAction{Status: ResponseStatusCode,
                                                   Body "Too many requests", text/plain}
   OnResponse: NoOpAction, nothing else.  Queues are never removed from the map.

   The plugin is a map  queue key -> per-key state.  The per-key state keeps the
   map entry ([cur] = handle of the queue stored under the key), EVERY queue
   instance ever constructed for the key ([insts], handle = position) and, per
   request, the handle its lookup returned.  At HEAD at most one instance per key
   ever exists (theorem C10_plugin_one_queue_per_remedy); the record keeps a list
   so that the non-atomic variant [Split] (lookup under RLock, construction outside
   the lock, store without a re-check) can be expressed and refuted.

   What the requests of one key share with the requests of another one is only
   queuesMutex (atomicity, no data), the clock (an input of every action) and the
   metrics (the gauge callback is the read-only step MScrape of Scrape.v; the
   requests counter is not modelled): actions carry their key, the step function
   touches the state of that key only.  That the real plugin behaves like this product is what
   the correspondence suite [plugin] checks (several remedies, equal strategies
   under different names, one name with different strategies).

   Queue size, TTL, status code and prioritization are NOT part of the key: they
   are read from the remedy configuration of every single call (parameter [par]
   of KEnq), so one queue may be called with different queue sizes. *)
From Coq Require Import List ZArith Bool.
From Verif Require Import C10.Model.
Import ListNotations.
Open Scope Z_scope.

Definition bytes := list Z.

Fixpoint bytes_eqb (a b : bytes) : bool :=
  match a, b with
  | [], [] => true
  | x :: a', y :: b' => (x =? y) && bytes_eqb a' b'
  | _, _ => false
  end.

(* Go map lookup with a string key *)
Fixpoint assoc {X : Type} (k : bytes) (l : list (bytes * X)) : option X :=
  match l with
  | [] => None
  | (k', x) :: t => if bytes_eqb k' k then Some x else assoc k t
  end.

(* QueueKey{RemedyName, Strategy{WindowQuota, WindowSize}}:
   (interned remedy name, AllowedRequestCount, WindowSizeInSeconds) *)
Definition qkey := (Z * Z * Z)%type.

Definition qkey_eqb (a b : qkey) : bool :=
  let '(n1, q1, w1) := a in let '(n2, q2, w2) := b in
  (n1 =? n2) && (q1 =? q2) && (w1 =? w2).

Definition second : Z := 1000000000.

Definition kquota (k : qkey) : Z := snd (fst k).
Definition kwsize (k : qkey) : Z := snd k * second.

(* the queue configuration one call works with: strategy from the key, queue
   size from the call *)
Definition ccfg (k : qkey) (qs : Z) : cfg :=
  {| quota := kquota k; wsize := kwsize k; qsize := qs |}.

(* GroupPrioritization{GroupBy.HeaderName, Groups: value -> priority} *)
Record prz := { hname : bytes; groups : list (bytes * Z) }.

(* per-call parameters read from StrategyBasedQueueConfig: TTLSeconds (float32,
   given in EIGHTHS of a second), QueueSize, ResponseStatusCode, Prioritization *)
Record par := { p_ttl_e : Z; p_qsize : Z; p_status : Z; p_prz : option prz }.

(* The TTL handed to Enqueue.

   TtlExact (the code since the repair "a fractional ttl_seconds is no longer
   truncated"):
       time.Duration(float64(remedyConfig.TTLSeconds) * float64(time.Second))
   TTLSeconds is a float32 holding n/8 for an integer n = p_ttl_e (exact for
   |n| < 2^24: n * 2^-3 has a 24-bit significand); float32 -> float64 is exact;
   float64(time.Second) = 1e9 exactly; the product n/8 * 1e9 = n * 125 000 000
   is an integer below 2^53 (for |n| < 2^26), hence computed exactly by the
   float64 multiplication; the conversion of an integral float64 to the int64
   Duration is exact.  So the Duration is n * 125 000 000 ns — the configured
   TTL itself.  The harness generates only such TTLs (multiples of 1/8 s, n <= 64).

   TtlTruncated (the code before the repair):
       time.Duration(remedyConfig.TTLSeconds) * time.Second
   the float is converted to an integer number of SECONDS first (truncation
   towards zero: 1.5 s becomes 1 s). *)
Inductive ttl_variant := TtlExact | TtlTruncated.

Definition eighth : Z := 125000000.

(* the configured time-to-live in ns *)
Definition cfg_ttl_ns (p : par) : Z := p_ttl_e p * eighth.

Definition ttl_ns (tv : ttl_variant) (p : par) : Z :=
  match tv with
  | TtlExact => p_ttl_e p * eighth
  | TtlTruncated => Z.quot (p_ttl_e p) 8 * second
  end.

(* extractPriority: no prioritization -> 0; a missing header reads as "" and an
   unknown value as the zero Prioritization, both -> priority 0 (unless a group
   named "" is configured) *)
Definition extract_priority (hdrs : list (bytes * bytes)) (p : option prz) : Z :=
  match p with
  | None => 0
  | Some z =>
      let hv := match assoc (hname z) hdrs with Some v => v | None => [] end in
      match assoc hv (groups z) with Some pr => pr | None => 0 end
  end.

Inductive verdict :=
| VNoOp                    (* &actions.NoOpAction{}, nil *)
| VEarly (status : Z)      (* plainTextTooManyRequestsAction(status), nil *)
| VMissingConfig           (* &actions.NoOpAction{}, ErrMissingConfig *)
| VOther.                  (* anything else (never produced by the model) *)

(* the verdict mapping of OnRequest *)
Definition verdict_of (status : Z) (can_proceed : bool) : verdict :=
  if can_proceed then VNoOp else VEarly status.

Definition verdict_eqb (a b : verdict) : bool :=
  match a, b with
  | VNoOp, VNoOp | VMissingConfig, VMissingConfig => true
  | VEarly x, VEarly y => x =? y
  | _, _ => false
  end.

(* Atomic = HEAD (lookup-or-create under queuesMutex.Lock);
   Split  = lookup under RLock, construction and store afterwards, no re-check *)
Inductive variant := Atomic | Split.

Record preq := {
  q_rid : Z;
  q_inst : option nat;     (* queue its lookup returned; None = missed, constructing (Split) *)
  q_status : option Z      (* ResponseStatusCode of its call, known once KEnq ran *)
}.

Record kst := {
  cur : option nat;        (* plugin.queues[key] *)
  insts : list st;         (* every queue ever constructed for the key *)
  preqs : list preq        (* requests of the key, in lookup order *)
}.

Definition kinit : kst := {| cur := None; insts := []; preqs := [] |}.

Fixpoint pfind (id : Z) (l : list preq) : option preq :=
  match l with
  | [] => None
  | q :: t => if q_rid q =? id then Some q else pfind id t
  end.

Fixpoint pupd (id : Z) (f : preq -> preq) (l : list preq) : list preq :=
  match l with
  | [] => []
  | q :: t => if q_rid q =? id then f q :: t else q :: pupd id f t
  end.

Fixpoint set_nth (n : nat) (x : st) (l : list st) : list st :=
  match l, n with
  | [], _ => []
  | _ :: t, O => x :: t
  | y :: t, S n' => y :: set_nth n' x t
  end.

Inductive ract := RPark | RTtl | RReturn.

Definition ract_action (a : ract) (id now : Z) : action :=
  match a with
  | RPark => Park id now
  | RTtl => Ttl id now
  | RReturn => Return id now
  end.

Inductive kaction :=
| KLookup (rid now : Z)      (* the section of OnRequest under queuesMutex; [now] = clock
                                reading of NewInMemoryDelayedPriorityQueue if it constructs *)
| KStore (rid now : Z)       (* Split only: construct at [now], store, use the own queue *)
| KEnq (rid : Z) (p : par) (hdrs : list (bytes * bytes)) (t now : Z)
                             (* extractPriority, NewRequest (timestamp t), locked part of
                                Enqueue at [now] on the queue the lookup returned *)
| KR (rid : Z) (a : ract) (now : Z)   (* Park / Ttl / Return of a request, on its queue *)
| KTick (h : nat) (now : Z). (* roll-over pass of queue instance h *)

Definition new_inst (k : qkey) (now : Z) : st := init (ccfg k 0) now.

Definition bind (h : nat) (q : preq) : preq :=
  {| q_rid := q_rid q; q_inst := Some h; q_status := q_status q |}.
Definition set_status (s : Z) (q : preq) : preq :=
  {| q_rid := q_rid q; q_inst := q_inst q; q_status := Some s |}.

Section Steps.
(* which TTL conversion the code performs (code_ttl below is what is checked) *)
Variable tv : ttl_variant.

(* one atomic step of the requests / goroutines of one key; None = not enabled *)
Definition kstep (v : variant) (k : qkey) (ks : kst) (a : kaction) : option kst :=
  match a with
  | KLookup rid now =>
      match pfind rid (preqs ks) with
      | Some _ => None
      | None =>
          match cur ks with
          | Some h =>
              Some {| cur := cur ks; insts := insts ks;
                      preqs := preqs ks ++ [{| q_rid := rid; q_inst := Some h; q_status := None |}] |}
          | None =>
              match v with
              | Atomic =>
                  let h := length (insts ks) in
                  Some {| cur := Some h; insts := insts ks ++ [new_inst k now];
                          preqs := preqs ks ++ [{| q_rid := rid; q_inst := Some h; q_status := None |}] |}
              | Split =>
                  Some {| cur := None; insts := insts ks;
                          preqs := preqs ks ++ [{| q_rid := rid; q_inst := None; q_status := None |}] |}
              end
          end
      end
  | KStore rid now =>
      match v, pfind rid (preqs ks) with
      | Split, Some q =>
          match q_inst q with
          | None =>
              let h := length (insts ks) in
              Some {| cur := Some h; insts := insts ks ++ [new_inst k now];
                      preqs := pupd rid (bind h) (preqs ks) |}
          | Some _ => None
          end
      | _, _ => None
      end
  | KEnq rid p hdrs t now =>
      match pfind rid (preqs ks) with
      | Some q =>
          match q_inst q, q_status q with
          | Some h, None =>
              match nth_error (insts ks) h with
              | Some s =>
                  match step (ccfg k (p_qsize p)) s
                             (EnqLocked rid (extract_priority hdrs (p_prz p)) t (ttl_ns tv p) now) with
                  | Some s' =>
                      Some {| cur := cur ks; insts := set_nth h s' (insts ks);
                              preqs := pupd rid (set_status (p_status p)) (preqs ks) |}
                  | None => None
                  end
              | None => None
              end
          | _, _ => None
          end
      | None => None
      end
  | KR rid a now =>
      match pfind rid (preqs ks) with
      | Some q =>
          match q_inst q, q_status q with
          | Some h, Some _ =>
              match nth_error (insts ks) h with
              | Some s =>
                  match step (ccfg k 0) s (ract_action a rid now) with
                  | Some s' => Some {| cur := cur ks; insts := set_nth h s' (insts ks); preqs := preqs ks |}
                  | None => None
                  end
              | None => None
              end
          | _, _ => None
          end
      | None => None
      end
  | KTick h now =>
      match nth_error (insts ks) h with
      | Some s =>
          match step (ccfg k 0) s (Tick now) with
          | Some s' => Some {| cur := cur ks; insts := set_nth h s' (insts ks); preqs := preqs ks |}
          | None => None
          end
      | None => None
      end
  end.

Definition kexec (v : variant) (k : qkey) (ks : kst) (a : kaction) : kst :=
  match kstep v k ks a with Some ks' => ks' | None => ks end.

Definition krun (v : variant) (k : qkey) (ks : kst) (acts : list kaction) : kst :=
  fold_left (kexec v k) acts ks.

(* ---- the plugin: map key -> per-key state ---- *)

Record pst := {
  keys : list (qkey * kst);
  noconf : list (Z * Z)    (* requests answered ErrMissingConfig: (id, instant) *)
}.

Definition pinit : pst := {| keys := []; noconf := [] |}.

Fixpoint kget (k : qkey) (l : list (qkey * kst)) : kst :=
  match l with
  | [] => kinit
  | (k', ks) :: t => if qkey_eqb k' k then ks else kget k t
  end.

Fixpoint kset (k : qkey) (ks : kst) (l : list (qkey * kst)) : list (qkey * kst) :=
  match l with
  | [] => [(k, ks)]
  | (k', ks') :: t => if qkey_eqb k' k then (k', ks) :: t else (k', ks') :: kset k ks t
  end.

Definition pget (k : qkey) (s : pst) : kst := kget k (keys s).

Inductive paction :=
| PK (k : qkey) (a : kaction)
| PNoConfig (rid now : Z).

Definition pstep (v : variant) (s : pst) (a : paction) : option pst :=
  match a with
  | PK k ka =>
      match kstep v k (pget k s) ka with
      | Some ks' => Some {| keys := kset k ks' (keys s); noconf := noconf s |}
      | None => None
      end
  | PNoConfig rid now => Some {| keys := keys s; noconf := noconf s ++ [(rid, now)] |}
  end.

Definition pexec (v : variant) (s : pst) (a : paction) : pst :=
  match pstep v s a with Some s' => s' | None => s end.

Definition prun (v : variant) (s : pst) (acts : list paction) : pst :=
  fold_left (pexec v) acts s.

(* the actions of one key inside a plugin-level schedule *)
Fixpoint proj (k : qkey) (acts : list paction) : list kaction :=
  match acts with
  | [] => []
  | PK k' a :: rest => if qkey_eqb k' k then a :: proj k rest else proj k rest
  | PNoConfig _ _ :: rest => proj k rest
  end.

Definition pact_now (a : paction) : Z :=
  match a with
  | PK _ (KLookup _ now) | PK _ (KStore _ now) | PK _ (KEnq _ _ _ _ now)
  | PK _ (KR _ _ now) | PK _ (KTick _ now) | PNoConfig _ now => now
  end.

Fixpoint pmonotone (t : Z) (acts : list paction) : bool :=
  match acts with
  | [] => true
  | a :: rest => (t <=? pact_now a) && pmonotone (pact_now a) rest
  end.

(* ---- observables ---- *)

(* what the queue answered to the request (Enqueue's boolean, return instant) *)
Definition kanswer (ks : kst) (rid : Z) : option (bool * Z) :=
  match pfind rid (preqs ks) with
  | Some q =>
      match q_inst q with
      | Some h =>
          match nth_error (insts ks) h with
          | Some s => match find rid (reqs s) with Some r => snd (result_of r) | None => None end
          | None => None
          end
      | None => None
      end
  | None => None
  end.

Definition kstatus (ks : kst) (rid : Z) : option Z :=
  match pfind rid (preqs ks) with Some q => q_status q | None => None end.

(* action returned by OnRequest and the instant it returned *)
Definition kverdict (ks : kst) (rid : Z) : option (verdict * Z) :=
  match kanswer ks rid, kstatus ks rid with
  | Some (b, t), Some sc => Some (verdict_of sc b, t)
  | _, _ => None
  end.

Fixpoint zfind (id : Z) (l : list (Z * Z)) : option Z :=
  match l with
  | [] => None
  | (i, t) :: r => if i =? id then Some t else zfind id r
  end.

Definition pverdict (s : pst) (k : option qkey) (rid : Z) : option (verdict * Z) :=
  match k with
  | Some k => kverdict (pget k s) rid
  | None => match zfind rid (noconf s) with Some t => Some (VMissingConfig, t) | None => None end
  end.

(* requests of the key blocked in Enqueue, over all its queues *)
Fixpoint kcount (l : list st) : Z :=
  match l with
  | [] => 0
  | s :: t => qcount (reqs s) + kcount t
  end.

Fixpoint pcount (l : list (qkey * kst)) : Z :=
  match l with
  | [] => 0
  | (_, ks) :: t => kcount (insts ks) + pcount t
  end.

(* ------------------------------------------------------------------ *)
(* correspondence entry point (suite plugin)                           *)

(* strict run: a disabled action is a modelling disagreement, reported as -1 *)
Fixpoint prun_obs (v : variant) (s : pst) (acts : list paction) : list Z * pst :=
  match acts with
  | [] => ([], s)
  | a :: rest =>
      match pstep v s a with
      | None => ([-1], s)
      | Some s' => let '(l, sf) := prun_obs v s' rest in (pcount (keys s') :: l, sf)
      end
  end.

(* every action of the list is enabled when its turn comes *)
Fixpoint penabled (v : variant) (s : pst) (acts : list paction) : bool :=
  match acts with
  | [] => true
  | a :: rest => match pstep v s a with Some s' => penabled v s' rest | None => false end
  end.

(* the states a schedule goes through (after each action) *)
Fixpoint pstates (v : variant) (s : pst) (acts : list paction) : list pst :=
  match acts with
  | [] => []
  | a :: rest => let s' := pexec v s a in s' :: pstates v s' rest
  end.

End Steps.

Definition pres := (option qkey * Z * option (verdict * Z))%type.

Definition eq_pres (a b : option (verdict * Z)) : bool :=
  match a, b with
  | None, None => true
  | Some (x, t), Some (y, u) => verdict_eqb x y && (t =? u)
  | _, _ => false
  end.

Fixpoint eq_press (a b : list (option (verdict * Z))) : bool :=
  match a, b with
  | [], [] => true
  | x :: a', y :: b' => eq_pres x y && eq_press a' b'
  | _, _ => false
  end.

(* the code under test is HEAD: atomic lookup-or-create, exact TTL *)
Definition code_variant : variant := Atomic.
Definition code_ttl : ttl_variant := TtlExact.

(* Compact case format: the remedy configurations used by the case are listed
   once ([tbl]: queue key and per-call parameters of each), actions and results
   refer to them by position.

   (tbl, actions, total Counts() of all constructed queues after each action,
    per request: remedy (None = remedy without config), id, action returned by
    OnRequest and the instant of the return (None = still blocked)) *)
Inductive cact :=
| CLookup (rem : nat) (rid now : Z)
| CEnq (rem : nat) (rid : Z) (hdrs : list (bytes * bytes)) (t now : Z)
| CR (rem : nat) (rid : Z) (a : ract) (now : Z)
| CTick (rem : nat) (h : nat) (now : Z)
| CNoConfig (rid now : Z).

Definition expand (tbl : list (qkey * par)) (a : cact) : option paction :=
  match a with
  | CLookup rem rid now =>
      match nth_error tbl rem with Some (k, _) => Some (PK k (KLookup rid now)) | None => None end
  | CEnq rem rid hdrs t now =>
      match nth_error tbl rem with Some (k, p) => Some (PK k (KEnq rid p hdrs t now)) | None => None end
  | CR rem rid ra now =>
      match nth_error tbl rem with Some (k, _) => Some (PK k (KR rid ra now)) | None => None end
  | CTick rem h now =>
      match nth_error tbl rem with Some (k, _) => Some (PK k (KTick h now)) | None => None end
  | CNoConfig rid now => Some (PNoConfig rid now)
  end.

(* None = some action names a remedy that is not in the table *)
Fixpoint expand_all (tbl : list (qkey * par)) (l : list cact) : option (list paction) :=
  match l with
  | [] => Some []
  | a :: t =>
      match expand tbl a, expand_all tbl t with
      | Some x, Some r => Some (x :: r)
      | _, _ => None
      end
  end.

Definition cres := (option nat * Z * option (verdict * Z))%type.

Definition case_plugin :=
  (list (qkey * par) * list cact * list (option Z) * list cres)%type.

(* NOT EVALUATED BY ANY SUITE (superseded): suite plugin is declared with
   Scrape.run_mplugin (histories with metrics reads), of which this function is
   the special case without reads.  [cact] / [expand] / [expand_all] / [cres]
   above ARE used by run_mplugin.  Kept only for Bridge.run_plugin_accepts; the
   accepted-case theorem of the suite is C10_accepted_plugin_case_is_a_run,
   stated for run_mplugin. *)
Definition run_plugin (k : case_plugin) : option (list Z * list (option (verdict * Z))) :=
  let '(tbl, cacts, counts, results) := k in
  match expand_all tbl cacts with
  | None => Some ([-2], [])
  | Some acts =>
      let '(cs, sf) := prun_obs code_ttl code_variant pinit acts in
      let rs := map (fun r : cres =>
                       match fst (fst r) with
                       | None => pverdict sf None (snd (fst r))
                       | Some rem =>
                           match nth_error tbl rem with
                           | Some (key, _) => pverdict sf (Some key) (snd (fst r))
                           | None => Some (VOther, -2)
                           end
                       end) results in
      if eq_zs cs counts && eq_press rs (map snd results) then None else Some (cs, rs)
  end.
