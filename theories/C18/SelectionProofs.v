(* C18 — proofs about Selection.v: a look-up that copies isolates every
   transaction's selection in EVERY schedule of look-ups and uses; a look-up
   that hands out the node's own slice does not (witness). *)
From Coq Require Import List ZArith Bool Lia.
From Verif Require Import C18.Selection.
Import ListNotations.

Lemma zlist_eqb_refl l : zlist_eqb l l = true.
Proof.
  induction l as [|x l IH]; [reflexivity|].
  cbn [zlist_eqb]. rewrite Z.eqb_refl, IH. reflexivity.
Qed.

Lemma sfind_sdrop_neq {A} (t u : Z) (l : list (Z * A)) :
  t <> u -> sfind t (sdrop u l) = sfind t l.
Proof.
  intros Hne. induction l as [|[v x] l IH]; [reflexivity|].
  cbn [sdrop sfind]. destruct (Z.eqb_spec v u) as [->|Hvu].
  - destruct (Z.eqb_spec u t) as [E|_]; [exfalso; apply Hne; symmetry; exact E|]. exact IH.
  - cbn [sfind]. destruct (Z.eqb v t); [reflexivity|exact IH].
Qed.

Lemma sfind_head {A} (t : Z) (x : A) (l : list (Z * A)) : sfind t ((t, x) :: l) = Some x.
Proof. cbn [sfind]. rewrite Z.eqb_refl. reflexivity. Qed.

Lemma sfind_head_neq {A} (t u : Z) (x : A) (l : list (Z * A)) :
  t <> u -> sfind t ((u, x) :: l) = sfind t l.
Proof.
  intros Hne. cbn [sfind]. destruct (Z.eqb_spec u t) as [E|_]; [exfalso; apply Hne; symmetry; exact E|reflexivity].
Qed.

(* invariant: whatever a transaction is entitled to find, it holds PRIVATELY *)
Definition sinv (s : sst) (want : list (Z * list Z)) : Prop :=
  forall t l, sfind t want = Some l -> sfind t (held s) = Some (Private l).

Lemma sinv_init : sinv sinit [].
Proof. intros t l H. discriminate H. Qed.

Lemma sel_isolated : forall shared c,
  shared && spare c = false ->
  forall ops s want, sinv s want -> sel_ok shared c s want ops = true.
Proof.
  intros shared c Hv. induction ops as [|o ops IH]; intros s want Inv; [reflexivity|].
  destruct o as [t k|t].
  - cbn [sel_ok]. apply IH. unfold sstep. rewrite Hv.
    intros u l Hu. cbn [held].
    destruct (Z.eq_dec u t) as [->|Hne].
    + rewrite sfind_head in Hu. inversion Hu; subst. apply sfind_head.
    + rewrite (sfind_head_neq u t _ _ Hne) in Hu. rewrite (sfind_sdrop_neq u t _ Hne) in Hu.
      rewrite (sfind_head_neq u t _ _ Hne). rewrite (sfind_sdrop_neq u t _ Hne). exact (Inv u l Hu).
  - cbn [sel_ok]. apply andb_true_iff. split; [|exact (IH s want Inv)].
    destruct (sfind t want) as [l|] eqn:W; [|reflexivity].
    unfold observe. rewrite (Inv t l W). apply zlist_eqb_refl.
Qed.

(* the witness of the seeded behaviour: three flows on the wildcard node (len 3,
   cap 4), transaction 1 looks up URL 10, transaction 2 looks up URL 20 before
   transaction 1 has executed its flows: transaction 1 finds flow 20 in its list *)
Definition sel_witness_cfg : scfg := mkScfg [(-1); (-2); (-3)]%Z true.
Definition sel_witness_ops : list sop := [Lookup 1 10; Lookup 2 20; UseSel 1]%Z.

Lemma sel_witness_fails : sel_ok true sel_witness_cfg sinit [] sel_witness_ops = false.
Proof. vm_compute. reflexivity. Qed.

Lemma sel_witness_observes :
  srun true sel_witness_cfg sinit sel_witness_ops = [[(-1); (-2); (-3); 20]]%Z.
Proof. vm_compute. reflexivity. Qed.

(* the model agrees with itself: a passing correspondence case read, at every use,
   what the copying look-up gives *)
Lemma run_selection_none_iff k :
  run_selection k = None <->
  zll_eqb (srun false (mkScfg (fst (fst (fst k))) (snd (fst (fst k)))) sinit (map sdec (snd (fst k)))) (snd k) = true.
Proof.
  destruct k as [[[w sp] ops] obs]. cbn [run_selection fst snd].
  destruct (zll_eqb _ obs); split; intros H; try reflexivity; try discriminate.
Qed.
