(* C18 — conformance spot-check (an executable tie for hypothesis H3' of
   C18_tree_race_free_pub on the instrumented sites): the harness records, in a
   real run of the routing layer, the lock / unlock / access events of the
   instrumented functions (patches/C18/hook-conform-*.patch: getStream, setStream)
   in the order in which they happened, with the goroutine that made each of them
   and the role the harness started that goroutine in; [run_conform] checks by
   computation that the recorded trace is a VALID trace of Trace.v and CONFORMS to
   the regenerated facts ([Publication.conforms_from], proved sound: it implies
   [conforms2]). *)
From Coq Require Import List ZArith Bool String.
From Verif Require Import C18.Lockset C18.Trace C18.Publication C18.Accesses.
Import ListNotations.
Local Open Scope string_scope.

Definition conform_names : list string :=
  [ "routing.StreamsData.streamLock"; "routing.StreamsData.stream" ].
Definition conform_roles : list string := [ "txn"; "admin"; "init"; "load"; "metrics" ].

(* one recorded event: (goroutine, (kind, (name index, role index)));
   kind 0 AcqW, 1 RelW, 2 AcqR, 3 RelR, 4 Read, 5 Write, 6 Atomic *)
Definition case_conform := list (Z * (Z * (Z * Z))).

Definition dec_event (k : Z) (n : string) : event :=
  match k with
  | 0%Z => AcqW n | 1%Z => RelW n | 2%Z => AcqR n | 3%Z => RelR n
  | 4%Z => Read n | 5%Z => Write n | _ => Atomic n
  end.

Definition conform_trace (k : case_conform) : trace :=
  map (fun p => (Z.to_nat (fst p),
                 dec_event (fst (snd p)) (nth (Z.to_nat (fst (snd (snd p)))) conform_names "?"))) k.

Definition conform_role_at (k : case_conform) (i : nat) : string :=
  match nth_error k i with
  | Some p => nth (Z.to_nat (snd (snd (snd p)))) conform_roles "?"
  | None => "txn"
  end.

(* None = the recorded trace is valid and conforms; otherwise (valid?, conforms?) *)
Definition run_conform (k : case_conform) : option (bool * bool) :=
  let tr := conform_trace k in
  let v := valid_from [] tr in
  let c := conforms_from accesses (conform_role_at k) (fun x => x) [] tr in
  if v && c then None else Some (v, c).

(* what a passing case means *)
Theorem run_conform_sound k :
  run_conform k = None ->
  valid (conform_trace k) /\ conforms2 accesses (conform_role_at k) (fun x => x) (conform_trace k).
Proof.
  unfold run_conform. intros H.
  destruct (valid_from [] (conform_trace k)) eqn:V; [|discriminate].
  destruct (conforms_from accesses (conform_role_at k) (fun x => x) [] (conform_trace k)) eqn:C;
    [|discriminate].
  split; [apply valid_b_sound; exact V | apply conforms_b_sound; exact C].
Qed.
Print Assumptions run_conform_sound.
