(* C18 — get-or-create under one hold: lemmas. *)
From Coq Require Import List ZArith Bool Lia.
From Verif Require Import C18.GetOrCreate.
Import ListNotations.
Local Open Scope Z_scope.

Definition ginv (s : gstate) : Prop :=
  in_map s /\
  (forall k o, g_map s k = Some o -> o < g_next s) /\
  (forall k1 k2 o, g_map s k1 = Some o -> g_map s k2 = Some o -> k1 = k2).

Lemma ginv_init : ginv ginit.
Proof.
  repeat split.
  - intros t k o H. inversion H.
  - intros k o H. discriminate H.
  - intros k1 k2 o H. discriminate H.
Qed.

Lemma upd_eq : forall (A : Type) (f : Z -> A) k v, upd f k v k = v.
Proof. intros. unfold upd. rewrite Z.eqb_refl. reflexivity. Qed.

Lemma upd_neq : forall (A : Type) (f : Z -> A) k v x, x <> k -> upd f k v x = f x.
Proof. intros A f k v x H. unfold upd. destruct (Z.eqb x k) eqn:E; [apply Z.eqb_eq in E; contradiction | reflexivity]. Qed.

Lemma ginv_step : forall s t k, ginv s -> ginv (get_or_create s t k).
Proof.
  intros s t k [Hm [Hlt Hinj]]. unfold get_or_create, ginv, in_map in *.
  destruct (g_map s k) as [o |] eqn:E.
  - repeat split; cbn [g_map g_next g_log].
    + intros t' k' o' [H | H]; [inversion H; subst; exact E | exact (Hm _ _ _ H)].
    + exact Hlt.
    + exact Hinj.
  - repeat split; cbn [g_map g_next g_log].
    + intros t' k' o' [H | H].
      * inversion H; subst. apply upd_eq.
      * assert (Hk : k' <> k). { intro; subst k'. rewrite (Hm _ _ _ H) in E. discriminate E. }
        rewrite upd_neq by exact Hk. exact (Hm _ _ _ H).
    + intros k' o' H. destruct (Z.eq_dec k' k) as [-> | Hk].
      * rewrite upd_eq in H. inversion H. lia.
      * rewrite upd_neq in H by exact Hk. specialize (Hlt _ _ H). lia.
    + intros k1 k2 o' H1 H2.
      destruct (Z.eq_dec k1 k) as [-> | Hk1]; destruct (Z.eq_dec k2 k) as [-> | Hk2]; try reflexivity.
      * rewrite upd_eq in H1. rewrite upd_neq in H2 by exact Hk2. inversion H1; subst o'.
        specialize (Hlt _ _ H2). lia.
      * rewrite upd_eq in H2. rewrite upd_neq in H1 by exact Hk1. inversion H2; subst o'.
        specialize (Hlt _ _ H1). lia.
      * rewrite upd_neq in H1 by exact Hk1. rewrite upd_neq in H2 by exact Hk2. exact (Hinj _ _ _ H1 H2).
Qed.

Lemma ginv_fold : forall sched s, ginv s -> ginv (fold_left (gstep false) sched s).
Proof.
  induction sched as [| [t k] sched IH]; intros s H; [exact H |].
  cbn [fold_left]. apply IH. cbn [gstep]. apply ginv_step. exact H.
Qed.

Lemma ginv_run : forall sched, ginv (grun false sched).
Proof. intro sched. apply ginv_fold. exact ginv_init. Qed.

Lemma one_hold_agree : forall sched, agree (g_log (grun false sched)).
Proof.
  intros sched t1 t2 k o1 o2 H1 H2. destruct (ginv_run sched) as [Hm _].
  pose proof (Hm _ _ _ H1) as E1. pose proof (Hm _ _ _ H2) as E2. rewrite E1 in E2. inversion E2. reflexivity.
Qed.

Lemma one_hold_in_map : forall sched, in_map (grun false sched).
Proof. intro sched. exact (proj1 (ginv_run sched)). Qed.

Lemma one_hold_separate : forall sched, separate (g_log (grun false sched)).
Proof.
  intros sched t1 t2 k1 k2 o H1 H2. destruct (ginv_run sched) as [Hm [_ Hinj]].
  exact (Hinj _ _ _ (Hm _ _ _ H1) (Hm _ _ _ H2)).
Qed.

(* a one-hold run IS a one-at-a-time run: every schedule entry is a complete call *)
Lemma one_hold_is_serial : forall sched,
  grun false sched = fold_left (fun s c => get_or_create s (fst c) (snd c)) sched ginit.
Proof.
  intro sched. unfold grun. generalize ginit.
  induction sched as [| [t k] sched IH]; intro s; [reflexivity |]. cbn [fold_left gstep fst snd]. apply IH.
Qed.

Lemma split_witness_log : g_log (grun true goc_witness) = [(2, 7, 1); (1, 7, 0)].
Proof. vm_compute. reflexivity. Qed.

Lemma split_not_agree : ~ agree (g_log (grun true goc_witness)).
Proof.
  intro H. rewrite split_witness_log in H.
  assert (E : 1 = 0) by (apply (H 2 1 7 1 0); [left; reflexivity | right; left; reflexivity]).
  discriminate E.
Qed.
