(* C18 — second discipline: roles per EVENT (a goroutine can handle an admin call,
   build an engine in role "load" and go on as "admin"), trace locations finer
   than field names (a location = a field of ONE object; [fld] projects it to the
   "pkg.Type.field" of the facts), no quiet role but "init", and the PUBLICATION of
   per-engine objects modelled instead of assumed:

     - every location of a generation field belongs to one engine generation g;
     - the goroutine that builds g touches g's locations in role "load" only
       BEFORE it publishes g: a publication is a write-unlock (RelW l) by the
       builder (routing: setStream under StreamsData.streamLock; metrics manager:
       UpdateMetricsForFlow under MetricManager.mu);
     - a goroutine of a consumer role (txn, admin, metrics) other than the builder
       touches a location of g only after it has ACQUIRED (RLock or Lock), later
       than some publication of g, the lock of that publication (getStream).

   From this protocol every load access is ordered by happens-before with every
   conflicting consumer access (po ; unlock->lock ; po), two load accesses to one
   location are made by one goroutine, and a consumer access can not come first.
   All other pairs need a common lock, exactly as in Discipline.v. *)
From Coq Require Import List Arith Lia Bool String.
From Verif Require Import C18.Lockset C18.Trace C18.Discipline.
Import ListNotations.
Local Open Scope list_scope.

Section Discipline2.
  Variable facts : list fact.
  Variable multi gen cons : list string.
  Variable skip : list string.
  Variable role_at : nat -> string.     (* role under which the event at an index runs *)
  Variable fld : loc -> string.         (* field name of a trace location *)

  Definition justifies2 (f : fact) (p : trace) (t : tid) (e : event) : Prop :=
    f_role f = role_at (List.length p) /\
    (exists x, is_access e x /\ fld x = f_field f) /\
    kind_of e = Some (f_kind f) /\
    (forall l, In l (f_xlocks f) -> holdsW p t l) /\
    (forall l, In l (f_slocks f) -> holdsR p t l).

  Definition conforms2 (tr : trace) : Prop :=
    forall p t e s x, tr = p ++ (t, e) :: s -> is_access e x ->
      exists f, In f facts /\ justifies2 f p t e.

  (* ---- the publication protocol ---- *)
  Variable gen_of : loc -> option nat.          (* engine generation of a location *)
  Variable builder : nat -> tid.                (* the goroutine that builds generation g *)
  Variable is_pub : nat -> nat -> lock -> Prop. (* event k publishes generation g through lock l *)

  Record pub_protocol (tr : trace) : Prop := {
    pp_gen : forall x, mem (fld x) gen = true -> exists g, gen_of x = Some g;
    pp_pub : forall g k l, is_pub g k l -> nth_error tr k = Some (builder g, RelW l);
    pp_load : forall i t e x g,
        nth_error tr i = Some (t, e) -> is_access e x -> gen_of x = Some g ->
        mem (fld x) gen = true -> role_at i = "load"%string ->
        t = builder g /\ forall k l, is_pub g k l -> i < k;
    pp_cons : forall j t e x g,
        nth_error tr j = Some (t, e) -> is_access e x -> gen_of x = Some g ->
        mem (fld x) gen = true -> mem (role_at j) cons = true -> t <> builder g ->
        exists k l m e', is_pub g k l /\ k < m /\ m < j /\
                         nth_error tr m = Some (t, e') /\ (e' = AcqR l \/ e' = AcqW l)
  }.

  (* load access first, consumer access second: po ; RelW -> Acq ; po *)
  Lemma publication_hb tr i j t1 t2 e1 e2 x g :
    pub_protocol tr -> i < j ->
    nth_error tr i = Some (t1, e1) -> nth_error tr j = Some (t2, e2) ->
    is_access e1 x -> is_access e2 x -> gen_of x = Some g -> mem (fld x) gen = true ->
    role_at i = "load"%string -> mem (role_at j) cons = true -> t1 <> t2 ->
    hb tr i j.
  Proof.
    intros PP Hij N1 N2 A1 A2 G Gf L C Hne.
    destruct (pp_load tr PP i t1 e1 x g N1 A1 G Gf L) as [-> Hbefore].
    destruct (pp_cons tr PP j t2 e2 x g N2 A2 G Gf C (not_eq_sym Hne))
      as (k & l & m & e' & Pk & Hkm & Hmj & Nm & Acq).
    pose proof (Hbefore k l Pk) as Hik.
    pose proof (pp_pub tr PP g k l Pk) as Nk.
    apply hb_trans with k.
    { apply (hb_po tr i k (builder g) e1 (RelW l)); assumption. }
    apply hb_trans with m.
    { apply (hb_sync tr k m (builder g) t2 (RelW l) e'); try assumption.
      destruct Acq as [-> | ->]; reflexivity. }
    apply (hb_po tr m j t2 e' e2); assumption.
  Qed.

  (* consumer access first, load access second: impossible *)
  Lemma consumer_not_first tr i j t1 t2 e1 e2 x g :
    pub_protocol tr -> i < j ->
    nth_error tr i = Some (t1, e1) -> nth_error tr j = Some (t2, e2) ->
    is_access e1 x -> is_access e2 x -> gen_of x = Some g -> mem (fld x) gen = true ->
    mem (role_at i) cons = true -> role_at j = "load"%string -> t1 <> t2 -> False.
  Proof.
    intros PP Hij N1 N2 A1 A2 G Gf C L Hne.
    destruct (pp_load tr PP j t2 e2 x g N2 A2 G Gf L) as [-> Hbefore].
    destruct (pp_cons tr PP i t1 e1 x g N1 A1 G Gf C Hne)
      as (k & l & m & e' & Pk & Hkm & Hmi & _ & _).
    pose proof (Hbefore k l Pk). lia.
  Qed.

  (* two load accesses to one location are made by its builder *)
  Lemma two_loads_one_thread tr i j t1 t2 e1 e2 x g :
    pub_protocol tr ->
    nth_error tr i = Some (t1, e1) -> nth_error tr j = Some (t2, e2) ->
    is_access e1 x -> is_access e2 x -> gen_of x = Some g -> mem (fld x) gen = true ->
    role_at i = "load"%string -> role_at j = "load"%string -> t1 = t2.
  Proof.
    intros PP N1 N2 A1 A2 G Gf L1 L2.
    destruct (pp_load tr PP i t1 e1 x g N1 A1 G Gf L1) as [-> _].
    destruct (pp_load tr PP j t2 e2 x g N2 A2 G Gf L2) as [-> _]. reflexivity.
  Qed.

  Lemma is_load_eq r : is_load r = true <-> r = "load"%string.
  Proof. unfold is_load. apply String.eqb_eq. Qed.

  Theorem discipline2_sound :
    all_protected2 multi gen cons facts skip = true ->
    forall tr,
    (forall i, quiet_role2 (role_at i) = false) ->
    (forall i j ti tj ei ej, nth_error tr i = Some (ti, ei) -> nth_error tr j = Some (tj, ej) ->
        role_at i = role_at j -> mem (role_at i) multi = false -> ti = tj) ->
    valid tr -> conforms2 tr -> pub_protocol tr ->
    forall p1 t1 e1 p2 t2 e2 p3 x,
      tr = p1 ++ (t1, e1) :: p2 ++ (t2, e2) :: p3 ->
      t1 <> t2 -> is_access e1 x -> is_access e2 x -> racy_events e1 e2 ->
      mem (fld x) skip = false ->
      hb tr (List.length p1) (List.length p1 + 1 + List.length p2).
  Proof.
    intros AP tr Hq Hsingle V C PP p1 t1 e1 p2 t2 e2 p3 x E Hne A1 A2 R Hskip.
    set (i := List.length p1). set (j := List.length p1 + 1 + List.length p2).
    assert (N1 : nth_error tr i = Some (t1, e1)).
    { rewrite E. apply nth_error_mid. }
    assert (E2 : tr = (p1 ++ (t1, e1) :: p2) ++ (t2, e2) :: p3).
    { rewrite E. rewrite <- app_assoc. reflexivity. }
    assert (Lj : List.length (p1 ++ (t1, e1) :: p2) = j).
    { rewrite app_length. cbn [List.length]. unfold j. lia. }
    assert (N2 : nth_error tr j = Some (t2, e2)).
    { rewrite E2, <- Lj. apply nth_error_mid. }
    assert (Hij : i < j) by (unfold i, j; lia).
    destruct (C p1 t1 e1 (p2 ++ (t2, e2) :: p3) x E A1)
      as (f1 & In1 & R1 & (x1 & Ax1 & F1) & K1 & X1 & S1).
    destruct (C _ t2 e2 p3 x E2 A2) as (f2 & In2 & R2 & (x2 & Ax2 & F2) & K2 & X2 & S2).
    rewrite Lj in R2. fold i in R1.
    pose proof (access_field _ _ _ Ax1 A1) as Ex1. subst x1.
    pose proof (access_field _ _ _ Ax2 A2) as Ex2. subst x2.
    unfold all_protected2 in AP. rewrite forallb_forall in AP.
    specialize (AP f1 In1). rewrite <- F1, Hskip in AP. cbn [orb] in AP.
    rewrite forallb_forall in AP. specialize (AP f2 In2).
    rewrite unprotected_pair2_l_eq in AP.
    apply negb_true_iff in AP. unfold unprotected_pair2 in AP.
    assert (Hc : conflicting f1 f2 = true).
    { unfold conflicting. rewrite <- F1, <- F2, String.eqb_refl. cbn [andb].
      unfold racy_events in R. rewrite K1, K2 in R. exact R. }
    assert (Hm : may_be_concurrent2 multi (f_role f1) (f_role f2) = true).
    { unfold may_be_concurrent2. rewrite R1, R2, !Hq. cbn [negb andb].
      destruct (String.eqb_spec (role_at i) (role_at j)) as [Er|Nr]; [|reflexivity].
      cbn [negb orb]. destruct (mem (role_at i) multi) eqn:Hmm; [reflexivity|].
      exfalso. apply Hne. exact (Hsingle i j t1 t2 e1 e2 N1 N2 Er Hmm). }
    rewrite Hc, Hm in AP. cbn [andb] in AP.
    destruct (pub_pair gen cons f1 f2) eqn:Hpub.
    - (* ordered by publication *)
      clear AP. unfold pub_pair in Hpub. rewrite <- F1, R1, R2 in Hpub.
      apply andb_true_iff in Hpub. destruct Hpub as [Gf Hroles].
      destruct (pp_gen tr PP x Gf) as (g & G).
      apply orb_true_iff in Hroles. destruct Hroles as [Hr|Hr]; apply andb_true_iff in Hr.
      + destruct Hr as [L1 Hr2]. apply is_load_eq in L1.
        apply orb_true_iff in Hr2. destruct Hr2 as [L2|C2].
        * apply is_load_eq in L2. exfalso. apply Hne.
          exact (two_loads_one_thread tr i j t1 t2 e1 e2 x g PP N1 N2 A1 A2 G Gf L1 L2).
        * exact (publication_hb tr i j t1 t2 e1 e2 x g PP Hij N1 N2 A1 A2 G Gf L1 C2 Hne).
      + destruct Hr as [L2 C1]. apply is_load_eq in L2. exfalso.
        exact (consumer_not_first tr i j t1 t2 e1 e2 x g PP Hij N1 N2 A1 A2 G Gf C1 L2 Hne).
    - (* ordered by a common lock *)
      cbn [negb andb] in AP. rewrite andb_true_r in AP. apply negb_false_iff in AP.
      subst tr. unfold share_lock in AP. apply orb_true_iff in AP.
      destruct AP as [AP|AP]; apply existsb_exists in AP; destruct AP as (l & Hl & Hl2).
      + apply (lockset_sound l x t1 t2 e1 e2 p1 p2 p3 V Hne A1). left. split.
        * apply X1. exact Hl.
        * apply orb_true_iff in Hl2. destruct Hl2 as [H|H]; apply mem_In in H.
          -- left. apply X2. exact H.
          -- right. apply S2. exact H.
      + apply (lockset_sound l x t1 t2 e1 e2 p1 p2 p3 V Hne A1). right. split.
        * apply S1. exact Hl.
        * apply mem_In in Hl2. apply X2. exact Hl2.
  Qed.
End Discipline2.

(* ------------------------------------------------------------------ *)
(* Executable checkers, so that concrete traces (the Example of Property.v, the
   conformance samples the harness records) can be shown valid / conforming by
   computation. *)
Section Checkers.
  Variable facts : list fact.
  Variable role_at : nat -> string.
  Variable fld : loc -> string.

  Definition holdsW_b (p : trace) (t : tid) (l : lock) : bool :=
    match writer (lst l p) with Some u => Nat.eqb u t | None => false end.
  Definition holdsR_b (p : trace) (t : tid) (l : lock) : bool :=
    existsb (Nat.eqb t) (readers (lst l p)).

  Lemma holdsW_b_ok p t l : holdsW_b p t l = true -> holdsW p t l.
  Proof.
    unfold holdsW_b, holdsW. destruct (writer (lst l p)) as [u|]; [|discriminate].
    intros H. apply Nat.eqb_eq in H. subst. reflexivity.
  Qed.
  Lemma holdsR_b_ok p t l : holdsR_b p t l = true -> holdsR p t l.
  Proof.
    unfold holdsR_b, holdsR. rewrite existsb_exists. intros (u & Hu & E).
    apply Nat.eqb_eq in E. subst. exact Hu.
  Qed.

  Definition access_of (e : event) : option (loc * akind) :=
    match e with
    | Read x => Some (x, Rd) | Write x => Some (x, Wr) | Atomic x => Some (x, At)
    | _ => None
    end.

  Definition justifies_b (f : fact) (p : trace) (t : tid) (e : event) : bool :=
    match access_of e with
    | None => false
    | Some (x, k) =>
        String.eqb (f_role f) (role_at (List.length p)) &&
        String.eqb (fld x) (f_field f) && kind_eqb k (f_kind f) &&
        forallb (holdsW_b p t) (f_xlocks f) && forallb (holdsR_b p t) (f_slocks f)
    end.

  Fixpoint conforms_from (p rest : trace) : bool :=
    match rest with
    | [] => true
    | (t, e) :: s =>
        (match access_of e with
         | None => true
         | Some _ => existsb (fun f => justifies_b f p t e) facts
         end) && conforms_from (p ++ [(t, e)]) s
    end.

  Lemma kind_eqb_eq a b : kind_eqb a b = true -> a = b.
  Proof. destruct a, b; cbn; intros H; try discriminate; reflexivity. Qed.

  Lemma access_of_some e x k : access_of e = Some (x, k) -> is_access e x /\ kind_of e = Some k.
  Proof.
    destruct e; cbn; intros H; inversion H; subst; unfold is_access; cbn; auto.
  Qed.

  Lemma access_of_is e x : is_access e x -> exists k, access_of e = Some (x, k).
  Proof. intros [-> | [-> | ->]]; cbn; eauto. Qed.

  Lemma justifies_b_ok f p t e : justifies_b f p t e = true -> justifies2 role_at fld f p t e.
  Proof.
    unfold justifies_b, justifies2. destruct (access_of e) as [[x k]|] eqn:A; [|discriminate].
    intros H. repeat (apply andb_true_iff in H; destruct H as [H ?]).
    apply access_of_some in A. destruct A as [Ax Ak].
    apply String.eqb_eq in H. apply String.eqb_eq in H3. apply kind_eqb_eq in H2.
    rewrite forallb_forall in H1, H0.
    split; [exact H|]. split; [exists x; auto|]. split; [subst; exact Ak|].
    split; intros l Hl; [apply holdsW_b_ok, H1, Hl | apply holdsR_b_ok, H0, Hl].
  Qed.

  Lemma conforms_from_ok : forall rest p,
    conforms_from p rest = true ->
    forall q t e s x, rest = q ++ (t, e) :: s -> is_access e x ->
      exists f, In f facts /\ justifies2 role_at fld f (p ++ q) t e.
  Proof.
    induction rest as [|[t0 e0] rest IH]; intros p H q t e s x E A.
    { destruct q; discriminate. }
    cbn [conforms_from] in H. apply andb_true_iff in H. destruct H as [H0 Hrest].
    destruct q as [|te q].
    - cbn [app] in E. inversion E; subst. rewrite app_nil_r.
      destruct (access_of_is _ _ A) as (k & Ak). rewrite Ak in H0.
      apply existsb_exists in H0. destruct H0 as (f & Inf & J).
      exists f. split; [exact Inf|]. apply justifies_b_ok. exact J.
    - cbn [app] in E. inversion E; subst.
      destruct (IH (p ++ [(t0, e0)]) Hrest q t e s x eq_refl A) as (f & Inf & J).
      exists f. split; [exact Inf|]. rewrite <- app_assoc in J. exact J.
  Qed.

  Theorem conforms_b_sound tr : conforms_from [] tr = true -> conforms2 facts role_at fld tr.
  Proof.
    intros H p t e s x E A.
    exact (conforms_from_ok tr [] H p t e s x E A).
  Qed.

  (* validity by computation *)
  Definition enabled_b (p : trace) (te : tid * event) : bool :=
    let '(t, e) := te in
    match e with
    | AcqW l => match writer (lst l p) with None => true | Some _ => false end &&
                match readers (lst l p) with [] => true | _ => false end
    | RelW l => holdsW_b p t l
    | AcqR l => match writer (lst l p) with None => true | Some _ => false end
    | RelR l => holdsR_b p t l
    | _ => true
    end.

  Fixpoint valid_from (p rest : trace) : bool :=
    match rest with
    | [] => true
    | te :: s => enabled_b p te && valid_from (p ++ [te]) s
    end.

  Lemma enabled_b_ok p te : enabled_b p te = true -> enabled p te.
  Proof.
    destruct te as [t e]. destruct e; cbn [enabled_b enabled]; intros H; auto.
    - apply andb_true_iff in H. destruct H as [H1 H2].
      destruct (writer (lst l p)); [discriminate|].
      destruct (readers (lst l p)); [auto|discriminate].
    - apply holdsW_b_ok. exact H.
    - destruct (writer (lst l p)); [discriminate|reflexivity].
    - apply holdsR_b_ok. exact H.
  Qed.

  Lemma valid_from_ok : forall rest p, valid_from p rest = true ->
    forall q te s, rest = q ++ te :: s -> enabled (p ++ q) te.
  Proof.
    induction rest as [|te0 rest IH]; intros p H q te s E.
    { destruct q; discriminate. }
    cbn [valid_from] in H. apply andb_true_iff in H. destruct H as [H0 Hrest].
    destruct q as [|te1 q]; cbn [app] in E; inversion E; subst.
    - rewrite app_nil_r. apply enabled_b_ok. exact H0.
    - pose proof (IH (p ++ [te1]) Hrest q te s eq_refl) as En.
      rewrite <- app_assoc in En. exact En.
  Qed.

  Theorem valid_b_sound tr : valid_from [] tr = true -> valid tr.
  Proof. intros H p te s E. exact (valid_from_ok tr [] H p te s E). Qed.
End Checkers.
