(* C18 — the fields the translator is EXPECTED to report as having an
   unprotected conflicting access pair on the current tree: the recorded open
   known findings (known_findings.d/C18.json, id F-C18b). Anything else appearing
   in [racy_fields accesses], or this one disappearing, makes
   [C18_tree_racy_fields] fail to compile.
   History: "routing.StreamsData.stream" (F-C18c) and
   "routing.StreamsData.flowValidator" (F-C18d) were listed here until
   patches/C18/fix-F-C18c.patch (pointer guarded by StreamsData.streamLock, read
   through getStream under RLock, published by setStream under Lock) and
   fix-F-C18d.patch (field replaced by a local variable) repaired them. On a tree
   without those two patches the theorem does not compile: that is the report. *)
From Coq Require Import List String.
Import ListNotations.
Open Scope string_scope.

Definition expected_racy : list string :=
  [ "streams/lunar-context.lunarContext.transactionalContext" ].

(* The function bodies that other properties' models treat as ONE atomic step
   (lockset/config.json atomic_steps), each with the translator's verdict "" = "a
   single critical section of its lock". Pinned by equality: removing a claim from
   the configuration, or a body that stops being one critical section, makes
   [C18_tree_atomic_steps_pinned] fail to compile. *)
Definition expected_atomic_report : list (string * string) := [
  ("config.(TxnPoliciesAccessor).setNextVersion", "");
  ("config.(TxnPoliciesAccessor).setTxnVersion", "");
  ("streams/lunar-context.(memoryState).AtomicIncWindow", "");
  ("streams/lunar-context.(memoryState).AtomicSAddWithMaxValuesAllowed", "");
  ("streams/lunar-context.(memoryState).SRem", "");
  ("streams/processors/queue.(RequestWatcher).AddRequestIfBelow", "");
  ("streams/processors/queue.(RequestWatcher).StopAll", "");
  ("streams/resources/quota.(quota).Allowed", "");
  ("streams/resources/quota.(quota).Inc", "");
  ("utils/limit.(singleRateLimitState).TryToIncrement", "")
].

(* The get-or-create sites (lockset/getorcreate.go: look-up of a key in a
   lock-protected map and store into it in one body) that MUST be among the sites
   the translator discovers; [C18_tree_get_or_create_one_hold] demands that every
   discovered site - these and any new one - keeps look-up and store inside one
   continuous hold of the map's lock. *)
Definition expected_get_or_create_sites : list string := [
  "streams/resources/quota.(fixedWindow).getQuota:streams/resources/quota.fixedWindow.quotaGroups";
  "streams/resources/quota.(quota).Inc:streams/resources/quota.quota.allowedByReqID";
  "streams/lunar-context.GetExpireWatcher:streams/lunar-context.(var).ewInstances";
  "utils/limit.(RateLimitState).getLimiterState:utils/limit.RateLimitState.groupsStateByLimiter";
  "utils/limit/concurrency.(Limiter).TryTakeSlot:utils/limit/concurrency.Limiter.slots"
].
