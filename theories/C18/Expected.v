(* C18 — the fields the translator is EXPECTED to report as having an
   unprotected conflicting access pair on the current tree: the recorded known
   findings (known_findings.json, ids F-C18b/c/d). Anything else appearing in
   [racy_fields accesses], or one of these disappearing, makes
   [C18_tree_racy_fields] fail to compile. *)
From Coq Require Import List String.
Import ListNotations.
Open Scope string_scope.

Definition expected_racy : list string :=
  [ "routing.StreamsData.flowValidator";
    "routing.StreamsData.stream";
    "streams/lunar-context.lunarContext.transactionalContext" ].
