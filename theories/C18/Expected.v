(* C18 — the fields the translator is EXPECTED to report as having an
   unprotected conflicting access pair on the current tree: the recorded open
   known findings (known_findings.d/C18.json, id F-C18b). Anything else appearing
   in [racy_fields accesses], or this one disappearing, makes
   [C18_tree_racy_fields] fail to compile.
   History: "routing.StreamsData.stream" (F-C18c) and
   "routing.StreamsData.flowValidator" (F-C18d) were listed here until
   patches/C18/fix-F-C18c.patch (pointer guarded by StreamsData.streamLock, read
   through getStream under RLock, published by setStream under Lock) and
   fix-F-C18d.patch (field replaced by a local variable) repaired them. On a tree
   without those two patches the theorem does not compile: that is the report. *)
From Coq Require Import List String.
Import ListNotations.
Open Scope string_scope.

Definition expected_racy : list string :=
  [ "streams/lunar-context.lunarContext.transactionalContext" ].
