(* C18 — lock-set discipline: definitions shared by the generated facts
   (Accesses.v), the soundness proof (LocksetProofs.v) and the property file. *)
From Coq Require Import List String Bool Arith.
Import ListNotations.
Open Scope string_scope.

Inductive akind := Rd | Wr | At.   (* plain read, plain write, sync/atomic access *)

Record fact := mkFact {
  f_field : string;        (* "pkg.Type.field" *)
  f_kind : akind;
  f_role : string;         (* goroutine kind that can execute the access *)
  f_xlocks : list string;  (* mutexes must-held exclusively (Lock) at the access *)
  f_slocks : list string   (* RW-mutexes must-held shared (RLock) at the access *)
}.

Definition kind_eqb (a b : akind) : bool :=
  match a, b with Rd, Rd | Wr, Wr | At, At => true | _, _ => false end.

Definition mem (s : string) (l : list string) : bool := existsb (String.eqb s) l.

(* a common lock, held exclusively by at least one side *)
Definition share_lock (a b : fact) : bool :=
  existsb (fun l => mem l (f_xlocks b) || mem l (f_slocks b)) (f_xlocks a) ||
  existsb (fun l => mem l (f_xlocks b)) (f_slocks a).

(* two facts conflict when they touch the same field, unless both are plain
   reads or both go through sync/atomic *)
Definition racy_kinds (a b : akind) : bool :=
  match a, b with
  | Rd, Rd | At, At => false
  | _, _ => true
  end.

Definition conflicting (a b : fact) : bool :=
  String.eqb (f_field a) (f_field b) && racy_kinds (f_kind a) (f_kind b).

(* roles that never run concurrently with anything that shares the object:
   "init" (before the object is published), "load" (building a not yet
   published engine), "unreached" (no entry point reaches the function) *)
Definition quiet_role (r : string) : bool :=
  String.eqb r "init" || String.eqb r "load" || String.eqb r "unreached".

(* can two accesses made under these roles belong to two different goroutines
   that run at the same time? *)
Definition may_be_concurrent (multi : list string) (r1 r2 : string) : bool :=
  negb (quiet_role r1) && negb (quiet_role r2) &&
  (negb (String.eqb r1 r2) || mem r1 multi).

Definition unprotected_pair (multi : list string) (a b : fact) : bool :=
  conflicting a b && may_be_concurrent multi (f_role a) (f_role b) &&
  negb (share_lock a b).

(* The same predicate written with [if] instead of [&&]: the VM evaluates both
   arguments of [andb] before the call, so the version above costs a lock-set
   comparison for every one of the n^2 pairs of facts; this one stops at the first
   test that fails. [racy_fields] / [all_protected] compute with it, the proofs
   use the readable one through [unprotected_pair_l_eq]. *)
Definition unprotected_pair_l (multi : list string) (a b : fact) : bool :=
  if String.eqb (f_field a) (f_field b) then
    if racy_kinds (f_kind a) (f_kind b) then
      if quiet_role (f_role a) then false
      else if quiet_role (f_role b) then false
      else if (if String.eqb (f_role a) (f_role b) then mem (f_role a) multi else true)
           then negb (share_lock a b) else false
    else false
  else false.

Lemma unprotected_pair_l_eq multi a b : unprotected_pair_l multi a b = unprotected_pair multi a b.
Proof.
  unfold unprotected_pair_l, unprotected_pair, conflicting, may_be_concurrent.
  destruct (String.eqb (f_field a) (f_field b)); [|reflexivity].
  destruct (racy_kinds (f_kind a) (f_kind b)); [|reflexivity].
  destruct (quiet_role (f_role a)); [reflexivity|].
  destruct (quiet_role (f_role b)); [reflexivity|].
  destruct (String.eqb (f_role a) (f_role b)); cbn [negb andb orb];
    destruct (mem (f_role a) multi); reflexivity.
Qed.

(* the fields that have at least one unprotected conflicting pair *)
Fixpoint dedup (l : list string) : list string :=
  match l with
  | [] => []
  | x :: r => if mem x r then dedup r else x :: dedup r
  end.

Definition racy_fields (multi : list string) (fs : list fact) : list string :=
  dedup (flat_map (fun a =>
           if existsb (fun b => unprotected_pair_l multi a b) fs then [f_field a] else []) fs).

Definition all_protected (multi : list string) (fs : list fact) (skip : list string) : bool :=
  forallb (fun a => mem (f_field a) skip ||
             forallb (fun b => negb (unprotected_pair_l multi a b)) fs) fs.

(* writes made while the only hold on some lock is a SHARED one (RLock): other
   RLock holders - possibly reaching the same data through another field, e.g.
   the owner of a vacuumed map - are not excluded *)
Definition write_under_rlock (f : fact) : bool :=
  match f_kind f with
  | Wr => existsb (fun l => negb (mem l (f_xlocks f))) (f_slocks f)
  | _ => false
  end.

Definition writes_under_rlock (fs : list fact) : list string :=
  dedup (flat_map (fun f => if write_under_rlock f then [f_field f] else []) fs).

(* the atomic-step report: every listed body is a single critical section *)
Definition atomic_ok (r : list (string * string)) : bool :=
  forallb (fun p => String.eqb (snd p) "") r.

(* ------------------------------------------------------------------ *)
(* Second discipline (audit 2026-09-29). Differences from the first:
   - no role is quiet except "init" (process start-up, before the first goroutine
     of any other role exists); the translator no longer emits "unreached" (a
     function no entry point reaches gets role "txn"), and "load" is an ordinary,
     multi role;
   - a conflicting pair on a field of a per-engine object (generation field) in
     which one side is a "load" access and the other a "load" access or an access
     of a consumer role is ordered by PUBLICATION (theories/C18/Publication.v), not
     by a common lock: it is exempt here and discharged there. A load access
     against a bg: role is NOT exempt. *)
Definition quiet_role2 (r : string) : bool := String.eqb r "init".

Definition may_be_concurrent2 (multi : list string) (r1 r2 : string) : bool :=
  negb (quiet_role2 r1) && negb (quiet_role2 r2) &&
  (negb (String.eqb r1 r2) || mem r1 multi).

Definition is_load (r : string) : bool := String.eqb r "load".

Definition pub_pair (gen cons : list string) (a b : fact) : bool :=
  mem (f_field a) gen &&
  ((is_load (f_role a) && (is_load (f_role b) || mem (f_role b) cons)) ||
   (is_load (f_role b) && mem (f_role a) cons)).

Definition unprotected_pair2 (multi gen cons : list string) (a b : fact) : bool :=
  conflicting a b && may_be_concurrent2 multi (f_role a) (f_role b) &&
  negb (share_lock a b) && negb (pub_pair gen cons a b).

(* lazy form for computation, see [unprotected_pair_l] *)
Definition unprotected_pair2_l (multi gen cons : list string) (a b : fact) : bool :=
  if String.eqb (f_field a) (f_field b) then
    if racy_kinds (f_kind a) (f_kind b) then
      if quiet_role2 (f_role a) then false
      else if quiet_role2 (f_role b) then false
      else if (if String.eqb (f_role a) (f_role b) then mem (f_role a) multi else true)
           then (if share_lock a b then false else negb (pub_pair gen cons a b))
           else false
    else false
  else false.

Lemma unprotected_pair2_l_eq multi gen cons a b :
  unprotected_pair2_l multi gen cons a b = unprotected_pair2 multi gen cons a b.
Proof.
  unfold unprotected_pair2_l, unprotected_pair2, conflicting, may_be_concurrent2.
  destruct (String.eqb (f_field a) (f_field b)); [|reflexivity].
  destruct (racy_kinds (f_kind a) (f_kind b)); [|reflexivity].
  destruct (quiet_role2 (f_role a)); [reflexivity|].
  destruct (quiet_role2 (f_role b)); [reflexivity|].
  destruct (String.eqb (f_role a) (f_role b)); cbn [negb andb orb];
    destruct (mem (f_role a) multi); cbn [negb andb orb];
    destruct (share_lock a b); reflexivity.
Qed.

Definition racy_fields2 (multi gen cons : list string) (fs : list fact) : list string :=
  dedup (flat_map (fun a =>
           if existsb (fun b => unprotected_pair2_l multi gen cons a b) fs then [f_field a] else []) fs).

Definition all_protected2 (multi gen cons : list string) (fs : list fact) (skip : list string) : bool :=
  forallb (fun a => mem (f_field a) skip ||
             forallb (fun b => negb (unprotected_pair2_l multi gen cons a b)) fs) fs.

(* the pairs handed over to the publication argument, by field (for the record) *)
Definition publication_fields (multi gen cons : list string) (fs : list fact) : list string :=
  dedup (flat_map (fun a =>
           if existsb (fun b =>
                if String.eqb (f_field a) (f_field b) then
                  if racy_kinds (f_kind a) (f_kind b) then
                    if may_be_concurrent2 multi (f_role a) (f_role b) then
                      if share_lock a b then false else pub_pair gen cons a b
                    else false
                  else false
                else false) fs
           then [f_field a] else []) fs).
