(* C18 — lock-set discipline: definitions shared by the generated facts
   (Accesses.v), the soundness proof (LocksetProofs.v) and the property file. *)
From Coq Require Import List String Bool Arith.
Import ListNotations.
Open Scope string_scope.

Inductive akind := Rd | Wr | At.   (* plain read, plain write, sync/atomic access *)

Record fact := mkFact {
  f_field : string;        (* "pkg.Type.field" *)
  f_kind : akind;
  f_role : string;         (* goroutine kind that can execute the access *)
  f_xlocks : list string;  (* mutexes must-held exclusively (Lock) at the access *)
  f_slocks : list string   (* RW-mutexes must-held shared (RLock) at the access *)
}.

Definition kind_eqb (a b : akind) : bool :=
  match a, b with Rd, Rd | Wr, Wr | At, At => true | _, _ => false end.

Definition mem (s : string) (l : list string) : bool := existsb (String.eqb s) l.

(* a common lock, held exclusively by at least one side *)
Definition share_lock (a b : fact) : bool :=
  existsb (fun l => mem l (f_xlocks b) || mem l (f_slocks b)) (f_xlocks a) ||
  existsb (fun l => mem l (f_xlocks b)) (f_slocks a).

(* two facts conflict when they touch the same field, unless both are plain
   reads or both go through sync/atomic *)
Definition racy_kinds (a b : akind) : bool :=
  match a, b with
  | Rd, Rd | At, At => false
  | _, _ => true
  end.

Definition conflicting (a b : fact) : bool :=
  String.eqb (f_field a) (f_field b) && racy_kinds (f_kind a) (f_kind b).

(* roles that never run concurrently with anything that shares the object:
   "init" (before the object is published), "load" (building a not yet
   published engine), "unreached" (no entry point reaches the function) *)
Definition quiet_role (r : string) : bool :=
  String.eqb r "init" || String.eqb r "load" || String.eqb r "unreached".

(* can two accesses made under these roles belong to two different goroutines
   that run at the same time? *)
Definition may_be_concurrent (multi : list string) (r1 r2 : string) : bool :=
  negb (quiet_role r1) && negb (quiet_role r2) &&
  (negb (String.eqb r1 r2) || mem r1 multi).

Definition unprotected_pair (multi : list string) (a b : fact) : bool :=
  conflicting a b && may_be_concurrent multi (f_role a) (f_role b) &&
  negb (share_lock a b).

(* the fields that have at least one unprotected conflicting pair *)
Fixpoint dedup (l : list string) : list string :=
  match l with
  | [] => []
  | x :: r => if mem x r then dedup r else x :: dedup r
  end.

Definition racy_fields (multi : list string) (fs : list fact) : list string :=
  dedup (flat_map (fun a =>
           if existsb (fun b => unprotected_pair multi a b) fs then [f_field a] else []) fs).

Definition all_protected (multi : list string) (fs : list fact) (skip : list string) : bool :=
  forallb (fun a => mem (f_field a) skip ||
             forallb (fun b => negb (unprotected_pair multi a b)) fs) fs.

(* writes made while the only hold on some lock is a SHARED one (RLock): other
   RLock holders - possibly reaching the same data through another field, e.g.
   the owner of a vacuumed map - are not excluded *)
Definition write_under_rlock (f : fact) : bool :=
  match f_kind f with
  | Wr => existsb (fun l => negb (mem l (f_xlocks f))) (f_slocks f)
  | _ => false
  end.

Definition writes_under_rlock (fs : list fact) : list string :=
  dedup (flat_map (fun f => if write_under_rlock f then [f_field f] else []) fs).

(* the atomic-step report: every listed body is a single critical section *)
Definition atomic_ok (r : list (string * string)) : bool :=
  forallb (fun p => String.eqb (snd p) "") r.
