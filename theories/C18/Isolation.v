(* C18 — clause 4 with transaction identity: proofs about Model.run2 / iso_ok. *)
From Coq Require Import List ZArith Bool Lia.
From Verif Require Import C18.Model.
Import ListNotations.

(* invariant: every transaction inside the flow entered it with the slot in its
   present state *)
Definition snaps_current (s : st2) : Prop :=
  forall t b, In (t, b) (running s) -> b = present2 s.

Lemma in_drop t u b l : In (u, b) (drop_txn t l) -> In (u, b) l /\ u <> t.
Proof.
  induction l as [|[v c] l IH]; cbn [drop_txn]; [intros []|].
  destruct (Z.eqb_spec v t) as [->|Hne].
  - intros H. destruct (IH H) as [H1 H2]. split; [right; exact H1|exact H2].
  - intros [H|H].
    + inversion H; subst. split; [left; reflexivity|exact Hne].
    + destruct (IH H) as [H1 H2]. split; [right; exact H1|exact H2].
Qed.

Lemma snapshot_in t l b : snapshot t l = Some b -> In (t, b) l.
Proof.
  induction l as [|[v c] l IH]; cbn [snapshot]; [discriminate|].
  destruct (Z.eqb_spec v t) as [->|Hne].
  - intros H. inversion H; subst. left. reflexivity.
  - intros H. right. exact (IH H).
Qed.

Lemma foreign_none u l : foreign_running u l = false -> forall t b, In (t, b) l -> t = u.
Proof.
  unfold foreign_running. intros H t b Hin.
  destruct (Z.eqb_spec t u) as [E|Hne]; [exact E|].
  exfalso. assert (X : existsb (fun p => negb (Z.eqb (fst p) u)) l = true).
  { apply existsb_exists. exists (t, b). split; [exact Hin|].
    cbn [fst]. apply negb_true_iff. apply Z.eqb_neq. exact Hne. }
  rewrite X in H. discriminate.
Qed.

Lemma iso_outside_overlap : forall ops s,
  snaps_current s -> no_overlap_clear s ops = true -> iso_ok s ops = true.
Proof.
  induction ops as [|o ops IH]; intros s Inv H; [reflexivity|].
  cbn [no_overlap_clear] in H. apply andb_true_iff in H. destruct H as [H0 Hr].
  cbn [iso_ok]. apply andb_true_iff. split.
  - destruct o as [t|t|t]; try reflexivity.
    destruct (snapshot t (running s)) as [b|] eqn:S; [|reflexivity].
    apply snapshot_in in S. rewrite (Inv t b S). apply eqb_reflx.
  - apply IH; [|exact Hr].
    destruct o as [t|t|t]; cbn [step2 fst].
    + intros u b [E|Hin]; cbn [present2 running] in *.
      * inversion E; subst. reflexivity.
      * apply in_drop in Hin. destruct Hin as [Hin _]. exact (Inv u b Hin).
    + exact Inv.
    + intros u b Hin. cbn [present2 running] in *.
      apply in_drop in Hin. destruct Hin as [Hin Hne].
      apply negb_true_iff in H0. apply andb_false_iff in H0. destruct H0 as [P|F].
      * rewrite (Inv u b Hin). exact P.
      * exfalso. apply Hne. exact (foreign_none t _ F u b Hin).
Qed.

Lemma init2_current : snaps_current init2.
Proof. intros t b []. Qed.
