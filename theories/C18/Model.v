(* C18 — executable model of the per-flow transactional context
   (flow/flow.go, lunar-context/{lunar_context,context_manager}.go):
   ONE slot per flow, created when the flow is built, set to nil by
   Flow.CleanExecution after EVERY execution of the flow, never re-created.
   Ops: Use = a processor calls GetTransactionalContext (observable: nil or not);
        Clean = end of one transaction's execution of the flow. *)
From Coq Require Import List ZArith Bool.
Import ListNotations.

Inductive op := Use (t : Z) | Clean (t : Z).     (* t = transaction id (ghost) *)

(* state: is the slot still populated? *)
Definition step (present : bool) (o : op) : bool * option bool :=
  match o with
  | Use _ => (present, Some present)
  | Clean _ => (false, None)
  end.

Fixpoint run (present : bool) (ops : list op) : list bool :=
  match ops with
  | [] => []
  | o :: r => let '(p', out) := step present o in
              match out with Some b => b :: run p' r | None => run p' r end
  end.

(* correspondence: ops encoded as (kind, txn): kind 0 = Use, 1 = Clean;
   observed = for every Use whether the implementation returned non-nil *)
Definition case_txctx := (list (Z * Z) * list bool)%type.
Definition dec (k : Z * Z) : op := if Z.eqb (fst k) 0 then Use (snd k) else Clean (snd k).
Fixpoint eqbl (a b : list bool) : bool :=
  match a, b with
  | [], [] => true
  | x :: a', y :: b' => eqb x y && eqbl a' b'
  | _, _ => false
  end.
Definition run_txctx (k : case_txctx) : option (list bool) :=
  let m := run true (map dec (fst k)) in
  if eqbl m (snd k) then None else Some m.
