(* C18 — executable model of the per-flow transactional context
   (flow/flow.go, lunar-context/{lunar_context,context_manager}.go):
   ONE slot per flow, created when the flow is built, set to nil by
   Flow.CleanExecution after EVERY execution of the flow, never re-created.
   Ops: Use = a processor calls GetTransactionalContext (observable: nil or not);
        Clean = end of one transaction's execution of the flow. *)
From Coq Require Import List ZArith Bool.
Import ListNotations.

Inductive op := Use (t : Z) | Clean (t : Z).     (* t = transaction id (ghost) *)

(* state: is the slot still populated? *)
Definition step (present : bool) (o : op) : bool * option bool :=
  match o with
  | Use _ => (present, Some present)
  | Clean _ => (false, None)
  end.

Fixpoint run (present : bool) (ops : list op) : list bool :=
  match ops with
  | [] => []
  | o :: r => let '(p', out) := step present o in
              match out with Some b => b :: run p' r | None => run p' r end
  end.

(* correspondence: ops encoded as (kind, txn): kind 0 = Use, 1 = Clean;
   observed = for every Use whether the implementation returned non-nil *)
Definition case_txctx := (list (Z * Z) * list bool)%type.
Definition dec (k : Z * Z) : op := if Z.eqb (fst k) 0 then Use (snd k) else Clean (snd k).
Fixpoint eqbl (a b : list bool) : bool :=
  match a, b with
  | [], [] => true
  | x :: a', y :: b' => eqb x y && eqbl a' b'
  | _, _ => false
  end.
Definition run_txctx (k : case_txctx) : option (list bool) :=
  let m := run true (map dec (fst k)) in
  if eqbl m (snd k) then None else Some m.

(* ------------------------------------------------------------------ *)
(* Clause 4 with transaction identity (audit 2026-09-29): executions of one flow
   by several transactions OVERLAP. Begin t = transaction t enters the flow,
   Use2 t = a processor run by t asks for the flow's transactional context,
   Clean2 t = t leaves the flow (Flow.CleanExecution -> DestroyTransactionalContext).
   The implementation has ONE slot per flow for all of them; the ghost component
   [running] remembers, for every transaction inside the flow, what the slot
   looked like when it entered - the state it "still uses". *)
Inductive op2 := Begin (t : Z) | Use2 (t : Z) | Clean2 (t : Z).

Record st2 := mkSt2 { present2 : bool; running : list (Z * bool) }.

Definition init2 : st2 := mkSt2 true [].

Fixpoint drop_txn (t : Z) (l : list (Z * bool)) : list (Z * bool) :=
  match l with
  | [] => []
  | (u, b) :: r => if Z.eqb u t then drop_txn t r else (u, b) :: drop_txn t r
  end.

Fixpoint snapshot (t : Z) (l : list (Z * bool)) : option bool :=
  match l with
  | [] => None
  | (u, b) :: r => if Z.eqb u t then Some b else snapshot t r
  end.

Definition step2 (s : st2) (o : op2) : st2 * option (Z * bool) :=
  match o with
  | Begin t => (mkSt2 (present2 s) ((t, present2 s) :: drop_txn t (running s)), None)
  | Use2 t => (s, Some (t, present2 s))
  | Clean2 t => (mkSt2 false (drop_txn t (running s)), None)
  end.

Fixpoint run2 (s : st2) (ops : list op2) : list (Z * bool) :=
  match ops with
  | [] => []
  | o :: r => let '(s', out) := step2 s o in
              match out with Some b => b :: run2 s' r | None => run2 s' r end
  end.

(* isolation, per observation: what a running transaction gets is what the slot
   was when it entered the flow (nobody else's execution changed it) *)
Fixpoint iso_ok (s : st2) (ops : list op2) : bool :=
  match ops with
  | [] => true
  | o :: r =>
      (match o with
       | Use2 t => match snapshot t (running s) with
                   | Some b => eqb b (present2 s)
                   | None => true
                   end
       | _ => true
       end) && iso_ok (fst (step2 s o)) r
  end.

(* the interference itself: a Clean by u while the slot is populated and some
   OTHER transaction is inside the flow *)
Definition foreign_running (u : Z) (l : list (Z * bool)) : bool :=
  existsb (fun p => negb (Z.eqb (fst p) u)) l.

Fixpoint no_overlap_clear (s : st2) (ops : list op2) : bool :=
  match ops with
  | [] => true
  | o :: r =>
      (match o with
       | Clean2 u => negb (present2 s && foreign_running u (running s))
       | _ => true
       end) && no_overlap_clear (fst (step2 s o)) r
  end.

(* correspondence suite txctx2: ops encoded (kind, txn), kind 0 = Use, 1 = Clean,
   2 = Begin; observed = for every Use whether the real flow
   (Flow.GetExecutionContext().GetTransactionalContext(), Flow.CleanExecution)
   returned non-nil *)
Definition dec2 (k : Z * Z) : op2 :=
  if Z.eqb (fst k) 0 then Use2 (snd k) else if Z.eqb (fst k) 1 then Clean2 (snd k) else Begin (snd k).
Definition run_txctx2 (k : case_txctx) : option (list bool) :=
  let m := map snd (run2 init2 (map dec2 (fst k))) in
  if eqbl m (snd k) then None else Some m.
