(* C18 — get-or-create of a keyed object in a lock-protected map (quota group per
   header value: fixedWindow.getQuota; the other sites lockset/getorcreate.go
   finds). Executable definitions only; lemmas in GetOrCreateProofs.v, statements
   in Property.v.

   A call (t, k) = goroutine t asks for the object of key k. Variant switch:
   - split = false (the code): look-up and store sit inside ONE continuous hold of
     the map's lock, so a call is one step of the interleaving: return the object
     the map holds for k, or create a fresh one, store it and return it. That the
     source really is of this shape is the translator's claim
     [get_or_create_report] (regenerated every run, C18_tree_get_or_create_one_hold).
   - split = true (seeded change C18-12): look-up (under a read lock), unlock,
     build the object, lock, store WITHOUT re-check: two steps of the interleaving.
     A schedule entry of a goroutine with a pending miss is its store (the key is
     the one it looked up). *)
From Coq Require Import List ZArith Bool.
Import ListNotations.
Local Open Scope Z_scope.

Record gstate := mkG {
  g_map  : Z -> option Z;          (* key -> object the map holds *)
  g_next : Z;                      (* next fresh object *)
  g_miss : Z -> option Z;          (* split only: goroutine -> key it looked up and missed, store pending *)
  g_log  : list (Z * Z * Z)        (* completed calls, newest first: (goroutine, key, object returned) *)
}.

Definition upd {A : Type} (f : Z -> A) (k : Z) (v : A) : Z -> A :=
  fun x => if Z.eqb x k then v else f x.

Definition ginit : gstate := mkG (fun _ => None) 0 (fun _ => None) [].

(* look-up + create + store as one step *)
Definition get_or_create (s : gstate) (t k : Z) : gstate :=
  match g_map s k with
  | Some o => mkG (g_map s) (g_next s) (g_miss s) ((t, k, o) :: g_log s)
  | None => mkG (upd (g_map s) k (Some (g_next s))) (g_next s + 1) (g_miss s) ((t, k, g_next s) :: g_log s)
  end.

Definition gstep (split : bool) (s : gstate) (c : Z * Z) : gstate :=
  let (t, k) := c in
  if split then
    match g_miss s t with
    | Some k0 => (* the pending store: no re-check *)
        mkG (upd (g_map s) k0 (Some (g_next s))) (g_next s + 1) (upd (g_miss s) t None)
            ((t, k0, g_next s) :: g_log s)
    | None =>
        match g_map s k with
        | Some o => mkG (g_map s) (g_next s) (g_miss s) ((t, k, o) :: g_log s)
        | None => mkG (g_map s) (g_next s) (upd (g_miss s) t (Some k)) (g_log s)
        end
    end
  else get_or_create s t k.

Definition grun (split : bool) (sched : list (Z * Z)) : gstate :=
  fold_left (gstep split) sched ginit.

(* what a one-at-a-time execution of get-or-create guarantees its callers *)
(* all calls on one key got the same object (so a mark a transaction left on the
   object of its first call - quota.allowedByReqID - is on the object of its next call) *)
Definition agree (log : list (Z * Z * Z)) : Prop :=
  forall t1 t2 k o1 o2, In (t1, k, o1) log -> In (t2, k, o2) log -> o1 = o2.
(* ... and it is the object the map holds afterwards *)
Definition in_map (s : gstate) : Prop :=
  forall t k o, In (t, k, o) (g_log s) -> g_map s k = Some o.
(* calls on different keys never share an object *)
Definition separate (log : list (Z * Z * Z)) : Prop :=
  forall t1 t2 k1 k2 o, In (t1, k1, o) log -> In (t2, k2, o) log -> k1 = k2.

(* two goroutines, both the first of key 7: look-up, look-up, store, store *)
Definition goc_witness : list (Z * Z) := [(1, 7); (2, 7); (1, 7); (2, 7)].
