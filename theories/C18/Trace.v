(* C18 — event semantics of goroutines with mutexes / RW-mutexes and the
   soundness of the lock-set discipline: two accesses to one location made by
   different threads while both hold a common lock, at least one of them
   exclusively, are ordered by happens-before in EVERY valid interleaving. *)
From Coq Require Import List Arith Lia Bool String.
Import ListNotations.

Definition tid := nat.
Definition lock := string.
Definition loc := string.

Inductive event :=
| AcqW (l : lock) | RelW (l : lock)      (* Lock / Unlock *)
| AcqR (l : lock) | RelR (l : lock)      (* RLock / RUnlock *)
| Read (x : loc) | Write (x : loc) | Atomic (x : loc).   (* plain read, plain write, sync/atomic access *)

Definition trace := list (tid * event).

(* state of one lock: the writer, and the multiset of readers *)
Record lstate := { writer : option tid; readers : list tid }.
Definition lfree : lstate := {| writer := None; readers := [] |}.

Fixpoint remove1 (t : tid) (l : list tid) : list tid :=
  match l with
  | [] => []
  | x :: r => if Nat.eqb x t then r else x :: remove1 t r
  end.

Definition upd (l : lock) (s : lstate) (te : tid * event) : lstate :=
  let '(t, e) := te in
  match e with
  | AcqW l' => if String.eqb l l' then {| writer := Some t; readers := readers s |} else s
  | RelW l' => if String.eqb l l' then {| writer := None; readers := readers s |} else s
  | AcqR l' => if String.eqb l l' then {| writer := writer s; readers := t :: readers s |} else s
  | RelR l' => if String.eqb l l' then {| writer := writer s; readers := remove1 t (readers s) |} else s
  | _ => s
  end.

(* lock state after executing a prefix *)
Definition lst (l : lock) (p : trace) : lstate := fold_left (upd l) p lfree.

(* may event e of thread t be executed after prefix p? *)
Definition enabled (p : trace) (te : tid * event) : Prop :=
  let '(t, e) := te in
  match e with
  | AcqW l => writer (lst l p) = None /\ readers (lst l p) = []
  | RelW l => writer (lst l p) = Some t
  | AcqR l => writer (lst l p) = None
  | RelR l => In t (readers (lst l p))
  | _ => True
  end.

Definition valid (tr : trace) : Prop :=
  forall p te s, tr = p ++ te :: s -> enabled p te.

Definition holdsW (p : trace) (t : tid) (l : lock) : Prop := writer (lst l p) = Some t.
Definition holdsR (p : trace) (t : tid) (l : lock) : Prop := In t (readers (lst l p)).

(* release -> acquire synchronisation of Go's sync.Mutex / sync.RWMutex *)
Definition syncs (e1 e2 : event) : Prop :=
  match e1, e2 with
  | RelW l, AcqW l' | RelW l, AcqR l' | RelR l, AcqW l' => l = l'
  | _, _ => False
  end.

Inductive hb (tr : trace) : nat -> nat -> Prop :=
| hb_po i j t e1 e2 :
    i < j -> nth_error tr i = Some (t, e1) -> nth_error tr j = Some (t, e2) -> hb tr i j
| hb_sync i j t1 t2 e1 e2 :
    i < j -> nth_error tr i = Some (t1, e1) -> nth_error tr j = Some (t2, e2) ->
    syncs e1 e2 -> hb tr i j
| hb_trans i j k : hb tr i j -> hb tr j k -> hb tr i k.

(* ------------------------------------------------------------------ *)

Lemma lst_app l p q : lst l (p ++ q) = fold_left (upd l) q (lst l p).
Proof. unfold lst. apply fold_left_app. Qed.

Lemma lst_snoc l p te : lst l (p ++ [te]) = upd l (lst l p) te.
Proof. rewrite lst_app. reflexivity. Qed.

Lemma valid_prefix p q : valid (p ++ q) -> valid p.
Proof.
  intros V p0 te s E. apply (V p0 te (s ++ q)). rewrite E, <- app_assoc. reflexivity.
Qed.

Lemma valid_enabled p te q : valid (p ++ te :: q) -> enabled p te.
Proof. intros V. exact (V p te q eq_refl). Qed.

(* a writer excludes all readers *)
Lemma writer_excl l : forall p t, valid p -> writer (lst l p) = Some t -> readers (lst l p) = [].
Proof.
  intros p. induction p as [|te p IH] using rev_ind; intros t V W.
  { discriminate. }
  pose proof (valid_prefix _ _ V) as Vp.
  pose proof (valid_enabled p te [] V) as En.
  rewrite lst_snoc in *. destruct te as [u e].
  destruct e as [l'|l'|l'|l'|x|x|x]; cbn [upd] in *; try (eapply IH; eassumption);
    destruct (String.eqb_spec l l') as [<-|Hne]; cbn in *; try (eapply IH; eassumption).
  all: try (destruct En as [_ Hr]; exact Hr).
  all: try discriminate.
  all: try (rewrite En in W; discriminate).
  all: try (rewrite (IH _ Vp W); reflexivity).
Qed.

(* A property of the state that holds after p and fails after p ++ q flips at
   some event of q. *)
Lemma flip_point {S} (f : S -> tid * event -> S) (P : S -> Prop)
      (dec : forall s, {P s} + {~ P s}) :
  forall q s, P s -> ~ P (fold_left f q s) ->
  exists q1 te q2, q = q1 ++ te :: q2 /\ P (fold_left f q1 s) /\ ~ P (f (fold_left f q1 s) te).
Proof.
  induction q as [|te q IH]; intros s Hs Hn.
  { contradiction. }
  cbn [fold_left] in Hn. destruct (dec (f s te)) as [Hy|Hno].
  - destruct (IH _ Hy Hn) as (q1 & te' & q2 & -> & H1 & H2).
    exists (te :: q1), te', q2. auto.
  - exists [], te, q. auto.
Qed.

Lemma nth_error_mid {A} (p : list A) x s : nth_error (p ++ x :: s) (List.length p) = Some x.
Proof. induction p; cbn; auto. Qed.

Definition opt_tid_dec (a b : option tid) : {a = b} + {a <> b}.
Proof. decide equality. apply Nat.eq_dec. Defined.

(* If t holds l exclusively after p but not after p ++ q, q contains t's Unlock. *)
Lemma writer_released l t p q :
  valid (p ++ q) -> holdsW p t l -> ~ holdsW (p ++ q) t l ->
  exists q1 q2, q = q1 ++ (t, RelW l) :: q2.
Proof.
  unfold holdsW. intros V H1 H2. rewrite lst_app in H2.
  destruct (flip_point (upd l) (fun s => writer s = Some t)
              (fun s => opt_tid_dec (writer s) (Some t)) q _ H1 H2)
    as (q1 & te & q2 & -> & Ha & Hb).
  exists q1, q2. f_equal. f_equal.
  assert (En : enabled (p ++ q1) te).
  { apply (valid_enabled (p ++ q1) te q2). rewrite <- app_assoc. exact V. }
  rewrite <- lst_app in Ha, Hb. destruct te as [u e].
  destruct e as [l'|l'|l'|l'|x|x|x]; cbn [upd] in Hb; try contradiction;
    destruct (String.eqb_spec l l') as [<-|Hne]; cbn in Hb; try contradiction.
  - cbn in En. destruct En as [En _]. rewrite En in Ha. discriminate.
  - cbn in En. rewrite En in Ha. inversion Ha; subst. reflexivity.
Qed.

(* If t does not hold l exclusively after p but does after p ++ q, q contains t's Lock. *)
Lemma writer_acquired l t p q :
  ~ holdsW p t l -> holdsW (p ++ q) t l ->
  exists q1 q2, q = q1 ++ (t, AcqW l) :: q2 /\ holdsW (p ++ q1 ++ [(t, AcqW l)]) t l.
Proof.
  unfold holdsW. intros H1 H2. rewrite lst_app in H2.
  destruct (flip_point (upd l) (fun s => writer s <> Some t)
              (fun s => match opt_tid_dec (writer s) (Some t) with
                        | left e => right (fun n => n e) | right n => left n end) q _ H1)
    as (q1 & te & q2 & -> & Ha & Hb).
  { intros Hn. apply Hn. exact H2. }
  exists q1, q2.
  rewrite <- lst_app in Ha, Hb. destruct te as [u e].
  assert (Hw : writer (upd l (lst l (p ++ q1)) (u, e)) = Some t).
  { destruct (opt_tid_dec (writer (upd l (lst l (p ++ q1)) (u, e))) (Some t)); [assumption|contradiction]. }
  destruct e as [l'|l'|l'|l'|x|x|x]; cbn [upd] in Hw; try contradiction;
    destruct (String.eqb_spec l l') as [<-|Hne]; cbn in Hw; try contradiction; try discriminate.
  inversion Hw; subst. split; [reflexivity|].
  rewrite app_assoc, lst_snoc. cbn [upd]. rewrite String.eqb_refl. reflexivity.
Qed.

Lemma in_remove1 t u l : In t (remove1 u l) -> In t l.
Proof.
  induction l as [|x r IH]; cbn; [tauto|].
  destruct (Nat.eqb x u); cbn; intuition.
Qed.

Lemma in_remove1_neq t u l : t <> u -> In t l -> In t (remove1 u l).
Proof.
  intros Hne. induction l as [|x r IH]; cbn; [tauto|].
  destruct (Nat.eqb_spec x u); cbn; intuition congruence.
Qed.

(* If t read-holds l after p but not after p ++ q, q contains t's RUnlock. *)
Lemma reader_released l t p q :
  holdsR p t l -> ~ holdsR (p ++ q) t l ->
  exists q1 q2, q = q1 ++ (t, RelR l) :: q2.
Proof.
  unfold holdsR. intros H1 H2. rewrite lst_app in H2.
  destruct (flip_point (upd l) (fun s => In t (readers s))
              (fun s => in_dec Nat.eq_dec t (readers s)) q _ H1 H2)
    as (q1 & te & q2 & -> & Ha & Hb).
  exists q1, q2. f_equal. f_equal. destruct te as [u e].
  destruct e as [l'|l'|l'|l'|x|x|x]; cbn [upd] in Hb; try contradiction;
    destruct (String.eqb_spec l l') as [<-|Hne]; cbn in Hb; try contradiction.
  - exfalso. apply Hb. right. exact Ha.
  - destruct (Nat.eq_dec t u) as [->|Hne]; [reflexivity|].
    exfalso. apply Hb. apply in_remove1_neq; assumption.
Qed.

(* If t does not read-hold l after p but does after p ++ q, q contains t's RLock. *)
Lemma reader_acquired l t p q :
  ~ holdsR p t l -> holdsR (p ++ q) t l ->
  exists q1 q2, q = q1 ++ (t, AcqR l) :: q2.
Proof.
  unfold holdsR. intros H1 H2. rewrite lst_app in H2.
  destruct (flip_point (upd l) (fun s => ~ In t (readers s))
              (fun s => match in_dec Nat.eq_dec t (readers s) with
                        | left e => right (fun n => n e) | right n => left n end) q _ H1)
    as (q1 & te & q2 & -> & Ha & Hb).
  { intros Hn. apply Hn. exact H2. }
  exists q1, q2. f_equal. f_equal. destruct te as [u e].
  assert (Hi : In t (readers (upd l (fold_left (upd l) q1 (lst l p)) (u, e)))).
  { destruct (in_dec Nat.eq_dec t (readers (upd l (fold_left (upd l) q1 (lst l p)) (u, e)))); [assumption|contradiction]. }
  destruct e as [l'|l'|l'|l'|x|x|x]; cbn [upd] in Hi; try contradiction;
    destruct (String.eqb_spec l l') as [<-|Hne]; cbn in Hi; try contradiction.
  - destruct Hi as [->|Hi]; [reflexivity|contradiction].
  - apply in_remove1 in Hi. contradiction.
Qed.

(* ------------------------------------------------------------------ *)
Lemma nth_at {A} (tr : list A) P x S n :
  tr = P ++ x :: S -> n = List.length P -> nth_error tr n = Some x.
Proof. intros -> ->. apply nth_error_mid. Qed.

Ltac norm_list := repeat (rewrite <- app_assoc || rewrite <- app_comm_cons); cbn [app].
Ltac len := repeat first [rewrite app_length | progress simpl List.length]; lia.

Definition is_access (e : event) (x : loc) : Prop := e = Read x \/ e = Write x \/ e = Atomic x.

Lemma access_keeps l p t e x : is_access e x -> lst l (p ++ [(t, e)]) = lst l p.
Proof. intros [-> | [-> | ->]]; rewrite lst_snoc; reflexivity. Qed.

(* t1 holds l exclusively at its access; t2 holds l (either mode) at its later access *)
Lemma sound_W_first l x t1 t2 e1 e2 p1 p2 p3 :
  let tr := p1 ++ (t1, e1) :: p2 ++ (t2, e2) :: p3 in
  valid tr -> t1 <> t2 ->
  holdsW p1 t1 l ->
  (holdsW (p1 ++ (t1, e1) :: p2) t2 l \/ holdsR (p1 ++ (t1, e1) :: p2) t2 l) ->
  is_access e1 x ->
  hb tr (List.length p1) (List.length p1 + 1 + List.length p2).
Proof.
  intros tr V Hne H1 H2 A1.
  assert (Vpre : valid ((p1 ++ [(t1, e1)]) ++ p2)).
  { apply (valid_prefix _ ((t2, e2) :: p3)). unfold tr in V. norm_list. exact V. }
  assert (EP : p1 ++ (t1, e1) :: p2 = (p1 ++ [(t1, e1)]) ++ p2) by (norm_list; reflexivity).
  rewrite EP in H2.
  assert (H1' : holdsW (p1 ++ [(t1, e1)]) t1 l).
  { unfold holdsW. rewrite (access_keeps l p1 t1 e1 x A1). exact H1. }
  assert (Hrel : ~ holdsW ((p1 ++ [(t1, e1)]) ++ p2) t1 l).
  { unfold holdsW. intros Hw. destruct H2 as [H2|H2].
    - unfold holdsW in H2. rewrite Hw in H2. inversion H2. contradiction.
    - unfold holdsR in H2. rewrite (writer_excl l _ t1 Vpre Hw) in H2. contradiction. }
  destruct (writer_released l t1 _ p2 Vpre H1' Hrel) as (q1 & q2 & Eq). subst p2.
  set (Q := (p1 ++ [(t1, e1)]) ++ q1) in *.
  assert (EQ : (p1 ++ [(t1, e1)]) ++ q1 ++ (t1, RelW l) :: q2 = (Q ++ [(t1, RelW l)]) ++ q2).
  { unfold Q. norm_list. reflexivity. }
  rewrite EQ in Vpre, H2.
  assert (VQ1 : valid (Q ++ [(t1, RelW l)])) by exact (valid_prefix _ _ Vpre).
  assert (VQ : valid Q) by exact (valid_prefix _ _ VQ1).
  assert (Hheld : writer (lst l Q) = Some t1) by exact (valid_enabled Q (t1, RelW l) [] VQ1).
  assert (Hfree : writer (lst l (Q ++ [(t1, RelW l)])) = None /\
                  readers (lst l (Q ++ [(t1, RelW l)])) = []).
  { rewrite lst_snoc. cbn [upd]. rewrite String.eqb_refl. cbn.
    split; [reflexivity|]. exact (writer_excl l Q t1 VQ Hheld). }
  destruct Hfree as [Hf1 Hf2].
  assert (Hacq : exists s1 s2 a, q2 = s1 ++ (t2, a) :: s2 /\ syncs (RelW l) a).
  { destruct H2 as [H2|H2].
    - destruct (writer_acquired l t2 (Q ++ [(t1, RelW l)]) q2) as (s1 & s2 & E & _).
      + unfold holdsW. rewrite Hf1. discriminate.
      + exact H2.
      + exists s1, s2, (AcqW l). split; [exact E|reflexivity].
    - destruct (reader_acquired l t2 (Q ++ [(t1, RelW l)]) q2) as (s1 & s2 & E).
      + unfold holdsR. rewrite Hf2. tauto.
      + exact H2.
      + exists s1, s2, (AcqR l). split; [exact E|reflexivity]. }
  destruct Hacq as (s1 & s2 & a & -> & Hs).
  set (i := List.length p1). set (j := List.length p1 + 1 + List.length (q1 ++ (t1, RelW l) :: s1 ++ (t2, a) :: s2)).
  set (r := List.length p1 + 1 + List.length q1).
  set (k := List.length p1 + 1 + List.length q1 + 1 + List.length s1).
  assert (Hi : nth_error tr i = Some (t1, e1)).
  { apply (nth_at tr p1 _ ((q1 ++ (t1, RelW l) :: s1 ++ (t2, a) :: s2) ++ (t2, e2) :: p3)); [|reflexivity].
    unfold tr. reflexivity. }
  assert (Hr : nth_error tr r = Some (t1, RelW l)).
  { apply (nth_at tr (p1 ++ (t1, e1) :: q1) _ (s1 ++ (t2, a) :: s2 ++ (t2, e2) :: p3)).
    - unfold tr. norm_list. reflexivity.
    - unfold r. len. }
  assert (Hk : nth_error tr k = Some (t2, a)).
  { apply (nth_at tr (p1 ++ (t1, e1) :: q1 ++ (t1, RelW l) :: s1) _ (s2 ++ (t2, e2) :: p3)).
    - unfold tr. norm_list. reflexivity.
    - unfold k. len. }
  assert (Hj : nth_error tr j = Some (t2, e2)).
  { apply (nth_at tr (p1 ++ (t1, e1) :: q1 ++ (t1, RelW l) :: s1 ++ (t2, a) :: s2) _ p3).
    - unfold tr. norm_list. reflexivity.
    - unfold j. len. }
  apply (hb_trans tr i r j).
  { apply (hb_po tr i r t1 e1 (RelW l)); [unfold i, r; lia|exact Hi|exact Hr]. }
  apply (hb_trans tr r k j).
  { apply (hb_sync tr r k t1 t2 (RelW l) a); [unfold r, k; lia|exact Hr|exact Hk|exact Hs]. }
  apply (hb_po tr k j t2 a e2); [unfold k, j; len|exact Hk|exact Hj].
Qed.

(* t1 holds l shared at its access; t2 holds l exclusively at its later access *)
Lemma sound_R_first l x t1 t2 e1 e2 p1 p2 p3 :
  let tr := p1 ++ (t1, e1) :: p2 ++ (t2, e2) :: p3 in
  valid tr -> t1 <> t2 ->
  holdsR p1 t1 l ->
  holdsW (p1 ++ (t1, e1) :: p2) t2 l ->
  is_access e1 x ->
  hb tr (List.length p1) (List.length p1 + 1 + List.length p2).
Proof.
  intros tr V Hne H1 H2 A1.
  assert (Vpre : valid ((p1 ++ [(t1, e1)]) ++ p2)).
  { apply (valid_prefix _ ((t2, e2) :: p3)). unfold tr in V. norm_list. exact V. }
  assert (EP : p1 ++ (t1, e1) :: p2 = (p1 ++ [(t1, e1)]) ++ p2) by (norm_list; reflexivity).
  rewrite EP in H2.
  assert (V1 : valid (p1 ++ [(t1, e1)])) by exact (valid_prefix _ _ Vpre).
  assert (H1' : holdsR (p1 ++ [(t1, e1)]) t1 l).
  { unfold holdsR. rewrite (access_keeps l p1 t1 e1 x A1). exact H1. }
  assert (Hnot : ~ holdsW (p1 ++ [(t1, e1)]) t2 l).
  { unfold holdsW. intros Hw. unfold holdsR in H1'.
    rewrite (writer_excl l _ t2 V1 Hw) in H1'. contradiction. }
  destruct (writer_acquired l t2 _ p2 Hnot H2) as (q1 & q2 & Eq & _). subst p2.
  set (Q := (p1 ++ [(t1, e1)]) ++ q1) in *.
  assert (VQ1 : valid (Q ++ (t2, AcqW l) :: q2)).
  { unfold Q. revert Vpre. norm_list. exact (fun v => v). }
  assert (En : readers (lst l Q) = []) by (apply (valid_enabled Q (t2, AcqW l) q2 VQ1)).
  destruct (reader_released l t1 (p1 ++ [(t1, e1)]) q1 H1') as (s1 & s2 & ->).
  { unfold holdsR. fold Q. rewrite En. tauto. }
  set (i := List.length p1).
  set (j := List.length p1 + 1 + List.length ((s1 ++ (t1, RelR l) :: s2) ++ (t2, AcqW l) :: q2)).
  set (r := List.length p1 + 1 + List.length s1).
  set (k := List.length p1 + 1 + List.length s1 + 1 + List.length s2).
  assert (Hi : nth_error tr i = Some (t1, e1)).
  { apply (nth_at tr p1 _ (((s1 ++ (t1, RelR l) :: s2) ++ (t2, AcqW l) :: q2) ++ (t2, e2) :: p3)); [|reflexivity].
    unfold tr. reflexivity. }
  assert (Hr : nth_error tr r = Some (t1, RelR l)).
  { apply (nth_at tr (p1 ++ (t1, e1) :: s1) _ (s2 ++ (t2, AcqW l) :: q2 ++ (t2, e2) :: p3)).
    - unfold tr. norm_list. reflexivity.
    - unfold r. len. }
  assert (Hk : nth_error tr k = Some (t2, AcqW l)).
  { apply (nth_at tr (p1 ++ (t1, e1) :: s1 ++ (t1, RelR l) :: s2) _ (q2 ++ (t2, e2) :: p3)).
    - unfold tr. norm_list. reflexivity.
    - unfold k. len. }
  assert (Hj : nth_error tr j = Some (t2, e2)).
  { apply (nth_at tr (p1 ++ (t1, e1) :: s1 ++ (t1, RelR l) :: s2 ++ (t2, AcqW l) :: q2) _ p3).
    - unfold tr. norm_list. reflexivity.
    - unfold j. len. }
  apply (hb_trans tr i r j).
  { apply (hb_po tr i r t1 e1 (RelR l)); [unfold i, r; lia|exact Hi|exact Hr]. }
  apply (hb_trans tr r k j).
  { apply (hb_sync tr r k t1 t2 (RelR l) (AcqW l)); [unfold r, k; lia|exact Hr|exact Hk|reflexivity]. }
  apply (hb_po tr k j t2 (AcqW l) e2); [unfold k, j; len|exact Hk|exact Hj].
Qed.

(* The lock-set theorem. *)
Theorem lockset_sound l x t1 t2 e1 e2 p1 p2 p3 :
  let tr := p1 ++ (t1, e1) :: p2 ++ (t2, e2) :: p3 in
  let P := p1 ++ (t1, e1) :: p2 in
  valid tr -> t1 <> t2 -> is_access e1 x ->
  (holdsW p1 t1 l /\ (holdsW P t2 l \/ holdsR P t2 l)) \/ (holdsR p1 t1 l /\ holdsW P t2 l) ->
  hb tr (List.length p1) (List.length p1 + 1 + List.length p2).
Proof.
  intros tr P V Hne A1 [[H1 H2] | [H1 H2]].
  - eapply sound_W_first; eauto.
  - eapply sound_R_first; eauto.
Qed.
