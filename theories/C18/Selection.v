(* C18 — the flows a transaction SELECTED (streams/filter: FilterTree.GetFlow ->
   FilterNode.getFlow -> FilterResult.Extend) are per-transaction state: the
   transaction keeps the result of its look-up while it executes the flows one
   after the other (Stream.ExecuteFlow -> executeReq / executeRes), and other
   transactions do their own look-ups in between.

   Shape: the URL of every transaction is matched by TWO filter nodes, the
   wildcard node carrying the flows [wild] (visited first: Extend ADOPTS its
   list) and the exact node of the transaction's own URL k carrying one flow
   (named k; Extend APPENDS it to the adopted list).

   The dimension this model adds is WHO OWNS THE ADOPTED LIST:
     shared = false  the look-up builds a fresh list for every node (the code:
                     `userFlows := []FlowI{}` + append in getUserFlow /
                     getSystemFlow): the append of the exact node's flow goes
                     into memory only this transaction has;
     shared = true   the look-up hands out the wildcard node's OWN slice (seeded
                     change C18-7): when that slice has spare capacity
                     ([spare], len < cap: 3, 5-7, 9-15 ... flows on the node) the
                     append writes the cell behind the node's len - ONE cell for
                     all transactions - and the result only aliases it; without
                     spare capacity append reallocates and the result is private.
   Executable definitions only; proofs in SelectionProofs.v. *)
From Coq Require Import List ZArith Bool.
Import ListNotations.

Inductive sop := Lookup (t k : Z) | UseSel (t : Z).   (* t = transaction, k = its URL / the flow of that URL *)

Record scfg := mkScfg { wild : list Z; spare : bool }.

Inductive sres := Private (l : list Z) | Aliased.

Record sst := mkSst { cell : Z; held : list (Z * sres) }.

Definition sinit : sst := mkSst 0 [].

Fixpoint sdrop {A} (t : Z) (l : list (Z * A)) : list (Z * A) :=
  match l with
  | [] => []
  | (u, x) :: r => if Z.eqb u t then sdrop t r else (u, x) :: sdrop t r
  end.

Fixpoint sfind {A} (t : Z) (l : list (Z * A)) : option A :=
  match l with
  | [] => None
  | (u, x) :: r => if Z.eqb u t then Some x else sfind t r
  end.

Definition observe (c : scfg) (s : sst) (t : Z) : list Z :=
  match sfind t (held s) with
  | Some (Private l) => l
  | Some Aliased => wild c ++ [cell s]
  | None => []
  end.

Definition sstep (shared : bool) (c : scfg) (s : sst) (o : sop) : sst :=
  match o with
  | Lookup t k =>
      if shared && spare c
      then mkSst k ((t, Aliased) :: sdrop t (held s))
      else mkSst (cell s) ((t, Private (wild c ++ [k])) :: sdrop t (held s))
  | UseSel _ => s
  end.

(* what every transaction reads when it uses its selection *)
Fixpoint srun (shared : bool) (c : scfg) (s : sst) (ops : list sop) : list (list Z) :=
  match ops with
  | [] => []
  | UseSel t :: r => observe c s t :: srun shared c s r
  | o :: r => srun shared c (sstep shared c s o) r
  end.

Fixpoint zlist_eqb (a b : list Z) : bool :=
  match a, b with
  | [], [] => true
  | x :: a', y :: b' => Z.eqb x y && zlist_eqb a' b'
  | _, _ => false
  end.

(* isolation: at every use a transaction finds the flows of ITS OWN last look-up -
   what it gets when it runs alone ([want] is the ghost record of that) *)
Fixpoint sel_ok (shared : bool) (c : scfg) (s : sst) (want : list (Z * list Z)) (ops : list sop) : bool :=
  match ops with
  | [] => true
  | Lookup t k :: r =>
      sel_ok shared c (sstep shared c s (Lookup t k)) ((t, wild c ++ [k]) :: sdrop t want) r
  | UseSel t :: r =>
      (match sfind t want with
       | Some l => zlist_eqb (observe c s t) l
       | None => true
       end) && sel_ok shared c s want r
  end.

(* correspondence suite "selection": the real FilterTree of a real engine;
   case = ((names of the wildcard node's flows, spare), ops, what every use read);
   ops encoded (kind, (t, k)): kind 0 = Lookup, 1 = UseSel. The model of the code is
   shared = false. *)
Definition case_selection := ((list Z * bool) * list (Z * (Z * Z)) * list (list Z))%type.

Definition sdec (x : Z * (Z * Z)) : sop :=
  if Z.eqb (fst x) 0 then Lookup (fst (snd x)) (snd (snd x)) else UseSel (fst (snd x)).

Fixpoint zll_eqb (a b : list (list Z)) : bool :=
  match a, b with
  | [], [] => true
  | x :: a', y :: b' => zlist_eqb x y && zll_eqb a' b'
  | _, _ => false
  end.

Definition run_selection (k : case_selection) : option (list (list Z)) :=
  let '(cfg, ops, obs) := k in
  let m := srun false (mkScfg (fst cfg) (snd cfg)) sinit (map sdec ops) in
  if zll_eqb m obs then None else Some m.
