(* C18 — Concurrent transactions do not corrupt or share engine state (PARTIAL).
   Final statements only. *)
From Coq Require Import List Arith Bool String ZArith.
From Verif Require Import C18.Lockset C18.Trace C18.Discipline C18.Accesses C18.Expected C18.Model.
Import ListNotations.
Local Open Scope list_scope.

(* 1. The lock-set theorem, for every interleaving: two accesses to one location
   by different threads, each made while its thread holds a common lock l, at
   least one of them exclusively, are ordered by happens-before (program order +
   Unlock->Lock / Unlock->RLock / RUnlock->Lock), in every valid trace. *)
Theorem C18_lockset_sound : forall l x t1 t2 e1 e2 p1 p2 p3,
  let tr := p1 ++ (t1, e1) :: p2 ++ (t2, e2) :: p3 in
  let P := p1 ++ (t1, e1) :: p2 in
  valid tr -> t1 <> t2 -> is_access e1 x ->
  (holdsW p1 t1 l /\ (holdsW P t2 l \/ holdsR P t2 l)) \/ (holdsR p1 t1 l /\ holdsW P t2 l) ->
  hb tr (List.length p1) (List.length p1 + 1 + List.length p2).
Proof. exact lockset_sound. Qed.
Print Assumptions C18_lockset_sound.

(* 2. What the translator found on the CURRENT source (regenerated every run):
   the fields with an unprotected conflicting pair are exactly the recorded ones. *)
Theorem C18_tree_racy_fields : racy_fields multi_roles accesses = expected_racy.
Proof. vm_compute. reflexivity. Qed.
Print Assumptions C18_tree_racy_fields.

(* 3. Hence every trace whose accesses are instances of the translated facts
   (same role, same field and kind, the fact's locks really held) is free of data
   races on every field outside the recorded ones: conflicting accesses of
   different goroutines are always ordered by happens-before. *)
Theorem C18_tree_race_free :
  forall (role : tid -> string),
    (forall t, quiet_role (role t) = false) ->
    (forall t1 t2, role t1 = role t2 -> mem (role t1) multi_roles = false -> t1 = t2) ->
    forall tr, valid tr -> conforms accesses role tr ->
    forall p1 t1 e1 p2 t2 e2 p3 x,
      tr = p1 ++ (t1, e1) :: p2 ++ (t2, e2) :: p3 ->
      t1 <> t2 -> is_access e1 x -> is_access e2 x -> racy_events e1 e2 ->
      mem x expected_racy = false ->
      hb tr (List.length p1) (List.length p1 + 1 + List.length p2).
Proof.
  intros role Hq Hs.
  apply (discipline_sound accesses multi_roles expected_racy role);
    [vm_compute; reflexivity | exact Hq | exact Hs].
Qed.
Print Assumptions C18_tree_race_free.

(* 3b. No write is made under a merely shared (RLock) hold, and every function
   body that the C01/C02/C09/C12 models treat as ONE atomic step is a single
   critical section in the current source (lock taken exactly once, nothing
   guarded touched outside it, no callee re-taking the lock). *)
Theorem C18_tree_no_write_under_rlock : writes_under_rlock accesses = [].
Proof. vm_compute. reflexivity. Qed.
Print Assumptions C18_tree_no_write_under_rlock.

Theorem C18_tree_atomic_steps : atomic_ok atomic_report = true /\ atomic_report <> [].
Proof. split; [vm_compute; reflexivity | discriminate]. Qed.
Print Assumptions C18_tree_atomic_steps.

(* 4. Interference on per-transaction state. Full statement: whatever the
   interleaving, a processor that asks for the flow's transactional context
   during a transaction gets one. *)
Definition C18_no_interference_full : Prop :=
  forall ops, Forall (fun b => b = true) (run true ops).

(* It fails on the faithful model — even one at a time: the first transaction's
   clean-up clears the only slot and nothing re-creates it. *)
Theorem C18_no_interference_full_refuted : ~ C18_no_interference_full.
Proof.
  intros H. specialize (H [Use 1; Clean 1; Use 2]%Z). vm_compute in H.
  inversion H as [|? ? _ H2]. inversion H2 as [|? ? H3 _]. discriminate.
Qed.
Print Assumptions C18_no_interference_full_refuted.

(* What does hold: the slot is only ever cleared (no transaction can observe a
   context written by another one), and — regenerated from the source on every
   run — no production code reads the slot at all, so no transaction's actions
   depend on it. *)
Theorem C18_interference_holds_outside_txctx :
  (forall ops, run false ops = map (fun _ => false) (run false ops)) /\
  txctx_readers = [].
Proof.
  split; [|reflexivity].
  induction ops as [|o r IH]; [reflexivity|]. destruct o; cbn [run step]; [|exact IH].
  cbn [map]. f_equal. exact IH.
Qed.
Print Assumptions C18_interference_holds_outside_txctx.

(* Non-vacuity of the discipline: a concrete valid trace in which the lock-set
   premise holds. *)
Example C18_lockset_premise_satisfiable :
  let tr := [(1, AcqW "m"); (1, Write "x"); (1, RelW "m"); (2, AcqR "m"); (2, Read "x"); (2, RelR "m")]%string in
  holdsW [(1, AcqW "m")]%string 1 "m"%string /\
  holdsR [(1, AcqW "m"); (1, Write "x"); (1, RelW "m"); (2, AcqR "m")]%string 2 "m"%string.
Proof. split; vm_compute; auto. Qed.
