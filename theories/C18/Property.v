(* C18 — Concurrent transactions do not corrupt or share engine state (PARTIAL).
   Final statements only. *)
From Coq Require Import List Arith Bool String ZArith Lia.
From Verif Require Import C18.Lockset C18.Trace C18.Discipline C18.Publication C18.Accesses C18.Expected
  C18.Model C18.Isolation C18.Selection C18.SelectionProofs C18.GetOrCreate C18.GetOrCreateProofs.
Import ListNotations.
Local Open Scope list_scope.

(* 1. The lock-set theorem, for every interleaving: two accesses to one location
   by different threads, each made while its thread holds a common lock l, at
   least one of them exclusively, are ordered by happens-before (program order +
   Unlock->Lock / Unlock->RLock / RUnlock->Lock), in every valid trace. *)
Theorem C18_lockset_sound : forall l x t1 t2 e1 e2 p1 p2 p3,
  let tr := p1 ++ (t1, e1) :: p2 ++ (t2, e2) :: p3 in
  let P := p1 ++ (t1, e1) :: p2 in
  valid tr -> t1 <> t2 -> is_access e1 x ->
  (holdsW p1 t1 l /\ (holdsW P t2 l \/ holdsR P t2 l)) \/ (holdsR p1 t1 l /\ holdsW P t2 l) ->
  hb tr (List.length p1) (List.length p1 + 1 + List.length p2).
Proof. exact lockset_sound. Qed.
Print Assumptions C18_lockset_sound.

(* 2. What the translator found on the CURRENT source (regenerated every run):
   the fields with an unprotected conflicting pair are exactly the recorded ones. *)
Theorem C18_tree_racy_fields : racy_fields multi_roles accesses = expected_racy.
Proof. vm_compute. reflexivity. Qed.
Print Assumptions C18_tree_racy_fields.

(* 3. Hence every trace whose accesses are instances of the translated facts
   (same role, same field and kind, the fact's locks really held) is free of data
   races on every field outside the recorded ones: conflicting accesses of
   different goroutines are always ordered by happens-before.
   FIRST discipline, kept as it was: one role per goroutine for its whole life, and
   the two role hypotheses exclude every goroutine in a role "init" or "load" (H1)
   and a second goroutine of any role outside [multi_roles] (H2; every bg: role is
   computed into [multi_roles] now). The goroutine that builds a new engine is
   therefore NOT covered here: see C18_tree_race_free_pub below, which replaces H1
   by "start-up is over" and the quiet "load" role by the publication protocol. *)
Theorem C18_tree_race_free :
  forall (role : tid -> string),
    (forall t, quiet_role (role t) = false) ->
    (forall t1 t2, role t1 = role t2 -> mem (role t1) multi_roles = false -> t1 = t2) ->
    forall tr, valid tr -> conforms accesses role tr ->
    forall p1 t1 e1 p2 t2 e2 p3 x,
      tr = p1 ++ (t1, e1) :: p2 ++ (t2, e2) :: p3 ->
      t1 <> t2 -> is_access e1 x -> is_access e2 x -> racy_events e1 e2 ->
      mem x expected_racy = false ->
      hb tr (List.length p1) (List.length p1 + 1 + List.length p2).
Proof.
  intros role Hq Hs.
  apply (discipline_sound accesses multi_roles expected_racy role);
    [vm_compute; reflexivity | exact Hq | exact Hs].
Qed.
Print Assumptions C18_tree_race_free.

(* 3b. No write is made under a merely shared (RLock) hold, and every function
   body that the C01/C02/C09/C12 models treat as ONE atomic step is a single
   critical section in the current source (lock taken exactly once, nothing
   guarded touched outside it, no callee re-taking the lock). *)
Theorem C18_tree_no_write_under_rlock : writes_under_rlock accesses = [].
Proof. vm_compute. reflexivity. Qed.
Print Assumptions C18_tree_no_write_under_rlock.

Theorem C18_tree_atomic_steps : atomic_ok atomic_report = true /\ atomic_report <> [].
Proof. split; [vm_compute; reflexivity | discriminate]. Qed.
Print Assumptions C18_tree_atomic_steps.

(* 4. Interference on per-transaction state. Full statement: whatever the
   interleaving, a processor that asks for the flow's transactional context
   during a transaction gets one. *)
Definition C18_no_interference_full : Prop :=
  forall ops, Forall (fun b => b = true) (run true ops).

(* It fails on the faithful model — even one at a time: the first transaction's
   clean-up clears the only slot and nothing re-creates it. *)
Theorem C18_no_interference_full_refuted : ~ C18_no_interference_full.
Proof.
  intros H. specialize (H [Use 1; Clean 1; Use 2]%Z). vm_compute in H.
  inversion H as [|? ? _ H2]. inversion H2 as [|? ? H3 _]. discriminate.
Qed.
Print Assumptions C18_no_interference_full_refuted.

(* What does hold in this sequential model (which has no notion of WHOSE context
   the slot holds): once the slot has been cleared every later Use sees nil, i.e.
   nothing ever re-populates it, and — regenerated from the source on every run —
   no production code reads the slot at all, so no transaction's actions depend on
   it. The statement about overlapping transactions is 4' below. *)
Theorem C18_interference_holds_outside_txctx :
  (forall ops, run false ops = map (fun _ => false) (run false ops)) /\
  txctx_readers = [].
Proof.
  split; [|reflexivity].
  induction ops as [|o r IH]; [reflexivity|]. destruct o; cbn [run step]; [|exact IH].
  cbn [map]. f_equal. exact IH.
Qed.
Print Assumptions C18_interference_holds_outside_txctx.

(* Non-vacuity of the lock-set theorem: a concrete VALID trace in which its premise
   holds (and so its conclusion: the write is ordered before the read). *)
Example C18_lockset_premise_satisfiable :
  let tr := [(1, AcqW "m"); (1, Write "x"); (1, RelW "m"); (2, AcqR "m"); (2, Read "x"); (2, RelR "m")]%string in
  valid tr /\
  holdsW [(1, AcqW "m")]%string 1 "m"%string /\
  holdsR [(1, AcqW "m"); (1, Write "x"); (1, RelW "m"); (2, AcqR "m")]%string 2 "m"%string /\
  hb tr 1 4.
Proof.
  cbv zeta.
  assert (V : valid [(1, AcqW "m"); (1, Write "x"); (1, RelW "m"); (2, AcqR "m"); (2, Read "x"); (2, RelR "m")]%string).
  { apply valid_b_sound. vm_compute. reflexivity. }
  assert (W : holdsW [(1, AcqW "m")]%string 1 "m"%string) by (vm_compute; reflexivity).
  assert (R : holdsR [(1, AcqW "m"); (1, Write "x"); (1, RelW "m"); (2, AcqR "m")]%string 2 "m"%string)
    by (vm_compute; auto).
  split; [exact V|]. split; [exact W|]. split; [exact R|].
  exact (C18_lockset_sound "m"%string "x"%string 1 2 (Write "x"%string) (Read "x"%string)
           [(1, AcqW "m")]%string [(1, RelW "m"); (2, AcqR "m")]%string [(2, RelR "m")]%string
           V (fun H : 1 = 2 => ltac:(discriminate)) (or_intror (or_introl eq_refl))
           (or_introl (conj W (or_intror R)))).
Qed.

(* ================================================================== *)
(* Second discipline (audit 2026-09-29): see Lockset.v / Publication.v.
   Hypotheses of [C18_tree_race_free_pub], all listed in props/C18.json:
     H1' no event runs in role "init" (start-up is over);
     H2' a role outside [multi_roles] is played by one goroutine (every bg: role
         whose go statement can run more than once is IN multi_roles, computed by
         the translator; "load" is in it too);
     H3' the trace conforms to the facts (translator, trusted);
     PP  the publication protocol of per-engine objects (Publication.pub_protocol).
   Roles are per EVENT, locations are per OBJECT ([fld] gives the field name). *)

(* 2'. The fields with a conflicting pair that is neither lock-protected nor
   ordered by publication are exactly the recorded ones. *)
Theorem C18_tree_racy_fields2 :
  racy_fields2 multi_roles generation_fields consumer_roles accesses = expected_racy.
Proof. vm_compute. reflexivity. Qed.
Print Assumptions C18_tree_racy_fields2.

(* 3'. Race freedom of every conforming trace that follows the publication
   protocol - including the goroutine that builds and publishes a new engine
   while transactions run ("also while flows are being reloaded"). *)
Theorem C18_tree_race_free_pub :
  forall (role_at : nat -> string) (fld : loc -> string)
         (gen_of : loc -> option nat) (builder : nat -> tid) (is_pub : nat -> nat -> lock -> Prop)
         (tr : trace),
    (forall i, quiet_role2 (role_at i) = false) ->
    (forall i j ti tj ei ej, nth_error tr i = Some (ti, ei) -> nth_error tr j = Some (tj, ej) ->
        role_at i = role_at j -> mem (role_at i) multi_roles = false -> ti = tj) ->
    valid tr -> conforms2 accesses role_at fld tr ->
    pub_protocol generation_fields consumer_roles role_at fld gen_of builder is_pub tr ->
    forall p1 t1 e1 p2 t2 e2 p3 x,
      tr = p1 ++ (t1, e1) :: p2 ++ (t2, e2) :: p3 ->
      t1 <> t2 -> is_access e1 x -> is_access e2 x -> racy_events e1 e2 ->
      mem (fld x) expected_racy = false ->
      hb tr (List.length p1) (List.length p1 + 1 + List.length p2).
Proof.
  intros role_at fld gen_of builder is_pub tr Hq Hs V C PP.
  apply (discipline2_sound accesses multi_roles generation_fields consumer_roles expected_racy
           role_at fld gen_of builder is_pub); try assumption.
  vm_compute. reflexivity.
Qed.
Print Assumptions C18_tree_race_free_pub.

(* The hypotheses are jointly satisfiable on the REAL facts: goroutine 1 handles
   /load_flows - it adds an edge to a node of the new engine's flow graph in role
   "load" (flow.(FlowGraphNode).addEdge), then, as "admin", publishes the engine
   (routing.(StreamsData).setStream: Lock, write, Unlock); goroutine 2 is a
   transaction that fetches the engine (getStream: RLock, read, RUnlock) and walks
   the graph (flow.(FlowGraphNode).GetEdges). The theorem orders the two accesses
   to the edges although they share no lock. *)
Section PubExample.
  Local Open Scope string_scope.
  Let edges := "streams/flow.FlowGraphNode.edges".
  Let ptr := "routing.StreamsData.stream".
  Let lk := "routing.StreamsData.streamLock".
  Let tr : trace :=
    [ (1, Write edges); (1, AcqW lk); (1, Write ptr); (1, RelW lk);
      (2, AcqR lk); (2, Read ptr); (2, RelR lk); (2, Read edges) ].
  Let role_at (i : nat) : string :=
    match i with 0 => "load" | 1 | 2 | 3 => "admin" | _ => "txn" end.
  Let fld (x : loc) : string := x.
  Let gen_of (x : loc) : option nat := if mem x generation_fields then Some 0 else None.
  Let builder (g : nat) : tid := 1.
  Let is_pub (g k : nat) (l : lock) : Prop := g = 0 /\ k = 3 /\ l = lk.

  Lemma ex_quiet : forall i, quiet_role2 (role_at i) = false.
  Proof. intros i. do 4 (destruct i as [|i]; [reflexivity|]). reflexivity. Qed.

  Lemma ex_multi : forall i, mem (role_at i) multi_roles = true.
  Proof. intros i. do 4 (destruct i as [|i]; [vm_compute; reflexivity|]). vm_compute. reflexivity. Qed.

  Lemma ex_valid : valid tr.
  Proof. apply valid_b_sound. vm_compute. reflexivity. Qed.

  Lemma ex_conforms : conforms2 accesses role_at fld tr.
  Proof. apply conforms_b_sound. vm_compute. reflexivity. Qed.

  Lemma ex_protocol :
    pub_protocol generation_fields consumer_roles role_at fld gen_of builder is_pub tr.
  Proof.
    constructor.
    - intros x Hx. unfold gen_of, fld in *. rewrite Hx. eauto.
    - intros g k l (-> & -> & ->). reflexivity.
    - intros i t e x g N A G Gf L.
      assert (i = 0) as ->.
      { do 8 (destruct i as [|i]; [first [reflexivity | cbv in L; discriminate]|]).
        cbn in N. destruct i; discriminate. }
      cbn in N. inversion N; subst. split; [reflexivity|].
      intros k l (_ & -> & _). auto with arith.
    - intros j t e x g N A G Gf Cn Hne.
      do 8 (destruct j as [|j];
            [cbn in N; inversion N; subst; clear N;
             first [ exfalso; apply Hne; reflexivity
                   | destruct A as [A|[A|A]]; try discriminate; inversion A; subst;
                     first [ vm_compute in Gf; discriminate | idtac ] ] |]).
      2: { cbn in N. destruct j; discriminate. }
      exists 3, lk, 4, (AcqR lk). unfold is_pub, builder in *.
      repeat split; auto with arith. assert (g = 0) as ->.
      { unfold gen_of in G. destruct (mem edges generation_fields); inversion G; reflexivity. }
      reflexivity.
  Qed.

  Example C18_publication_hypotheses_satisfiable :
    (forall i, quiet_role2 (role_at i) = false) /\
    (forall i j ti tj ei ej, nth_error tr i = Some (ti, ei) -> nth_error tr j = Some (tj, ej) ->
        role_at i = role_at j -> mem (role_at i) multi_roles = false -> ti = tj) /\
    valid tr /\ conforms2 accesses role_at fld tr /\
    pub_protocol generation_fields consumer_roles role_at fld gen_of builder is_pub tr /\
    hb tr 0 7.
  Proof.
    assert (Hs : forall i j ti tj ei ej, nth_error tr i = Some (ti, ei) -> nth_error tr j = Some (tj, ej) ->
        role_at i = role_at j -> mem (role_at i) multi_roles = false -> ti = tj).
    { intros i j ti tj ei ej _ _ _ H. rewrite ex_multi in H. discriminate. }
    split; [exact ex_quiet|]. split; [exact Hs|]. split; [exact ex_valid|].
    split; [exact ex_conforms|]. split; [exact ex_protocol|].
    change 7 with (List.length (@nil (tid * event)) + 1 +
                   List.length [(1, AcqW lk); (1, Write ptr); (1, RelW lk); (2, AcqR lk); (2, Read ptr); (2, RelR lk)]).
    apply (C18_tree_race_free_pub role_at fld gen_of builder is_pub tr ex_quiet Hs ex_valid ex_conforms ex_protocol
             [] 1 (Write edges) _ 2 (Read edges) [] edges); try reflexivity.
    - discriminate.
    - right; left; reflexivity.
    - left; reflexivity.
  Qed.
End PubExample.

(* PP, mechanical part: at the publication site named in lockset/config.json
   (routing.(StreamsData).setStream) the publishing function runs no load-role
   code on the engine after the call that publishes it (regenerated every run). *)
Theorem C18_tree_publication_order : publication_order_violations = [].
Proof. reflexivity. Qed.
Print Assumptions C18_tree_publication_order.

(* 3b'. The atomic-step report is pinned by EQUALITY with the expected list
   (Expected.v): a claim removed from lockset/config.json, or a body that is no
   longer one critical section, breaks the build. *)
Theorem C18_tree_atomic_steps_pinned : atomic_report = expected_atomic_report.
Proof. vm_compute. reflexivity. Qed.
Print Assumptions C18_tree_atomic_steps_pinned.

(* The first discipline's hypotheses (C18_tree_race_free) are satisfiable on the
   real facts too: the same two goroutines with one role each (an admin call that
   publishes, a transaction that fetches). *)
Example C18_first_discipline_hypotheses_satisfiable :
  let lk := "routing.StreamsData.streamLock"%string in
  let ptr := "routing.StreamsData.stream"%string in
  let tr := [ (1, AcqW lk); (1, Write ptr); (1, RelW lk); (2, AcqR lk); (2, Read ptr); (2, RelR lk) ] in
  let role := fun t : tid => if Nat.eqb t 1 then "admin"%string else "txn"%string in
  (forall t, quiet_role (role t) = false) /\
  (forall t1 t2, role t1 = role t2 -> mem (role t1) multi_roles = false -> t1 = t2) /\
  valid tr /\ conforms accesses role tr /\ hb tr 1 4.
Proof.
  cbv zeta.
  set (role := fun t : tid => if Nat.eqb t 1 then "admin"%string else "txn"%string).
  assert (Hq : forall t, quiet_role (role t) = false).
  { intros t. unfold role. destruct (Nat.eqb t 1); reflexivity. }
  assert (Hm : forall t, mem (role t) multi_roles = true).
  { intros t. unfold role. destruct (Nat.eqb t 1); vm_compute; reflexivity. }
  split; [exact Hq|]. split.
  { intros t1 t2 _ H. rewrite Hm in H. discriminate. }
  split; [apply valid_b_sound; vm_compute; reflexivity|].
  split.
  - (* conformance to the first-discipline facts: roles per thread, locations = field names *)
    assert (C2 : conforms2 accesses (fun i => match i with 0 | 1 | 2 => "admin" | _ => "txn" end)%string (fun x => x)
                   [ (1, AcqW "routing.StreamsData.streamLock"); (1, Write "routing.StreamsData.stream");
                     (1, RelW "routing.StreamsData.streamLock"); (2, AcqR "routing.StreamsData.streamLock");
                     (2, Read "routing.StreamsData.stream"); (2, RelR "routing.StreamsData.streamLock") ]%string).
    { apply conforms_b_sound. vm_compute. reflexivity. }
    intros p t e s x E A.
    destruct (C2 p t e s x E A) as (f & Inf & R & (y & Ay & Fy) & K & X & S).
    exists f. split; [exact Inf|]. unfold justifies.
    pose proof (access_field _ _ _ Ay A) as ->.
    repeat split; try assumption.
    + (* the role of the thread is the role of the index *)
      rewrite R. clear - E A.
      do 6 (destruct p as [|? p]; [cbn in E; inversion E; subst; clear E;
              first [ reflexivity | destruct A as [A|[A|A]]; discriminate ] |]).
      exfalso. apply (f_equal (@List.length _)) in E. rewrite app_length in E. cbn in E. lia.
    + rewrite <- Fy. exact Ay.
  - apply (hb_trans _ 1 2 4).
    + apply (hb_po _ 1 2 1 (Write "routing.StreamsData.stream"%string) (RelW "routing.StreamsData.streamLock"%string));
        [auto with arith|reflexivity|reflexivity].
    + apply (hb_trans _ 2 3 4).
      * apply (hb_sync _ 2 3 1 2 (RelW "routing.StreamsData.streamLock"%string) (AcqR "routing.StreamsData.streamLock"%string));
          [auto with arith|reflexivity|reflexivity|reflexivity].
      * apply (hb_po _ 3 4 2 (AcqR "routing.StreamsData.streamLock"%string) (Read "routing.StreamsData.stream"%string));
          [auto with arith|reflexivity|reflexivity].
Qed.

(* ================================================================== *)
(* 4'. Clause 4 with transaction identity (Model.run2): executions of one flow by
   several transactions overlap. Full statement: what a transaction inside the flow
   gets from the slot is what the slot was when it entered - no other
   transaction's execution cleared or overwrote it. *)
Definition C18_isolation_full : Prop :=
  forall ops, iso_ok init2 ops = true.

(* Refuted with OVERLAPPING executions: 1 and 2 are both inside the flow, 1
   finishes (Flow.CleanExecution), 2 then finds the slot empty. *)
Theorem C18_isolation_full_refuted : ~ C18_isolation_full.
Proof.
  intros H. specialize (H [Begin 1; Begin 2; Clean2 1; Use2 2]%Z).
  vm_compute in H. discriminate.
Qed.
Print Assumptions C18_isolation_full_refuted.

(* What holds: as long as no transaction leaves the flow while the slot is
   populated and ANOTHER transaction is inside (a decidable condition on the
   schedule: [no_overlap_clear]), every transaction gets what it entered with. *)
Theorem C18_isolation_holds_outside_overlapping_clean :
  forall ops, no_overlap_clear init2 ops = true -> iso_ok init2 ops = true.
Proof. intros ops. apply iso_outside_overlap. exact init2_current. Qed.
Print Assumptions C18_isolation_holds_outside_overlapping_clean.

Example C18_isolation_side_condition_satisfiable :
  no_overlap_clear init2 [Begin 1; Use2 1; Clean2 1; Begin 2; Use2 2; Clean2 2]%Z = true /\
  run2 init2 [Begin 1; Use2 1; Clean2 1; Begin 2; Use2 2; Clean2 2]%Z = [(1, true); (2, false)]%Z.
Proof. split; vm_compute; reflexivity. Qed.

(* ================================================================== *)
(* 4''. The flows a transaction SELECTED are per-transaction state too (Selection.v):
   between its look-up (FilterTree.GetFlow) and the execution of the selected flows
   other transactions do their own look-ups. The model has a variant switch for the
   owner of the list the look-up adopts: [shared = false] = the look-up copies (the
   code), [shared = true] = the look-up hands out the wildcard node's own slice
   (seeded change C18-7). Full statement over BOTH variants, every configuration and
   every schedule of look-ups and uses: at every use a transaction finds the flows of
   its own last look-up. *)
Definition C18_selection_full : Prop :=
  forall shared c ops, sel_ok shared c sinit [] ops = true.

(* Refuted by the seeded variant: three flows on the wildcard node (spare capacity),
   transaction 2's look-up falls between transaction 1's look-up and its use. *)
Theorem C18_selection_full_refuted : ~ C18_selection_full.
Proof.
  intros H. specialize (H true sel_witness_cfg sel_witness_ops).
  rewrite sel_witness_fails in H. discriminate.
Qed.
Print Assumptions C18_selection_full_refuted.

(* What holds, for ALL schedules, configurations and transactions: when the look-up
   copies (the variant [run_selection] checks the real filter tree against), or the
   node's slice has no spare capacity, nobody's look-up changes what another
   transaction selected. The side condition is decidable; its complement
   ([shared = true] with spare capacity) is exactly the seeded behaviour. *)
Theorem C18_selection_isolated_outside_shared_node_slice :
  forall shared c, shared && spare c = false ->
  forall ops, sel_ok shared c sinit [] ops = true.
Proof. intros shared c Hv ops. exact (sel_isolated shared c Hv ops sinit [] sinv_init). Qed.
Print Assumptions C18_selection_isolated_outside_shared_node_slice.

Corollary C18_selection_isolated_when_lookup_copies :
  forall c ops, sel_ok false c sinit [] ops = true.
Proof. intros c ops. apply C18_selection_isolated_outside_shared_node_slice. reflexivity. Qed.
Print Assumptions C18_selection_isolated_when_lookup_copies.

(* the hypotheses are satisfiable on a non-trivial schedule (overlapping look-ups on
   a node WITH spare capacity), and the statement is not vacuous: the uses read the
   transactions' own flows *)
Example C18_selection_nontrivial :
  sel_ok false sel_witness_cfg sinit [] [Lookup 1 10; Lookup 2 20; UseSel 1; UseSel 2; Lookup 1 30; UseSel 1]%Z = true /\
  srun false sel_witness_cfg sinit [Lookup 1 10; Lookup 2 20; UseSel 1; UseSel 2; Lookup 1 30; UseSel 1]%Z
    = [[(-1); (-2); (-3); 10]; [(-1); (-2); (-3); 20]; [(-1); (-2); (-3); 30]]%Z /\
  srun true sel_witness_cfg sinit sel_witness_ops = [[(-1); (-2); (-3); 20]]%Z.
Proof. repeat split; vm_compute; reflexivity. Qed.

(* ================================================================== *)
(* 2'. Package-level variables are fields of one pseudo-object per package
   ("pkg.(var).name") in the regenerated facts, so C18_tree_racy_fields2 /
   C18_tree_race_free_pub cover them like any field; they are never generation
   fields (no publication exemption). The seeded behaviour C18-8 in the fact
   vocabulary: every transaction draws from one package-level *rand.Rand (a method
   call on a non-thread-safe library type = a write) with no lock. Such a fact list
   is reported: a fact conflicts with itself when its role is multi. *)
Example C18_package_variable_unprotected_is_reported :
  let f := mkFact "streams/config.(var).sampleSource" Wr "txn" [] [] in
  unprotected_pair2 multi_roles generation_fields consumer_roles f f = true /\
  racy_fields2 multi_roles generation_fields consumer_roles [f] = ["streams/config.(var).sampleSource"%string] /\
  mem "streams/config.(var).sampleSource" generation_fields = false /\
  (* the same access under a mutex held by every transaction is not reported *)
  racy_fields2 multi_roles generation_fields consumer_roles
    [mkFact "streams/config.(var).sampleSource" Wr "txn" ["streams/config.sampleMu"%string] []] = [].
Proof. repeat split; vm_compute; reflexivity. Qed.

(* ================================================================== *)
(* 3c. Get-or-create of a keyed object (quota group per header value, allow mark
   per request, expire watcher per type, limiter state per group, ...). Not a data
   race: every map access is locked. What can go wrong is the check-then-act
   split - look-up, unlock, build, lock, store without re-check - after which two
   goroutines that are both the first of a key each hold an object of their own
   (seeded change C18-12: the transaction whose object was replaced loses its
   allow mark and is refused below the limit).

   (i) the source: every site the translator discovers on the CURRENT tree
   (regenerated every run; lockset/getorcreate.go) keeps the look-up that decides
   and the store inside ONE continuous hold of the map's lock, and the recorded
   sites are among the discovered ones. *)
Theorem C18_tree_get_or_create_one_hold :
  atomic_ok get_or_create_report = true /\
  forallb (fun c => existsb (fun p => String.eqb (fst p) c) get_or_create_report)
          expected_get_or_create_sites = true /\
  expected_get_or_create_sites <> [].
Proof. split; [vm_compute; reflexivity | split; [vm_compute; reflexivity | discriminate]]. Qed.
Print Assumptions C18_tree_get_or_create_one_hold.

(* (ii) what one hold buys, for every schedule of calls (goroutine, key): the run
   IS a one-at-a-time run of get-or-create (linearizable with the call itself as
   linearization point), hence all calls on a key return the same object - a
   transaction's second call (Allowed) finds the object its first call (Inc) left
   its mark on -, it is the object the map holds afterwards, and calls on
   different keys never share an object. *)
Theorem C18_get_or_create_one_hold_linearizable : forall sched,
  grun false sched = fold_left (fun s c => get_or_create s (fst c) (snd c)) sched ginit /\
  agree (g_log (grun false sched)) /\ in_map (grun false sched) /\ separate (g_log (grun false sched)).
Proof.
  intro sched. split; [apply one_hold_is_serial | split; [apply one_hold_agree | split; [apply one_hold_in_map | apply one_hold_separate]]].
Qed.
Print Assumptions C18_get_or_create_one_hold_linearizable.

(* (iii) the full statement over both variants is refuted by the seeded behaviour:
   two goroutines, both the first of key 7, look-up, look-up, store, store. *)
Definition C18_get_or_create_full : Prop :=
  forall (split : bool) (sched : list (Z * Z)), agree (g_log (grun split sched)).

Theorem C18_get_or_create_full_refuted : ~ C18_get_or_create_full.
Proof. intro H. exact (split_not_agree (H true goc_witness)). Qed.
Print Assumptions C18_get_or_create_full_refuted.

(* the strongest true statement; the side condition is what (i) computes from the source *)
Theorem C18_get_or_create_holds_outside_split : forall split sched,
  split = false -> agree (g_log (grun split sched)).
Proof. intros split sched ->. apply one_hold_agree. Qed.
Print Assumptions C18_get_or_create_holds_outside_split.

Example C18_get_or_create_nontrivial :
  g_log (grun false goc_witness) = [(2, 7, 0); (1, 7, 0); (2, 7, 0); (1, 7, 0)]%Z /\
  g_log (grun false [(1, 7); (2, 8); (1, 8); (2, 7)]%Z) = [(2, 7, 0); (1, 8, 1); (2, 8, 1); (1, 7, 0)]%Z /\
  g_log (grun true goc_witness) = [(2, 7, 1); (1, 7, 0)]%Z.
Proof. repeat split; vm_compute; reflexivity. Qed.
