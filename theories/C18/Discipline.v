(* C18 — from the generated access facts to race freedom of every trace that
   conforms to them. *)
From Coq Require Import List Arith Lia Bool String.
From Verif Require Import C18.Lockset C18.Trace.
Import ListNotations.
Local Open Scope list_scope.

Section Discipline.
  Variable facts : list fact.
  Variable multi : list string.
  Variable skip : list string.          (* fields excluded (the known racy ones) *)
  Variable role : tid -> string.        (* goroutine kind of every thread *)

  Definition kind_of (e : event) : option akind :=
    match e with
    | Read _ => Some Rd | Write _ => Some Wr | Atomic _ => Some At | _ => None
    end.

  (* fact f describes access e made by thread t after prefix p *)
  Definition justifies (f : fact) (p : trace) (t : tid) (e : event) : Prop :=
    f_role f = role t /\ is_access e (f_field f) /\ kind_of e = Some (f_kind f) /\
    (forall l, In l (f_xlocks f) -> holdsW p t l) /\
    (forall l, In l (f_slocks f) -> holdsR p t l).

  (* every access of the trace is an instance of some fact *)
  Definition conforms (tr : trace) : Prop :=
    forall p t e s x, tr = p ++ (t, e) :: s -> is_access e x ->
      exists f, In f facts /\ justifies f p t e.

  Definition racy_events (e1 e2 : event) : Prop :=
    match kind_of e1, kind_of e2 with
    | Some k1, Some k2 => racy_kinds k1 k2 = true
    | _, _ => False
    end.

  Lemma mem_In s l : mem s l = true <-> In s l.
  Proof.
    unfold mem. rewrite existsb_exists. split.
    - intros (x & Hx & E). apply String.eqb_eq in E. subst. exact Hx.
    - intros H. exists s. split; [exact H|apply String.eqb_refl].
  Qed.

  Lemma access_field e x y : is_access e x -> is_access e y -> x = y.
  Proof. intros [-> | [-> | ->]] [H | [H | H]]; inversion H; reflexivity. Qed.

  Theorem discipline_sound :
    all_protected multi facts skip = true ->
    (forall t, quiet_role (role t) = false) ->
    (forall t1 t2, role t1 = role t2 -> mem (role t1) multi = false -> t1 = t2) ->
    forall tr, valid tr -> conforms tr ->
    forall p1 t1 e1 p2 t2 e2 p3 x,
      tr = p1 ++ (t1, e1) :: p2 ++ (t2, e2) :: p3 ->
      t1 <> t2 -> is_access e1 x -> is_access e2 x -> racy_events e1 e2 ->
      mem x skip = false ->
      hb tr (List.length p1) (List.length p1 + 1 + List.length p2).
  Proof.
    intros AP Hq Hsingle tr V C p1 t1 e1 p2 t2 e2 p3 x E Hne A1 A2 R Hskip.
    destruct (C p1 t1 e1 (p2 ++ (t2, e2) :: p3) x E A1) as (f1 & In1 & R1 & Af1 & K1 & X1 & S1).
    assert (E2 : tr = (p1 ++ (t1, e1) :: p2) ++ (t2, e2) :: p3).
    { rewrite E. rewrite <- app_assoc. reflexivity. }
    destruct (C _ t2 e2 p3 x E2 A2) as (f2 & In2 & R2 & Af2 & K2 & X2 & S2).
    pose proof (access_field _ _ _ Af1 A1) as F1.
    pose proof (access_field _ _ _ Af2 A2) as F2.
    unfold all_protected in AP. rewrite forallb_forall in AP.
    specialize (AP f1 In1). rewrite F1, Hskip in AP. cbn [orb] in AP.
    rewrite forallb_forall in AP. specialize (AP f2 In2).
    rewrite unprotected_pair_l_eq in AP.
    apply negb_true_iff in AP. unfold unprotected_pair in AP.
    assert (Hc : conflicting f1 f2 = true).
    { unfold conflicting. rewrite F1, F2, String.eqb_refl. cbn [andb].
      unfold racy_events in R. rewrite K1, K2 in R. exact R. }
    assert (Hm : may_be_concurrent multi (f_role f1) (f_role f2) = true).
    { unfold may_be_concurrent. rewrite R1, R2, !Hq. cbn [negb andb].
      destruct (String.eqb_spec (role t1) (role t2)) as [Er|Nr]; [|reflexivity].
      cbn [negb orb]. destruct (mem (role t1) multi) eqn:Hmm; [reflexivity|].
      exfalso. apply Hne. apply Hsingle; assumption. }
    rewrite Hc, Hm in AP. cbn [andb] in AP. apply negb_false_iff in AP.
    subst tr. unfold share_lock in AP. apply orb_true_iff in AP.
    destruct AP as [AP|AP]; apply existsb_exists in AP; destruct AP as (l & Hl & Hl2).
    - apply (lockset_sound l x t1 t2 e1 e2 p1 p2 p3 V Hne A1). left. split.
      + apply X1. exact Hl.
      + apply orb_true_iff in Hl2. destruct Hl2 as [H|H]; apply mem_In in H.
        * left. apply X2. exact H.
        * right. apply S2. exact H.
    - apply (lockset_sound l x t1 t2 e1 e2 p1 p2 p3 V Hne A1). right. split.
      + apply S1. exact Hl.
      + apply mem_In in Hl2. apply X2. exact Hl2.
  Qed.
End Discipline.
