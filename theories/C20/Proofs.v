From Coq Require Import List ZArith Bool Lia.
From Verif Require Import C20.Model.
Import ListNotations.
Open Scope Z_scope.

(* ---------- basic facts about one step ---------- *)

Lemma run_cons c s now o rest :
  run c s now (o :: rest) =
  let '(s', now', e) := step c s now o in e :: run c s' now' rest.
Proof. reflexivity. Qed.

Lemma run_obs c script : forall s now,
  map e_obs (run c s now script) = map i_obs script.
Proof.
  induction script as [|o rest IH]; intros s now; [reflexivity|].
  rewrite run_cons. destruct (step c s now o) as [[s' now'] e] eqn:E.
  cbn [map]. rewrite IH. f_equal.
  unfold step in E.
  destruct (negb (eqb (i_obs o) (last s)));
    [|destruct (_ && _ && _ && _)]; inversion E; reflexivity.
Qed.

(* characterisation of a firing step *)
Lemma step_fire c s now o s' now' e :
  step c s now o = (s', now', e) -> e_fire e = true ->
  let t := wait_until c s (now + i_pre o) + i_d o in
  i_obs o = last s /\ i_obs o <> stable s /\ trig s = false /\
  cN c <= cnt s + 1 /\ since_ge t (start s) (cP c) = true /\
  e_obs e = i_obs o /\ e_at e = t /\ stable s' = i_obs o /\
  now' = (if i_obs o then t else wait_from t (cC c)) + i_post o.
Proof.
  unfold step. intros E F.
  destruct (negb (eqb (i_obs o) (last s))) eqn:Hc.
  { inversion E; subst; discriminate. }
  destruct (_ && _ && _ && _) eqn:Hg.
  2:{ inversion E; subst; discriminate. }
  inversion E; subst; clear E. cbn.
  apply negb_false_iff, eqb_prop in Hc.
  repeat (apply andb_prop in Hg; destruct Hg as [Hg ?]).
  repeat split; try assumption; try reflexivity.
  - match goal with H : negb (eqb _ (stable s)) = true |- _ =>
      apply negb_true_iff, eqb_false_iff in H; exact H end.
  - match goal with H : negb (trig s) = true |- _ =>
      apply negb_true_iff in H; exact H end.
  - apply Z.leb_le; assumption.
Qed.

Lemma step_nofire_stable c s now o s' now' e :
  step c s now o = (s', now', e) -> e_fire e = false -> stable s' = stable s.
Proof.
  unfold step. intros E F.
  destruct (negb (eqb (i_obs o) (last s))).
  { inversion E; subst; reflexivity. }
  destruct (_ && _ && _ && _).
  { inversion E; subst; discriminate. }
  inversion E; subst; reflexivity.
Qed.

(* ---------- alternation ---------- *)

Fixpoint alternates_from (b : bool) (l : list bool) : Prop :=
  match l with
  | [] => True
  | x :: l' => x = negb b /\ alternates_from x l'
  end.

Lemma alternation c script : forall s now,
  alternates_from (stable s) (map fst (reactions (run c s now script))).
Proof.
  induction script as [|o rest IH]; intros s now; [exact I|].
  rewrite run_cons. destruct (step c s now o) as [[s' now'] e] eqn:E.
  unfold reactions. cbn [flat_map]. fold (reactions (run c s' now' rest)).
  destruct (e_fire e) eqn:F.
  - pose proof (step_fire _ _ _ _ _ _ _ E F) as H. cbn zeta in H.
    destruct H as (_ & Hns & _ & _ & _ & Ho & _ & Hs' & _).
    cbn [app map fst alternates_from]. split.
    + rewrite Ho. destruct (i_obs o), (stable s); try reflexivity; congruence.
    + rewrite Ho, <- Hs'. apply IH.
  - cbn [app]. rewrite <- (step_nofire_stable _ _ _ _ _ _ _ E F). apply IH.
Qed.

(* ---------- stability precondition ---------- *)

(* what the property demands of a firing event [e] given the events [pre]
   that came before it *)
Definition stable_before (c : cfg) (pre : list ev) (e : ev) : Prop :=
  exists pre1 r f,
    pre = pre1 ++ f :: r /\
    Forall (fun x => e_obs x = e_obs e) (f :: r) /\
    Z.max (cN c) 2 <= Z.of_nat (length (f :: r)) + 1 /\
    cP c <= e_at e - e_at f.

Definition Inv (s : st) (pre : list ev) : Prop :=
  match start s with
  | None => stable s = true /\ last s = true
  | Some t0 => exists pre1 r f,
      pre = pre1 ++ f :: r /\
      Forall (fun x => e_obs x = last s) (f :: r) /\
      Z.of_nat (length (f :: r)) = cnt s /\ e_at f = t0
  end.

Lemma Inv_init : Inv init [].
Proof. cbn. auto. Qed.

Lemma step_inv c s now o s' now' e pre :
  Inv s pre -> step c s now o = (s', now', e) -> Inv s' (pre ++ [e]).
Proof.
  unfold step, Inv. intros HI E.
  destruct (negb (eqb (i_obs o) (last s))) eqn:Hc.
  - inversion E; subst; clear E. cbn.
    exists pre, [], {| e_obs := i_obs o; e_at := wait_until c s (now + i_pre o) + i_d o;
                       e_fire := false |}.
    repeat split; auto.
  - apply negb_false_iff, eqb_prop in Hc.
    destruct (start s) as [t0|] eqn:Hs.
    + destruct HI as (pre1 & r & f & Hp & Hall & Hlen & Hat).
      assert (Hgen : forall e0, e_obs e0 = i_obs o ->
        exists pre2 r2 f2, pre ++ [e0] = pre2 ++ f2 :: r2 /\
          Forall (fun x => e_obs x = i_obs o) (f2 :: r2) /\
          Z.of_nat (length (f2 :: r2)) = cnt s + 1 /\ e_at f2 = t0).
      { intros e0 He0. exists pre1, (r ++ [e0]), f. repeat split.
        - rewrite Hp, <- app_assoc. reflexivity.
        - rewrite Hc. rewrite app_comm_cons. apply Forall_app. split; [exact Hall|].
          constructor; [congruence|constructor].
        - cbn [length] in *. rewrite app_length. cbn [length]. lia.
        - exact Hat. }
      destruct (_ && _ && _ && _); inversion E; subst; clear E; cbn;
        apply Hgen; reflexivity.
    + destruct HI as [Hst Hl].
      destruct (_ && _ && _ && _) eqn:Hg; inversion E; subst; clear E; cbn.
      * repeat (apply andb_prop in Hg; destruct Hg as [Hg ?]).
        match goal with H : negb (eqb _ (stable s)) = true |- _ =>
          apply negb_true_iff, eqb_false_iff in H; congruence end.
      * split; congruence.
Qed.

Lemma fire_stable_before c s now o s' now' e pre :
  Inv s pre -> step c s now o = (s', now', e) -> e_fire e = true ->
  stable_before c pre e.
Proof.
  intros HI E F. pose proof (step_fire _ _ _ _ _ _ _ E F) as H. cbn zeta in H.
  destruct H as (Hl & Hns & _ & HN & Hsince & Ho & Hat & _ & _).
  unfold Inv in HI. destruct (start s) as [t0|] eqn:Hs.
  - destruct HI as (pre1 & r & f & Hp & Hall & Hlen & Hatf).
    exists pre1, r, f. repeat split; try assumption.
    + rewrite Ho, Hl. exact Hall.
    + rewrite Hlen. cbn [length] in Hlen. lia.
    + unfold since_ge in Hsince. apply Z.leb_le in Hsince. rewrite Hat, Hatf. exact Hsince.
  - destruct HI as [Hst Hla]. congruence.
Qed.

Lemma stable_before_all c script : forall s now pre,
  Inv s pre ->
  forall pre' e post,
    run c s now script = pre' ++ e :: post -> e_fire e = true ->
    stable_before c (pre ++ pre') e.
Proof.
  induction script as [|o rest IH]; intros s now pre HI pre' e post Hr F.
  { destruct pre'; discriminate. }
  rewrite run_cons in Hr. destruct (step c s now o) as [[s' now'] e0] eqn:E.
  destruct pre' as [|x pre''].
  - cbn in Hr. inversion Hr; subst. rewrite app_nil_r.
    eapply fire_stable_before; eauto.
  - cbn in Hr. inversion Hr; subst.
    replace (pre ++ x :: pre'') with ((pre ++ [x]) ++ pre'') by (rewrite <- app_assoc; reflexivity).
    eapply IH; eauto. eapply step_inv; eauto.
Qed.

(* ---------- the clock never runs backwards; cool-down ---------- *)

Lemma wait_until_ge c s now : now <= wait_until c s now.
Proof.
  unfold wait_until. destruct (lastRun s); [|lia].
  destruct (0 <? _) eqn:H; [apply Z.ltb_lt in H|]; lia.
Qed.

(* the wait at the top of the loop ends no earlier than MinTimeBetweenCalls after
   the end of the previous iteration *)
Lemma wait_until_interval c s now lr :
  lastRun s = Some lr -> lr + cI c <= wait_until c s now.
Proof.
  unfold wait_until. intros ->.
  destruct (0 <? _) eqn:H; [apply Z.ltb_lt in H|apply Z.ltb_ge in H]; lia.
Qed.

Lemma step_times c s now o s' now' e :
  item_ok o -> step c s now o = (s', now', e) ->
  now <= e_at e /\ e_at e <= now' /\ lastRun s' = Some now' /\
  (e_fire e = true -> e_obs e = false -> e_at e + Z.max (cC c) 0 <= now').
Proof.
  intros (Hp & Hd & Hq) E. pose proof (wait_until_ge c s (now + i_pre o)) as Hw.
  unfold step, wait_from in E.
  destruct (negb (eqb (i_obs o) (last s))).
  { inversion E; subst; cbn. repeat split; try lia; try discriminate. }
  destruct (_ && _ && _ && _).
  - inversion E; subst; cbn. destruct (i_obs o); repeat split; try lia; try discriminate.
  - inversion E; subst; cbn. repeat split; try lia; try discriminate.
Qed.

Lemma run_after c script : forall s now,
  Forall item_ok script ->
  Forall (fun e => now <= e_at e) (run c s now script).
Proof.
  induction script as [|o rest IH]; intros s now Hd; [constructor|].
  rewrite run_cons. destruct (step c s now o) as [[s' now'] e] eqn:E.
  inversion Hd; subst.
  destruct (step_times _ _ _ _ _ _ _ H1 E) as (H3 & H4 & _).
  constructor; [exact H3|].
  eapply Forall_impl; [|apply IH; assumption]. cbn. intros; lia.
Qed.

(* observation instants never decrease *)
Fixpoint nondecreasing (l : list Z) : Prop :=
  match l with
  | [] => True
  | x :: r => Forall (fun y => x <= y) r /\ nondecreasing r
  end.

Lemma run_monotone c script : forall s now,
  Forall item_ok script -> nondecreasing (map e_at (run c s now script)).
Proof.
  induction script as [|o rest IH]; intros s now Hd; [exact I|].
  rewrite run_cons. destruct (step c s now o) as [[s' now'] e] eqn:E.
  inversion Hd; subst.
  destruct (step_times _ _ _ _ _ _ _ H1 E) as (_ & H4 & _).
  cbn [map nondecreasing]. split; [|apply IH; assumption].
  apply Forall_map. eapply Forall_impl; [|apply (run_after c rest s' now'); assumption].
  cbn. intros; lia.
Qed.

Lemma cooldown_silent c script : forall s now,
  Forall item_ok script ->
  forall pre e post,
    run c s now script = pre ++ e :: post ->
    e_fire e = true -> e_obs e = false ->
    Forall (fun e' => e_at e + Z.max (cC c) 0 <= e_at e') post.
Proof.
  induction script as [|o rest IH]; intros s now Hd pre e post Hr F Ho.
  { destruct pre; discriminate. }
  rewrite run_cons in Hr. destruct (step c s now o) as [[s' now'] e0] eqn:E.
  inversion Hd; subst.
  destruct pre as [|x pre'].
  - cbn in Hr. inversion Hr; subst.
    destruct (step_times _ _ _ _ _ _ _ H1 E) as (_ & _ & _ & H5).
    eapply Forall_impl; [|apply (run_after c rest s' now'); assumption].
    cbn. intros a Ha. specialize (H5 F Ho). lia.
  - cbn in Hr. inversion Hr; subst. eapply IH; eauto.
Qed.

(* consecutive checks are at least MinTimeBetweenCalls apart (the next check is
   never earlier than the end of this iteration + the interval) *)
Lemma interval_respected c script : forall s now,
  Forall item_ok script ->
  forall pre e e' post,
    run c s now script = pre ++ e :: e' :: post ->
    e_at e + cI c <= e_at e'.
Proof.
  induction script as [|o rest IH]; intros s now Hd pre e e' post Hr.
  { destruct pre; discriminate. }
  rewrite run_cons in Hr. destruct (step c s now o) as [[s' now'] e0] eqn:E.
  inversion Hd; subst.
  destruct pre as [|x pre'].
  - cbn [app] in Hr. injection Hr as He0 Hrest. subst e0.
    destruct (step_times _ _ _ _ _ _ _ H1 E) as (_ & Hle & Hlr & _).
    destruct rest as [|o2 rest2]; [discriminate|].
    rewrite run_cons in Hrest.
    destruct (step c s' now' o2) as [[s2 now2] e2] eqn:E2.
    injection Hrest as He2 _. subst e2.
    inversion H2 as [|? ? Hok2 _]; subst.
    destruct Hok2 as (Hp2 & Hd2 & _).
    pose proof (wait_until_interval c s' (now' + i_pre o2) now' Hlr) as Hw.
    assert (Hat : e_at e' = wait_until c s' (now' + i_pre o2) + i_d o2).
    { unfold step in E2.
      destruct (negb (eqb (i_obs o2) (last s'))); [|destruct (_ && _ && _ && _)];
        inversion E2; reflexivity. }
    lia.
  - cbn in Hr. inversion Hr; subst. eapply IH; eauto.
Qed.

(* ---------- flapping ---------- *)

Definition has_run (n : Z) (l : list bool) : Prop :=
  exists pre r post b, l = pre ++ r ++ post /\ Forall (fun x => x = b) r /\
                       n <= Z.of_nat (length r).

Lemma fire_exists (tr : list ev) :
  reactions tr <> [] -> exists pre e post, tr = pre ++ e :: post /\ e_fire e = true.
Proof.
  induction tr as [|x tr IH]; [intros H; contradiction H; reflexivity|].
  unfold reactions. cbn [flat_map]. destruct (e_fire x) eqn:Fx.
  - intros _. exists [], x, tr. auto.
  - cbn [app]. intros H. destruct (IH H) as (p & e & q & -> & F).
    exists (x :: p), e, q. auto.
Qed.

Lemma fire_has_run c script t0 :
  reactions (run c init t0 script) <> [] ->
  has_run (Z.max (cN c) 2) (map i_obs script).
Proof.
  intros Hne.
  destruct (fire_exists _ Hne) as (pre & e & post & Hr & F).
  pose proof (stable_before_all c script init t0 [] Inv_init pre e post Hr F) as SB.
  cbn [app] in SB. destruct SB as (pre1 & r & f & Hp & Hall & Hlen & _).
  rewrite <- (run_obs c script init t0), Hr, Hp.
  exists (map e_obs pre1), (map e_obs ((f :: r) ++ [e])), (map e_obs post), (e_obs e).
  repeat split.
  - rewrite !map_app. cbn [map]. rewrite <- !app_assoc. cbn [app]. reflexivity.
  - rewrite map_app. apply Forall_app. split.
    + apply Forall_map. exact Hall.
    + cbn. constructor; auto.
  - rewrite map_length, app_length. cbn [length] in *. lia.
Qed.

(* the time reading of "flapping": no stretch of equal consecutive observations
   spans the stable period *)
Definition brief (c : cfg) (tr : list ev) : Prop :=
  forall pre1 f r e post,
    tr = pre1 ++ f :: r ++ e :: post ->
    Forall (fun x => e_obs x = e_obs e) (f :: r) ->
    e_at e - e_at f < cP c.

Lemma brief_never_fires c script t0 :
  brief c (run c init t0 script) -> reactions (run c init t0 script) = [].
Proof.
  intros Hb.
  destruct (reactions (run c init t0 script)) eqn:E; [reflexivity|].
  exfalso.
  assert (Hne : reactions (run c init t0 script) <> []) by (rewrite E; discriminate).
  destruct (fire_exists _ Hne) as (pre & e & post & Hr & F).
  pose proof (stable_before_all c script init t0 [] Inv_init pre e post Hr F) as SB.
  cbn [app] in SB. destruct SB as (pre1 & r & f & Hp & Hall & _ & HP).
  specialize (Hb pre1 f r e post).
  rewrite Hr, Hp in Hb. rewrite <- app_assoc in Hb. cbn [app] in Hb.
  specialize (Hb eq_refl Hall). lia.
Qed.

(* ---------- the scripts of pairs are instances ---------- *)

Lemma of_pair_ok script :
  Forall (fun o : bool * Z => 0 <= snd o) script -> Forall item_ok (map of_pair script).
Proof.
  intros H. apply Forall_map. eapply Forall_impl; [|exact H].
  intros o Ho. unfold item_ok, of_pair. cbn [i_pre i_d i_post]. cbn beta in Ho. lia.
Qed.

Lemma of_pair_obs script : map i_obs (map of_pair script) = map fst script.
Proof. rewrite map_map. reflexivity. Qed.
