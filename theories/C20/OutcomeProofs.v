From Coq Require Import List ZArith Bool Lia.
From Verif Require Import C20.Model C20.Proofs C20.Outcome.
Import ListNotations.
Open Scope Z_scope.

(* ---------- 1. reaction outcomes ---------- *)

Lemma run_o_cons v c s now o rest :
  run_o v c s now (o :: rest) =
  let '(s', now', e) := step_o v c s now o in e :: run_o v c s' now' rest.
Proof. reflexivity. Qed.

(* the loop of the code does not look at the outcome of a reaction *)
Lemma run_o_latch c script : forall s now,
  run_o Latch c s now script = run c s now (map f_item script).
Proof.
  induction script as [|o rest IH]; intros s now; [reflexivity|].
  rewrite run_o_cons. cbn [map]. rewrite run_cons. unfold step_o.
  destruct (step c s now (f_item o)) as [[s' now'] e].
  rewrite IH. reflexivity.
Qed.

Lemma run_o_length v c script : forall s now,
  length (run_o v c s now script) = length script.
Proof.
  induction script as [|o rest IH]; intros s now; [reflexivity|].
  rewrite run_o_cons. destruct (step_o v c s now o) as [[s' now'] e].
  cbn [length]. rewrite IH. reflexivity.
Qed.

(* the reactions the harness sees (as invoked, failed ones included) are the
   reactions of the trace *)
Lemma effects_reactions t0 : forall tr script df,
  length tr = length script ->
  map (fun r => (r_kind r, r_at r + t0)) (effects df t0 tr script) = reactions tr.
Proof.
  induction tr as [|e tr IH]; intros script df L; [reflexivity|].
  destruct script as [|o script]; [discriminate L|].
  injection L as L. cbn [effects]. unfold reactions. cbn [flat_map].
  fold (reactions tr). destruct (e_fire e).
  - cbn [map app r_kind r_at]. rewrite IH by exact L. f_equal. f_equal. lia.
  - cbn [app]. apply IH. exact L.
Qed.

(* a reaction that fails leaves the policies in force as they were; one that
   succeeds installs those of its kind *)
Lemma effects_in_force t0 : forall tr script df,
  let l := effects df t0 tr script in
  forall pre r post, l = pre ++ r :: post ->
    r_diagfree r = if r_effect r then negb (r_kind r) else in_force df pre.
Proof.
  induction tr as [|e tr IH]; intros script df l pre r post H; subst l.
  { destruct pre; discriminate H. }
  destruct script as [|o script]; [destruct pre; discriminate H|].
  cbn [effects] in H. destruct (e_fire e).
  - destruct pre as [|p pre].
    + injection H as <- _. cbn. destruct (succeeds (f_fault o)); reflexivity.
    + injection H as <- H. apply IH in H. rewrite H.
      destruct (r_effect r); [reflexivity|]. reflexivity.
  - eapply IH. exact H.
Qed.

(* the variant that re-arms after a failed reaction: one outage, four checks,
   the 'unhealthy' reaction is invoked at three of them *)
Definition rearm_cfg : cfg := {| cN := 2; cP := 0; cI := 1; cC := 0 |}.
Definition rearm_script : list fitem :=
  [FIt (It false 0 0 0) CorruptFile; FIt (It false 0 0 0) CorruptFile;
   FIt (It false 0 0 0) CorruptFile; FIt (It false 0 0 0) CorruptFile].

Lemma rearm_witness :
  map fst (reactions (run_o Rearm rearm_cfg init 0 rearm_script)) = [false; false; false].
Proof. vm_compute. reflexivity. Qed.

(* with reactions that succeed the variant is the code *)
Lemma rearm_latch_without_fault c script : forall s now,
  Forall (fun o => f_fault o = NoFault) script ->
  run_o Rearm c s now script = run_o Latch c s now script.
Proof.
  induction script as [|o rest IH]; intros s now F; [reflexivity|].
  inversion F as [|? ? Ho Fr]; subst.
  rewrite !run_o_cons. unfold step_o. rewrite Ho.
  destruct (step c s now (f_item o)) as [[s' now'] e].
  cbn [succeeds negb]. rewrite andb_false_r. rewrite (IH _ _ Fr). reflexivity.
Qed.

(* ---------- 2. a predicate that hangs ---------- *)

Definition tag (e : ev) : ev * bool := (e, true).

Lemma run_h_cons v c s now o rest :
  run_h v c s now (o :: rest) =
  let '(s', now', e) := step_h v c s now o in e :: run_h v c s' now' rest.
Proof. reflexivity. Qed.

(* the loop of the code waits for the answer: every event is an answer *)
Lemma run_h_wait c script : forall s now,
  run_h Wait c s now script = map tag (run c s now script).
Proof.
  induction script as [|o rest IH]; intros s now; [reflexivity|].
  rewrite run_h_cons, run_cons. unfold step_h.
  destruct (step c s now o) as [[s' now'] e].
  cbn [map]. rewrite IH. reflexivity.
Qed.

(* what the property demands of a firing: the answers received so far end with
   at least max(N,2) consecutive answers of the new state *)
Definition fires_confirmed (c : cfg) (tr : list (ev * bool)) : Prop :=
  forall pre e b post, tr = pre ++ (e, b) :: post -> e_fire e = true ->
    Z.max (cN c) 2 <= confirmations (e_obs e) (rev (pre ++ [(e, b)])).

Lemma conf_nonneg k : forall l, 0 <= confirmations k l.
Proof.
  induction l as [|[e b] l IH]; cbn [confirmations]; [lia|].
  destruct b; [destruct (eqb (e_obs e) k); lia|exact IH].
Qed.

Lemma conf_app k rest : forall m,
  Forall (fun x => e_obs x = k) m ->
  confirmations k (map tag m ++ rest) = Z.of_nat (length m) + confirmations k rest.
Proof.
  induction m as [|x m IH]; intros F; [cbn; lia|].
  inversion F as [|a m' Hx Fm]. subst a m'.
  cbn [map tag app confirmations]. rewrite Hx, eqb_reflx, (IH Fm).
  cbn [length]. lia.
Qed.

Lemma wait_fires_confirmed c script t0 :
  fires_confirmed c (run_h Wait c init t0 script).
Proof.
  unfold fires_confirmed. intros pre e b post H F.
  rewrite run_h_wait in H.
  apply map_eq_app in H. destruct H as (pre0 & rest0 & Hr & Hpre & Hrest).
  apply map_eq_cons in Hrest. destruct Hrest as (e0 & post0 & -> & He & Hpost).
  unfold tag in He. injection He as He1 He2. subst e0 b.
  destruct (stable_before_all c script init t0 [] Inv_init pre0 e post0 Hr F)
    as (pre1 & r & f & Hp & Fo & Hlen & _).
  cbn [app] in Hp. subst pre pre0.
  rewrite rev_app_distr. cbn [rev app].
  cbn [confirmations]. rewrite eqb_reflx.
  rewrite <- map_rev, rev_app_distr, map_app.
  rewrite conf_app by (apply Forall_rev; exact Fo).
  rewrite rev_length.
  pose proof (conf_nonneg (e_obs e) (map tag (rev pre1))) as Hn.
  lia.
Qed.

(* the variant that gives up after 5 and goes on with the previous reading:
   healthy, healthy, ONE unhealthy answer, then two checks that hang for 20 *)
Definition carry_cfg : cfg := {| cN := 3; cP := 2; cI := 1; cC := 60 |}.
Definition carry_script : list item :=
  [It true 0 0 0; It true 0 0 0; It false 0 0 0; It true 0 20 0; It true 0 20 0].

Lemma carry_witness :
  run_h (CarryOver 5) carry_cfg init 0 carry_script =
  [({| e_obs := true; e_at := 0; e_fire := false |}, true);
   ({| e_obs := true; e_at := 1; e_fire := false |}, true);
   ({| e_obs := false; e_at := 2; e_fire := false |}, true);
   ({| e_obs := false; e_at := 8; e_fire := false |}, false);
   ({| e_obs := false; e_at := 14; e_fire := true |}, false)].
Proof. vm_compute. reflexivity. Qed.

Lemma carry_not_confirmed :
  ~ fires_confirmed carry_cfg (run_h (CarryOver 5) carry_cfg init 0 carry_script).
Proof.
  intros H. rewrite carry_witness in H.
  specialize (H [({| e_obs := true; e_at := 0; e_fire := false |}, true);
                 ({| e_obs := true; e_at := 1; e_fire := false |}, true);
                 ({| e_obs := false; e_at := 2; e_fire := false |}, true);
                 ({| e_obs := false; e_at := 8; e_fire := false |}, false)]
                {| e_obs := false; e_at := 14; e_fire := true |} false [] eq_refl eq_refl).
  vm_compute in H. apply H. reflexivity.
Qed.

(* as long as every answer comes within the bound the variant is the code *)
Lemma carry_over_wait_without_hang lim c script : forall s now,
  Forall (fun o => i_d o <= lim) script ->
  run_h (CarryOver lim) c s now script = run_h Wait c s now script.
Proof.
  induction script as [|o rest IH]; intros s now F; [reflexivity|].
  inversion F as [|? ? Ho Fr]; subst.
  rewrite !run_h_cons. unfold step_h.
  destruct (lim <? i_d o) eqn:E; [apply Z.ltb_lt in E; lia|].
  destruct (step c s now o) as [[s' now'] e]. rewrite (IH _ _ Fr). reflexivity.
Qed.
