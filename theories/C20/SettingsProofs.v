(* C20 — lemmas about Settings.v: the decimal decoding of a setting text yields
   the number the text says (positional reading), and the watcher built from
   the environment is the watcher model run with those numbers. *)
From Coq Require Import List ZArith Bool Lia.
From Verif Require Import C20.Model C20.Settings.
Import ListNotations.
Open Scope Z_scope.

Lemma digit_of_dec : forall d, is_dec_digit d -> digit_of (48 + d) = Some d.
Proof.
  intros d [Hl Hh]. unfold digit_of.
  assert (E : (48 <=? 48 + d) && (48 + d <=? 57) = true).
  { apply andb_true_intro. split; apply Z.leb_le; lia. }
  rewrite E. f_equal. lia.
Qed.

Lemma digits_val_dec : forall ds acc,
  Forall is_dec_digit ds ->
  digits_val 10 acc (map (fun d => 48 + d) ds)
  = Some (acc * 10 ^ Z.of_nat (length ds) + pos_val ds).
Proof.
  induction ds as [|d r IH]; intros acc F.
  - cbn [map digits_val length pos_val Z.of_nat]. f_equal. rewrite Z.pow_0_r. lia.
  - inversion F as [|? ? Hd Hr]; subst.
    cbn [map digits_val]. rewrite (digit_of_dec d Hd).
    assert (E : (d <? 10) = true) by (apply Z.ltb_lt; destruct Hd; lia).
    rewrite E, (IH _ Hr). f_equal.
    cbn [length pos_val]. rewrite Nat2Z.inj_succ, Z.pow_succ_r by lia. lia.
Qed.

Lemma unsigned_dec : forall ds,
  ds <> [] -> Forall is_dec_digit ds ->
  unsigned_val Decimal (map (fun d => 48 + d) ds) = Some (pos_val ds).
Proof.
  intros ds Hne F. unfold unsigned_val, nonempty_val.
  destruct ds as [|d r]; [congruence|].
  pose proof (digits_val_dec (d :: r) 0 F) as E. cbn [map] in E |- *.
  rewrite E, Z.mul_0_l. reflexivity.
Qed.

Lemma split_sign_text : forall sg neg ds,
  sign_text sg neg -> ds <> [] -> Forall is_dec_digit ds ->
  split_sign (sg ++ map (fun d => 48 + d) ds) = (neg, map (fun d => 48 + d) ds).
Proof.
  intros sg neg ds S Hne F. destruct S; cbn [app split_sign]; try reflexivity.
  destruct ds as [|d r]; [congruence|].
  inversion F as [|? ? [Hl Hh] _]; subst. cbn [map split_sign].
  assert (E1 : (48 + d =? 43) = false) by (apply Z.eqb_neq; lia).
  assert (E2 : (48 + d =? 45) = false) by (apply Z.eqb_neq; lia).
  rewrite E1, E2. reflexivity.
Qed.

(* the decimal decoding of a text that says [z] is [z] *)
Lemma reads_decimal_decode_raw : forall l z,
  reads_decimal l z -> decode_raw Decimal l = Some z.
Proof.
  intros l z (sg & neg & ds & S & Hne & F & -> & ->).
  unfold decode_raw. rewrite (split_sign_text sg neg ds S Hne F).
  rewrite (unsigned_dec ds Hne F). reflexivity.
Qed.

Lemma reads_decimal_decode : forall l z z',
  reads_decimal l z -> decode Decimal l = Some z' -> z' = z.
Proof.
  intros l z z' R D. unfold decode in D.
  rewrite (reads_decimal_decode_raw l z R) in D.
  destruct (in_int64 z); congruence.
Qed.

(* a text says at most one number *)
Lemma reads_decimal_fun : forall l z z',
  reads_decimal l z -> reads_decimal l z' -> z = z'.
Proof.
  intros l z z' R R'.
  pose proof (reads_decimal_decode_raw l z R) as E.
  rewrite (reads_decimal_decode_raw l z' R') in E. congruence.
Qed.

(* within int64 the decoding succeeds *)
Lemma reads_decimal_decodes : forall l z,
  reads_decimal l z -> in_int64 z = true -> decode Decimal l = Some z.
Proof.
  intros l z R I. unfold decode. rewrite (reads_decimal_decode_raw l z R), I. reflexivity.
Qed.

(* seconds that fit a Duration are not wrapped ... *)
Lemma seconds_fit : forall x, secs_fit x -> seconds x = x * second.
Proof.
  intros x H. unfold secs_fit in H. unfold seconds, wrap64, second.
  rewrite Z.mod_small by lia. lia.
Qed.

(* ... and (for an int64 number of seconds) only those: outside [secs_fit] the
   Duration is NOT the configured number of seconds *)
Lemma seconds_fit_only : forall x,
  in_int64 x = true -> seconds x = x * second -> secs_fit x.
Proof.
  intros x I H. unfold secs_fit. unfold seconds, wrap64, second in H.
  unfold in_int64 in I. apply andb_prop in I. destruct I as [I1 I2].
  apply Z.leb_le in I1. apply Z.leb_le in I2.
  pose proof (Z.mod_pos_bound (x * 1000000000 + 9223372036854775808) 18446744073709551616
                ltac:(lia)) as B.
  lia.
Qed.

(* the settings the constructor hands to the watcher are the numbers the texts
   say (seconds for the three durations, when they fit a Duration) *)
Lemma settings_of_decimal : forall ts c,
  settings_of Decimal ts = Some c ->
  (forall x, reads_decimal (t_i ts) x -> secs_fit x -> cI c = x * second) /\
  (forall x, reads_decimal (t_n ts) x -> cN c = x) /\
  (forall x, reads_decimal (t_p ts) x -> secs_fit x -> cP c = x * second) /\
  (forall x, reads_decimal (t_c ts) x -> secs_fit x -> cC c = x * second).
Proof.
  intros ts c H. unfold settings_of in H.
  destruct (decode Decimal (t_i ts)) as [i|] eqn:Ei; [|discriminate].
  destruct (decode Decimal (t_n ts)) as [n|] eqn:En; [|discriminate].
  destruct (decode Decimal (t_p ts)) as [p|] eqn:Ep; [|discriminate].
  destruct (decode Decimal (t_c ts)) as [cd|] eqn:Ec; [|discriminate].
  injection H as <-. cbn [cI cN cP cC].
  split; [|split; [|split]].
  - intros x R Fx. rewrite (reads_decimal_decode _ _ _ R Ei). exact (seconds_fit x Fx).
  - intros x R. rewrite (reads_decimal_decode _ _ _ R En). reflexivity.
  - intros x R Fx. rewrite (reads_decimal_decode _ _ _ R Ep). exact (seconds_fit x Fx).
  - intros x R Fx. rewrite (reads_decimal_decode _ _ _ R Ec). exact (seconds_fit x Fx).
Qed.

Lemma run_env_some : forall v ts t0 script tr,
  run_env v ts t0 script = Some tr ->
  exists c, settings_of v ts = Some c /\ tr = run c init t0 script.
Proof.
  intros v ts t0 script tr H. unfold run_env in H.
  destruct (settings_of v ts) as [c|]; [|discriminate].
  injection H as <-. exists c. split; reflexivity.
Qed.

(* without a leading zero the base-detecting variant reads what Atoi reads *)
Lemma autodetect_decimal : forall l,
  no_leading_zero l -> decode AutoDetect l = decode Decimal l.
Proof.
  intros l H. unfold decode, decode_raw. unfold no_leading_zero in H.
  destruct (split_sign l) as [neg r]. cbn [snd] in H.
  assert (E : unsigned_val AutoDetect r = unsigned_val Decimal r).
  { unfold unsigned_val. destruct r as [|z [|x r']]; try reflexivity.
    apply Z.eqb_neq in H. rewrite H. reflexivity. }
  rewrite E. reflexivity.
Qed.

Lemma autodetect_settings : forall ts,
  no_leading_zero (t_i ts) -> no_leading_zero (t_p ts) -> no_leading_zero (t_c ts) ->
  settings_of AutoDetect ts = settings_of Decimal ts.
Proof.
  intros ts Hi Hp Hc. unfold settings_of.
  rewrite (autodetect_decimal _ Hi), (autodetect_decimal _ Hp), (autodetect_decimal _ Hc).
  reflexivity.
Qed.

(* ---- witnesses for the base-detecting variant ---- *)

Definition txt_010 : text := [48; 49; 48].

Lemma txt_010_says_10 : reads_decimal txt_010 10.
Proof.
  exists [], false, [0; 1; 0]. split; [constructor|]. split; [discriminate|].
  split; [repeat constructor; unfold is_dec_digit; lia|]. split; reflexivity.
Qed.

Lemma ten_fits : secs_fit 10.
Proof. unfold secs_fit. cbn. lia. Qed.

(* stable period "010": interval 4 s, N = 2, three unhealthy checks at 0, 4, 8 s *)
Definition oct_stable_ts : texts := Texts [52] [50] txt_010 [48].
Definition oct_stable_script : list item := [It false 0 0 0; It false 0 0 0; It false 0 0 0].
Definition oct_e0 : ev := {| e_obs := false; e_at := 0; e_fire := false |}.
Definition oct_e1 : ev := {| e_obs := false; e_at := 4000000000; e_fire := false |}.
Definition oct_e2 : ev := {| e_obs := false; e_at := 8000000000; e_fire := true |}.

Lemma oct_stable_run :
  run_env AutoDetect oct_stable_ts 0 oct_stable_script = Some ([oct_e0; oct_e1] ++ oct_e2 :: []).
Proof. vm_compute. reflexivity. Qed.

(* the decimal reading does not fire there *)
Lemma dec_stable_run :
  option_map reactions (run_env Decimal oct_stable_ts 0 oct_stable_script) = Some [].
Proof. vm_compute. reflexivity. Qed.

(* cool-down "010": interval 1 s, N = 2, stable period 0: 'unhealthy' at 1 s,
   the next check already at 10 s < 1 s + 10 s *)
Definition oct_cool_ts : texts := Texts [49] [50] [48] txt_010.
Definition oct_cool_script : list item := [It false 0 0 0; It false 0 0 0; It true 0 0 0].
Definition oct_c0 : ev := {| e_obs := false; e_at := 0; e_fire := false |}.
Definition oct_c1 : ev := {| e_obs := false; e_at := 1000000000; e_fire := true |}.
Definition oct_c2 : ev := {| e_obs := true; e_at := 10000000000; e_fire := false |}.

Lemma oct_cool_run :
  run_env AutoDetect oct_cool_ts 0 oct_cool_script = Some ([oct_c0] ++ oct_c1 :: [oct_c2]).
Proof. vm_compute. reflexivity. Qed.

Lemma oct_cool_script_ok : Forall item_ok oct_cool_script.
Proof. repeat constructor; cbn; lia. Qed.
