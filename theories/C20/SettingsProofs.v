(* C20 — lemmas about Settings.v: the decimal decoding of a setting text yields
   the number the text says (positional reading), and the watcher built from
   the environment is the watcher model run with those numbers. *)
From Coq Require Import List ZArith Bool Lia.
From Verif Require Import C20.Model C20.Settings.
Import ListNotations.
Open Scope Z_scope.

Lemma digit_of_dec : forall d, is_dec_digit d -> digit_of (48 + d) = Some d.
Proof.
  intros d [Hl Hh]. unfold digit_of.
  assert (E : (48 <=? 48 + d) && (48 + d <=? 57) = true).
  { apply andb_true_intro. split; apply Z.leb_le; lia. }
  rewrite E. f_equal. lia.
Qed.

Lemma digits_val_dec : forall ds acc,
  Forall is_dec_digit ds ->
  digits_val 10 acc (map (fun d => 48 + d) ds)
  = Some (acc * 10 ^ Z.of_nat (length ds) + pos_val ds).
Proof.
  induction ds as [|d r IH]; intros acc F.
  - cbn [map digits_val length pos_val Z.of_nat]. f_equal. rewrite Z.pow_0_r. lia.
  - inversion F as [|? ? Hd Hr]; subst.
    cbn [map digits_val]. rewrite (digit_of_dec d Hd).
    assert (E : (d <? 10) = true) by (apply Z.ltb_lt; destruct Hd; lia).
    rewrite E, (IH _ Hr). f_equal.
    cbn [length pos_val]. rewrite Nat2Z.inj_succ, Z.pow_succ_r by lia. lia.
Qed.

Lemma unsigned_dec : forall ds,
  ds <> [] -> Forall is_dec_digit ds ->
  unsigned_val Decimal (map (fun d => 48 + d) ds) = Some (pos_val ds).
Proof.
  intros ds Hne F. unfold unsigned_val, nonempty_val.
  destruct ds as [|d r]; [congruence|].
  pose proof (digits_val_dec (d :: r) 0 F) as E. cbn [map] in E |- *.
  rewrite E, Z.mul_0_l. reflexivity.
Qed.

Lemma split_sign_text : forall sg neg ds,
  sign_text sg neg -> ds <> [] -> Forall is_dec_digit ds ->
  split_sign (sg ++ map (fun d => 48 + d) ds) = (neg, map (fun d => 48 + d) ds).
Proof.
  intros sg neg ds S Hne F. destruct S; cbn [app split_sign]; try reflexivity.
  destruct ds as [|d r]; [congruence|].
  inversion F as [|? ? [Hl Hh] _]; subst. cbn [map split_sign].
  assert (E1 : (48 + d =? 43) = false) by (apply Z.eqb_neq; lia).
  assert (E2 : (48 + d =? 45) = false) by (apply Z.eqb_neq; lia).
  rewrite E1, E2. reflexivity.
Qed.

(* the decimal decoding of a text that says [z] is [z] *)
Lemma reads_decimal_decode_raw : forall l z,
  reads_decimal l z -> decode_raw Decimal l = Some z.
Proof.
  intros l z (sg & neg & ds & S & Hne & F & -> & ->).
  unfold decode_raw. rewrite (split_sign_text sg neg ds S Hne F).
  rewrite (unsigned_dec ds Hne F). reflexivity.
Qed.

Lemma reads_decimal_decode : forall l z z',
  reads_decimal l z -> decode Decimal l = Some z' -> z' = z.
Proof.
  intros l z z' R D. unfold decode in D.
  rewrite (reads_decimal_decode_raw l z R) in D.
  destruct (in_int64 z); congruence.
Qed.

(* a text says at most one number *)
Lemma reads_decimal_fun : forall l z z',
  reads_decimal l z -> reads_decimal l z' -> z = z'.
Proof.
  intros l z z' R R'.
  pose proof (reads_decimal_decode_raw l z R) as E.
  rewrite (reads_decimal_decode_raw l z' R') in E. congruence.
Qed.

(* within int64 the decoding succeeds *)
Lemma reads_decimal_decodes : forall l z,
  reads_decimal l z -> in_int64 z = true -> decode Decimal l = Some z.
Proof.
  intros l z R I. unfold decode. rewrite (reads_decimal_decode_raw l z R), I. reflexivity.
Qed.

(* ---- the converse: whatever the decimal decoding accepts says a number ---- *)

(* a character the decimal Horner loop accepts is a decimal digit *)
Lemma digit_of_dec_inv : forall b d,
  digit_of b = Some d -> (d <? 10) = true -> is_dec_digit d /\ b = 48 + d.
Proof.
  intros b d H L. apply Z.ltb_lt in L. unfold digit_of in H. unfold is_dec_digit.
  destruct ((48 <=? b) && (b <=? 57)) eqn:E1.
  { apply andb_prop in E1. destruct E1 as [A B]. apply Z.leb_le in A. apply Z.leb_le in B.
    injection H as <-. lia. }
  destruct ((97 <=? b) && (b <=? 102)) eqn:E2.
  { apply andb_prop in E2. destruct E2 as [A B]. apply Z.leb_le in A. injection H as <-. lia. }
  destruct ((65 <=? b) && (b <=? 70)) eqn:E3; [|discriminate].
  apply andb_prop in E3. destruct E3 as [A B]. apply Z.leb_le in A. injection H as <-. lia.
Qed.

Lemma digits_val_dec_inv : forall l acc u,
  digits_val 10 acc l = Some u ->
  exists ds, Forall is_dec_digit ds /\ l = map (fun d => 48 + d) ds /\
             u = acc * 10 ^ Z.of_nat (length ds) + pos_val ds.
Proof.
  induction l as [|b r IH]; intros acc u H.
  - cbn [digits_val] in H. injection H as <-. exists []. split; [constructor|]. split; [reflexivity|].
    cbn [length pos_val Z.of_nat]. rewrite Z.pow_0_r. lia.
  - cbn [digits_val] in H.
    destruct (digit_of b) as [d|] eqn:Ed; [|discriminate].
    destruct (d <? 10) eqn:L; [|discriminate].
    destruct (digit_of_dec_inv b d Ed L) as [Hd ->].
    destruct (IH _ _ H) as (ds & F & -> & ->).
    exists (d :: ds). split; [constructor; assumption|]. split; [reflexivity|].
    cbn [length pos_val]. rewrite Nat2Z.inj_succ, Z.pow_succ_r by lia. lia.
Qed.

Lemma unsigned_dec_inv : forall r u,
  unsigned_val Decimal r = Some u ->
  exists ds, ds <> [] /\ Forall is_dec_digit ds /\ r = map (fun d => 48 + d) ds /\ u = pos_val ds.
Proof.
  intros r u H. unfold unsigned_val, nonempty_val in H.
  destruct r as [|b r']; [discriminate|].
  destruct (digits_val_dec_inv _ _ _ H) as (ds & F & E & ->).
  exists ds. split; [intros ->; discriminate|]. split; [exact F|]. split; [exact E|]. lia.
Qed.

Lemma split_sign_inv : forall l neg r,
  split_sign l = (neg, r) -> exists sg, sign_text sg neg /\ l = sg ++ r.
Proof.
  intros l neg r H. unfold split_sign in H. destruct l as [|b l'].
  { injection H as <- <-. exists []. split; [constructor|reflexivity]. }
  destruct (b =? 43) eqn:E1.
  { apply Z.eqb_eq in E1. subst b. injection H as <- <-. exists [43]. split; [constructor|reflexivity]. }
  destruct (b =? 45) eqn:E2.
  { apply Z.eqb_eq in E2. subst b. injection H as <- <-. exists [45]. split; [constructor|reflexivity]. }
  injection H as <- <-. exists []. split; [constructor|reflexivity].
Qed.

(* what the decimal decoding returns is the number the text says *)
Lemma decode_raw_reads_decimal : forall l z,
  decode_raw Decimal l = Some z -> reads_decimal l z.
Proof.
  intros l z H. unfold decode_raw in H.
  destruct (split_sign l) as [neg r] eqn:S.
  destruct (unsigned_val Decimal r) as [u|] eqn:U; [|discriminate].
  injection H as <-.
  destruct (split_sign_inv l neg r S) as (sg & Hsg & ->).
  destruct (unsigned_dec_inv r u U) as (ds & Hne & F & -> & ->).
  exists sg, neg, ds. repeat split; assumption.
Qed.

(* [decode Decimal] characterised completely: it returns [z] exactly for the
   texts that say [z] (optional sign, decimal digits, positional value) with [z]
   an int64 *)
Lemma decode_decimal_iff : forall l z,
  decode Decimal l = Some z <-> reads_decimal l z /\ in_int64 z = true.
Proof.
  intros l z. split.
  - intros H. unfold decode in H.
    destruct (decode_raw Decimal l) as [z'|] eqn:R; [|discriminate].
    destruct (in_int64 z') eqn:I; [|discriminate].
    injection H as <-. split; [exact (decode_raw_reads_decimal l z' R)|exact I].
  - intros [R I]. exact (reads_decimal_decodes l z R I).
Qed.

(* a text that says no int64 number is rejected *)
Lemma decode_decimal_rejects : forall l,
  (forall z, reads_decimal l z -> in_int64 z = false) -> decode Decimal l = None.
Proof.
  intros l H. destruct (decode Decimal l) as [z|] eqn:D; [|reflexivity].
  apply decode_decimal_iff in D. destruct D as [R I]. rewrite (H z R) in I. discriminate.
Qed.

(* ... and then there is no watcher *)
Lemma settings_of_rejects : forall ts l,
  In l [t_i ts; t_n ts; t_p ts; t_c ts] ->
  decode Decimal l = None -> settings_of Decimal ts = None.
Proof.
  intros ts l HIn D. unfold settings_of. cbn [In] in HIn.
  destruct HIn as [<-|[<-|[<-|[<-|[]]]]]; rewrite D.
  - reflexivity.
  - destruct (decode Decimal (t_i ts)); reflexivity.
  - destruct (decode Decimal (t_i ts)); [destruct (decode Decimal (t_n ts))|]; reflexivity.
  - destruct (decode Decimal (t_i ts)); [destruct (decode Decimal (t_n ts));
      [destruct (decode Decimal (t_p ts))|]|]; reflexivity.
Qed.

(* witnesses: texts that say no number at all, and one that says a number
   beyond int64 *)
Lemma says_nothing : forall l,
  decode_raw Decimal l = None -> forall z, ~ reads_decimal l z.
Proof. intros l H z R. rewrite (reads_decimal_decode_raw l z R) in H. discriminate. Qed.

Lemma blank_says_nothing : forall z, ~ reads_decimal [32; 49; 48] z.
Proof. apply says_nothing. reflexivity. Qed.

Lemma hex_says_nothing : forall z, ~ reads_decimal [48; 120; 49; 48] z.
Proof. apply says_nothing. reflexivity. Qed.

Lemma empty_says_nothing : forall z, ~ reads_decimal [] z.
Proof. apply says_nothing. reflexivity. Qed.

Definition txt_2p63 : text := [57;50;50;51;51;55;50;48;51;54;56;53;52;55;55;53;56;48;56].

Lemma txt_2p63_says : reads_decimal txt_2p63 9223372036854775808.
Proof.
  exists [], false, [9;2;2;3;3;7;2;0;3;6;8;5;4;7;7;5;8;0;8]. split; [constructor|].
  split; [discriminate|].
  split; [repeat constructor; unfold is_dec_digit; lia|]. split; reflexivity.
Qed.

(* seconds that fit a Duration are not wrapped ... *)
Lemma seconds_fit : forall x, secs_fit x -> seconds x = x * second.
Proof.
  intros x H. unfold secs_fit in H. unfold seconds, wrap64, second.
  rewrite Z.mod_small by lia. lia.
Qed.

(* ... and (for an int64 number of seconds) only those: outside [secs_fit] the
   Duration is NOT the configured number of seconds *)
Lemma seconds_fit_only : forall x,
  in_int64 x = true -> seconds x = x * second -> secs_fit x.
Proof.
  intros x I H. unfold secs_fit. unfold seconds, wrap64, second in H.
  unfold in_int64 in I. apply andb_prop in I. destruct I as [I1 I2].
  apply Z.leb_le in I1. apply Z.leb_le in I2.
  pose proof (Z.mod_pos_bound (x * 1000000000 + 9223372036854775808) 18446744073709551616
                ltac:(lia)) as B.
  lia.
Qed.

(* the settings the constructor hands to the watcher are the numbers the texts
   say (seconds for the three durations, when they fit a Duration) *)
Lemma settings_of_decimal : forall ts c,
  settings_of Decimal ts = Some c ->
  (forall x, reads_decimal (t_i ts) x -> secs_fit x -> cI c = x * second) /\
  (forall x, reads_decimal (t_n ts) x -> cN c = x) /\
  (forall x, reads_decimal (t_p ts) x -> secs_fit x -> cP c = x * second) /\
  (forall x, reads_decimal (t_c ts) x -> secs_fit x -> cC c = x * second).
Proof.
  intros ts c H. unfold settings_of in H.
  destruct (decode Decimal (t_i ts)) as [i|] eqn:Ei; [|discriminate].
  destruct (decode Decimal (t_n ts)) as [n|] eqn:En; [|discriminate].
  destruct (decode Decimal (t_p ts)) as [p|] eqn:Ep; [|discriminate].
  destruct (decode Decimal (t_c ts)) as [cd|] eqn:Ec; [|discriminate].
  injection H as <-. cbn [cI cN cP cC].
  split; [|split; [|split]].
  - intros x R Fx. rewrite (reads_decimal_decode _ _ _ R Ei). exact (seconds_fit x Fx).
  - intros x R. rewrite (reads_decimal_decode _ _ _ R En). reflexivity.
  - intros x R Fx. rewrite (reads_decimal_decode _ _ _ R Ep). exact (seconds_fit x Fx).
  - intros x R Fx. rewrite (reads_decimal_decode _ _ _ R Ec). exact (seconds_fit x Fx).
Qed.

Lemma run_env_some : forall v ts t0 script tr,
  run_env v ts t0 script = Some tr ->
  exists c, settings_of v ts = Some c /\ tr = run c init t0 script.
Proof.
  intros v ts t0 script tr H. unfold run_env in H.
  destruct (settings_of v ts) as [c|]; [|discriminate].
  injection H as <-. exists c. split; reflexivity.
Qed.

(* without a leading zero the base-detecting variant reads what Atoi reads *)
Lemma autodetect_decimal : forall l,
  no_leading_zero l -> decode AutoDetect l = decode Decimal l.
Proof.
  intros l H. unfold decode, decode_raw. unfold no_leading_zero in H.
  destruct (split_sign l) as [neg r]. cbn [snd] in H.
  assert (E : unsigned_val AutoDetect r = unsigned_val Decimal r).
  { unfold unsigned_val. destruct r as [|z [|x r']]; try reflexivity.
    apply Z.eqb_neq in H. rewrite H. reflexivity. }
  rewrite E. reflexivity.
Qed.

Lemma autodetect_settings : forall ts,
  no_leading_zero (t_i ts) -> no_leading_zero (t_p ts) -> no_leading_zero (t_c ts) ->
  settings_of AutoDetect ts = settings_of Decimal ts.
Proof.
  intros ts Hi Hp Hc. unfold settings_of.
  rewrite (autodetect_decimal _ Hi), (autodetect_decimal _ Hp), (autodetect_decimal _ Hc).
  reflexivity.
Qed.

(* ---- witnesses for the base-detecting variant ---- *)

Definition txt_010 : text := [48; 49; 48].

Lemma txt_010_says_10 : reads_decimal txt_010 10.
Proof.
  exists [], false, [0; 1; 0]. split; [constructor|]. split; [discriminate|].
  split; [repeat constructor; unfold is_dec_digit; lia|]. split; reflexivity.
Qed.

Lemma ten_fits : secs_fit 10.
Proof. unfold secs_fit. cbn. lia. Qed.

(* stable period "010": interval 4 s, N = 2, three unhealthy checks at 0, 4, 8 s *)
Definition oct_stable_ts : texts := Texts [52] [50] txt_010 [48].
Definition oct_stable_script : list item := [It false 0 0 0; It false 0 0 0; It false 0 0 0].
Definition oct_e0 : ev := {| e_obs := false; e_at := 0; e_fire := false |}.
Definition oct_e1 : ev := {| e_obs := false; e_at := 4000000000; e_fire := false |}.
Definition oct_e2 : ev := {| e_obs := false; e_at := 8000000000; e_fire := true |}.

Lemma oct_stable_run :
  run_env AutoDetect oct_stable_ts 0 oct_stable_script = Some ([oct_e0; oct_e1] ++ oct_e2 :: []).
Proof. vm_compute. reflexivity. Qed.

(* the decimal reading does not fire there *)
Lemma dec_stable_run :
  option_map reactions (run_env Decimal oct_stable_ts 0 oct_stable_script) = Some [].
Proof. vm_compute. reflexivity. Qed.

(* cool-down "010": interval 1 s, N = 2, stable period 0: 'unhealthy' at 1 s,
   the next check already at 10 s < 1 s + 10 s *)
Definition oct_cool_ts : texts := Texts [49] [50] [48] txt_010.
Definition oct_cool_script : list item := [It false 0 0 0; It false 0 0 0; It true 0 0 0].
Definition oct_c0 : ev := {| e_obs := false; e_at := 0; e_fire := false |}.
Definition oct_c1 : ev := {| e_obs := false; e_at := 1000000000; e_fire := true |}.
Definition oct_c2 : ev := {| e_obs := true; e_at := 10000000000; e_fire := false |}.

Lemma oct_cool_run :
  run_env AutoDetect oct_cool_ts 0 oct_cool_script = Some ([oct_c0] ++ oct_c1 :: [oct_c2]).
Proof. vm_compute. reflexivity. Qed.

Lemma oct_cool_script_ok : Forall item_ok oct_cool_script.
Proof. repeat constructor; cbn; lia. Qed.
