(* C20 — model of failsafe/state_change_watcher.go (StateChangeWatcher.run).

   One loop iteration = [step].  Time is Z nanoseconds.  The zero time.Time of
   [lastRunAt]/[changeStart] is [None] ("infinitely long ago": Go's Since
   saturates at the maximal Duration, which is >= every configured period).

   Case format (harness -> cases.v):
     (cfg, t0, script, observed)
       cfg      = (consecutiveN, minStablePeriod, minTimeBetweenCalls, cooldown)
       t0       = clock reading when run() starts
       script   = list of (observation, time spent inside the predicate)
       observed = list of (reaction, instant) seen on the implementation
                  reaction true = OnChangeToTrue, false = OnChangeToFalse *)
From Coq Require Import List ZArith Bool.
Import ListNotations.
Open Scope Z_scope.

Record cfg := { cN : Z; cP : Z; cI : Z; cC : Z }.

Record st := {
  last : bool;          (* lastState *)
  cnt : Z;              (* changeCount *)
  start : option Z;     (* changeStart, None = zero time *)
  trig : bool;          (* changeTriggered *)
  stable : bool;        (* currentStableState *)
  lastRun : option Z    (* lastRunAt, None = zero time *)
}.

Definition init : st :=
  {| last := true; cnt := 0; start := None; trig := false; stable := true;
     lastRun := None |}.

(* scw.clock.Since(t) >= d with t possibly the zero time *)
Definition since_ge (now : Z) (t : option Z) (d : Z) : bool :=
  match t with None => true | Some t0 => d <=? now - t0 end.

(* the wait at the top of the loop *)
Definition wait_until (c : cfg) (s : st) (now : Z) : Z :=
  match lastRun s with
  | None => now
  | Some lr => let w := cI c - (now - lr) in if 0 <? w then now + w else now
  end.

(* an event of the trace: the observation, the instant it was evaluated at
   (clock reading after the predicate returned) and the reaction fired, if any *)
Record ev := { e_obs : bool; e_at : Z; e_fire : bool }.

(* One loop iteration. [d] is the time spent inside the predicate.
   Returns the new state, the clock reading at the end of the iteration and
   the event. *)
Definition step (c : cfg) (s : st) (now : Z) (o : bool * Z) : st * Z * ev :=
  let obs := fst o in
  let t := wait_until c s now + snd o in
  if negb (eqb obs (last s)) then
    ({| last := obs; cnt := 1; start := Some t; trig := false;
        stable := stable s; lastRun := Some t |}, t,
     {| e_obs := obs; e_at := t; e_fire := false |})
  else
    let n := cnt s + 1 in
    if (cN c <=? n) && since_ge t (start s) (cP c)
       && negb (trig s) && negb (eqb obs (stable s)) then
      let t' := if obs then t else t + cC c in
      ({| last := obs; cnt := n; start := start s; trig := true;
          stable := obs; lastRun := Some t' |}, t',
       {| e_obs := obs; e_at := t; e_fire := true |})
    else
      ({| last := obs; cnt := n; start := start s; trig := trig s;
          stable := stable s; lastRun := Some t |}, t,
       {| e_obs := obs; e_at := t; e_fire := false |}).

Fixpoint run (c : cfg) (s : st) (now : Z) (script : list (bool * Z)) : list ev :=
  match script with
  | [] => []
  | o :: rest =>
      let '(s', now', e) := step c s now o in
      e :: run c s' now' rest
  end.

Definition reactions (tr : list ev) : list (bool * Z) :=
  flat_map (fun e => if e_fire e then [(e_obs e, e_at e)] else []) tr.

(* ---- correspondence entry point ---- *)
Definition case := ((Z * Z * Z * Z) * Z * list (bool * Z) * list (bool * Z))%type.

Fixpoint eq_rx (a b : list (bool * Z)) : bool :=
  match a, b with
  | [], [] => true
  | (x, t) :: a', (y, u) :: b' => eqb x y && (t =? u) && eq_rx a' b'
  | _, _ => false
  end.

Definition run_case (k : case) : option (list (bool * Z)) :=
  let '(p, t0, script, observed) := k in
  let '(n, sp, iv, cd) := p in
  let c := {| cN := n; cP := sp; cI := iv; cC := cd |} in
  let m := reactions (run c init t0 script) in
  if eq_rx m observed then None else Some m.
