(* C20 — model of failsafe/state_change_watcher.go (StateChangeWatcher.run).

   One loop iteration = [step].  Time is Z nanoseconds.  The zero time.Time of
   [lastRunAt]/[changeStart] is [None] ("infinitely long ago": Go's Since
   saturates at the maximal Duration, which is >= every configured period).

   The clock is an arbitrary MONOTONE clock that respects the two blocking
   waits of the loop: a wait of d returns max(d,0) or later after it was
   started (Go: time.After / time.Sleep return at once for d <= 0), and between
   any two statements any non-negative amount of time may pass.  One iteration
   reads the clock at three places; the script supplies, per iteration, the
   three slacks ([item]):
     i_pre   from the end of the previous iteration (lastRunAt = Now()) to the
             reading Since(lastRunAt) at the top of the loop (scheduling)
     i_d     from the end of the wait at the top of the loop (or from that
             reading, when there is no wait) to the reading taken right after the
             predicate returned (changeStart = Now() / Since(changeStart)):
             overshoot of the timer + time spent inside the predicate
     i_post  from that reading (plus the cool-down after OnChangeToFalse) to the
             reading lastRunAt = Now() that ends the iteration: time spent in the
             callback, overshoot of the cool-down sleep
   Every execution under such a clock is the run of some script with
   non-negative slacks (C20.GenEquiv proves this about the code the translator
   reads off the source); the theorems of Property.v hold for ALL scripts.

   Case format (harness -> cases.v): [Case n p i c t0 script obs_at reactions]
       n p i c    = consecutiveN, minStablePeriod, minTimeBetweenCalls, cooldown
       t0         = clock reading when run() starts
       script     = list of [It observation pre d post]
       obs_at     = instants at which the implementation's predicate returned
       reactions  = list of (reaction, instant) seen on the implementation
                    reaction true = OnChangeToTrue, false = OnChangeToFalse
       (the instants of obs_at and reactions are written as offsets from t0: the
       case files are dominated by the parsing of 61-bit literals otherwise) *)
From Coq Require Import List ZArith Bool.
Import ListNotations.
Open Scope Z_scope.

Record cfg := { cN : Z; cP : Z; cI : Z; cC : Z }.

Record st := {
  last : bool;          (* lastState *)
  cnt : Z;              (* changeCount *)
  start : option Z;     (* changeStart, None = zero time *)
  trig : bool;          (* changeTriggered *)
  stable : bool;        (* currentStableState *)
  lastRun : option Z    (* lastRunAt, None = zero time *)
}.

Definition init : st :=
  {| last := true; cnt := 0; start := None; trig := false; stable := true;
     lastRun := None |}.

(* scw.clock.Since(t) >= d with t possibly the zero time *)
Definition since_ge (now : Z) (t : option Z) (d : Z) : bool :=
  match t with None => true | Some t0 => d <=? now - t0 end.

(* the earliest return of a blocking wait (After / Sleep) of [d] started at
   [now]: a non-positive wait returns at once *)
Definition wait_from (now d : Z) : Z := now + Z.max d 0.

(* the wait at the top of the loop: [now] is the reading Since(lastRunAt) *)
Definition wait_until (c : cfg) (s : st) (now : Z) : Z :=
  match lastRun s with
  | None => now
  | Some lr => let w := cI c - (now - lr) in if 0 <? w then now + w else now
  end.

(* one iteration's input: the observation and the three slacks of the clock *)
Record item := It { i_obs : bool; i_pre : Z; i_d : Z; i_post : Z }.

Definition item_ok (o : item) : Prop := 0 <= i_pre o /\ 0 <= i_d o /\ 0 <= i_post o.

(* an event of the trace: the observation, the instant it was evaluated at
   (clock reading after the predicate returned) and the reaction fired, if any *)
Record ev := { e_obs : bool; e_at : Z; e_fire : bool }.

(* One loop iteration, started when the clock reads [now].
   Returns the new state, the clock reading at the end of the iteration
   (= lastRunAt) and the event. *)
Definition step (c : cfg) (s : st) (now : Z) (o : item) : st * Z * ev :=
  let obs := i_obs o in
  let t := wait_until c s (now + i_pre o) + i_d o in
  if negb (eqb obs (last s)) then
    let te := t + i_post o in
    ({| last := obs; cnt := 1; start := Some t; trig := false;
        stable := stable s; lastRun := Some te |}, te,
     {| e_obs := obs; e_at := t; e_fire := false |})
  else
    let n := cnt s + 1 in
    if (cN c <=? n) && since_ge t (start s) (cP c)
       && negb (trig s) && negb (eqb obs (stable s)) then
      let te := (if obs then t else wait_from t (cC c)) + i_post o in
      ({| last := obs; cnt := n; start := start s; trig := true;
          stable := obs; lastRun := Some te |}, te,
       {| e_obs := obs; e_at := t; e_fire := true |})
    else
      let te := t + i_post o in
      ({| last := obs; cnt := n; start := start s; trig := trig s;
          stable := stable s; lastRun := Some te |}, te,
       {| e_obs := obs; e_at := t; e_fire := false |}).

Fixpoint run (c : cfg) (s : st) (now : Z) (script : list item) : list ev :=
  match script with
  | [] => []
  | o :: rest =>
      let '(s', now', e) := step c s now o in
      e :: run c s' now' rest
  end.

Definition reactions (tr : list ev) : list (bool * Z) :=
  flat_map (fun e => if e_fire e then [(e_obs e, e_at e)] else []) tr.

(* the scripts of the first version of this model: (observation, time spent
   inside the predicate), an otherwise idle clock *)
Definition of_pair (o : bool * Z) : item := It (fst o) 0 (snd o) 0.
Definition run_pairs (c : cfg) (s : st) (now : Z) (script : list (bool * Z)) : list ev :=
  run c s now (map of_pair script).

(* ---- correspondence entry point ---- *)
Record case := Case {
  k_n : Z; k_p : Z; k_i : Z; k_c : Z; k_t0 : Z;
  k_script : list item;
  k_obs_at : list Z;
  k_rx : list (bool * Z)
}.

Fixpoint eq_rx (a b : list (bool * Z)) : bool :=
  match a, b with
  | [], [] => true
  | (x, t) :: a', (y, u) :: b' => eqb x y && (t =? u) && eq_rx a' b'
  | _, _ => false
  end.

Fixpoint eq_zs (a b : list Z) : bool :=
  match a, b with
  | [], [] => true
  | x :: a', y :: b' => (x =? y) && eq_zs a' b'
  | _, _ => false
  end.

(* compared: the instant of EVERY observation (not only of the firing ones) and
   the reactions with their instants *)
Definition run_case (k : case) : option (list Z * list (bool * Z)) :=
  let c := {| cN := k_n k; cP := k_p k; cI := k_i k; cC := k_c k |} in
  let tr := run c init (k_t0 k) (k_script k) in
  let m := map (fun r => (fst r, snd r - k_t0 k)) (reactions tr) in
  let at_ := map (fun e => e_at e - k_t0 k) tr in
  if eq_zs at_ (k_obs_at k) && eq_rx m (k_rx k) then None else Some (at_, m).
