(* C20 — from the TEXT of the environment settings to the watcher.

   diagnosis_failsafe.go builds the watcher from four environment variables
   (NewDiagnosisFailsafeStateChangeWatcher):
     DIAGNOSIS_FAILSAFE_MIN_SEC_BETWEEN_CALLS   whole seconds
     DIAGNOSIS_FAILSAFE_CONSECUTIVE_N           a count
     DIAGNOSIS_FAILSAFE_MIN_STABLE_SEC          whole seconds
     DIAGNOSIS_FAILSAFE_COOLDOWN_SEC            whole seconds
   each read by utils/environment with strconv.Atoi: an optional sign, then one
   or more DECIMAL digits, nothing else (no spaces, no base prefix, no
   underscore), the value within int64; everything else is an error.  On an
   error of any of the four the constructor returns (nil, err) and its only
   caller (routing/handling_data_manager.go) panics: no watcher exists, the
   engine does not start ([None] below: no trace at all).

   A text is a list of byte codes.  [decode Decimal] is that reading.
   [decode AutoDetect] is the variant strconv.ParseInt(s, 0, 64): the base is
   taken from the prefix (0x / 0b / 0o, a bare leading 0 = octal), so a
   zero-padded decimal text is read as a smaller number ("010" = 8) and a
   hex-looking one is accepted ("0x10" = 16).  (Underscores, which base 0 also
   accepts, are not modelled: an error in both readings here.)

   [reads_decimal] is the SPECIFICATION of "the number the text says", written
   positionally (sum of digit * 10^position) and independently of [decode]. *)
From Coq Require Import List ZArith Bool.
From Verif Require Import C20.Model.
Import ListNotations.
Open Scope Z_scope.

Definition text := list Z.

(* value of one character as a digit (decimal digits and hex letters) *)
Definition digit_of (b : Z) : option Z :=
  if (48 <=? b) && (b <=? 57) then Some (b - 48)
  else if (97 <=? b) && (b <=? 102) then Some (b - 87)
  else if (65 <=? b) && (b <=? 70) then Some (b - 55)
  else None.

(* all characters are digits below [base]; Horner *)
Fixpoint digits_val (base acc : Z) (l : text) : option Z :=
  match l with
  | [] => Some acc
  | b :: r =>
      match digit_of b with
      | Some d => if d <? base then digits_val base (base * acc + d) r else None
      | None => None
      end
  end.

Definition nonempty_val (base : Z) (l : text) : option Z :=
  match l with [] => None | _ => digits_val base 0 l end.

Inductive reading := Decimal | AutoDetect.

(* the digits after the sign *)
Definition unsigned_val (v : reading) (l : text) : option Z :=
  match v with
  | Decimal => nonempty_val 10 l
  | AutoDetect =>
      match l with
      | z :: x :: r =>
          if z =? 48 then
            if (x =? 120) || (x =? 88) then nonempty_val 16 r
            else if (x =? 98) || (x =? 66) then nonempty_val 2 r
            else if (x =? 111) || (x =? 79) then nonempty_val 8 r
            else digits_val 8 0 (x :: r)
          else nonempty_val 10 l
      | _ => nonempty_val 10 l
      end
  end.

(* optional sign: '+' = 43, '-' = 45 *)
Definition split_sign (l : text) : bool * text :=
  match l with
  | b :: r => if b =? 43 then (false, r) else if b =? 45 then (true, r) else (false, l)
  | [] => (false, [])
  end.

Definition decode_raw (v : reading) (l : text) : option Z :=
  let '(neg, r) := split_sign l in
  match unsigned_val v r with
  | Some u => Some (if neg then - u else u)
  | None => None
  end.

Definition in_int64 (z : Z) : bool :=
  (- 9223372036854775808 <=? z) && (z <=? 9223372036854775807).

(* strconv.Atoi / ParseInt(s, 0, 64): a value out of range is an error *)
Definition decode (v : reading) (l : text) : option Z :=
  match decode_raw v l with
  | Some z => if in_int64 z then Some z else None
  | None => None
  end.

(* ---- the specification: what the text says, read as a decimal number ---- *)

(* most significant digit first *)
Fixpoint pos_val (ds : list Z) : Z :=
  match ds with
  | [] => 0
  | d :: r => d * 10 ^ Z.of_nat (length r) + pos_val r
  end.

Definition is_dec_digit (d : Z) : Prop := 0 <= d <= 9.

Inductive sign_text : text -> bool -> Prop :=
| SgNone : sign_text [] false
| SgPlus : sign_text [43] false
| SgMinus : sign_text [45] true.

(* [l] is an optional sign followed by one or more decimal digits [ds], and [z]
   is the number they denote *)
Definition reads_decimal (l : text) (z : Z) : Prop :=
  exists sg neg ds,
    sign_text sg neg /\ ds <> [] /\ Forall is_dec_digit ds /\
    l = sg ++ map (fun d => 48 + d) ds /\
    z = if neg then - pos_val ds else pos_val ds.

(* the digits of the text (after the sign) do not start with a 0 that is followed
   by something: no prefix from which the base-detecting variant could take
   another base ("0" alone is fine) *)
Definition no_leading_zero (l : text) : Prop :=
  match snd (split_sign l) with
  | z :: _ :: _ => z <> 48
  | _ => True
  end.

(* ---- the settings and the watcher built from them ---- *)

Record texts := Texts { t_i : text; t_n : text; t_p : text; t_c : text }.

Definition second : Z := 1000000000.

(* [time.Second * time.Duration(raw)] is an int64 product: it wraps around
   (two's complement) when [raw] seconds do not fit a Duration, i.e. for
   |raw| > 9 223 372 036 s (~292 years).  [seconds x] is that product;
   [secs_fit x] is the range on which it is [x * second] (SettingsProofs.v:
   seconds_fit, and exactly that range for an int64 [x]: seconds_fit_only). *)
Definition wrap64 (z : Z) : Z :=
  (z + 9223372036854775808) mod 18446744073709551616 - 9223372036854775808.
Definition seconds (x : Z) : Z := wrap64 (x * second).
Definition secs_fit (x : Z) : Prop := Z.abs x <= 9223372036.

(* the order of the getters in the constructor; any error = no watcher *)
Definition settings_of (v : reading) (ts : texts) : option cfg :=
  match decode v (t_i ts), decode Decimal (t_n ts), decode v (t_p ts), decode v (t_c ts) with
  | Some i, Some n, Some p, Some c =>
      Some {| cN := n; cP := seconds p; cI := seconds i; cC := seconds c |}
  | _, _, _, _ => None
  end.

(* the run of the watcher the engine builds from the environment; [None]: the
   constructor failed, there is no watcher (and no reaction) *)
Definition run_env (v : reading) (ts : texts) (t0 : Z) (script : list item) : option (list ev) :=
  match settings_of v ts with
  | Some c => Some (run c init t0 script)
  | None => None
  end.

(* ---- correspondence entry point of suite settings ----
   [SCase texts t0 script built obs_at reactions]: [built] = the constructor
   returned a watcher; the rest as in [Model.case]. *)
Record scase := SCase {
  sk_texts : texts; sk_t0 : Z;
  sk_script : list item;
  sk_built : bool;
  sk_obs_at : list Z;
  sk_rx : list (bool * Z)
}.

(* what the model says: was a watcher built, and if so the instants of its
   observations and its reactions *)
Definition run_scase (k : scase) : option (bool * list Z * list (bool * Z)) :=
  match run_env Decimal (sk_texts k) (sk_t0 k) (sk_script k) with
  | None =>
      match sk_built k, sk_obs_at k, sk_rx k with
      | false, [], [] => None
      | _, _, _ => Some (false, [], [])
      end
  | Some tr =>
      let m := map (fun r => (fst r, snd r - sk_t0 k)) (reactions tr) in
      let at_ := map (fun e => e_at e - sk_t0 k) tr in
      if sk_built k && eq_zs at_ (sk_obs_at k) && eq_rx m (sk_rx k) then None
      else Some (true, at_, m)
  end.
