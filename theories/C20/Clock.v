(* C20 — the meaning gotocoq/C20.json gives to the blocking waits of the injected
   clock (clock.Clock).  Hand-written and TRUSTED, like Lib/GoSem.v: definitions
   only; theories/C20/Gen.v (generated) imports this file.

   The clock field of the watcher becomes a LOG of the blocking waits the code
   started (intrinsic kind `wait` of the translator): the statements
       <-scw.clock.After(d)        append (WAfter, s, d)
       scw.clock.Sleep(d)          append (WSleep, s, d)
   where s is one more reading of the clock — a parameter `now…` of the generated
   function placed, like every reading, in source order: the instant the wait
   starts.  What a wait means: it returns at [wait_end] or later, i.e. max(d,0)
   after it was started (time.Sleep / time.After return at once for d <= 0; a
   timer never fires early), so every reading taken after it has returned is at
   least that.  Which readings are taken after which wait is the source order of
   the `now…` parameters (C20/GenEquiv.v, [clock_ok]). *)
From Coq Require Import List ZArith.
Import ListNotations.
Open Scope Z_scope.

Inductive wait_kind := WAfter | WSleep.

(* (which wait, reading of the clock when it started, duration asked for) *)
Definition clk := list (wait_kind * Z * Z).

Definition clk_after (k : clk) (d : Z) (now : Z) : clk := k ++ [(WAfter, now, d)].
Definition clk_sleep (k : clk) (d : Z) (now : Z) : clk := k ++ [(WSleep, now, d)].

(* the earliest instant a wait returns *)
Definition wait_end (w : wait_kind * Z * Z) : Z := snd (fst w) + Z.max (snd w) 0.

Definition is_sleep (w : wait_kind * Z * Z) : bool :=
  match fst (fst w) with WSleep => true | WAfter => false end.

(* the shortest time the cool-down sleeps of the log take together *)
Definition sleep_total (k : clk) : Z :=
  fold_right (fun w acc => (if is_sleep w then Z.max (snd w) 0 else 0) + acc) 0 k.
