(* C20 — the hand-written model equals what the translator reads off the source.

   theories/C20/Gen.v is regenerated from failsafe/state_change_watcher.go on every
   check run:
     Gen.NewStateChangeWatcher   the constructor (initial state of the watcher)
     Gen.run_iteration           ONE iteration of the `for { … }` loop of
                                 StateChangeWatcher.run
   The observation scw.config.ObtainPredicate() is an input, the callbacks
   OnChangeToTrue / OnChangeToFalse are returned as the list of emitted events,
   the two blocking waits (`<-clock.After(timeToWait)`, `clock.Sleep(CooldownPeriod)`)
   are recorded in the log that stands for the clock (C20/Clock.v), and each
   reading of the clock is a parameter, in source order:
     now1  clock.Since(lastRunAt) at the top of the loop (decides whether to wait)
     now2  the instant the wait for the check interval starts
     now3  changeStart = clock.Now()        (the observation differs from the last one)
     now4  clock.Since(changeStart)         (stability test)
     now5  the instant the cool-down sleep starts
     now6  lastRunAt = clock.Now()          (end of the iteration)
   (now3 and now4 are on different branches: an execution reads at most one of
   them; below both are the one reading [t] taken after the predicate returned.
   A reading an execution does not take can be given any value that keeps the
   chain ordered, e.g. that of its predecessor.)

   What is proved here, for ALL watcher states, settings (with periods no longer
   than ~2000 years, [settings_ok]), observations and readings:
     C20_gen_init            repr (NewStateChangeWatcher …) = Model.init
     C20_gen_run_iteration   under a clock that does not run backwards and respects
                             the waits the generated code recorded ([clock_ok]), the
                             generated iteration IS a step of the model for an item
                             with non-negative slacks: same next state, same end
                             instant, same event, same observation instant
     C20_gen_run             the same for whole runs (any number of iterations), by
                             induction: every execution of the generated loop under
                             such a clock is [Model.run] of an admissible script
     C20_gen_alternate, C20_gen_stable_before_fire, C20_gen_cooldown
     (= C20_gen_cooldown_silent), C20_gen_flap_never_fires
                             the four clauses of the property (statements of
                             Property.v) transported to the generated loop (the
                             callbacks it emits; the readings it is given)
   So the waits of the model ([wait_until], the [wait_from t cC] shift after
   OnChangeToFalse) are derived from the source: whether, when and how long the
   code waits is in the generated log; the only thing said by hand about a wait
   is what a blocking wait is ([Clock.wait_end]: it returns max(d,0) or later
   after it started) and that the readings are ordered as in the source. *)
From Coq Require Import List ZArith Bool Lia.
From Verif Require Import Lib.GoSem C20.Clock C20.Model C20.Proofs.
From Verif Require C20.Gen.
Import ListNotations.
Open Scope Z_scope.

(* the zero time.Time (lastRunAt / changeStart before they are first set) is the
   model's None *)
Definition repr_time (t : Z) : option Z := if t =? time_zero then None else Some t.

Definition repr_cfg (c : Gen.Config) : cfg :=
  {| cN := Gen.Config_ConsecutiveN c; cP := Gen.Config_MinStablePeriod c;
     cI := Gen.Config_MinTimeBetweenCalls c; cC := Gen.Config_CooldownPeriod c |}.

Definition repr (w : Gen.watcher) : st :=
  {| last := Gen.watcher_lastState w;
     cnt := Gen.watcher_changeCount w;
     start := repr_time (Gen.watcher_changeStart w);
     trig := Gen.watcher_changeTriggered w;
     stable := Gen.watcher_currentStableState w;
     lastRun := repr_time (Gen.watcher_lastRunAt w) |}.

Definition ev_true : gostring := [79;110;67;104;97;110;103;101;84;111;84;114;117;101].          (* "OnChangeToTrue" *)
Definition ev_false : gostring := [79;110;67;104;97;110;103;101;84;111;70;97;108;115;101].      (* "OnChangeToFalse" *)

(* the callbacks an event of the model stands for *)
Definition callbacks_of (e : ev) : list gostring :=
  if e_fire e then [if e_obs e then ev_true else ev_false] else [].

(* ---------------------------------------------------------------- initial state *)

Theorem C20_gen_init : forall name config clk logger,
  repr (Gen.NewStateChangeWatcher name config clk logger) = init /\
  Gen.watcher_config (Gen.NewStateChangeWatcher name config clk logger) = config.
Proof. intros. split; reflexivity. Qed.
Print Assumptions C20_gen_init.

(* ---------------------------------------------------------------- one iteration *)

Lemma repr_time_pos t : 0 <= t -> repr_time t = Some t.
Proof.
  intros H. unfold repr_time. destruct (t =? time_zero) eqn:E; [|reflexivity].
  apply Z.eqb_eq in E. unfold time_zero, ns_per_sec in E. lia.
Qed.

Lemma since_ge_repr t cs P :
  P <= t - time_zero ->
  since_ge t (repr_time cs) P = (P <=? clock_since cs t).
Proof.
  intros H. unfold repr_time, since_ge, clock_since.
  destruct (cs =? time_zero) eqn:E; [|reflexivity].
  apply Z.eqb_eq in E. subst cs. symmetry. apply Z.leb_le. exact H.
Qed.

Lemma if_same (T : Type) (b : bool) (x : T) : (if b then x else x) = x.
Proof. now destruct b. Qed.

(* The clock of one iteration.  [prev] = its reading when the iteration starts
   (the end of the previous one); the readings given to the generated code, in
   source order:
     now1  Since(lastRunAt) at the top of the loop
     ta    the instant `<-clock.After(timeToWait)` starts   (read only when it waits)
     t     after the predicate returned (changeStart = Now() / Since(changeStart))
     ts    the instant `clock.Sleep(CooldownPeriod)` starts  (read only when it sleeps)
     tend  lastRunAt = Now()
   [log] = the blocking waits the GENERATED iteration recorded (C20/Clock.v).
   The clock does not run backwards, and a reading taken after a wait returned is
   not before [wait_end]: the After precedes the predicate, hence [t]; the Sleep
   precedes the end of the iteration, hence [tend].  Which waits there are, when
   they start and how long they last is read off the source (the log); nothing
   about the waits is hand-written any more except this source order. *)
Definition clock_ok (log : clk) (prev now1 ta t ts tend : Z) : Prop :=
  prev <= now1 /\ now1 <= ta /\ ta <= t /\ t <= ts /\ ts <= tend /\
  Forall (fun w => wait_end w <= if is_sleep w then tend else t) log.

(* the item of the model such an iteration is *)
Definition item_of (c : cfg) (s : st) (log : clk) (obs : bool) (prev now1 t tend : Z) : item :=
  It obs (now1 - prev) (t - wait_until c s now1) (tend - (t + sleep_total log)).

(* the hypothesis on the settings: the stable period and the check interval are at
   most the distance of the epoch from the zero time (~2000 years; every int64
   Duration is): Go's saturated Since(zero time) then passes the period test and
   asks for no wait, as [since_ge _ None] and [wait_until] with [lastRun = None] do *)
Definition settings_ok (c : cfg) : Prop := cP c <= - time_zero /\ cI c <= - time_zero.

(* [wait_until] is the generated code's wait: by timeToWait when that is positive *)
Lemma wait_until_gen : forall w now1,
  let c := repr_cfg (Gen.watcher_config w) in
  let ttw := Gen.Config_MinTimeBetweenCalls (Gen.watcher_config w)
             - clock_since (Gen.watcher_lastRunAt w) now1 in
  0 <= now1 -> cI c <= - time_zero ->
  wait_until c (repr w) now1 = if 0 <? ttw then now1 + ttw else now1.
Proof.
  intros w now1 c ttw H0 HI. unfold wait_until, repr, repr_time. cbn [lastRun].
  subst ttw. unfold clock_since. change (cI c) with (Gen.Config_MinTimeBetweenCalls (Gen.watcher_config w)) in *.
  destruct (Gen.watcher_lastRunAt w =? time_zero) eqn:E.
  - apply Z.eqb_eq in E. rewrite E.
    destruct (0 <? _) eqn:Hw; [apply Z.ltb_lt in Hw; lia|reflexivity].
  - reflexivity.
Qed.

Theorem C20_gen_run_iteration : forall w obs prev now1 ta t ts tend,
  let c := repr_cfg (Gen.watcher_config w) in
  let s := repr w in
  let res := Gen.run_iteration obs (Gen.set_watcher_clock [] w) now1 ta t t ts tend in
  let w' := fst res in
  let evs := snd res in
  let log := Gen.watcher_clock w' in
  let o := item_of c s log obs prev now1 t tend in
  0 <= prev -> settings_ok c -> clock_ok log prev now1 ta t ts tend ->
  item_ok o /\ i_obs o = obs /\
  Gen.watcher_config w' = Gen.watcher_config w /\
  exists e, step c s prev o = (repr w', tend, e) /\
            evs = callbacks_of e /\ e_obs e = obs /\ e_at e = t.
Proof.
  intros w obs prev now1 ta t ts tend c s res w' evs log o Hprev [HP HI] Hck.
  assert (ER : res = (w', evs)) by (unfold w', evs; destruct res; reflexivity).
  clearbody w' evs.
  assert (H1 : 0 <= now1) by (destruct Hck as (H1 & _); lia).
  assert (Ht : 0 <= t) by (destruct Hck as (? & ? & ? & _); lia).
  assert (Htend : 0 <= tend) by (destruct Hck as (? & ? & ? & ? & ? & _); lia).
  assert (HPt : cP c <= t - time_zero) by lia.
  pose proof (wait_until_gen w now1 H1 HI) as Hwu. cbv zeta in Hwu. fold c s in Hwu.
  unfold step, o, item_of. cbn [i_obs i_pre i_d i_post].
  replace (prev + (now1 - prev)) with now1 by lia.
  replace (wait_until c s now1 + (t - wait_until c s now1)) with t by lia.
  rewrite Hwu. clear Hwu.
  subst res.
  destruct w as [ck cf lra ls cc cs ct css lg].
  unfold Gen.run_iteration in ER.
  cbn [Gen.set_watcher_clock
       Gen.watcher_config Gen.watcher_lastRunAt Gen.watcher_lastState Gen.watcher_changeCount
       Gen.watcher_changeStart Gen.watcher_changeTriggered Gen.watcher_currentStableState
       Gen.watcher_clock Gen.watcher_logger] in *.
  unfold s, repr.
  cbn [last cnt start trig stable lastRun
       Gen.watcher_config Gen.watcher_lastRunAt Gen.watcher_lastState Gen.watcher_changeCount
       Gen.watcher_changeStart Gen.watcher_changeTriggered Gen.watcher_currentStableState].
  rewrite (since_ge_repr t cs (cP c) HPt).
  change (cP c) with (Gen.Config_MinStablePeriod cf).
  change (cN c) with (Gen.Config_ConsecutiveN cf).
  change (cC c) with (Gen.Config_CooldownPeriod cf).
  set (ttw := Gen.Config_MinTimeBetweenCalls cf - clock_since lra now1) in *.
  destruct (0 <? ttw) eqn:Ew;
  (destruct (Bool.eqb obs ls) eqn:Eobs; cbn [negb] in *;
    [destruct (Gen.Config_ConsecutiveN cf <=? cc + 1) eqn:EN; cbn [andb] in *;
      [destruct (Gen.Config_MinStablePeriod cf <=? clock_since cs t) eqn:EP; cbn [andb] in *;
        [destruct ct; cbn [negb andb] in *;
          [|destruct (Bool.eqb obs css) eqn:Est; cbn [negb andb] in *; [|destruct obs]]|]|]|]).
  all: cbn [Gen.set_watcher_changeCount Gen.set_watcher_changeStart Gen.set_watcher_changeTriggered
            Gen.set_watcher_lastState Gen.set_watcher_lastRunAt Gen.set_watcher_currentStableState
            Gen.set_watcher_clock
            Gen.watcher_config Gen.watcher_lastRunAt Gen.watcher_lastState Gen.watcher_changeCount
            Gen.watcher_changeStart Gen.watcher_changeTriggered Gen.watcher_currentStableState
            Gen.watcher_clock Gen.watcher_logger] in ER;
       rewrite ?Eobs, ?EN, ?EP, ?Est in ER; cbn [negb andb Bool.eqb app] in ER;
       injection ER as <- <-;
       subst log; unfold clk_after, clk_sleep in *;
       cbn [Gen.set_watcher_changeCount Gen.set_watcher_changeStart Gen.set_watcher_changeTriggered
            Gen.set_watcher_lastState Gen.set_watcher_lastRunAt Gen.set_watcher_currentStableState
            Gen.set_watcher_clock
            Gen.watcher_config Gen.watcher_lastRunAt Gen.watcher_lastState Gen.watcher_changeCount
            Gen.watcher_changeStart Gen.watcher_changeTriggered Gen.watcher_currentStableState
            Gen.watcher_clock Gen.watcher_logger
            app sleep_total fold_right is_sleep snd fst] in *;
       destruct Hck as (Hk1 & Hk2 & Hk3 & Hk4 & Hk5 & Hk6);
       repeat match goal with H : Forall _ (_ :: _) |- _ =>
         let Hh := fresh "Hw" in
         pose proof (Forall_inv H) as Hh; apply Forall_inv_tail in H;
         unfold wait_end, is_sleep in Hh; cbn [fst snd] in Hh end;
       apply Z.ltb_lt in Ew || apply Z.ltb_ge in Ew;
       (split; [unfold item_ok; cbn [i_pre i_d i_post]; lia|]);
       (split; [reflexivity|]); (split; [reflexivity|]);
       eexists; (split; [|split; [|split]]);
       try (cbn [e_obs e_at]; reflexivity).
  all: try (unfold callbacks_of; cbn [e_fire e_obs]; reflexivity).
  all: unfold repr, wait_from;
       cbn [Gen.watcher_config Gen.watcher_lastRunAt Gen.watcher_lastState Gen.watcher_changeCount
            Gen.watcher_changeStart Gen.watcher_changeTriggered Gen.watcher_currentStableState];
       rewrite ?Z.add_0_r;
       rewrite ?Eobs, ?EN, ?EP, ?Est; cbn [negb andb Bool.eqb];
       repeat match goal with |- context [?a + (?e - ?b)] =>
         replace (a + (e - b)) with e by lia end;
       rewrite ?(repr_time_pos t Ht), ?(repr_time_pos tend Htend);
       reflexivity.
Qed.
Print Assumptions C20_gen_run_iteration.

(* ---------------------------------------------------------------- whole runs *)

(* what one iteration of the generated loop is given: the observation and the
   readings of the clock (top of the loop, start of the wait for the interval,
   after the predicate, start of the cool-down sleep, end of the iteration) *)
Record reading := Rd { r_obs : bool; r_now1 : Z; r_ta : Z; r_t : Z; r_ts : Z; r_end : Z }.

(* one iteration; the log of waits (ghost state, C20/Clock.v) is emptied first, so
   that afterwards it holds the waits of this iteration *)
Definition gen_iter (w : Gen.watcher) (r : reading) : Gen.watcher * list gostring :=
  Gen.run_iteration (r_obs r) (Gen.set_watcher_clock [] w) (r_now1 r) (r_ta r) (r_t r) (r_t r) (r_ts r) (r_end r).

(* the generated loop: the callbacks emitted by each iteration, in order *)
Fixpoint gen_run (w : Gen.watcher) (rs : list reading) : list (list gostring) :=
  match rs with
  | [] => []
  | r :: rest => snd (gen_iter w r) :: gen_run (fst (gen_iter w r)) rest
  end.

(* the clock is admissible along the whole run; [prev] = its reading when the
   loop is entered *)
Fixpoint gen_clock_ok (w : Gen.watcher) (prev : Z) (rs : list reading) : Prop :=
  match rs with
  | [] => True
  | r :: rest =>
      clock_ok (Gen.watcher_clock (fst (gen_iter w r)))
               prev (r_now1 r) (r_ta r) (r_t r) (r_ts r) (r_end r) /\
      gen_clock_ok (fst (gen_iter w r)) (r_end r) rest
  end.

(* the script of the model such a run is *)
Fixpoint script_of (w : Gen.watcher) (prev : Z) (rs : list reading) : list item :=
  match rs with
  | [] => []
  | r :: rest =>
      item_of (repr_cfg (Gen.watcher_config w)) (repr w) (Gen.watcher_clock (fst (gen_iter w r)))
              (r_obs r) prev (r_now1 r) (r_t r) (r_end r)
      :: script_of (fst (gen_iter w r)) (r_end r) rest
  end.

Lemma clock_ok_end log prev now1 ta t ts tend :
  0 <= prev -> clock_ok log prev now1 ta t ts tend -> 0 <= tend.
Proof. intros Hp (H1 & H2 & H3 & H4 & H5 & _). lia. Qed.

Theorem C20_gen_run : forall rs w prev,
  let c := repr_cfg (Gen.watcher_config w) in
  let script := script_of w prev rs in
  0 <= prev -> settings_ok c -> gen_clock_ok w prev rs ->
  Forall item_ok script /\
  map i_obs script = map r_obs rs /\
  gen_run w rs = map callbacks_of (run c (repr w) prev script) /\
  map e_at (run c (repr w) prev script) = map r_t rs.
Proof.
  induction rs as [|r rest IH]; intros w prev c script Hprev HP Hok; subst c script.
  { repeat split; constructor. }
  cbn [gen_clock_ok] in Hok. destruct Hok as [Hck Hrest].
  pose proof (C20_gen_run_iteration w (r_obs r) prev (r_now1 r) (r_ta r) (r_t r) (r_ts r) (r_end r)) as H1.
  cbv zeta in H1. fold (gen_iter w r) in H1.
  specialize (H1 Hprev HP Hck).
  destruct H1 as (Hitem & Hobs & Hcfg & e & Hstep & Hevs & Heobs & Heat).
  pose proof (clock_ok_end _ _ _ _ _ _ _ Hprev Hck) as Hend.
  specialize (IH (fst (gen_iter w r)) (r_end r)). cbv zeta in IH.
  rewrite Hcfg in IH. specialize (IH Hend HP Hrest).
  destruct IH as (IH1 & IH2 & IH3 & IH4).
  cbn [script_of].
  repeat split.
  - constructor; assumption.
  - cbn [map]. rewrite Hobs. f_equal. exact IH2.
  - cbn [gen_run]. rewrite run_cons, Hstep. cbn [map]. rewrite <- Hevs. f_equal.
    exact IH3.
  - rewrite run_cons, Hstep. cbn [map]. rewrite Heat. f_equal. exact IH4.
Qed.
Print Assumptions C20_gen_run.

(* ---------------------------------------------------------------- transported statements *)

Definition token_of (b : bool) : gostring := if b then ev_true else ev_false.

Lemma callbacks_reactions tr :
  concat (map callbacks_of tr) = map token_of (map fst (reactions tr)).
Proof.
  induction tr as [|e tr IH]; [reflexivity|].
  cbn [map concat]. unfold reactions. cbn [flat_map]. fold (reactions tr).
  unfold callbacks_of at 1. destruct (e_fire e); cbn [app map fst]; rewrite IH; reflexivity.
Qed.

(* the callbacks the generated loop emits, started from the generated constructor,
   alternate and begin with OnChangeToFalse — for every admissible clock *)
Theorem C20_gen_alternate : forall name config clk logger t0 rs,
  let w0 := Gen.NewStateChangeWatcher name config clk logger in
  0 <= t0 -> settings_ok (repr_cfg config) -> gen_clock_ok w0 t0 rs ->
  exists kinds, concat (gen_run w0 rs) = map token_of kinds /\ alternates_from true kinds.
Proof.
  intros name config clk logger t0 rs w0 Ht0 HP Hok.
  destruct (C20_gen_init name config clk logger) as [Hinit Hcfg]. fold w0 in Hinit, Hcfg.
  pose proof (C20_gen_run rs w0 t0) as H. cbv zeta in H. rewrite Hcfg, Hinit in H.
  destruct (H Ht0 HP Hok) as (_ & _ & Hrun & _).
  eexists. split.
  - rewrite Hrun. apply callbacks_reactions.
  - exact (alternation (repr_cfg config) (script_of w0 t0 rs) init t0).
Qed.
Print Assumptions C20_gen_alternate.

(* a signal without a run of max(N,2) equal consecutive answers makes the
   generated loop call no callback at all — for every admissible clock *)
Theorem C20_gen_flap_never_fires : forall name config clk logger t0 rs,
  let w0 := Gen.NewStateChangeWatcher name config clk logger in
  0 <= t0 -> settings_ok (repr_cfg config) -> gen_clock_ok w0 t0 rs ->
  ~ has_run (Z.max (Gen.Config_ConsecutiveN config) 2) (map r_obs rs) ->
  concat (gen_run w0 rs) = [].
Proof.
  intros name config clk logger t0 rs w0 Ht0 HP Hok Hno.
  destruct (C20_gen_init name config clk logger) as [Hinit Hcfg]. fold w0 in Hinit, Hcfg.
  pose proof (C20_gen_run rs w0 t0) as H. cbv zeta in H. rewrite Hcfg, Hinit in H.
  destruct (H Ht0 HP Hok) as (_ & Hobs & Hrun & _).
  rewrite Hrun, callbacks_reactions.
  destruct (reactions (run (repr_cfg config) init t0 (script_of w0 t0 rs))) eqn:E; [reflexivity|].
  exfalso. apply Hno. rewrite <- Hobs.
  apply (fire_has_run (repr_cfg config) (script_of w0 t0 rs) t0). rewrite E. discriminate.
Qed.
Print Assumptions C20_gen_flap_never_fires.

Lemma map_split_at {A B} (f : A -> B) (l : list A) : forall pre y post,
  map f l = pre ++ y :: post ->
  exists pre' x post', l = pre' ++ x :: post' /\ map f pre' = pre /\ f x = y /\ map f post' = post.
Proof.
  induction l as [|a l IH]; intros pre y post H.
  { destruct pre; discriminate. }
  destruct pre as [|p pre].
  - cbn in H. injection H as H1 H2. exists [], a, l. auto.
  - cbn in H. injection H as H1 H2. destruct (IH _ _ _ H2) as (pre' & x & post' & -> & E1 & E2 & E3).
    exists (a :: pre'), x, post'. cbn. subst. auto.
Qed.

(* after an iteration of the generated loop that called OnChangeToFalse when the
   clock read t, no later iteration reads the clock (after its predicate) before
   t + cool-down *)
Theorem C20_gen_cooldown : forall name config clk logger t0 pre r post,
  let w0 := Gen.NewStateChangeWatcher name config clk logger in
  let rs := pre ++ r :: post in
  0 <= t0 -> settings_ok (repr_cfg config) -> gen_clock_ok w0 t0 rs ->
  nth (length pre) (gen_run w0 rs) [] = [ev_false] ->
  Forall (fun r' => r_t r + Z.max (Gen.Config_CooldownPeriod config) 0 <= r_t r') post.
Proof.
  intros name config clk logger t0 pre r post w0 rs Ht0 HP Hok Hnth.
  destruct (C20_gen_init name config clk logger) as [Hinit Hcfg]. fold w0 in Hinit, Hcfg.
  pose proof (C20_gen_run rs w0 t0) as H. cbv zeta in H. rewrite Hcfg, Hinit in H.
  destruct (H Ht0 HP Hok) as (Hitems & _ & Hrun & Hat). clear H.
  set (c := repr_cfg config) in *. set (script := script_of w0 t0 rs) in *.
  unfold rs in Hat. rewrite map_app in Hat. cbn [map] in Hat.
  destruct (map_split_at _ _ _ _ _ Hat) as (pre' & e & post' & Htr & Epre & Ee & Epost).
  assert (Hlen : length pre' = length pre).
  { rewrite <- (map_length e_at pre'), Epre, map_length. reflexivity. }
  rewrite Hrun, Htr, map_app in Hnth. cbn [map] in Hnth.
  rewrite app_nth2 in Hnth by (rewrite map_length; lia).
  rewrite map_length, Hlen, Nat.sub_diag in Hnth. cbn [nth] in Hnth.
  unfold callbacks_of in Hnth.
  destruct (e_fire e) eqn:F; [|discriminate].
  destruct (e_obs e) eqn:O; [discriminate|].
  pose proof (cooldown_silent c script init t0 Hitems pre' e post' Htr F O) as Hcs.
  assert (Hm : Forall (fun x => r_t r + Z.max (cC c) 0 <= x) (map r_t post)).
  { rewrite <- Epost, <- Ee. apply Forall_map. exact Hcs. }
  rewrite Forall_forall in Hm. apply Forall_forall. intros x Hx.
  apply (Hm (r_t x)). apply in_map. exact Hx.
Qed.
Print Assumptions C20_gen_cooldown.

(* the same restated under the name of the statement of Property.v *)
Theorem C20_gen_cooldown_silent : forall name config clk logger t0 pre r post,
  let w0 := Gen.NewStateChangeWatcher name config clk logger in
  let rs := pre ++ r :: post in
  0 <= t0 -> settings_ok (repr_cfg config) -> gen_clock_ok w0 t0 rs ->
  nth (length pre) (gen_run w0 rs) [] = [ev_false] ->
  Forall (fun r' => r_t r + Z.max (Gen.Config_CooldownPeriod config) 0 <= r_t r') post.
Proof. exact C20_gen_cooldown. Qed.
Print Assumptions C20_gen_cooldown_silent.

(* events of the model <-> readings of the generated loop: the two projections
   the statement below speaks about (observation, instant after the predicate)
   at once *)
Definition ev_key (e : ev) : bool * Z := (e_obs e, e_at e).
Definition rd_key (r : reading) : bool * Z := (r_obs r, r_t r).

Lemma map_pair_eq {A B} (f : A -> bool) (g : A -> Z) (f' : B -> bool) (g' : B -> Z) :
  forall (l : list A) (l' : list B),
  map f l = map f' l' -> map g l = map g' l' ->
  map (fun x => (f x, g x)) l = map (fun y => (f' y, g' y)) l'.
Proof.
  induction l as [|a l IH]; intros [|b l'] H1 H2; try discriminate; [reflexivity|].
  cbn [map] in *. injection H1 as E1 H1. injection H2 as E2 H2.
  rewrite E1, E2, (IH l' H1 H2). reflexivity.
Qed.

Lemma keys_forall_obs b : forall (tr : list ev) (rs : list reading),
  map rd_key rs = map ev_key tr ->
  Forall (fun x => e_obs x = b) tr -> Forall (fun x => r_obs x = b) rs.
Proof.
  induction tr as [|e tr IH]; intros [|r rs] H F; try discriminate; [constructor|].
  cbn [map] in H. injection H as Ho _ H. inversion F as [|? ? Fe Ft]; subst.
  constructor; [congruence|exact (IH rs H Ft)].
Qed.

(* an iteration of the generated loop that calls a callback calls exactly the one
   of its observation, and that observation was made by at least max(N,2)
   consecutive iterations (this one included) the first of which read the clock
   (after its predicate) at least the stable period before this one did — for
   every admissible clock.  [f :: rr] = the earlier iterations of that stretch *)
Theorem C20_gen_stable_before_fire : forall name config clk logger t0 pre r post,
  let w0 := Gen.NewStateChangeWatcher name config clk logger in
  let rs := pre ++ r :: post in
  0 <= t0 -> settings_ok (repr_cfg config) -> gen_clock_ok w0 t0 rs ->
  nth (length pre) (gen_run w0 rs) [] <> [] ->
  nth (length pre) (gen_run w0 rs) [] = [token_of (r_obs r)] /\
  exists pre1 f rr,
    pre = pre1 ++ f :: rr /\
    Forall (fun x => r_obs x = r_obs r) (f :: rr) /\
    Z.max (Gen.Config_ConsecutiveN config) 2 <= Z.of_nat (length (f :: rr)) + 1 /\
    Gen.Config_MinStablePeriod config <= r_t r - r_t f.
Proof.
  intros name config clk logger t0 pre r post w0 rs Ht0 HP Hok Hnth.
  destruct (C20_gen_init name config clk logger) as [Hinit Hcfg]. fold w0 in Hinit, Hcfg.
  pose proof (C20_gen_run rs w0 t0) as H. cbv zeta in H. rewrite Hcfg, Hinit in H.
  destruct (H Ht0 HP Hok) as (_ & Hobs & Hrun & Hat). clear H.
  set (c := repr_cfg config) in *. set (script := script_of w0 t0 rs) in *.
  rewrite <- (run_obs c script init t0) in Hobs.
  pose proof (map_pair_eq e_obs e_at r_obs r_t _ _ Hobs Hat) as Hk.
  fold ev_key rd_key in Hk. (* map ev_key tr = map rd_key rs *)
  unfold rs in Hk. rewrite map_app in Hk. cbn [map] in Hk.
  destruct (map_split_at _ _ _ _ _ Hk) as (pre' & e & post' & Htr & Epre & Ee & Epost).
  assert (Hlen : length pre' = length pre).
  { rewrite <- (map_length ev_key pre'), Epre, map_length. reflexivity. }
  unfold ev_key, rd_key in Ee. injection Ee as Eo Et.
  rewrite Hrun, Htr, map_app in Hnth |- *. cbn [map] in Hnth |- *.
  rewrite app_nth2 in Hnth |- * by (rewrite map_length; lia).
  rewrite map_length, Hlen, Nat.sub_diag in Hnth |- *. cbn [nth] in Hnth |- *.
  unfold callbacks_of in Hnth |- *.
  destruct (e_fire e) eqn:F; [|congruence].
  split; [unfold token_of; rewrite Eo; reflexivity|].
  pose proof (stable_before_all c script init t0 [] Inv_init pre' e post' Htr F) as SB.
  cbn [app] in SB. destruct SB as (pre1' & rr' & f' & Hpre & Hall & HN & HPer).
  rewrite Hpre, map_app in Epre. cbn [map] in Epre. symmetry in Epre.
  destruct (map_split_at _ _ _ _ _ Epre) as (pre1 & f & rr & Hp & E1 & Ef & Err).
  exists pre1, f, rr. split; [exact Hp|].
  assert (Ek : map rd_key (f :: rr) = map ev_key (f' :: rr')).
  { cbn [map]. rewrite Ef, Err. reflexivity. }
  split; [|split].
  - rewrite <- Eo. exact (keys_forall_obs (e_obs e) _ _ Ek Hall).
  - change (Gen.Config_ConsecutiveN config) with (cN c).
    replace (length (f :: rr)) with (length (f' :: rr')); [exact HN|].
    rewrite <- (map_length ev_key (f' :: rr')), <- Ek, map_length. reflexivity.
  - change (Gen.Config_MinStablePeriod config) with (cP c).
    unfold rd_key, ev_key in Ef. injection Ef as _ Eft.
    rewrite <- Et, Eft. exact HPer.
Qed.
Print Assumptions C20_gen_stable_before_fire.

(* ---------------------------------------------------------------- non-vacuity *)

(* an admissible clock on which the generated loop, started from the generated
   constructor, calls both callbacks (the run of C20_fires_somewhere: every
   iteration but the first waits 5 for the interval, the third sleeps the
   cool-down of 7 from 110 to 117).  Its last clause is the hypothesis of
   C20_gen_cooldown and (a fortiori, <> []) of C20_gen_stable_before_fire for
   pre = the first two readings *)
Definition ex_rs : list reading :=
  [Rd false 100 100 100 100 100; Rd false 100 100 105 105 105; Rd false 105 105 110 110 117;
   Rd true 117 117 122 122 122; Rd true 122 122 127 127 127; Rd true 127 127 132 132 132].
Definition ex_w0 : Gen.watcher :=
  Gen.NewStateChangeWatcher [] (Gen.mk_Config 5 2 10 7) [] tt.

Example C20_gen_fires_somewhere :
  settings_ok (repr_cfg (Gen.mk_Config 5 2 10 7)) /\
  gen_clock_ok ex_w0 100 ex_rs /\
  concat (gen_run ex_w0 ex_rs) = [ev_false; ev_true] /\
  nth 2 (gen_run ex_w0 ex_rs) [] = [ev_false].
Proof.
  split; [unfold settings_ok, time_zero, ns_per_sec; cbn; lia|].
  split; [|split; vm_compute; reflexivity].
  unfold ex_rs. cbn [gen_clock_ok].
  repeat match goal with
  | |- _ /\ _ => split
  | |- True => exact I
  | |- clock_ok ?l _ _ _ _ _ _ =>
      let l' := eval vm_compute in l in change l with l';
      unfold clock_ok
  end.
  all: try (vm_compute; intros; discriminate).
  all: try (repeat constructor; vm_compute; intros; discriminate).
Qed.
