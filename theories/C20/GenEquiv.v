(* C20 — the hand-written model equals what the translator reads off the source.

   theories/C20/Gen.v is regenerated from failsafe/state_change_watcher.go on every
   check run: ONE iteration of the `for { … }` loop of StateChangeWatcher.run
   ([Gen.run_iteration]).  The observation scw.config.ObtainPredicate() is an
   input, the callbacks OnChangeToTrue / OnChangeToFalse are returned as the list
   of emitted events, and each reading of the clock is a parameter:
     now1  clock.Since(lastRunAt) at the top of the loop (only decides whether to wait)
     now2  changeStart = clock.Now()        (the observation differs from the last one)
     now3  clock.Since(changeStart)         (stability test)
     now4  lastRunAt = clock.Now()          (end of the iteration)
   The two blocking waits (clock.After at the top, clock.Sleep(CooldownPeriod)
   after OnChangeToFalse) are dropped by the translator: what they do to the
   clock is exactly what the model says about the readings — Model.step evaluates
   the observation at t = wait_until … + d, and the iteration ends at t, or at
   t + cooldown after a change to false.  C20_gen_run_iteration is the square:
   with the readings the model prescribes, the generated iteration yields the
   model's next state, its end instant and its event, for ALL states,
   configurations, observations and instants (after the epoch). *)
From Coq Require Import List ZArith Bool Lia.
From Verif Require Import Lib.GoSem C20.Model.
From Verif Require C20.Gen.
Import ListNotations.
Open Scope Z_scope.

(* the zero time.Time (lastRunAt / changeStart before they are first set) is the
   model's None *)
Definition repr_time (t : Z) : option Z := if t =? time_zero then None else Some t.

Definition repr_cfg (c : Gen.Config) : cfg :=
  {| cN := Gen.Config_ConsecutiveN c; cP := Gen.Config_MinStablePeriod c;
     cI := Gen.Config_MinTimeBetweenCalls c; cC := Gen.Config_CooldownPeriod c |}.

Definition repr (w : Gen.watcher) : st :=
  {| last := Gen.watcher_lastState w;
     cnt := Gen.watcher_changeCount w;
     start := repr_time (Gen.watcher_changeStart w);
     trig := Gen.watcher_changeTriggered w;
     stable := Gen.watcher_currentStableState w;
     lastRun := repr_time (Gen.watcher_lastRunAt w) |}.

Definition ev_true : gostring := [79;110;67;104;97;110;103;101;84;111;84;114;117;101].          (* "OnChangeToTrue" *)
Definition ev_false : gostring := [79;110;67;104;97;110;103;101;84;111;70;97;108;115;101].      (* "OnChangeToFalse" *)

(* the callbacks an event of the model stands for *)
Definition callbacks_of (e : ev) : list gostring :=
  if e_fire e then [if e_obs e then ev_true else ev_false] else [].

Lemma repr_time_pos t : 0 <= t -> repr_time t = Some t.
Proof.
  intros H. unfold repr_time. destruct (t =? time_zero) eqn:E; [|reflexivity].
  apply Z.eqb_eq in E. unfold time_zero, ns_per_sec in E. lia.
Qed.

Lemma since_ge_repr t cs P :
  P <= t - time_zero ->
  since_ge t (repr_time cs) P = (P <=? clock_since cs t).
Proof.
  intros H. unfold repr_time, since_ge, clock_since.
  destruct (cs =? time_zero) eqn:E; [|reflexivity].
  apply Z.eqb_eq in E. subst cs. symmetry. apply Z.leb_le. exact H.
Qed.

Lemma if_same (T : Type) (b : bool) (x : T) : (if b then x else x) = x.
Proof. now destruct b. Qed.

Theorem C20_gen_run_iteration : forall w obs now d,
  let c := repr_cfg (Gen.watcher_config w) in
  let s := repr w in
  let t := wait_until c s now + d in
  0 <= t -> 0 <= cC c -> cP c <= t - time_zero ->
  let '(s', tend, e) := step c s now (obs, d) in
  let '(w', evs) := Gen.run_iteration obs w now t t tend in
  repr w' = s'
  /\ Gen.watcher_config w' = Gen.watcher_config w
  /\ evs = callbacks_of e
  /\ e_obs e = obs /\ e_at e = t.
Proof.
  intros w obs now d c s t Ht Hc HP.
  destruct w as [cf lra ls cc cs ct css].
  unfold step. cbn [fst snd]. fold t.
  unfold Gen.run_iteration.
  cbn [Gen.watcher_config Gen.watcher_lastRunAt Gen.watcher_lastState Gen.watcher_changeCount
       Gen.watcher_changeStart Gen.watcher_changeTriggered Gen.watcher_currentStableState] in *.
  unfold s, repr.
  cbn [last cnt start trig stable lastRun
       Gen.watcher_config Gen.watcher_lastRunAt Gen.watcher_lastState Gen.watcher_changeCount
       Gen.watcher_changeStart Gen.watcher_changeTriggered Gen.watcher_currentStableState].
  rewrite (since_ge_repr t cs (cP c) HP).
  change (cP c) with (Gen.Config_MinStablePeriod cf).
  change (cN c) with (Gen.Config_ConsecutiveN cf).
  change (cC c) with (Gen.Config_CooldownPeriod cf) in *.
  (* every case: the model's tuple is explicit, the generated iteration is evaluated
     with the same tests; whether the code waits at the top does not matter *)
  destruct (Bool.eqb obs ls) eqn:Eobs; cbn [negb];
    [destruct (Gen.Config_ConsecutiveN cf <=? cc + 1) eqn:EN; cbn [andb];
      [destruct (Gen.Config_MinStablePeriod cf <=? clock_since cs t) eqn:EP; cbn [andb];
        [destruct ct; cbn [negb andb];
          [|destruct (Bool.eqb obs css) eqn:Est; cbn [negb andb]; [|destruct obs]]|]|]|].
  all: cbv beta iota; rewrite if_same;
       cbn [Gen.set_watcher_changeCount Gen.set_watcher_changeStart Gen.set_watcher_changeTriggered
            Gen.set_watcher_lastState Gen.set_watcher_lastRunAt Gen.set_watcher_currentStableState
            Gen.watcher_config Gen.watcher_lastRunAt Gen.watcher_lastState Gen.watcher_changeCount
            Gen.watcher_changeStart Gen.watcher_changeTriggered Gen.watcher_currentStableState];
       rewrite ?Eobs, ?EN, ?EP, ?Est; cbn [negb andb Bool.eqb app];
       unfold repr, callbacks_of;
       cbn [Gen.watcher_config Gen.watcher_lastRunAt Gen.watcher_lastState Gen.watcher_changeCount
            Gen.watcher_changeStart Gen.watcher_changeTriggered Gen.watcher_currentStableState
            e_fire e_obs e_at];
       rewrite ?(repr_time_pos t Ht), ?(repr_time_pos (t + Gen.Config_CooldownPeriod cf)) by lia;
       repeat split.
  all: cbn -[repr_time];
       rewrite ?(repr_time_pos t Ht), ?(repr_time_pos (t + Gen.Config_CooldownPeriod cf)) by lia;
       reflexivity.
Qed.
