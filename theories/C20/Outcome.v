(* C20 — two further inputs of a check, and the variants of the loop that would
   make the property depend on them.  Executable definitions only; the proofs
   are in OutcomeProofs.v, the statements in Property.v.

   1. The OUTCOME of a reaction.  diagnosis_failsafe.go hands the watcher two
      callbacks (RevertToDiagnosisFree / RevertToLastLoaded) that can fail: the
      persisted policies file is unreadable, HAProxy refuses the update.  The
      callbacks return nothing, so the loop of state_change_watcher.go latches
      the new stable state whatever happened ([Latch], the code).  [Rearm] is
      the variant in which a failed reaction leaves changeTriggered and
      currentStableState as they were ("try again"): the same reaction is then
      invoked again as soon as the loop runs again.

      A script item carries the fault that is in place if a reaction is invoked
      at that check ([fitem]).  What the reactions do to the policies in force
      ([effects]) is part of the observables of suite failsafe: a reaction that
      succeeds installs the diagnosis-free policies ('unhealthy') or the last
      loaded ones ('healthy again'); one that fails installs nothing.

   2. A predicate that HANGS.  The loop calls the predicate and waits for its
      answer however long that takes ([Wait], the code): a hang of any virtual
      duration is just a large [i_d].  [CarryOver lim] is the variant that gives
      up after [lim] and goes on with the previous reading; the events it
      produces are tagged [false] (no answer was received): they are iterations
      of the loop, not observations of the state.

   [Rearm] and [CarryOver] are hand models of two seeded changes (seeded/C20-7,
   seeded/C20-8), used for the two refutations of Property.v ONLY; nothing is
   proved to tie them to a source text.  Not modelled in them: the lifetime of
   the seed's `rearmRequested` flag beyond the iteration that sets it, and the
   predicate goroutine the bounded evaluation abandons (it keeps running and
   its late answer is dropped) — neither is observable in the traces compared. *)
From Coq Require Import List ZArith Bool.
From Verif Require Import C20.Model.
Import ListNotations.
Open Scope Z_scope.

(* ---------- 1. reaction outcomes ---------- *)

Inductive fault := NoFault | CorruptFile | ProxyRefuses.

Definition succeeds (f : fault) : bool :=
  match f with NoFault => true | _ => false end.

Record fitem := FIt { f_item : item; f_fault : fault }.

Inductive on_failure := Latch | Rearm.

Definition step_o (v : on_failure) (c : cfg) (s : st) (now : Z) (o : fitem)
  : st * Z * ev :=
  let '(s', te, e) := step c s now (f_item o) in
  match v with
  | Latch => (s', te, e)
  | Rearm =>
      if e_fire e && negb (succeeds (f_fault o)) then
        ({| last := last s'; cnt := cnt s'; start := start s';
            trig := trig s; stable := stable s; lastRun := lastRun s' |}, te, e)
      else (s', te, e)
  end.

Fixpoint run_o (v : on_failure) (c : cfg) (s : st) (now : Z) (script : list fitem)
  : list ev :=
  match script with
  | [] => []
  | o :: rest =>
      let '(s', now', e) := step_o v c s now o in
      e :: run_o v c s' now' rest
  end.

(* a reaction as the harness sees it: kind, instant, did it install a new
   policies version, are the diagnosis-free policies in force afterwards *)
Record rx := FRx { r_kind : bool; r_at : Z; r_effect : bool; r_diagfree : bool }.

(* [df]: the diagnosis-free policies are in force *)
Fixpoint effects (df : bool) (t0 : Z) (tr : list ev) (script : list fitem) : list rx :=
  match tr, script with
  | e :: tr', o :: script' =>
      if e_fire e then
        let ok := succeeds (f_fault o) in
        let df' := if ok then negb (e_obs e) else df in
        FRx (e_obs e) (e_at e - t0) ok df' :: effects df' t0 tr' script'
      else effects df t0 tr' script'
  | _, _ => []
  end.

(* the policies in force at the end *)
Definition in_force (df : bool) (l : list rx) : bool :=
  fold_left (fun _ r => r_diagfree r) l df.

(* ---------- 2. a predicate that hangs ---------- *)

Inductive on_timeout := Wait | CarryOver (lim : Z).

Definition step_h (v : on_timeout) (c : cfg) (s : st) (now : Z) (o : item)
  : st * Z * (ev * bool) :=
  match v with
  | Wait => let '(s', te, e) := step c s now o in (s', te, (e, true))
  | CarryOver lim =>
      if lim <? i_d o then
        let '(s', te, e) :=
          step c s now (It (last s) (i_pre o) lim (i_post o)) in (s', te, (e, false))
      else let '(s', te, e) := step c s now o in (s', te, (e, true))
  end.

Fixpoint run_h (v : on_timeout) (c : cfg) (s : st) (now : Z) (script : list item)
  : list (ev * bool) :=
  match script with
  | [] => []
  | o :: rest =>
      let '(s', now', e) := step_h v c s now o in
      e :: run_h v c s' now' rest
  end.

(* the number of consecutive ANSWERS saying [k] that end the (reversed) trace;
   iterations without an answer neither count nor interrupt *)
Fixpoint confirmations (k : bool) (rev_tr : list (ev * bool)) : Z :=
  match rev_tr with
  | [] => 0
  | (e, true) :: r => if eqb (e_obs e) k then 1 + confirmations k r else 0
  | (_, false) :: r => confirmations k r
  end.

(* ---- correspondence entry point of suite failsafe ---- *)
Record fcase := FCase {
  fk_n : Z; fk_p : Z; fk_i : Z; fk_c : Z; fk_t0 : Z;
  fk_script : list fitem;
  fk_obs_at : list Z;
  fk_rx : list rx
}.

Definition eq_rx1 (a b : rx) : bool :=
  eqb (r_kind a) (r_kind b) && (r_at a =? r_at b) &&
  eqb (r_effect a) (r_effect b) && eqb (r_diagfree a) (r_diagfree b).

Fixpoint eq_rxs (a b : list rx) : bool :=
  match a, b with
  | [], [] => true
  | x :: a', y :: b' => eq_rx1 x y && eq_rxs a' b'
  | _, _ => false
  end.

(* compared: the instant of every observation, and every reaction with its
   instant, whether it took effect and the policies in force after it (the
   last loaded policies are in force when the watcher starts) *)
Definition run_fcase (k : fcase) : option (list Z * list rx) :=
  let c := {| cN := fk_n k; cP := fk_p k; cI := fk_i k; cC := fk_c k |} in
  let tr := run_o Latch c init (fk_t0 k) (fk_script k) in
  let m := effects false (fk_t0 k) tr (fk_script k) in
  let at_ := map (fun e => e_at e - fk_t0 k) tr in
  if eq_zs at_ (fk_obs_at k) && eq_rxs m (fk_rx k) then None else Some (at_, m).
