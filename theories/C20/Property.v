(* C20 — Diagnosis fail-safe reacts only to stable health changes and never
   flaps.  Final statements only; proofs are in Proofs.v. *)
From Coq Require Import List ZArith Bool.
From Verif Require Import C20.Model C20.Proofs.
Import ListNotations.
Open Scope Z_scope.

(* Reactions fire strictly alternately, starting with 'unhealthy' (false),
   for every observation script, every timing and every setting. *)
Theorem C20_alternate : forall c t0 script,
  alternates_from true (map fst (reactions (run c init t0 script))).
Proof. intros. exact (alternation c script init t0). Qed.
Print Assumptions C20_alternate.

(* Each reaction comes only after the new state was observed by at least
   max(N,2) consecutive checks (the firing one included) whose first lies at
   least the stable period before the firing instant. *)
Theorem C20_stable_before_fire : forall c t0 script pre e post,
  run c init t0 script = pre ++ e :: post -> e_fire e = true ->
  exists pre1 r f,
    pre = pre1 ++ f :: r /\
    Forall (fun x => e_obs x = e_obs e) (f :: r) /\
    Z.max (cN c) 2 <= Z.of_nat (length (f :: r)) + 1 /\
    cP c <= e_at e - e_at f.
Proof.
  intros c t0 script pre e post H F.
  exact (stable_before_all c script init t0 [] Inv_init pre e post H F).
Qed.
Print Assumptions C20_stable_before_fire.

(* After an 'unhealthy' reaction at instant t nothing is observed (hence
   nothing fires) before t + cooldown. *)
Theorem C20_cooldown_silent : forall c t0 script pre e post,
  0 <= cC c -> Forall (fun o => 0 <= snd o) script ->
  run c init t0 script = pre ++ e :: post ->
  e_fire e = true -> e_obs e = false ->
  Forall (fun e' => e_at e + cC c <= e_at e') post.
Proof. intros. eapply cooldown_silent; eauto. Qed.
Print Assumptions C20_cooldown_silent.

(* A signal without a run of max(N,2) equal consecutive observations never
   triggers any reaction. *)
Theorem C20_flap_never_fires : forall c t0 script,
  ~ has_run (Z.max (cN c) 2) (map fst script) ->
  reactions (run c init t0 script) = [].
Proof.
  intros c t0 script H.
  destruct (reactions (run c init t0 script)) eqn:E; [reflexivity|].
  exfalso. apply H. apply (fire_has_run c script t0). rewrite E. discriminate.
Qed.
Print Assumptions C20_flap_never_fires.

(* Non-vacuity: a concrete script on which both reactions fire. *)
Example C20_fires_somewhere :
  reactions (run {| cN := 2; cP := 10; cI := 5; cC := 7 |} init 100
               [(false,0); (false,0); (false,0); (true,0); (true,0); (true,0)])
  = [(false, 110); (true, 132)].
Proof. vm_compute. reflexivity. Qed.
