(* C20 — Diagnosis fail-safe reacts only to stable health changes and never
   flaps.  Final statements only; proofs are in Proofs.v.

   Every theorem is about [run c init t0 script] for ALL settings [c] (four
   unbounded integers, no well-formedness condition: N <= 1, periods <= 0 and a
   negative cool-down included), ALL starting instants and ALL scripts: a script
   gives, per check, the observation and the three slacks of the clock (see
   Model.v).  [item_ok] (the slacks are non-negative = the clock does not run
   backwards) is a hypothesis only of the statements that speak about the order
   of instants. *)
From Coq Require Import List ZArith Bool Lia.
From Verif Require Import C20.Model C20.Proofs.
Import ListNotations.
Open Scope Z_scope.

(* Reactions fire strictly alternately, starting with 'unhealthy' (false),
   for every observation script, every timing and every setting. *)
Theorem C20_alternate : forall c t0 script,
  alternates_from true (map fst (reactions (run c init t0 script))).
Proof. intros. exact (alternation c script init t0). Qed.
Print Assumptions C20_alternate.

(* Each reaction comes only after the new state was observed by at least
   max(N,2) consecutive checks (the firing one included) whose first lies at
   least the stable period before the firing instant. *)
Theorem C20_stable_before_fire : forall c t0 script pre e post,
  run c init t0 script = pre ++ e :: post -> e_fire e = true ->
  exists pre1 r f,
    pre = pre1 ++ f :: r /\
    Forall (fun x => e_obs x = e_obs e) (f :: r) /\
    Z.max (cN c) 2 <= Z.of_nat (length (f :: r)) + 1 /\
    cP c <= e_at e - e_at f.
Proof.
  intros c t0 script pre e post H F.
  exact (stable_before_all c script init t0 [] Inv_init pre e post H F).
Qed.
Print Assumptions C20_stable_before_fire.

(* After an 'unhealthy' reaction at instant t nothing is observed (hence
   nothing fires) before t + cooldown — for every cool-down setting (a negative
   one is no cool-down: the sleep returns at once, and later checks are still
   not earlier than t). *)
Theorem C20_cooldown_silent : forall c t0 script pre e post,
  Forall item_ok script ->
  run c init t0 script = pre ++ e :: post ->
  e_fire e = true -> e_obs e = false ->
  Forall (fun e' => e_at e + Z.max (cC c) 0 <= e_at e') post.
Proof. intros. eapply cooldown_silent; eauto. Qed.
Print Assumptions C20_cooldown_silent.

(* A signal without a run of max(N,2) equal consecutive observations never
   triggers any reaction. *)
Theorem C20_flap_never_fires : forall c t0 script,
  ~ has_run (Z.max (cN c) 2) (map i_obs script) ->
  reactions (run c init t0 script) = [].
Proof.
  intros c t0 script H.
  destruct (reactions (run c init t0 script)) eqn:E; [reflexivity|].
  exfalso. apply H. apply (fire_has_run c script t0). rewrite E. discriminate.
Qed.
Print Assumptions C20_flap_never_fires.

(* The time reading of "flapping": a signal none of whose stretches of equal
   consecutive observations spans the stable period never triggers any
   reaction, however long the stretches are in number of checks. *)
Theorem C20_brief_never_fires : forall c t0 script,
  (forall pre1 f r e post,
     run c init t0 script = pre1 ++ f :: r ++ e :: post ->
     Forall (fun x => e_obs x = e_obs e) (f :: r) ->
     e_at e - e_at f < cP c) ->
  reactions (run c init t0 script) = [].
Proof. intros c t0 script H. exact (brief_never_fires c script t0 H). Qed.
Print Assumptions C20_brief_never_fires.

(* The instants of the checks never decrease, and consecutive checks are at
   least the check interval apart (measured from the previous check, hence
   also from the end of the previous iteration). *)
Theorem C20_checks_spaced : forall c t0 script,
  Forall item_ok script ->
  nondecreasing (map e_at (run c init t0 script)) /\
  forall pre e e' post,
    run c init t0 script = pre ++ e :: e' :: post -> e_at e + cI c <= e_at e'.
Proof.
  intros c t0 script H. split.
  - exact (run_monotone c script init t0 H).
  - intros pre e e' post Hr. exact (interval_respected c script init t0 H pre e e' post Hr).
Qed.
Print Assumptions C20_checks_spaced.

(* ---- the statements of the first version of the model (scripts of
   (observation, time inside the predicate), otherwise idle clock) are
   instances ---- *)

Theorem C20_alternate_pairs : forall c t0 script,
  alternates_from true (map fst (reactions (run_pairs c init t0 script))).
Proof. intros. apply C20_alternate. Qed.
Print Assumptions C20_alternate_pairs.

Theorem C20_stable_before_fire_pairs : forall c t0 script pre e post,
  run_pairs c init t0 script = pre ++ e :: post -> e_fire e = true ->
  exists pre1 r f,
    pre = pre1 ++ f :: r /\
    Forall (fun x => e_obs x = e_obs e) (f :: r) /\
    Z.max (cN c) 2 <= Z.of_nat (length (f :: r)) + 1 /\
    cP c <= e_at e - e_at f.
Proof. intros c t0 script. apply C20_stable_before_fire. Qed.
Print Assumptions C20_stable_before_fire_pairs.

(* (the first version needed 0 <= cC c: its clock ran backwards otherwise) *)
Theorem C20_cooldown_silent_pairs : forall c t0 script pre e post,
  Forall (fun o => 0 <= snd o) script ->
  run_pairs c init t0 script = pre ++ e :: post ->
  e_fire e = true -> e_obs e = false ->
  Forall (fun e' => e_at e + cC c <= e_at e') post.
Proof.
  intros c t0 script pre e post Hd Hr F Ho.
  eapply Forall_impl;
    [|exact (C20_cooldown_silent c t0 _ pre e post (of_pair_ok script Hd) Hr F Ho)].
  cbn beta. intros a Ha. lia.
Qed.
Print Assumptions C20_cooldown_silent_pairs.

Theorem C20_flap_never_fires_pairs : forall c t0 script,
  ~ has_run (Z.max (cN c) 2) (map fst script) ->
  reactions (run_pairs c init t0 script) = [].
Proof.
  intros c t0 script H. apply C20_flap_never_fires. rewrite of_pair_obs. exact H.
Qed.
Print Assumptions C20_flap_never_fires_pairs.

(* ---- non-vacuity ---- *)

(* a concrete script on which both reactions fire *)
Example C20_fires_somewhere :
  reactions (run_pairs {| cN := 2; cP := 10; cI := 5; cC := 7 |} init 100
               [(false,0); (false,0); (false,0); (true,0); (true,0); (true,0)])
  = [(false, 110); (true, 132)].
Proof. vm_compute. reflexivity. Qed.

(* the same with a slow clock (scheduling slack 1, predicate 2, callback 3 on
   every check): the hypotheses of the timed theorems are satisfiable and both
   reactions still fire *)
Definition slow_script : list item :=
  [It false 1 2 3; It false 1 2 3; It false 1 2 3; It true 1 2 3; It true 1 2 3; It true 1 2 3].
Example C20_fires_somewhere_slow :
  Forall item_ok slow_script /\
  reactions (run {| cN := 2; cP := 10; cI := 5; cC := 7 |} init 100 slow_script)
  = [(false, 113); (true, 150)].
Proof.
  split; [|vm_compute; reflexivity].
  repeat constructor; cbn; lia.
Qed.

(* a negative cool-down is no cool-down: the clock does not run backwards *)
Example C20_negative_cooldown :
  map e_at (run_pairs {| cN := 2; cP := 0; cI := 1; cC := -50 |} init 100
              [(false,0); (false,0); (false,0)])
  = [100; 101; 102].
Proof. vm_compute. reflexivity. Qed.

(* the hypothesis of C20_brief_never_fires is satisfiable by a script with long
   runs: 5 equal observations 1 apart never span a stable period of 10 *)
Example C20_brief_example :
  reactions (run_pairs {| cN := 2; cP := 10; cI := 1; cC := 0 |} init 0
               [(false,0); (false,0); (false,0); (false,0); (false,0); (true,0)]) = [].
Proof. vm_compute. reflexivity. Qed.
