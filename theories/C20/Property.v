(* C20 — Diagnosis fail-safe reacts only to stable health changes and never
   flaps.  Final statements only; proofs are in Proofs.v.

   Every theorem is about [run c init t0 script] for ALL settings [c] (four
   unbounded integers, no well-formedness condition: N <= 1, periods <= 0 and a
   negative cool-down included), ALL starting instants and ALL scripts: a script
   gives, per check, the observation and the three slacks of the clock (see
   Model.v).  [item_ok] (the slacks are non-negative = the clock does not run
   backwards) is a hypothesis only of the statements that speak about the order
   of instants. *)
From Coq Require Import List ZArith Bool Lia.
From Verif Require Import C20.Model C20.Proofs C20.Outcome C20.OutcomeProofs.
From Verif Require Import C20.Settings C20.SettingsProofs.
Import ListNotations.
Open Scope Z_scope.

(* Reactions fire strictly alternately, starting with 'unhealthy' (false),
   for every observation script, every timing and every setting. *)
Theorem C20_alternate : forall c t0 script,
  alternates_from true (map fst (reactions (run c init t0 script))).
Proof. intros. exact (alternation c script init t0). Qed.
Print Assumptions C20_alternate.

(* Each reaction comes only after the new state was observed by at least
   max(N,2) consecutive checks (the firing one included) whose first lies at
   least the stable period before the firing instant. *)
Theorem C20_stable_before_fire : forall c t0 script pre e post,
  run c init t0 script = pre ++ e :: post -> e_fire e = true ->
  exists pre1 r f,
    pre = pre1 ++ f :: r /\
    Forall (fun x => e_obs x = e_obs e) (f :: r) /\
    Z.max (cN c) 2 <= Z.of_nat (length (f :: r)) + 1 /\
    cP c <= e_at e - e_at f.
Proof.
  intros c t0 script pre e post H F.
  exact (stable_before_all c script init t0 [] Inv_init pre e post H F).
Qed.
Print Assumptions C20_stable_before_fire.

(* After an 'unhealthy' reaction at instant t nothing is observed (hence
   nothing fires) before t + cooldown — for every cool-down setting (a negative
   one is no cool-down: the sleep returns at once, and later checks are still
   not earlier than t). *)
Theorem C20_cooldown_silent : forall c t0 script pre e post,
  Forall item_ok script ->
  run c init t0 script = pre ++ e :: post ->
  e_fire e = true -> e_obs e = false ->
  Forall (fun e' => e_at e + Z.max (cC c) 0 <= e_at e') post.
Proof. intros. eapply cooldown_silent; eauto. Qed.
Print Assumptions C20_cooldown_silent.

(* A signal without a run of max(N,2) equal consecutive observations never
   triggers any reaction. *)
Theorem C20_flap_never_fires : forall c t0 script,
  ~ has_run (Z.max (cN c) 2) (map i_obs script) ->
  reactions (run c init t0 script) = [].
Proof.
  intros c t0 script H.
  destruct (reactions (run c init t0 script)) eqn:E; [reflexivity|].
  exfalso. apply H. apply (fire_has_run c script t0). rewrite E. discriminate.
Qed.
Print Assumptions C20_flap_never_fires.

(* The time reading of "flapping": a signal none of whose stretches of equal
   consecutive observations spans the stable period never triggers any
   reaction, however long the stretches are in number of checks. *)
Theorem C20_brief_never_fires : forall c t0 script,
  (forall pre1 f r e post,
     run c init t0 script = pre1 ++ f :: r ++ e :: post ->
     Forall (fun x => e_obs x = e_obs e) (f :: r) ->
     e_at e - e_at f < cP c) ->
  reactions (run c init t0 script) = [].
Proof. intros c t0 script H. exact (brief_never_fires c script t0 H). Qed.
Print Assumptions C20_brief_never_fires.

(* The instants of the checks never decrease, and consecutive checks are at
   least the check interval apart (measured from the previous check, hence
   also from the end of the previous iteration). *)
Theorem C20_checks_spaced : forall c t0 script,
  Forall item_ok script ->
  nondecreasing (map e_at (run c init t0 script)) /\
  forall pre e e' post,
    run c init t0 script = pre ++ e :: e' :: post -> e_at e + cI c <= e_at e'.
Proof.
  intros c t0 script H. split.
  - exact (run_monotone c script init t0 H).
  - intros pre e e' post Hr. exact (interval_respected c script init t0 H pre e e' post Hr).
Qed.
Print Assumptions C20_checks_spaced.

(* ---- the statements of the first version of the model (scripts of
   (observation, time inside the predicate), otherwise idle clock) are
   instances ---- *)

Theorem C20_alternate_pairs : forall c t0 script,
  alternates_from true (map fst (reactions (run_pairs c init t0 script))).
Proof. intros. apply C20_alternate. Qed.
Print Assumptions C20_alternate_pairs.

Theorem C20_stable_before_fire_pairs : forall c t0 script pre e post,
  run_pairs c init t0 script = pre ++ e :: post -> e_fire e = true ->
  exists pre1 r f,
    pre = pre1 ++ f :: r /\
    Forall (fun x => e_obs x = e_obs e) (f :: r) /\
    Z.max (cN c) 2 <= Z.of_nat (length (f :: r)) + 1 /\
    cP c <= e_at e - e_at f.
Proof. intros c t0 script. apply C20_stable_before_fire. Qed.
Print Assumptions C20_stable_before_fire_pairs.

(* (the first version needed 0 <= cC c: its clock ran backwards otherwise) *)
Theorem C20_cooldown_silent_pairs : forall c t0 script pre e post,
  Forall (fun o => 0 <= snd o) script ->
  run_pairs c init t0 script = pre ++ e :: post ->
  e_fire e = true -> e_obs e = false ->
  Forall (fun e' => e_at e + cC c <= e_at e') post.
Proof.
  intros c t0 script pre e post Hd Hr F Ho.
  eapply Forall_impl;
    [|exact (C20_cooldown_silent c t0 _ pre e post (of_pair_ok script Hd) Hr F Ho)].
  cbn beta. intros a Ha. lia.
Qed.
Print Assumptions C20_cooldown_silent_pairs.

Theorem C20_flap_never_fires_pairs : forall c t0 script,
  ~ has_run (Z.max (cN c) 2) (map fst script) ->
  reactions (run_pairs c init t0 script) = [].
Proof.
  intros c t0 script H. apply C20_flap_never_fires. rewrite of_pair_obs. exact H.
Qed.
Print Assumptions C20_flap_never_fires_pairs.

(* ---- the outcome of a reaction is an input of the check (Outcome.v): the
   reactions of diagnosis_failsafe.go can fail (persisted policies unreadable,
   HAProxy refusing).  The statements above hold for the reactions as INVOKED,
   whatever their outcomes ---- *)

(* the loop does not look at the outcome: two scripts that differ only in the
   faults give the same trace *)
Theorem C20_outcome_irrelevant : forall c t0 script script',
  map f_item script = map f_item script' ->
  run_o Latch c init t0 script = run_o Latch c init t0 script'.
Proof. intros c t0 script script' H. rewrite !run_o_latch, H. reflexivity. Qed.
Print Assumptions C20_outcome_irrelevant.

Theorem C20_alternate_any_outcome : forall c t0 script,
  alternates_from true (map fst (reactions (run_o Latch c init t0 script))).
Proof. intros. rewrite run_o_latch. apply C20_alternate. Qed.
Print Assumptions C20_alternate_any_outcome.

Theorem C20_stable_before_fire_any_outcome : forall c t0 script pre e post,
  run_o Latch c init t0 script = pre ++ e :: post -> e_fire e = true ->
  exists pre1 r f,
    pre = pre1 ++ f :: r /\
    Forall (fun x => e_obs x = e_obs e) (f :: r) /\
    Z.max (cN c) 2 <= Z.of_nat (length (f :: r)) + 1 /\
    cP c <= e_at e - e_at f.
Proof. intros c t0 script. rewrite run_o_latch. apply C20_stable_before_fire. Qed.
Print Assumptions C20_stable_before_fire_any_outcome.

Theorem C20_cooldown_silent_any_outcome : forall c t0 script pre e post,
  Forall (fun o => item_ok (f_item o)) script ->
  run_o Latch c init t0 script = pre ++ e :: post ->
  e_fire e = true -> e_obs e = false ->
  Forall (fun e' => e_at e + Z.max (cC c) 0 <= e_at e') post.
Proof.
  intros c t0 script pre e post Hok. rewrite run_o_latch.
  apply C20_cooldown_silent. apply Forall_map. exact Hok.
Qed.
Print Assumptions C20_cooldown_silent_any_outcome.

(* what suite failsafe observes are the reactions of the trace, the failed ones
   included, each at its instant ... *)
Theorem C20_invoked_reactions_observed : forall c t0 script df,
  map (fun r => (r_kind r, r_at r + t0))
      (effects df t0 (run_o Latch c init t0 script) script)
  = reactions (run_o Latch c init t0 script).
Proof. intros. apply effects_reactions. apply run_o_length. Qed.
Print Assumptions C20_invoked_reactions_observed.

(* ... and a failed reaction leaves the policies in force as they were, a
   successful one installs the diagnosis-free policies ('unhealthy') or the
   last loaded ones ('healthy again') *)
Theorem C20_failed_reaction_changes_nothing : forall c t0 script df pre r post,
  effects df t0 (run_o Latch c init t0 script) script = pre ++ r :: post ->
  r_diagfree r = if r_effect r then negb (r_kind r) else in_force df pre.
Proof. intros c t0 script df pre r post H. exact (effects_in_force t0 _ _ df pre r post H). Qed.
Print Assumptions C20_failed_reaction_changes_nothing.

(* the variant that re-arms the watcher when a reaction failed does not
   alternate: the same reaction is invoked again and again *)
Definition C20_alternate_rearm_full : Prop := forall c t0 script,
  alternates_from true (map fst (reactions (run_o Rearm c init t0 script))).
Theorem C20_alternate_rearm_full_refuted : ~ C20_alternate_rearm_full.
Proof.
  intros H. specialize (H rearm_cfg 0 rearm_script). rewrite rearm_witness in H.
  cbn in H. destruct H as (_ & H & _). discriminate H.
Qed.
Print Assumptions C20_alternate_rearm_full_refuted.

(* with reactions that succeed the variant is the code: the difference needs a fault *)
Theorem C20_rearm_needs_a_failure : forall c t0 script,
  Forall (fun o => f_fault o = NoFault) script ->
  run_o Rearm c init t0 script = run_o Latch c init t0 script.
Proof. intros c t0 script F. exact (rearm_latch_without_fault c script init t0 F). Qed.
Print Assumptions C20_rearm_needs_a_failure.

(* ---- a predicate that hangs (Outcome.v): the loop waits for the answer,
   however long it takes, so every iteration is an observation; a reaction is
   backed by max(N,2) consecutive ANSWERS of the new state ---- *)

Theorem C20_wait_is_run : forall c t0 script,
  run_h Wait c init t0 script = map (fun e => (e, true)) (run c init t0 script).
Proof. intros. apply run_h_wait. Qed.
Print Assumptions C20_wait_is_run.

Theorem C20_fires_confirmed_by_answers : forall c t0 script,
  fires_confirmed c (run_h Wait c init t0 script).
Proof. intros. apply wait_fires_confirmed. Qed.
Print Assumptions C20_fires_confirmed_by_answers.

(* the variant that bounds the evaluation and goes on with the previous reading
   turns ONE answer followed by checks that hang into a reaction *)
Definition C20_fires_confirmed_carry_over_full : Prop := forall lim c t0 script,
  fires_confirmed c (run_h (CarryOver lim) c init t0 script).
Theorem C20_fires_confirmed_carry_over_full_refuted : ~ C20_fires_confirmed_carry_over_full.
Proof. intros H. exact (carry_not_confirmed (H 5 carry_cfg 0 carry_script)). Qed.
Print Assumptions C20_fires_confirmed_carry_over_full_refuted.

(* as long as every answer comes within the bound the variant is the code *)
Theorem C20_carry_over_needs_a_hang : forall lim c t0 script,
  Forall (fun o => i_d o <= lim) script ->
  run_h (CarryOver lim) c init t0 script = run_h Wait c init t0 script.
Proof. intros lim c t0 script F. exact (carry_over_wait_without_hang lim c script init t0 F). Qed.
Print Assumptions C20_carry_over_needs_a_hang.

(* ---- from the TEXT of the environment settings to the watcher (Settings.v):
   the engine builds the watcher from four DIAGNOSIS_FAILSAFE_* texts, read as
   strconv.Atoi reads them ([decode Decimal]).  [reads_decimal l z]: the text
   [l] is an optional sign and decimal digits that say [z] (positional reading,
   defined independently of the decoder).  The configured periods are what the
   texts SAY; the watcher obeys them ---- *)

(* the decoder returns the number the text says, a text says one number at
   most, and within int64 the decoder does not fail *)
Theorem C20_env_decode_is_decimal : forall l z,
  reads_decimal l z ->
  (forall z', decode Decimal l = Some z' -> z' = z) /\
    (forall z', reads_decimal l z' -> z' = z) /\
    (in_int64 z = true -> decode Decimal l = Some z).
Proof.
  intros l z R. split; [|split].
  - intros z' D. exact (reads_decimal_decode l z z' R D).
  - intros z' R'. exact (reads_decimal_fun l z' z R' R).
  - exact (reads_decimal_decodes l z R).
Qed.
Print Assumptions C20_env_decode_is_decimal.

(* the converse, so that [decode Decimal] (the model of strconv.Atoi that suite
   settings compares with the real getters) is characterised completely by the
   positional specification: it returns [z] EXACTLY for the texts that say [z]
   (optional sign, one or more decimal digits, nothing else) with [z] an int64 *)
Theorem C20_env_decode_characterised : forall l z,
  decode Decimal l = Some z <-> reads_decimal l z /\ in_int64 z = true.
Proof. exact decode_decimal_iff. Qed.
Print Assumptions C20_env_decode_characterised.

(* a text that says no int64 number — it is not an optionally signed non-empty
   string of decimal digits, or the number it says is out of range — is
   rejected ... *)
Theorem C20_env_decode_rejects_non_numbers : forall l,
  (forall z, reads_decimal l z -> in_int64 z = false) -> decode Decimal l = None.
Proof. exact decode_decimal_rejects. Qed.
Print Assumptions C20_env_decode_rejects_non_numbers.

(* ... and when one of the four settings is such a text the engine gets no
   watcher: there is no run and no reaction at all *)
Theorem C20_env_no_number_no_watcher : forall ts t0 script l,
  In l [t_i ts; t_n ts; t_p ts; t_c ts] ->
  (forall z, reads_decimal l z -> in_int64 z = false) ->
  run_env Decimal ts t0 script = None.
Proof.
  intros ts t0 script l HIn H. unfold run_env.
  rewrite (settings_of_rejects ts l HIn (decode_decimal_rejects l H)). reflexivity.
Qed.
Print Assumptions C20_env_no_number_no_watcher.

(* the hypothesis is satisfiable both ways: " 10", "0x10" and "" say no number
   at all; "9223372036854775808" says 2^63, which is not an int64; and it fails
   for a text that says an int64 ("010" says 10, C20_env_fires_somewhere) *)
Example C20_env_rejected_texts :
  (forall z, ~ reads_decimal [32; 49; 48] z) /\
  (forall z, ~ reads_decimal [48; 120; 49; 48] z) /\
  (forall z, ~ reads_decimal [] z) /\
  (forall z, reads_decimal txt_2p63 z -> in_int64 z = false) /\
  reads_decimal txt_2p63 9223372036854775808 /\
  decode Decimal txt_2p63 = None /\
  run_env Decimal (Texts [49] [50] txt_2p63 [48]) 0 [It false 0 0 0] = None.
Proof.
  split; [exact blank_says_nothing|]. split; [exact hex_says_nothing|].
  split; [exact empty_says_nothing|].
  split; [|split; [exact txt_2p63_says|split; vm_compute; reflexivity]].
  intros z R. rewrite (reads_decimal_fun _ _ _ R txt_2p63_says). reflexivity.
Qed.

(* if the engine gets a watcher at all, it is the watcher model run with the
   numbers the four texts say (seconds for the three durations).
   [secs_fit x] = [Z.abs x <= 9223372036]: the seconds fit a time.Duration.  Go
   computes time.Second * time.Duration(raw) in int64, which wraps beyond that
   (~292 years); Settings.settings_of wraps likewise ([seconds]), so the
   hypothesis is needed — C20_env_seconds_fit_exactly, C20_env_overflow_example *)
Theorem C20_env_runs_configured : forall ts t0 script tr,
  run_env Decimal ts t0 script = Some tr ->
  exists c, tr = run c init t0 script /\
    (forall x, reads_decimal (t_i ts) x -> secs_fit x -> cI c = x * second) /\
    (forall x, reads_decimal (t_n ts) x -> cN c = x) /\
    (forall x, reads_decimal (t_p ts) x -> secs_fit x -> cP c = x * second) /\
    (forall x, reads_decimal (t_c ts) x -> secs_fit x -> cC c = x * second).
Proof.
  intros ts t0 script tr H.
  destruct (run_env_some _ _ _ _ _ H) as (c & Hc & ->).
  exists c. split; [reflexivity|]. exact (settings_of_decimal ts c Hc).
Qed.
Print Assumptions C20_env_runs_configured.

(* the Duration built from [x] seconds is [x * second] exactly when the seconds
   fit ([x] any number strconv.Atoi returns) *)
Theorem C20_env_seconds_fit_exactly : forall x,
  in_int64 x = true -> (seconds x = x * second <-> secs_fit x).
Proof.
  intros x I. split; [exact (seconds_fit_only x I)|exact (seconds_fit x)].
Qed.
Print Assumptions C20_env_seconds_fit_exactly.

Theorem C20_env_alternate : forall v ts t0 script tr,
  run_env v ts t0 script = Some tr ->
  alternates_from true (map fst (reactions tr)).
Proof.
  intros v ts t0 script tr H.
  destruct (run_env_some _ _ _ _ _ H) as (c & _ & ->). apply C20_alternate.
Qed.
Print Assumptions C20_env_alternate.

(* a reaction comes only after the new state was observed by >= max(N,2)
   consecutive checks, N the count the text says, spanning at least the stable
   period the text says: [p] seconds *)
Definition env_stable_before_fire (v : reading) : Prop :=
  forall ts t0 script tr n p pre e post,
  run_env v ts t0 script = Some tr ->
  reads_decimal (t_n ts) n -> reads_decimal (t_p ts) p -> secs_fit p ->
  tr = pre ++ e :: post -> e_fire e = true ->
  exists pre1 r f,
    pre = pre1 ++ f :: r /\
    Forall (fun x => e_obs x = e_obs e) (f :: r) /\
    Z.max n 2 <= Z.of_nat (length (f :: r)) + 1 /\
    p * second <= e_at e - e_at f.

Theorem C20_env_stable_before_fire : env_stable_before_fire Decimal.
Proof.
  intros ts t0 script tr n p pre e post H Rn Rp Fp Htr F.
  destruct (C20_env_runs_configured _ _ _ _ H) as (c & Hrun & _ & Hn & Hp & _).
  rewrite <- (Hn n Rn), <- (Hp p Rp Fp).
  apply (C20_stable_before_fire c t0 script pre e post); [congruence|exact F].
Qed.
Print Assumptions C20_env_stable_before_fire.

(* after an 'unhealthy' reaction at t nothing is observed before t + the
   cool-down the text says: [cd] seconds *)
Definition env_cooldown_silent (v : reading) : Prop :=
  forall ts t0 script tr cd pre e post,
  Forall item_ok script ->
  run_env v ts t0 script = Some tr ->
  reads_decimal (t_c ts) cd -> secs_fit cd ->
  tr = pre ++ e :: post -> e_fire e = true -> e_obs e = false ->
  Forall (fun e' => e_at e + Z.max (cd * second) 0 <= e_at e') post.

Theorem C20_env_cooldown_silent : env_cooldown_silent Decimal.
Proof.
  intros ts t0 script tr cd pre e post Hok H Rc Fc Htr F Ho.
  destruct (C20_env_runs_configured _ _ _ _ H) as (c & Hrun & _ & _ & _ & Hc).
  rewrite <- (Hc cd Rc Fc).
  apply (C20_cooldown_silent c t0 script pre e post Hok); [congruence|exact F|exact Ho].
Qed.
Print Assumptions C20_env_cooldown_silent.

(* the variant that lets the prefix of the text choose the base
   (strconv.ParseInt(s, 0, 64)): "010" seconds is read as 8.  Stable period
   "010", checks every 4 s: 'unhealthy' fires at 8 s, no earlier check is 10 s old *)
Definition C20_env_stable_before_fire_autodetect_full : Prop := env_stable_before_fire AutoDetect.
Theorem C20_env_stable_before_fire_autodetect_full_refuted :
  ~ C20_env_stable_before_fire_autodetect_full.
Proof.
  intros H.
  destruct (H oct_stable_ts 0 oct_stable_script _ 2 10 [oct_e0; oct_e1] oct_e2 []
              oct_stable_run
              ltac:(exists [], false, [2]; repeat split;
                    [constructor|discriminate|repeat constructor; unfold is_dec_digit; lia])
              txt_010_says_10 ten_fits eq_refl eq_refl)
    as (pre1 & r & f & Hpre & _ & _ & Hp).
  assert (Hin : In f [oct_e0; oct_e1]) by (rewrite Hpre; apply in_elt).
  destruct Hin as [<-|[<-|[]]]; vm_compute in Hp; apply Hp; reflexivity.
Qed.
Print Assumptions C20_env_stable_before_fire_autodetect_full_refuted.

(* cool-down "010": 'unhealthy' at 1 s, the next check at 10 s < 1 s + 10 s *)
Definition C20_env_cooldown_silent_autodetect_full : Prop := env_cooldown_silent AutoDetect.
Theorem C20_env_cooldown_silent_autodetect_full_refuted :
  ~ C20_env_cooldown_silent_autodetect_full.
Proof.
  intros H.
  pose proof (H oct_cool_ts 0 oct_cool_script _ 10 [oct_c0] oct_c1 [oct_c2]
                oct_cool_script_ok oct_cool_run txt_010_says_10 ten_fits eq_refl eq_refl eq_refl) as F.
  inversion F as [|? ? Hle _]; subst. vm_compute in Hle. apply Hle; reflexivity.
Qed.
Print Assumptions C20_env_cooldown_silent_autodetect_full_refuted.

(* the difference needs a setting written with a leading zero: on every other
   text the variant is the code (why plain settings never show it) *)
Theorem C20_env_autodetect_needs_a_leading_zero : forall ts t0 script,
  no_leading_zero (t_i ts) -> no_leading_zero (t_p ts) -> no_leading_zero (t_c ts) ->
  run_env AutoDetect ts t0 script = run_env Decimal ts t0 script.
Proof.
  intros ts t0 script Hi Hp Hc. unfold run_env.
  rewrite (autodetect_settings ts Hi Hp Hc). reflexivity.
Qed.
Print Assumptions C20_env_autodetect_needs_a_leading_zero.

(* ---- non-vacuity of the statements about setting texts ---- *)

(* the shapes of a setting text: plain, zero-padded, signed are numbers; blanks,
   a base prefix, an underscore, nothing, letters, out of range are errors (no
   watcher); the base-detecting variant reads other numbers / accepts more *)
Example C20_env_decode_shapes :
  map (decode Decimal)
      [[49;48]; [48;49;48]; [48;51;48;48]; [48;48;55]; [48;56]; [43;49;48]; [45;51]; [45;48];
       [32;49;48]; [49;48;32]; [48;120;49;48]; [49;95;48]; []; [97;98;99]; [45]; [49;48;115];
       [57;57;57;57;57;57;57;57;57;57;57;57;57;57;57;57;57;57;57;57]]
  = [Some 10; Some 10; Some 300; Some 7; Some 8; Some 10; Some (-3); Some 0;
     None; None; None; None; None; None; None; None; None] /\
  map (decode AutoDetect) [[49;48]; [48;49;48]; [48;51;48;48]; [48;48;55]; [48;56]; [48;120;49;48]; [48]]
  = [Some 10; Some 8; Some 192; Some 7; None; Some 16; Some 0].
Proof. vm_compute. split; reflexivity. Qed.

(* the hypotheses of the two statements are satisfiable: settings "1", "2",
   "010", "0300" (interval, N, stable period, cool-down): the outage is reported
   when it is 10 s old, the recovery only after the 300 s of the cool-down *)
Example C20_env_fires_somewhere :
  let ts := Texts [49] [50] [48;49;48] [48;51;48;48] in
  let script := repeat (It false 0 0 0) 11 ++ repeat (It true 0 0 0) 12 in
  reads_decimal (t_p ts) 10 /\ secs_fit 10 /\ Forall item_ok script /\
  option_map reactions (run_env Decimal ts 0 script)
  = Some [(false, 10 * second); (true, 321 * second)] /\
  option_map reactions (run_env AutoDetect ts 0 script)
  = Some [(false, 8 * second); (true, 211 * second)] /\
  run_env Decimal (Texts [49] [50] [32;49;48] [48]) 0 script = None.
Proof.
  split; [exact txt_010_says_10|]. split; [exact ten_fits|].
  split; [|vm_compute; repeat split; reflexivity].
  repeat constructor; cbn; lia.
Qed.

(* [secs_fit] is needed: a stable period of "9223372037" s (one second more
   than fits a Duration) wraps to a negative Duration in Go and here, and the
   outage is reported at the second check, 1 s old; "9223372036" still fits
   (nothing fires within the script) *)
Example C20_env_overflow_example :
  let script := repeat (It false 0 0 0) 3 in
  let big := [57;50;50;51;51;55;50;48;51;55] in
  let most := [57;50;50;51;51;55;50;48;51;54] in
  decode Decimal big = Some 9223372037 /\ ~ secs_fit 9223372037 /\
  option_map (fun c => cP c) (settings_of Decimal (Texts [49] [50] big [48]))
  = Some (-9223372036709551616) /\
  option_map reactions (run_env Decimal (Texts [49] [50] big [48]) 0 script)
  = Some [(false, 1 * second)] /\
  secs_fit 9223372036 /\
  option_map reactions (run_env Decimal (Texts [49] [50] most [48]) 0 script) = Some [].
Proof.
  cbv zeta. split; [vm_compute; reflexivity|].
  split; [unfold secs_fit; cbn; lia|].
  split; [vm_compute; reflexivity|].
  split; [vm_compute; reflexivity|].
  split; [unfold secs_fit; cbn; lia|vm_compute; reflexivity].
Qed.

(* ---- non-vacuity ---- *)

(* a concrete script on which both reactions fire *)
Example C20_fires_somewhere :
  reactions (run_pairs {| cN := 2; cP := 10; cI := 5; cC := 7 |} init 100
               [(false,0); (false,0); (false,0); (true,0); (true,0); (true,0)])
  = [(false, 110); (true, 132)].
Proof. vm_compute. reflexivity. Qed.

(* the same with a slow clock (scheduling slack 1, predicate 2, callback 3 on
   every check): the hypotheses of the timed theorems are satisfiable and both
   reactions still fire *)
Definition slow_script : list item :=
  [It false 1 2 3; It false 1 2 3; It false 1 2 3; It true 1 2 3; It true 1 2 3; It true 1 2 3].
Example C20_fires_somewhere_slow :
  Forall item_ok slow_script /\
  reactions (run {| cN := 2; cP := 10; cI := 5; cC := 7 |} init 100 slow_script)
  = [(false, 113); (true, 150)].
Proof.
  split; [|vm_compute; reflexivity].
  repeat constructor; cbn; lia.
Qed.

(* a negative cool-down is no cool-down: the clock does not run backwards *)
Example C20_negative_cooldown :
  map e_at (run_pairs {| cN := 2; cP := 0; cI := 1; cC := -50 |} init 100
              [(false,0); (false,0); (false,0)])
  = [100; 101; 102].
Proof. vm_compute. reflexivity. Qed.

(* the hypothesis of C20_brief_never_fires is satisfiable by a script with long
   runs: 5 equal observations 1 apart never span a stable period of 10 *)
Definition brief_cfg : cfg := {| cN := 2; cP := 10; cI := 1; cC := 0 |}.
Definition brief_script : list item :=
  map of_pair [(false,0); (false,0); (false,0); (false,0); (false,0); (true,0)].
Example C20_brief_example :
  (* the premise of C20_brief_never_fires holds on this script ... *)
  (forall pre1 f r e post,
     run brief_cfg init 0 brief_script = pre1 ++ f :: r ++ e :: post ->
     Forall (fun x => e_obs x = e_obs e) (f :: r) ->
     e_at e - e_at f < cP brief_cfg) /\
  (* ... which has a run of 5 >= max(N,2) equal observations (so it is not an
     instance of C20_flap_never_fires) ... *)
  map i_obs brief_script = [false; false; false; false; false; true] /\
  (* ... and nothing fires *)
  reactions (run brief_cfg init 0 brief_script) = [].
Proof.
  split; [|split; vm_compute; reflexivity].
  intros pre1 f r e post H _.
  assert (B : Forall (fun x => 0 <= e_at x <= 5) (run brief_cfg init 0 brief_script)).
  { set (tr := run brief_cfg init 0 brief_script). vm_compute in tr. subst tr.
    repeat constructor; cbn [e_at]; lia. }
  rewrite H, Forall_forall in B.
  assert (Hf : 0 <= e_at f <= 5) by (apply B, in_elt).
  assert (He : 0 <= e_at e <= 5).
  { apply B. rewrite app_comm_cons, app_assoc. apply in_elt. }
  cbn [cP brief_cfg]. lia.
Qed.

(* a hang of an hour only delays, and a failing reaction leaves the policies as
   they were: outage (diagnosis dropped), recovery after a check that hung, its
   reaction fails (HAProxy refuses): the diagnosis-free policies stay in force *)
Example C20_fires_with_failure_and_hang :
  let script := [FIt (It false 0 0 0) NoFault; FIt (It false 0 0 0) NoFault;
                 FIt (It false 0 0 0) NoFault; FIt (It true 0 3600 0) NoFault;
                 FIt (It true 0 0 0) ProxyRefuses; FIt (It true 0 0 0) NoFault] in
  effects false 100 (run_o Latch {| cN := 2; cP := 1; cI := 1; cC := 7 |} init 100 script) script
  = [FRx false 1 true true; FRx true 3611 false true].
Proof. vm_compute. reflexivity. Qed.
