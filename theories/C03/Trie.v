(* C03 — model of the URL trie as the flow filter uses it
   (toolkit-core/urltree: url_tree_utils.go splitURL/trimURL/validateURL/
   TryExtractPathParameter, url_tree_insert.go InsertDeclaredURL and
   LookupDeclaredURL, url_tree_flow_traversal.go lookupFlow), with the repairs
   F-C03a/b/e applied.  Executable definitions only.

   Strings are lists of byte codes.  The trie is modelled FLAT: a finite map
   from step paths (root -> node) to node infos, represented as a function.
   A node remembers the URL part that created it: Go's [IsPartOfHost] is its
   kind, Go's [ParametricChild.Name] is the parameter name inside it, the key
   in [ConstantChildren] is its token.  The tree is the filter tree's
   [NewURLTree(false, 0)]: no assumed path parameters, no convergence. *)
From Coq Require Import List ZArith Bool.
Import ListNotations.
Open Scope Z_scope.

Definition tok := list Z.
(* urlPart{IsPartOfHost, Value} *)
Definition part := (bool * tok)%type.

Fixpoint tok_eqb (a b : tok) : bool :=
  match a, b with
  | [], [] => true
  | x :: a', y :: b' => (x =? y) && tok_eqb a' b'
  | _, _ => false
  end.

Definition part_eqb (p q : part) : bool := eqb (fst p) (fst q) && tok_eqb (snd p) (snd q).

(* ---- splitURL ---- *)
Definition ch_dot := 46.
Definition ch_slash := 47.
Definition ch_star := 42.
Definition ch_lbrace := 123.
Definition ch_rbrace := 125.

Definition is_sep (c : Z) : bool := (c =? ch_dot) || (c =? ch_slash).

Fixpoint trim_left (cut : Z -> bool) (s : tok) : tok :=
  match s with
  | c :: r => if cut c then trim_left cut r else s
  | [] => []
  end.

(* strings.Trim(s, cutset) *)
Definition trim (cut : Z -> bool) (s : tok) : tok :=
  rev (trim_left cut (rev (trim_left cut s))).

(* trimURL = strings.Trim(url, "./") *)
Definition trim_url (s : tok) : tok := trim is_sep s.

(* strings.Split(s, sep) for a one-byte separator: never empty *)
Fixpoint split_on (c : Z) (s : tok) : list tok :=
  match s with
  | [] => [[]]
  | x :: r =>
      if x =? c then [] :: split_on c r
      else match split_on c r with
           | h :: t => (x :: h) :: t
           | [] => [[x]]
           end
  end.

Definition split_url (url : tok) : list part :=
  match split_on ch_slash (trim_url url) with
  | [] => []
  | h :: path =>
      map (fun t => (true, t)) (split_on ch_dot h) ++ map (fun t => (false, t)) path
  end.

(* ---- classification of a declared part (order of the tests as in insert) ---- *)
Inductive step := SConst (t : tok) | SParam | SWild.

Definition is_wild (t : tok) : bool := tok_eqb t [ch_star].

(* TryExtractPathParameter: HasPrefix "{" && HasSuffix "}" *)
Definition is_param (t : tok) : bool :=
  match t with
  | c :: _ => (c =? ch_lbrace) && (last t 0 =? ch_rbrace)
  | [] => false
  end.

(* strings.Trim(part, "{}") *)
Definition param_name (t : tok) : tok :=
  trim (fun c => (c =? ch_lbrace) || (c =? ch_rbrace)) t.

Definition step_of (t : tok) : step :=
  if is_wild t then SWild else if is_param t then SParam else SConst t.

Definition step_eqb (a b : step) : bool :=
  match a, b with
  | SConst x, SConst y => tok_eqb x y
  | SParam, SParam => true
  | SWild, SWild => true
  | _, _ => false
  end.

Definition path := list step.

Fixpoint path_eqb (a b : path) : bool :=
  match a, b with
  | [], [] => true
  | x :: a', y :: b' => step_eqb x y && path_eqb a' b'
  | _, _ => false
  end.

(* [prefixb p l]: p is a prefix of l *)
Fixpoint prefixb (p l : path) : bool :=
  match p, l with
  | [], _ => true
  | x :: p', y :: l' => step_eqb x y && prefixb p' l'
  | _ :: _, [] => false
  end.

Definition psteps (ps : list part) : path := map (fun p => step_of (snd p)) ps.

(* ---- the tree ---- *)
Section Tree.
  Context {V : Type}.

  Record ninfo := { n_part : part; n_val : option V }.
  Definition n_host (n : ninfo) : bool := fst (n_part n).
  Definition n_pname (n : ninfo) : tok := param_name (snd (n_part n)).

  Definition tree := path -> option ninfo.

  Definition root_info : ninfo := {| n_part := (false, []); n_val := None |}.
  Definition empty : tree := fun p => match p with [] => Some root_info | _ => None end.

  Definition upd (t : tree) (p : path) (n : ninfo) : tree :=
    fun q => if path_eqb q p then Some n else t q.

  (* drop the node at p and everything below it (a wildcard child is always a
     brand-new node: [currentNode.WildcardChild = &Node{...}]) *)
  Definition cut (t : tree) (p : path) : tree :=
    fun q => if prefixb p q then None else t q.

  Definition fresh (pt : part) : ninfo := {| n_part := pt; n_val := None |}.

  Definition val_at (t : tree) (p : path) : option V :=
    match t p with Some n => n_val n | None => None end.

  (* validateURL: no empty part; a wildcard only at the last index (the code
     compares indices since the fix "a wildcard is rejected everywhere but in
     the last URL part"; before it compared the part with the last part by value) *)
  Fixpoint validate (ps : list part) : bool :=
    match ps with
    | [] => true
    | p :: rest =>
        negb (tok_eqb (snd p) [])
        && (negb (is_wild (snd p)) || match rest with [] => true | _ :: _ => false end)
        && validate rest
    end.

  (* the loop of insertWithConvergenceIndication (declaredURL = true,
     assumedPathParamsEnabled = false): returns the tree (mutated also when a
     parameter-name conflict aborts the walk) and the node reached *)
  Fixpoint ins_walk (t : tree) (cur : path) (ps : list part) : tree * option path :=
    match ps with
    | [] => (t, Some cur)
    | pt :: rest =>
        let p := cur ++ [step_of (snd pt)] in
        match step_of (snd pt) with
        | SWild => ins_walk (upd (cut t p) p (fresh pt)) p rest
        | SParam =>
            match t p with
            | Some n => if tok_eqb (param_name (snd pt)) (n_pname n)
                        then ins_walk t p rest else (t, None)
            | None => ins_walk (upd t p (fresh pt)) p rest
            end
        | SConst _ =>
            match t p with
            | Some _ => ins_walk t p rest
            | None => ins_walk (upd t p (fresh pt)) p rest
            end
        end
    end.

  (* InsertDeclaredURL: (tree, failed) *)
  Definition insert_declared (t : tree) (ps : list part) (v : V) : tree * bool :=
    if validate ps then
      match ins_walk t [] ps with
      | (t', Some p) =>
          match t' p with
          | Some n => (upd t' p {| n_part := n_part n; n_val := Some v |}, false)
          | None => (t', true) (* unreachable: the walk ends on an existing node *)
          end
      | (t', None) => (t', true)
      end
    else (t, true).

  (* LookupDeclaredURL (repair F-C03e): the node declared on exactly this URL *)
  Fixpoint find_decl (t : tree) (cur : path) (ps : list part) : option path :=
    match ps with
    | [] => Some cur
    | pt :: rest =>
        let s := step_of (snd pt) in
        let p := cur ++ [s] in
        match t p with
        | Some n =>
            match s with
            | SParam => if tok_eqb (param_name (snd pt)) (n_pname n)
                        then find_decl t p rest else None
            | _ => find_decl t p rest
            end
        | None => None
        end
    end.

  Definition wild_val (t : tree) (cur : path) : list V :=
    match val_at t (cur ++ [SWild]) with Some v => [v] | None => [] end.

  (* the loop of lookupFlow: values of the wildcard children met on the way and
     the node reached when EVERY part was matched (repair F-C03a) *)
  Fixpoint walk (t : tree) (cur : path) (ps : list part) : list V * option path :=
    match ps with
    | [] => ([], Some cur)
    | (h, v) :: rest =>
        let w := wild_val t cur in
        let go p := let '(a, r) := walk t p rest in (w ++ a, r) in
        let try_param :=
          match t (cur ++ [SParam]) with
          | Some n => if eqb (n_host n) h then go (cur ++ [SParam]) else (w, None)
          | None => (w, None)
          end in
        match t (cur ++ [SConst v]) with
        | Some n => if eqb (n_host n) h then go (cur ++ [SConst v]) else try_param
        | None => try_param
        end
    end.

  (* lookupFlow *)
  Definition traverse (t : tree) (ps : list part) : list V :=
    let '(ws, r) := walk t [] ps in
    match r with
    | Some p =>
        ws
        ++ (match val_at t p with Some v => [v] | None => [] end) (* repair F-C03b: two independent tests *)
        ++ (if fst (last ps (false, [])) then wild_val t p else [])
    | None => ws
    end.
End Tree.

Arguments ninfo : clear implicits.
Arguments tree : clear implicits.
