(* C03 — the loader stage and the status_code list as an order-free set.
   Lemmas only; final statements in Property.v.  One exception, at the end: the
   executable definitions of the decode variant [decode_canon] (seed C03-10 with
   both of its halves) live here and not in Model.v, so that Model.vo - which
   C04 and C14 are compiled against - did not have to change for a variant that
   no suite evaluates.

   What is and is not proved about the loader: [load_flows] is DEFINED as
   [map (with_url decode_keep)] with [decode_keep u := u], so [load_flows_id]
   below (and C03_loader_keeps_filter in Property.v) holds by unfolding - it says
   that the MODEL's stage is the identity, nothing about Filter.UnmarshalYAML.
   That the Go loader keeps the filter as written is established by the
   correspondence suite 'loaded' only (flow files read back by
   streamconfig.GetFlows / Stream.Initialize, evaluated through run_case_loaded). *)
From Coq Require Import List ZArith Bool Permutation Lia.
From Verif Require Import C03.Trie C03.Model C03.Spec C03.SpecLocal C03.Proofs.
Import ListNotations.
Open Scope Z_scope.

Lemma with_url_keep : forall f, with_url decode_keep f = f.
Proof. intros [i k u m h q s]. reflexivity. Qed.

Lemma load_flows_id : forall ws, load_flows ws = ws.
Proof.
  intro ws. unfold load_flows, load_with. induction ws as [|f ws IH]; cbn [map].
  - reflexivity.
  - rewrite with_url_keep, IH. reflexivity.
Qed.

(* the decode stage touches the URL only *)
Lemma with_url_id : forall d f, f_id (with_url d f) = f_id f.
Proof. reflexivity. Qed.
Lemma with_url_status : forall d f, f_status (with_url d f) = f_status f.
Proof. reflexivity. Qed.

(* ---- status codes: membership, whatever the order written ---- *)
Lemma existsb_in_Z : forall st l, existsb (fun s => s =? st) l = true <-> In st l.
Proof.
  intros st l. rewrite existsb_exists. split.
  - intros [s [Hs E]]. apply Z.eqb_eq in E. subst. exact Hs.
  - intro H. exists st. split; [exact H | apply Z.eqb_refl].
Qed.

Lemma status_ok_iff : forall f x,
  status_ok f x = true <->
  t_resp x = false \/ f_status f = [] \/
  exists st, resp_status x = Some st /\ In st (f_status f).
Proof.
  intros f x. unfold status_ok. destruct (t_resp x); cbn [negb orb].
  - destruct (f_status f) as [|s l] eqn:E.
    + split; [intros _; right; left; reflexivity | reflexivity].
    + destruct (resp_status x) as [st|].
      * rewrite existsb_in_Z. split.
        -- intro H. right. right. exists st. split; [reflexivity | exact H].
        -- intros [H | [H | [st' [H1 H2]]]]; [discriminate | discriminate |].
           inversion H1; subst. exact H2.
      * split; [discriminate|].
        intros [H | [H | [st' [H1 _]]]]; discriminate.
  - split; [intros _; left; reflexivity | reflexivity].
Qed.

Lemma status_ok_perm : forall f f' x,
  Permutation (f_status f) (f_status f') -> status_ok f x = status_ok f' x.
Proof.
  intros f f' x HP.
  destruct (status_ok f x) eqn:E1; destruct (status_ok f' x) eqn:E2; try reflexivity; exfalso.
  - apply status_ok_iff in E1. assert (status_ok f' x = true); [|congruence].
    apply status_ok_iff. destruct E1 as [H | [H | [st [H1 H2]]]].
    + left. exact H.
    + right. left. rewrite H in HP. apply Permutation_nil in HP. exact HP.
    + right. right. exists st. split; [exact H1 | eapply Permutation_in; eauto].
  - apply status_ok_iff in E2. assert (status_ok f x = true); [|congruence].
    apply status_ok_iff. destruct E2 as [H | [H | [st [H1 H2]]]].
    + left. exact H.
    + right. left. rewrite H in HP. apply Permutation_sym, Permutation_nil in HP. exact HP.
    + right. right. exists st. split; [exact H1 | eapply Permutation_in; [apply Permutation_sym|]; eauto].
Qed.

(* ---- seed C03-10 in full ----
   The seed's line is  f.URL = strings.ToLower(strings.TrimSpace(f.URL)).
   [Model.decode_lower] is its ToLower half alone.  [decode_canon] is both halves:
   strings.TrimSpace restricted to ASCII (the six bytes unicode.IsSpace accepts
   below 0x80: TAB LF VT FF CR and the blank; U+0085 / U+00A0 are two-byte UTF-8
   sequences and, like every non-ASCII byte, outside this model), then ToLower.
   No suite evaluates either variant; they exist to be refuted (Property.v). *)
Definition is_space (c : Z) : bool := ((9 <=? c) && (c <=? 13)) || (c =? 32).
Definition trim_space (u : tok) : tok := trim is_space u.
Definition decode_canon (u : tok) : tok := lower (trim_space u).

(* on a URL without surrounding blanks the two variants are the same function:
   every witness against [decode_lower] is a witness against the seed *)
Lemma decode_canon_lower : forall u, trim_space u = u -> decode_canon u = decode_lower u.
Proof. intros u H. unfold decode_canon, decode_lower. rewrite H. reflexivity. Qed.

Lemma load_with_canon_lower : forall ws,
  Forall (fun f => trim_space (f_url f) = f_url f) ws ->
  load_with decode_canon ws = load_with decode_lower ws.
Proof.
  intros ws H. unfold load_with. induction H as [|f ws Hf _ IH]; cbn [map].
  - reflexivity.
  - rewrite IH. unfold with_url. rewrite (decode_canon_lower _ Hf). reflexivity.
Qed.
