(* C03 — the loader stage and the status_code list as an order-free set.
   Lemmas only; final statements in Property.v. *)
From Coq Require Import List ZArith Bool Permutation Lia.
From Verif Require Import C03.Trie C03.Model C03.Spec C03.SpecLocal C03.Proofs.
Import ListNotations.
Open Scope Z_scope.

Lemma with_url_keep : forall f, with_url decode_keep f = f.
Proof. intros [i k u m h q s]. reflexivity. Qed.

Lemma load_flows_id : forall ws, load_flows ws = ws.
Proof.
  intro ws. unfold load_flows, load_with. induction ws as [|f ws IH]; cbn [map].
  - reflexivity.
  - rewrite with_url_keep, IH. reflexivity.
Qed.

(* the decode stage touches the URL only *)
Lemma with_url_id : forall d f, f_id (with_url d f) = f_id f.
Proof. reflexivity. Qed.
Lemma with_url_status : forall d f, f_status (with_url d f) = f_status f.
Proof. reflexivity. Qed.

(* ---- status codes: membership, whatever the order written ---- *)
Lemma existsb_in_Z : forall st l, existsb (fun s => s =? st) l = true <-> In st l.
Proof.
  intros st l. rewrite existsb_exists. split.
  - intros [s [Hs E]]. apply Z.eqb_eq in E. subst. exact Hs.
  - intro H. exists st. split; [exact H | apply Z.eqb_refl].
Qed.

Lemma status_ok_iff : forall f x,
  status_ok f x = true <->
  t_resp x = false \/ f_status f = [] \/
  exists st, resp_status x = Some st /\ In st (f_status f).
Proof.
  intros f x. unfold status_ok. destruct (t_resp x); cbn [negb orb].
  - destruct (f_status f) as [|s l] eqn:E.
    + split; [intros _; right; left; reflexivity | reflexivity].
    + destruct (resp_status x) as [st|].
      * rewrite existsb_in_Z. split.
        -- intro H. right. right. exists st. split; [reflexivity | exact H].
        -- intros [H | [H | [st' [H1 H2]]]]; [discriminate | discriminate |].
           inversion H1; subst. exact H2.
      * split; [discriminate|].
        intros [H | [H | [st' [H1 _]]]]; discriminate.
  - split; [intros _; left; reflexivity | reflexivity].
Qed.

Lemma status_ok_perm : forall f f' x,
  Permutation (f_status f) (f_status f') -> status_ok f x = status_ok f' x.
Proof.
  intros f f' x HP.
  destruct (status_ok f x) eqn:E1; destruct (status_ok f' x) eqn:E2; try reflexivity; exfalso.
  - apply status_ok_iff in E1. assert (status_ok f' x = true); [|congruence].
    apply status_ok_iff. destruct E1 as [H | [H | [st [H1 H2]]]].
    + left. exact H.
    + right. left. rewrite H in HP. apply Permutation_nil in HP. exact HP.
    + right. right. exists st. split; [exact H1 | eapply Permutation_in; eauto].
  - apply status_ok_iff in E2. assert (status_ok f x = true); [|congruence].
    apply status_ok_iff. destruct E2 as [H | [H | [st [H1 H2]]]].
    + left. exact H.
    + right. left. rewrite H in HP. apply Permutation_sym, Permutation_nil in HP. exact HP.
    + right. right. exists st. split; [exact H1 | eapply Permutation_in; [apply Permutation_sym|]; eauto].
Qed.
