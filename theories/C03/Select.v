(* C03 — the traversal over the abstract trie: unfolding of lookupFlow into
   "wildcard value here, then the child chosen for this part", soundness,
   completeness and insensitivity to the load order. *)
From Coq Require Import List ZArith Bool Lia Permutation.
From Verif Require Import C03.Trie C03.Model C03.Spec C03.Basics C03.Repr.
Import ListNotations.
Open Scope Z_scope.

(* ---- lookupFlow, unfolded ---- *)
Definition next_param (t : ftree) (cur : path) (h : bool) : option path :=
  match t (cur ++ [SParam]) with
  | Some n => if eqb (n_host n) h then Some (cur ++ [SParam]) else None
  | None => None
  end.

Definition next (t : ftree) (cur : path) (u : part) : option path :=
  match t (cur ++ [SConst (snd u)]) with
  | Some n => if eqb (n_host n) (fst u) then Some (cur ++ [SConst (snd u)]) else next_param t cur (fst u)
  | None => next_param t cur (fst u)
  end.

Definition node_val (t : ftree) (p : path) : list fnode :=
  match val_at t p with Some v => [v] | None => [] end.

Definition finish (t : ftree) (lst : part) (ps : list part) (wr : list fnode * option path) : list fnode :=
  match snd wr with
  | Some p => fst wr ++ node_val t p ++ (if fst (last ps lst) then wild_val t p else [])
  | None => fst wr
  end.

Definition trav_from (t : ftree) (cur : path) (ps : list part) (lst : part) : list fnode :=
  finish t lst ps (walk t cur ps).

Lemma traverse_trav : forall (t : ftree) ps, traverse t ps = trav_from t [] ps (false, []).
Proof.
  intros. unfold traverse, trav_from, finish, node_val.
  destruct (walk t [] ps) as [ws [p|]]; reflexivity.
Qed.

Lemma last_cons : forall (A : Type) (a : A) l d, last (a :: l) d = last l a.
Proof.
  intros A a l. revert a. induction l as [|b l IH]; intros a d; [reflexivity|].
  rewrite last_cons_cons. rewrite (IH b d). rewrite (IH b a). reflexivity.
Qed.

Lemma trav_nil : forall (t : ftree) cur lst,
  trav_from t cur [] lst = node_val t cur ++ (if fst lst then wild_val t cur else []).
Proof. reflexivity. Qed.

Lemma trav_step : forall (t : ftree) cur u rest lst,
  trav_from t cur (u :: rest) lst =
  wild_val t cur ++ match next t cur u with
                    | Some p => trav_from t p rest u
                    | None => []
                    end.
Proof.
  intros t cur [h v] rest lst. unfold trav_from, next, next_param. cbn [walk fst snd].
  assert (G : forall p, finish t lst ((h, v) :: rest)
                 (let '(a, r) := walk t p rest in (wild_val t cur ++ a, r))
               = wild_val t cur ++ finish t (h, v) rest (walk t p rest)).
  { intro p. unfold finish. rewrite last_cons. destruct (walk t p rest) as [a [q|]]; cbn [fst snd].
    - rewrite <- app_assoc. reflexivity.
    - reflexivity. }
  destruct (t (cur ++ [SConst v])) as [n|]; [destruct (eqb (n_host n) h)|].
  - apply G.
  - destruct (t (cur ++ [SParam])) as [n'|]; [destruct (eqb (n_host n') h)|].
    + apply G.
    + unfold finish. cbn. rewrite app_nil_r. reflexivity.
    + unfold finish. cbn. rewrite app_nil_r. reflexivity.
  - destruct (t (cur ++ [SParam])) as [n'|]; [destruct (eqb (n_host n') h)|].
    + apply G.
    + unfold finish. cbn. rewrite app_nil_r. reflexivity.
    + unfold finish. cbn. rewrite app_nil_r. reflexivity.
Qed.

(* ---- the traversal only looks at the tree pointwise ---- *)
Lemma walk_ext : forall ps (t t' : ftree) cur,
  (forall P, t P = t' P) -> walk t cur ps = walk t' cur ps.
Proof.
  induction ps as [|[h v] rest IH]; intros t t' cur H; [reflexivity|].
  cbn [walk]. unfold wild_val, val_at. rewrite !H.
  rewrite (IH t t' (cur ++ [SConst v]) H), (IH t t' (cur ++ [SParam]) H). reflexivity.
Qed.

Lemma traverse_ext : forall (t t' : ftree) ps,
  (forall P, t P = t' P) -> traverse t ps = traverse t' ps.
Proof.
  intros t t' ps H. unfold traverse. rewrite (walk_ext ps t t' [] H).
  destruct (walk t' [] ps) as [ws [p|]]; [|reflexivity].
  unfold wild_val, val_at. rewrite !H. reflexivity.
Qed.

(* ---- kinds ---- *)
Definition KC (fs : list flow) : Prop :=
  forall f g, In f fs -> In g fs -> kind_compat (pat f) (pat g) = true.

Lemma kind_consistent_KC : forall fs, kind_consistent fs = true <-> KC fs.
Proof.
  intro fs. unfold kind_consistent, KC. rewrite forallb_forall. split.
  - intros H f g Hf Hg. specialize (H f Hf). rewrite forallb_forall in H. auto.
  - intros H f Hf. rewrite forallb_forall. auto.
Qed.

Lemma kind_compat_nth : forall p q P i,
  kind_compat p q = true -> prefixb P (psteps p) = true -> prefixb P (psteps q) = true ->
  (i < length P)%nat -> fst (nth i p dpart) = fst (nth i q dpart).
Proof.
  induction p as [|[ph pv] p' IH]; intros q P i HK Hp Hq Hi.
  - destruct P; [cbn in Hi; lia | discriminate].
  - destruct P as [|s P']; [cbn in Hi; lia|].
    destruct q as [|[qh qv] q']; [discriminate|].
    rewrite psteps_cons in Hp, Hq. cbn in Hp, Hq.
    apply andb_true_iff in Hp as [Hs1 Hp]. apply andb_true_iff in Hq as [Hs2 Hq].
    apply step_eqb_eq in Hs1, Hs2. cbn [snd] in *. subst s.
    cbn [kind_compat] in HK. rewrite Hs2, step_eqb_refl in HK.
    apply andb_true_iff in HK as [Hh HK]. apply eqb_prop in Hh.
    destruct i as [|i]; [exact Hh|]. cbn [nth]. eapply IH; eauto. cbn in Hi. lia.
Qed.

Lemma apart_host : forall fs f P,
  KC fs -> In f fs -> through P f = true -> P <> [] ->
  fst (apart fs P) = fst (nth (pred (length P)) (pat f) dpart).
Proof.
  intros fs f P HK Hf HT NE. unfold apart.
  assert (HE : existsb (through P) fs = true) by (apply existsb_exists; eauto).
  apply existsb_find in HE as [g [HF [Hg HTg]]]. rewrite HF.
  eapply kind_compat_nth; eauto. destruct P; [contradiction | cbn; lia].
Qed.

(* ---- soundness ---- *)
Definition Rp (p u : part) : Prop :=
  fst p = fst u /\ (step_of (snd p) = SConst (snd u) \/ step_of (snd p) = SParam).

Lemma matches_R : forall ps U, Forall2 Rp ps U ->
  forall lax b, matches_from lax b ps U = true.
Proof.
  induction 1 as [|[ph pv] [uh uv] ps U [Hk Hs] HF IH]; intros lax b; [reflexivity|].
  cbn [matches_from]. cbn [fst snd] in *. subst uh. pose proof (classify_step pv) as HC.
  destruct Hs as [Hs|Hs]; rewrite Hs in HC.
  - destruct HC as [HC E]. rewrite HC. subst pv. rewrite eqb_reflx, tok_eqb_refl. apply IH.
  - rewrite HC. rewrite eqb_reflx. apply IH.
Qed.

Lemma fst_last_cons : forall (u : part) l d, fst (last (u :: l) d) = fst (last l (fst u, [])).
Proof.
  intros u l d. destruct l as [|a l]; [reflexivity|]. rewrite !last_cons. reflexivity.
Qed.

Lemma matches_R_star : forall ps0 U1, Forall2 Rp ps0 U1 ->
  forall ph pv, step_of pv = SWild ->
  forall lax b rest,
    matches_from lax b (ps0 ++ [(ph, pv)]) (U1 ++ rest) =
    match rest with
    | [] => fst (last U1 (b, []))
    | (uh, _) :: _ => lax || eqb uh ph
    end.
Proof.
  induction 1 as [|[ph' pv'] [uh uv] ps U [Hk Hs] HF IH]; intros ph pv HW lax b rest.
  - cbn [app matches_from]. pose proof (classify_step pv) as HC. rewrite HW in HC. rewrite HC.
    destruct rest as [|[uh uv] r]; reflexivity.
  - cbn [app matches_from]. cbn [fst snd] in *. subst uh. pose proof (classify_step pv') as HC.
    rewrite fst_last_cons. cbn [fst].
    destruct Hs as [Hs|Hs]; rewrite Hs in HC.
    + destruct HC as [HC E]. rewrite HC. subst pv'. rewrite eqb_reflx, tok_eqb_refl. cbn [andb].
      apply IH. exact HW.
    + rewrite HC. rewrite eqb_reflx. cbn [andb]. apply IH. exact HW.
Qed.

Definition Good (fs : list flow) (cur : path) (U : list part) : Prop :=
  length cur = length U /\
  forall f, In f fs -> through cur f = true -> Forall2 Rp (firstn (length cur) (pat f)) U.

Lemma Good_nil : forall fs, Good fs [] [].
Proof. intro fs. split; [reflexivity|]. intros. cbn. constructor. Qed.

Lemma firstn_succ_nth : forall (A : Type) (l : list A) n d,
  (n < length l)%nat -> firstn (S n) l = firstn n l ++ [nth n l d].
Proof.
  intros A l. induction l as [|a l IH]; intros n d H; [cbn in H; lia|].
  destruct n as [|n]; [reflexivity|]. cbn [firstn nth app]. f_equal. apply IH. cbn in H. lia.
Qed.

Lemma nth_psteps : forall ps i, nth i (psteps ps) (step_of (snd dpart)) = step_of (snd (nth i ps dpart)).
Proof. intros. unfold psteps. apply (map_nth (fun p : part => step_of (snd p))). Qed.

Lemma through_snoc : forall cur s f, through (cur ++ [s]) f = true ->
  through cur f = true /\ (length cur < length (pat f))%nat /\
  step_of (snd (nth (length cur) (pat f) dpart)) = s.
Proof.
  intros cur s f H. unfold through in *. apply prefixb_spec in H as [r Hr].
  split; [|split].
  - apply prefixb_spec. exists ([s] ++ r). rewrite Hr, <- app_assoc. reflexivity.
  - rewrite <- psteps_length, Hr. rewrite !app_length. cbn. lia.
  - rewrite <- nth_psteps, Hr. rewrite <- app_assoc. rewrite app_nth2 by lia.
    rewrite Nat.sub_diag. reflexivity.
Qed.

Lemma Good_step : forall fs cur U s h v,
  KC fs -> Good fs cur U ->
  fst (apart fs (cur ++ [s])) = h -> (s = SConst v \/ s = SParam) ->
  Good fs (cur ++ [s]) (U ++ [(h, v)]).
Proof.
  intros fs cur U s h v HK [HL HG] Hh Hs. split.
  - rewrite !app_length, HL. reflexivity.
  - intros f Hf HT. destruct (through_snoc _ _ _ HT) as [HT0 [Hlen Hnth]].
    rewrite app_length. cbn [length]. rewrite Nat.add_1_r.
    rewrite (firstn_succ_nth _ _ _ dpart Hlen). apply Forall2_app; [apply HG; assumption|].
    constructor; [|constructor]. split.
    + cbn [fst]. rewrite <- Hh. rewrite (apart_host fs f) by (auto; destruct cur; discriminate).
      rewrite app_length. cbn [length]. rewrite Nat.add_1_r. reflexivity.
    + cbn [snd]. rewrite Hnth. exact Hs.
Qed.

Lemma atree_node : forall fs P n, P <> [] -> atree fs P = Some n ->
  anode fs P = true /\ n_part n = apart fs P /\ n_val n = anval fs P.
Proof.
  intros fs P n NE H. rewrite atree_nonroot in H by exact NE.
  destruct (anode fs P); [|discriminate]. inversion H; subst. cbn. auto.
Qed.

Lemma snoc_nonempty : forall (A : Type) (l : list A) x, l ++ [x] <> [].
Proof. intros A l x H. destruct l; discriminate. Qed.

Lemma next_good : forall fs cur U u p,
  KC fs -> Good fs cur U -> next (atree fs) cur u = Some p -> Good fs p (U ++ [u]).
Proof.
  intros fs cur U [h v] p HK HG H. unfold next, next_param in H. cbn [fst snd] in H.
  assert (PAR : match atree fs (cur ++ [SParam]) with
                | Some n => if eqb (n_host n) h then Some (cur ++ [SParam]) else None
                | None => None
                end = Some p -> Good fs p (U ++ [(h, v)])).
  { intro HP. destruct (atree fs (cur ++ [SParam])) as [n|] eqn:E; [|discriminate].
    destruct (eqb (n_host n) h) eqn:EH; [|discriminate]. inversion HP; subst p.
    apply eqb_prop in EH. destruct (atree_node _ _ _ (snoc_nonempty _ _ _) E) as [_ [HP' _]].
    apply Good_step; auto. unfold n_host in EH. rewrite HP' in EH. exact EH. }
  destruct (atree fs (cur ++ [SConst v])) as [n|] eqn:E; [|auto].
  destruct (eqb (n_host n) h) eqn:EH; [|auto]. inversion H; subst p.
  apply eqb_prop in EH. destruct (atree_node _ _ _ (snoc_nonempty _ _ _) E) as [_ [HP' _]].
  apply Good_step; auto. unfold n_host in EH. rewrite HP' in EH. exact EH.
Qed.

(* what a flow found in the value of node P looks like *)
Lemma node_val_in : forall fs P fl f,
  In fl (node_val (atree fs) P) -> In f fl -> In f fs /\ psteps (pat f) = P.
Proof.
  intros fs P fl f H Hf. unfold node_val, val_at in H.
  destruct (atree fs P) as [n|] eqn:E; [|contradiction].
  destruct (n_val n) as [v|] eqn:EV; [|contradiction].
  destruct H as [H|[]]. subst v.
  destruct P as [|s P]; [cbn in E; inversion E; subst n; discriminate|].
  assert (NE : s :: P <> []) by discriminate.
  destruct (atree_node _ _ _ NE E) as [_ [_ HV]]. rewrite EV in HV.
  unfold anval in HV. destruct (aval fs (s :: P)) eqn:EA; [discriminate|]. inversion HV; subst fl.
  rewrite <- EA in Hf. apply aval_in in Hf. exact Hf.
Qed.

Lemma wild_val_in : forall fs cur fl f,
  In fl (wild_val (atree fs) cur) -> In f fl -> In f fs /\ psteps (pat f) = cur ++ [SWild].
Proof. intros fs cur fl f H Hf. eapply node_val_in; eauto. Qed.

(* a flow declared on cur ++ [*] , seen from a node whose path matched U *)
Lemma wild_flow_shape : forall fs cur U f,
  Good fs cur U -> In f fs -> psteps (pat f) = cur ++ [SWild] ->
  exists ps0 ph pv, pat f = ps0 ++ [(ph, pv)] /\ step_of pv = SWild /\ Forall2 Rp ps0 U.
Proof.
  intros fs cur U f [HL HG] Hf HP.
  assert (HT : through (cur ++ [SWild]) f = true) by (unfold through; rewrite HP; apply prefixb_refl).
  destruct (through_snoc _ _ _ HT) as [HT0 [Hlen Hnth]].
  assert (LEN : length (pat f) = S (length cur)).
  { rewrite <- psteps_length, HP, app_length. cbn. lia. }
  exists (firstn (length cur) (pat f)), (fst (nth (length cur) (pat f) dpart)),
         (snd (nth (length cur) (pat f) dpart)).
  split; [|split].
  - rewrite <- surjective_pairing. rewrite <- firstn_succ_nth by exact Hlen.
    rewrite <- LEN. symmetry. apply firstn_all.
  - exact Hnth.
  - apply HG; assumption.
Qed.

Lemma Forall2_len : forall (A B : Type) (R : A -> B -> Prop) l1 l2,
  Forall2 R l1 l2 -> length l1 = length l2.
Proof. induction 1; cbn; congruence. Qed.

Definition star_pat_ok (lax : bool) (f : flow) (url : list part) : Prop :=
  lax = true \/ wild_kind_ok (pat f) url = true.

Lemma wild_kind_ok_star : forall ps0 ph pv U uh uv rest,
  step_of pv = SWild -> length ps0 = length U ->
  wild_kind_ok (ps0 ++ [(ph, pv)]) (U ++ (uh, uv) :: rest) = eqb uh ph.
Proof.
  intros ps0 ph pv U uh uv rest HW HL. unfold wild_kind_ok.
  rewrite last_last. cbn [fst snd]. pose proof (classify_step pv) as HC. rewrite HW in HC. rewrite HC.
  rewrite app_length. cbn [length]. rewrite Nat.add_1_r. cbn [pred]. rewrite HL.
  rewrite nth_error_app2 by lia. rewrite Nat.sub_diag. reflexivity.
Qed.

Theorem trav_sound : forall fs, KC fs ->
  forall rest cur U lst fl f,
    Good fs cur U -> fst lst = fst (last U (false, [])) ->
    In fl (trav_from (atree fs) cur rest lst) -> In f fl ->
    In f fs /\
    forall lax, star_pat_ok lax f (U ++ rest) -> matches_from lax false (pat f) (U ++ rest) = true.
Proof.
  intros fs HK. induction rest as [|u rest IH]; intros cur U lst fl f HG HLst Hfl Hf.
  - rewrite trav_nil in Hfl. rewrite app_nil_r. apply in_app_or in Hfl as [Hfl|Hfl].
    + destruct (node_val_in _ _ _ _ Hfl Hf) as [Hin HP]. split; [exact Hin|]. intros lax _.
      apply matches_R. destruct HG as [HL HG].
      assert (HT : through cur f = true) by (unfold through; rewrite HP; apply prefixb_refl).
      specialize (HG f Hin HT). rewrite <- HP, psteps_length, firstn_all in HG. exact HG.
    + destruct (fst lst) eqn:EL; [|contradiction].
      destruct (wild_val_in _ _ _ _ Hfl Hf) as [Hin HP]. split; [exact Hin|]. intros lax _.
      destruct (wild_flow_shape _ _ _ _ HG Hin HP) as [ps0 [ph [pv [E [HW HF]]]]].
      rewrite E. rewrite <- (app_nil_r U). rewrite (matches_R_star _ _ HF _ _ HW).
      rewrite <- HLst. reflexivity.
  - rewrite trav_step in Hfl. apply in_app_or in Hfl as [Hfl|Hfl].
    + destruct (wild_val_in _ _ _ _ Hfl Hf) as [Hin HP]. split; [exact Hin|]. intros lax HS.
      destruct (wild_flow_shape _ _ _ _ HG Hin HP) as [ps0 [ph [pv [E [HW HF]]]]].
      rewrite E. rewrite (matches_R_star _ _ HF _ _ HW). destruct u as [uh uv].
      destruct HS as [->|HS]; [reflexivity|].
      rewrite E in HS. rewrite wild_kind_ok_star in HS; auto.
      * rewrite HS. apply orb_true_r.
      * eapply Forall2_len; eauto.
    + destruct (next (atree fs) cur u) as [p|] eqn:EN; [|contradiction].
      rewrite (app_cons_snoc _ U u rest).
      apply (IH p (U ++ [u]) u fl f).
      * eapply next_good; eauto.
      * rewrite last_last. reflexivity.
      * exact Hfl.
      * exact Hf.
Qed.

(* ---- completeness ---- *)
Lemma node_val_has : forall fs f P,
  In f fs -> psteps (pat f) = P ->
  exists fl, In fl (node_val (atree fs) P) /\ In f fl.
Proof.
  intros fs f P Hf HP.
  assert (NE : P <> []) by (rewrite <- HP; apply psteps_pat_nonempty).
  assert (HA : In f (aval fs P)) by (apply aval_in; auto).
  assert (HN : aval fs P <> []) by (intro E; rewrite E in HA; contradiction).
  exists (aval fs P). split; [|exact HA].
  unfold node_val, val_at. rewrite atree_nonroot by exact NE.
  rewrite (aval_nonempty_anode _ _ HN). cbn [n_val]. unfold anval.
  destruct (aval fs P) eqn:E; [contradiction|]. left. reflexivity.
Qed.

Lemma child_exists : forall fs f ps1 ph pv ps2 cur,
  KC fs -> In f fs -> pat f = ps1 ++ (ph, pv) :: ps2 -> psteps ps1 = cur ->
  exists n, atree fs (cur ++ [step_of pv]) = Some n /\ n_host n = ph.
Proof.
  intros fs f ps1 ph pv ps2 cur HK Hf HP Hc.
  assert (HT : through (cur ++ [step_of pv]) f = true).
  { unfold through. rewrite HP, psteps_app, psteps_cons, Hc. cbn [snd].
    rewrite (app_cons_snoc _ cur (step_of pv) (psteps ps2)). apply prefixb_app. }
  assert (HA : anode fs (cur ++ [step_of pv]) = true).
  { unfold anode. apply existsb_exists. eauto. }
  rewrite atree_nonroot by apply snoc_nonempty. rewrite HA. eexists. split; [reflexivity|].
  unfold n_host. cbn [n_part]. rewrite (apart_host fs f _ HK Hf HT (snoc_nonempty _ _ _)).
  rewrite app_length. cbn [length]. rewrite Nat.add_1_r. cbn [pred].
  rewrite <- Hc, psteps_length, HP. rewrite nth_middle. reflexivity.
Qed.

Theorem trav_complete : forall fs f, KC fs -> In f fs ->
  forall ps2 ps1 cur rest lst,
    pat f = ps1 ++ ps2 -> psteps ps1 = cur ->
    matches_from false (fst lst) ps2 rest = true ->
    unshadowed_from fs cur ps2 rest = true ->
    exists fl, In fl (trav_from (atree fs) cur rest lst) /\ In f fl.
Proof.
  intros fs f HK Hf. induction ps2 as [|[ph pv] ps2 IH]; intros ps1 cur rest lst HP Hc HM HU.
  - rewrite app_nil_r in HP. destruct rest; [|discriminate]. rewrite trav_nil.
    destruct (node_val_has fs f cur Hf) as [fl [H1 H2]]; [rewrite HP; exact Hc|].
    exists fl. split; [apply in_or_app; left; exact H1 | exact H2].
  - cbn [matches_from] in HM. pose proof (classify_step pv) as HC.
    destruct (child_exists _ _ _ _ _ _ _ HK Hf HP Hc) as [n [Hn Hh]].
    destruct (step_of pv) eqn:ES.
    + (* literal *)
      destruct HC as [HC E]. subst t. rewrite HC in HM.
      destruct rest as [|[uh uv] rest]; [discriminate|].
      apply andb_true_iff in HM as [HM HM3]. apply andb_true_iff in HM as [HM1 HM2].
      apply eqb_prop in HM1. apply tok_eqb_eq in HM2. subst uh uv.
      cbn [unshadowed_from] in HU. rewrite HC, ES in HU. cbn [andb] in HU.
      rewrite trav_step. unfold next. cbn [fst snd]. rewrite Hn, Hh, eqb_reflx.
      destruct (IH (ps1 ++ [(ph, pv)]) (cur ++ [SConst pv]) rest (ph, pv)) as [fl [H1 H2]].
      * rewrite HP, <- app_assoc. reflexivity.
      * rewrite psteps_app, Hc. cbn. rewrite ES. reflexivity.
      * exact HM3.
      * exact HU.
      * exists fl. split; [apply in_or_app; right; exact H1 | exact H2].
    + (* parameter *)
      rewrite HC in HM. destruct rest as [|[uh uv] rest]; [discriminate|].
      apply andb_true_iff in HM as [HM1 HM3]. apply eqb_prop in HM1. subst uh.
      cbn [unshadowed_from] in HU. rewrite HC, ES in HU.
      apply andb_true_iff in HU as [HU1 HU]. apply negb_true_iff in HU1.
      rewrite trav_step. unfold next, next_param. cbn [fst snd].
      rewrite atree_nonroot by apply snoc_nonempty. rewrite anode_has_prefix, HU1.
      rewrite Hn, Hh, eqb_reflx.
      destruct (IH (ps1 ++ [(ph, pv)]) (cur ++ [SParam]) rest (ph, uv)) as [fl [H1 H2]].
      * rewrite HP, <- app_assoc. reflexivity.
      * rewrite psteps_app, Hc. cbn. rewrite ES. reflexivity.
      * exact HM3.
      * exact HU.
      * exists fl. split; [apply in_or_app; right; exact H1 | exact H2].
    + (* trailing wildcard *)
      rewrite HC in HM. destruct ps2 as [|q ps2]; [|discriminate].
      destruct (node_val_has fs f (cur ++ [SWild]) Hf) as [fl [H1 H2]].
      { rewrite HP, psteps_app, Hc. cbn. rewrite ES. reflexivity. }
      exists fl. split; [|exact H2].
      destruct rest as [|u rest].
      * rewrite trav_nil. rewrite HM. apply in_or_app. right. exact H1.
      * rewrite trav_step. apply in_or_app. left. exact H1.
Qed.

(* ---- insensitivity to the load order ---- *)
Definition InT (f : flow) (l : list fnode) : Prop := exists fl, In fl l /\ In f fl.

Lemma InT_app : forall f a b, InT f (a ++ b) <-> InT f a \/ InT f b.
Proof.
  intros f a b. unfold InT. split.
  - intros [fl [H1 H2]]. apply in_app_or in H1 as [H1|H1]; [left|right]; eauto.
  - intros [[fl [H1 H2]]|[fl [H1 H2]]]; exists fl; split; auto using in_or_app.
Qed.

Lemma InT_nil : forall f, InT f [] <-> False.
Proof. intro f. unfold InT. split; [intros [fl [[] _]] | contradiction]. Qed.

Definition vals (n : ninfo fnode) : list fnode :=
  match n_val n with Some v => [v] | None => [] end.

Definition sim (t t' : ftree) : Prop :=
  forall P, match t P, t' P with
            | Some n, Some n' => n_host n = n_host n' /\ (forall f, InT f (vals n) <-> InT f (vals n'))
            | None, None => True
            | _, _ => False
            end.

Lemma sim_node_val : forall t t' p f, sim t t' -> InT f (node_val t p) <-> InT f (node_val t' p).
Proof.
  intros t t' p f HS. specialize (HS p). unfold node_val, val_at.
  destruct (t p) as [n|], (t' p) as [n'|]; try contradiction.
  - destruct HS as [_ HS]. apply HS.
  - reflexivity.
Qed.

Lemma sim_wild_val : forall t t' p f, sim t t' -> InT f (wild_val t p) <-> InT f (wild_val t' p).
Proof. intros. apply (sim_node_val t t' (p ++ [SWild])). assumption. Qed.

Lemma sim_next : forall t t' cur u, sim t t' -> next t cur u = next t' cur u.
Proof.
  intros t t' cur [h v] HS. unfold next, next_param. cbn [fst snd].
  pose proof (HS (cur ++ [SConst v])) as H1. pose proof (HS (cur ++ [SParam])) as H2.
  destruct (t (cur ++ [SConst v])) as [n1|], (t' (cur ++ [SConst v])) as [n1'|]; try contradiction;
  destruct (t (cur ++ [SParam])) as [n2|], (t' (cur ++ [SParam])) as [n2'|]; try contradiction;
  repeat match goal with H : _ /\ _ |- _ => destruct H as [H _]; rewrite H end; reflexivity.
Qed.

Lemma trav_sim : forall t t', sim t t' ->
  forall rest cur lst f, InT f (trav_from t cur rest lst) <-> InT f (trav_from t' cur rest lst).
Proof.
  intros t t' HS. induction rest as [|u rest IH]; intros cur lst f.
  - rewrite !trav_nil, !InT_app. rewrite (sim_node_val t t' cur f HS).
    destruct (fst lst); [rewrite (sim_wild_val t t' cur f HS)|]; reflexivity.
  - rewrite !trav_step, !InT_app. rewrite (sim_wild_val t t' cur f HS).
    rewrite (sim_next t t' cur u HS). destruct (next t' cur u); [rewrite IH|]; reflexivity.
Qed.

Lemma KC_perm : forall fs fs', Permutation fs fs' -> KC fs -> KC fs'.
Proof.
  intros fs fs' HP HK f g Hf Hg. apply Permutation_sym in HP.
  apply HK; eapply Permutation_in; eauto.
Qed.

Lemma anode_perm : forall fs fs' P, Permutation fs fs' -> anode fs P = anode fs' P.
Proof.
  intros fs fs' P HP. unfold anode.
  destruct (existsb (through P) fs) eqn:E1, (existsb (through P) fs') eqn:E2; try reflexivity.
  - apply existsb_exists in E1 as [f [Hf HT]].
    assert (existsb (through P) fs' = true) by (apply existsb_exists; exists f; eauto using Permutation_in).
    congruence.
  - apply existsb_exists in E2 as [f [Hf HT]].
    assert (existsb (through P) fs = true)
      by (apply existsb_exists; exists f; eauto using Permutation_in, Permutation_sym).
    congruence.
Qed.

Lemma InT_anval : forall fs P f,
  InT f (match anval fs P with Some v => [v] | None => [] end) <-> In f (aval fs P).
Proof.
  intros fs P f. unfold anval, InT. destruct (aval fs P) as [|a l] eqn:E.
  - split; [intros [fl [[] _]] | contradiction].
  - split.
    + intros [fl [[H|[]] Hf]]. subst fl. exact Hf.
    + intro H. exists (a :: l). split; [left; reflexivity | exact H].
Qed.

Lemma sim_atree : forall fs fs', Permutation fs fs' -> KC fs -> sim (atree fs) (atree fs').
Proof.
  intros fs fs' HP HK P. destruct P as [|s P].
  - cbn. split; reflexivity.
  - rewrite !atree_nonroot by discriminate. rewrite <- (anode_perm fs fs' _ HP).
    destruct (anode fs (s :: P)) eqn:EA; [|exact I]. split.
    + unfold n_host. cbn [n_part]. unfold anode in EA. apply existsb_exists in EA as [f [Hf HT]].
      rewrite (apart_host fs f) by (auto; discriminate).
      rewrite (apart_host fs' f); auto.
      * eapply KC_perm; eauto.
      * eapply Permutation_in; eauto.
      * discriminate.
    + intro f. unfold vals. cbn [n_val]. rewrite !InT_anval, !aval_in.
      split; intros [H1 H2]; split; eauto using Permutation_in, Permutation_sym.
Qed.

Lemma get_flow_in : forall (t : ftree) x f,
  In f (get_flow t x) <-> InT f (traverse t (split_url (t_url x))) /\ qualifies x f = true.
Proof.
  intros t x f. unfold get_flow, InT. rewrite in_flat_map. split.
  - intros [fl [H1 H2]]. apply filter_In in H2 as [H2 H3]. eauto.
  - intros [[fl [H1 H2]] H3]. exists fl. split; [exact H1|]. apply filter_In. auto.
Qed.
