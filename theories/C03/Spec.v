(* C03 — the property's vocabulary, written from the property text and
   independently of the trie: when does a URL pattern accept a URL, when is a
   pattern shadowed by a more specific literal one, and the two decidable side
   conditions that delimit the open findings F-C03c and F-C03f.
   Executable (boolean) definitions only. *)
From Coq Require Import List ZArith Bool.
From Verif Require Import C03.Trie C03.Model.
Import ListNotations.
Open Scope Z_scope.

(* what a pattern part means *)
Inductive pkind := PLit (t : tok) | PParam | PStar.

Definition classify (t : tok) : pkind :=
  match t with
  | [42] => PStar                                  (* "*" *)
  | 123 :: _ => if last t 0 =? 125 then PParam else PLit t   (* "{...}" *)
  | _ => PLit t
  end.

(* [matches_from lax prev_host pat url]
     literal   = the same token, of the same kind (host label / path segment)
     {p}       = exactly one part of the same kind
     trailing * = at least one further part, of the kind the * was written in
                  (any kind when [lax]); or nothing at all when the URL ends
                  inside the host ("host.com" under "host.com/*")
   [prev_host] = kind of the URL part consumed just before. *)
Fixpoint matches_from (lax prev_host : bool) (pat url : list part) : bool :=
  match pat with
  | [] => match url with [] => true | _ => false end
  | (ph, pv) :: prest =>
      match classify pv with
      | PStar =>
          match prest with
          | [] => match url with
                  | [] => prev_host
                  | (uh, _) :: _ => lax || eqb uh ph
                  end
          | _ => false
          end
      | PLit t =>
          match url with
          | (uh, uv) :: urest => eqb uh ph && tok_eqb t uv && matches_from lax uh prest urest
          | [] => false
          end
      | PParam =>
          match url with
          | (uh, _) :: urest => eqb uh ph && matches_from lax uh prest urest
          | [] => false
          end
      end
  end.

Definition matches (pat url : list part) : bool := matches_from false false pat url.
(* the reading the code implements today (F-C03f): a trailing * swallows parts of any kind *)
Definition matches_lax (pat url : list part) : bool := matches_from true false pat url.

(* the transaction satisfies the flow's own filter *)
Definition satisfied (f : flow) (x : txn) : bool :=
  matches (pat f) (split_url (t_url x)) && qualifies x f.
Definition satisfied_lax (f : flow) (x : txn) : bool :=
  matches_lax (pat f) (split_url (t_url x)) && qualifies x f.

(* some configured pattern starts with the steps [P] *)
Definition has_prefix (fs : list flow) (P : path) : bool :=
  existsb (fun g => prefixb P (psteps (pat g))) fs.

(* "no more specific literal pattern is configured alongside": walking the
   pattern along the URL, wherever the pattern has a parameter no configured
   pattern agrees with it so far and then carries the URL's token literally *)
Fixpoint unshadowed_from (fs : list flow) (cur : path) (pat url : list part) : bool :=
  match pat, url with
  | (_, pv) :: prest, (_, uv) :: urest =>
      (match classify pv with
       | PParam => negb (has_prefix fs (cur ++ [SConst uv]))
       | _ => true
       end)
      && unshadowed_from fs (cur ++ [step_of pv]) prest urest
  | _, _ => true
  end.
Definition unshadowed (fs : list flow) (f : flow) (url : list part) : bool :=
  unshadowed_from fs [] (pat f) url.

(* F-C03c side condition: two patterns that agree step by step up to some
   position also agree there on host label vs path segment *)
Fixpoint kind_compat (p q : list part) : bool :=
  match p, q with
  | (ph, pv) :: p', (qh, qv) :: q' =>
      if step_eqb (step_of pv) (step_of qv) then eqb ph qh && kind_compat p' q' else true
  | _, _ => true
  end.
Definition kind_consistent (fs : list flow) : bool :=
  forallb (fun f => forallb (fun g => kind_compat (pat f) (pat g)) fs) fs.

(* F-C03f side condition: if the pattern ends in * and the URL has a part at
   that position, that part is of the kind the * was written in *)
Definition wild_kind_ok (pat url : list part) : bool :=
  match classify (snd (last pat (false, []))) with
  | PStar =>
      match nth_error url (pred (length pat)) with
      | Some (uh, _) => eqb uh (fst (last pat (false, [])))
      | None => true
      end
  | _ => true
  end.

(* a * occurs only as the very last part ("trailing wildcard") *)
Fixpoint star_last (ps : list part) : bool :=
  match ps with
  | [] => true
  | [_] => true
  | p :: r => negb (is_wild (snd p)) && star_last r
  end.
Definition stars_last (fs : list flow) : bool := forallb (fun f => star_last (pat f)) fs.

(* ---- the flow's OWN method / header / query / status requirements, in words ---- *)
Definition method_holds (f : flow) (x : txn) : Prop :=
  match f_methods f with
  | [] => f_kind f = 0 \/ In (t_method x) default_methods  (* none listed: any verb (system flows: the five defaults) *)
  | l => In (t_method x) l
  end.
(* every required header name is present (looked up lower-cased) with one of the
   values listed for that name, compared case-insensitively *)
Definition headers_hold (f : flow) (x : txn) : Prop :=
  forall k v, In (k, v) (f_headers f) ->
    exists v' have, In (k, v') (f_headers f) /\
                    assoc (lower k) (t_headers x) = Some have /\ lower have = lower v'.
(* every required query parameter is present and its (first) value is the required one *)
Definition query_holds (f : flow) (x : txn) : Prop :=
  forall k v, In (k, v) (f_query f) -> assoc k (t_query x) = Some v.
(* no status code required, or there IS a response and it carries one of the required codes *)
Definition status_holds (f : flow) (x : txn) : Prop :=
  f_status f = [] \/ exists st, resp_status x = Some st /\ In st (f_status f).
(* headers and query are judged on requests, status codes on responses *)
Definition constraints_hold (f : flow) (x : txn) : Prop :=
  method_holds f x /\
  (t_resp x = false -> headers_hold f x /\ query_holds f x) /\
  (t_resp x = true -> status_holds f x).
