(* C03 — the final lemmas about [get_flow (build flows)], assembled from the
   representation lemma (Repr.v) and the traversal lemmas (Select.v). *)
From Coq Require Import List ZArith Bool Lia Permutation.
From Verif Require Import C03.Trie C03.Model C03.Spec C03.Basics C03.Repr C03.Select.
Import ListNotations.
Open Scope Z_scope.

Definition url_of (x : txn) : list part := split_url (t_url x).
Definition tree_of (fs : list flow) : ftree := fst (build fs).

Lemma get_flow_repr : forall fs x f,
  load_ok fs = true -> stars_last fs = true ->
  (In f (get_flow (tree_of fs) x) <->
   InT f (trav_from (atree fs) [] (url_of x) (false, [])) /\ qualifies x f = true).
Proof.
  intros fs x f HL HS. rewrite get_flow_in.
  rewrite (traverse_ext (tree_of fs) (atree fs)) by (apply build_repr; assumption).
  rewrite traverse_trav. reflexivity.
Qed.

Lemma sound : forall fs x f,
  load_ok fs = true -> stars_last fs = true -> kind_consistent fs = true ->
  In f (get_flow (tree_of fs) x) ->
  In f fs /\ qualifies x f = true /\
  matches_lax (pat f) (url_of x) = true /\
  (wild_kind_ok (pat f) (url_of x) = true -> matches (pat f) (url_of x) = true).
Proof.
  intros fs x f HL HS HK H. apply get_flow_repr in H as [[fl [H1 H2]] HQ]; try assumption.
  apply kind_consistent_KC in HK.
  destruct (trav_sound fs HK (url_of x) [] [] (false, []) fl f (Good_nil fs) eq_refl H1 H2) as [Hin HM].
  cbn [app] in HM. repeat split; try assumption.
  - apply HM. left. reflexivity.
  - intro HW. apply HM. right. exact HW.
Qed.

Lemma complete : forall fs x f,
  load_ok fs = true -> stars_last fs = true -> kind_consistent fs = true ->
  In f fs -> satisfied f x = true -> unshadowed fs f (url_of x) = true ->
  In f (get_flow (tree_of fs) x).
Proof.
  intros fs x f HL HS HK Hf Hsat HU. unfold satisfied in Hsat.
  apply andb_true_iff in Hsat as [HM HQ]. apply get_flow_repr; try assumption.
  split; [|exact HQ]. apply kind_consistent_KC in HK.
  apply (trav_complete fs f HK Hf (pat f) [] [] (url_of x) (false, [])); auto.
Qed.

Lemma stars_last_perm : forall fs fs', Permutation fs fs' -> stars_last fs = true -> stars_last fs' = true.
Proof.
  intros fs fs' HP H. unfold stars_last in *. rewrite forallb_forall in *.
  intros f Hf. apply H. apply Permutation_sym in HP. eapply Permutation_in; eauto.
Qed.

Lemma order_independent : forall fs fs' x f,
  Permutation fs fs' ->
  load_ok fs = true -> load_ok fs' = true -> stars_last fs = true -> kind_consistent fs = true ->
  (In f (get_flow (tree_of fs) x) <-> In f (get_flow (tree_of fs') x)).
Proof.
  intros fs fs' x f HP HL HL' HS HK.
  assert (HS' : stars_last fs' = true) by (eapply stars_last_perm; eauto).
  rewrite !get_flow_repr by assumption. apply kind_consistent_KC in HK.
  rewrite (trav_sim _ _ (sim_atree fs fs' HP HK)). reflexivity.
Qed.

Lemma no_match_no_action : forall (A : Type) (run : list flow -> txn -> A -> A) fs x acts,
  load_ok fs = true -> stars_last fs = true -> kind_consistent fs = true ->
  (forall f, In f fs -> satisfied_lax f x = false) ->
  exec_flow run (tree_of fs) x acts = (acts, []).
Proof.
  intros A run fs x acts HL HS HK HN. unfold exec_flow.
  destruct (get_flow (tree_of fs) x) as [|f l] eqn:E; [reflexivity|]. exfalso.
  assert (Hin : In f (get_flow (tree_of fs) x)) by (rewrite E; left; reflexivity).
  destruct (sound _ _ _ HL HS HK Hin) as [Hf [HQ [HM _]]].
  specialize (HN f Hf). unfold satisfied_lax in HN. fold (url_of x) in HN.
  rewrite HM, HQ in HN. discriminate.
Qed.

Lemma wild_kind_ok_cons : forall p q ps u url,
  wild_kind_ok (p :: q :: ps) (u :: url) = wild_kind_ok (q :: ps) url.
Proof. intros. unfold wild_kind_ok. rewrite last_cons_cons. reflexivity. Qed.

Lemma matches_nil_lax : forall lax lax' b url, matches_from lax b [] url = matches_from lax' b [] url.
Proof. reflexivity. Qed.

(* the lax and the strict reading differ only in the kind test under a trailing wildcard *)
Lemma lax_strict : forall ps b url,
  matches_from true b ps url = true -> wild_kind_ok ps url = true ->
  matches_from false b ps url = true.
Proof.
  induction ps as [|[ph pv] ps IH]; intros b url EL HW; [exact EL|].
  cbn [matches_from] in *. destruct (classify pv) eqn:EC.
  - destruct url as [|[uh uv] url]; [discriminate|].
    apply andb_true_iff in EL as [EL1 EL2]. rewrite EL1. cbn [andb].
    destruct ps as [|q ps]; [exact EL2|].
    apply IH; [exact EL2|]. rewrite wild_kind_ok_cons in HW. exact HW.
  - destruct url as [|[uh uv] url]; [discriminate|].
    apply andb_true_iff in EL as [EL1 EL2]. rewrite EL1. cbn [andb].
    destruct ps as [|q ps]; [exact EL2|].
    apply IH; [exact EL2|]. rewrite wild_kind_ok_cons in HW. exact HW.
  - destruct ps as [|q ps]; [|discriminate].
    destruct url as [|[uh uv] url]; [exact EL|].
    unfold wild_kind_ok in HW. cbn [last fst snd length pred nth_error] in HW.
    rewrite EC in HW. rewrite HW. reflexivity.
Qed.

Lemma satisfied_lax_of_strict : forall f x,
  satisfied f x = false -> wild_kind_ok (pat f) (url_of x) = true -> satisfied_lax f x = false.
Proof.
  intros f x H HW. unfold satisfied, satisfied_lax in *. fold (url_of x) in *.
  destruct (qualifies x f); [|apply andb_false_r]. rewrite andb_true_r in *.
  destruct (matches_lax (pat f) (url_of x)) eqn:EL; [|reflexivity].
  unfold matches in H. rewrite (lax_strict _ _ _ EL HW) in H. discriminate.
Qed.

(* ---- qualification = the flow's own requirements ---- *)
Lemma existsb_tok : forall y l, existsb (fun m => tok_eqb m y) l = true <-> In y l.
Proof.
  intros y l. rewrite existsb_exists. split.
  - intros [m [H1 H2]]. apply tok_eqb_eq in H2. subst. exact H1.
  - intro H. exists y. split; [exact H | apply tok_eqb_refl].
Qed.

Lemma method_ok_iff : forall f x, method_ok f x = true <-> method_holds f x.
Proof.
  intros f x. unfold method_ok, method_holds. destruct (f_methods f) as [|m l].
  - rewrite orb_true_iff, Z.eqb_eq, existsb_tok. reflexivity.
  - apply existsb_tok.
Qed.

Lemma status_ok_iff : forall f x, t_resp x = true -> (status_ok f x = true <-> status_holds f x).
Proof.
  intros f x HR. unfold status_ok, status_holds. rewrite HR. cbn [negb orb].
  destruct (f_status f) as [|s l].
  - split; auto.
  - destruct (resp_status x) as [st|].
    + rewrite existsb_exists. split.
      * intros [y [H1 H2]]. apply Z.eqb_eq in H2. subst y. right. exists st. auto.
      * intros [H|[st' [E H]]]; [discriminate|]. inversion E; subst st'.
        exists st. split; [exact H | apply Z.eqb_refl].
    + split; [discriminate|]. intros [H|[st' [E _]]]; discriminate.
Qed.

Lemma query_ok_iff : forall f x, t_resp x = false -> (query_ok f x = true <-> query_holds f x).
Proof.
  intros f x HR. unfold query_ok, query_holds. rewrite HR. cbn [orb]. rewrite forallb_forall. split.
  - intros H k v Hin. specialize (H (k, v) Hin). cbn [fst snd] in H.
    destruct (assoc k (t_query x)) as [v0|]; [|discriminate]. apply tok_eqb_eq in H. congruence.
  - intros H [k v] Hin. cbn [fst snd]. rewrite (H k v Hin). apply tok_eqb_refl.
Qed.

Lemma headers_ok_iff : forall f x, t_resp x = false -> (headers_ok f x = true <-> headers_hold f x).
Proof.
  intros f x HR. unfold headers_ok, headers_hold. rewrite HR. cbn [orb]. rewrite forallb_forall. split.
  - intros H k v Hin. specialize (H (k, v) Hin). cbn [fst] in H.
    apply existsb_exists in H as [[k' v'] [Hin' H]]. cbn [fst snd] in H.
    apply andb_true_iff in H as [H1 H2]. apply tok_eqb_eq in H1. subst k'.
    unfold header_matches in H2. destruct (assoc (lower k) (t_headers x)) as [have|] eqn:E; [|discriminate].
    unfold equal_fold in H2. apply tok_eqb_eq in H2. exists v', have. auto.
  - intros H [k v] Hin. cbn [fst]. destruct (H k v Hin) as [v' [have [H1 [H2 H3]]]].
    apply existsb_exists. exists (k, v'). split; [exact H1|]. cbn [fst snd].
    rewrite tok_eqb_refl. cbn [andb]. unfold header_matches. rewrite H2. unfold equal_fold.
    rewrite H3. apply tok_eqb_refl.
Qed.

Lemma qualifies_iff : forall f x, qualifies x f = true <-> constraints_hold f x.
Proof.
  intros f x. unfold qualifies, constraints_hold. rewrite !andb_true_iff.
  rewrite method_ok_iff. destruct (t_resp x) eqn:HR.
  - rewrite (status_ok_iff f x HR). unfold headers_ok, query_ok. rewrite HR. cbn [orb].
    split.
    + intros [[[_ H1] H2] _]. split; [exact H2|]. split; [discriminate | auto].
    + intros [H1 [_ H2]]. auto.
  - rewrite (headers_ok_iff f x HR), (query_ok_iff f x HR). unfold status_ok. rewrite HR. cbn [negb orb].
    split.
    + intros [[[H1 _] H2] H3]. split; [exact H2|]. split; [auto | discriminate].
    + intros [H1 [H2 _]]. destruct (H2 eq_refl). auto.
Qed.
