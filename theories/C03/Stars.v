(* C03 — [stars_last] is not a hypothesis: a configuration the loader accepts
   ([load_ok]) has * only as the last part of every pattern.  validateURL
   compares INDICES (a wildcard is rejected everywhere but in the last URL
   part), and a flow that is appended to an existing node without being
   validated shares its step path with the validated flow that created the
   node's value.  Consequence: the representation lemma needs [load_ok] only. *)
From Coq Require Import List ZArith Bool Lia.
From Verif Require Import C03.Trie C03.Model C03.Spec C03.Basics C03.Repr.
Import ListNotations.
Open Scope Z_scope.

(* [star_last] only looks at the steps *)
Fixpoint path_star_last (P : path) : bool :=
  match P with
  | [] => true
  | [_] => true
  | s :: r => negb (step_eqb s SWild) && path_star_last r
  end.

Lemma is_wild_step_eqb : forall t, is_wild t = step_eqb (step_of t) SWild.
Proof.
  intro t. destruct (is_wild t) eqn:E.
  - apply is_wild_step in E. rewrite E. reflexivity.
  - destruct (step_of t) eqn:S; try reflexivity.
    apply is_wild_step in S. congruence.
Qed.

Lemma star_last_psteps : forall ps, star_last ps = path_star_last (psteps ps).
Proof.
  induction ps as [|p r IH]; [reflexivity|].
  destruct r as [|q r']; [reflexivity|].
  change (star_last (p :: q :: r')) with (negb (is_wild (snd p)) && star_last (q :: r')).
  rewrite IH, is_wild_step_eqb. reflexivity.
Qed.

Lemma validate_star_last : forall ps, validate ps = true -> star_last ps = true.
Proof.
  induction ps as [|p r IH]; intro H; [reflexivity|].
  cbn [validate] in H. apply andb_true_iff in H as [H H3]. apply andb_true_iff in H as [_ H2].
  destruct r as [|q r']; [reflexivity|].
  change (star_last (p :: q :: r')) with (negb (is_wild (snd p)) && star_last (q :: r')).
  rewrite (IH H3), andb_true_r. rewrite orb_false_r in H2. exact H2.
Qed.

Lemma insert_declared_ok_validate : forall (t t' : ftree) ps v,
  insert_declared t ps v = (t', false) -> validate ps = true.
Proof.
  intros t t' ps v H. unfold insert_declared in H.
  destruct (validate ps); [reflexivity | inversion H].
Qed.

(* an accepted AddFlow: the pattern has its * last *)
Lemma add_flow_star_last : forall fs (t t' : ftree) f,
  Inv fs t -> stars_last fs = true -> add_flow t f = (t', false) -> star_last (pat f) = true.
Proof.
  intros fs t t' f HI SLs H. unfold add_flow in H.
  destruct (find_decl t [] (pat f)) as [p|] eqn:EF.
  2:{ apply validate_star_last. eapply insert_declared_ok_validate; eauto. }
  assert (p = psteps (pat f)) by (apply find_decl_path in EF; exact EF). subst p.
  destruct (t (psteps (pat f))) as [n|] eqn:En.
  2:{ apply validate_star_last. eapply insert_declared_ok_validate; eauto. }
  destruct (n_val n) as [fl|] eqn:Ev.
  2:{ apply validate_star_last. eapply insert_declared_ok_validate; eauto. }
  (* appended: some earlier flow g was declared on the same step path *)
  destruct (Inv_node _ _ _ _ HI (psteps_pat_nonempty f) En) as [_ [_ HV]].
  rewrite Ev in HV. unfold anval in HV.
  destruct (aval fs (psteps (pat f))) as [|g l] eqn:EA; [discriminate|].
  assert (Hg : In g (aval fs (psteps (pat f)))) by (rewrite EA; left; reflexivity).
  apply aval_in in Hg as [Hg HP].
  unfold stars_last in SLs. rewrite forallb_forall in SLs. specialize (SLs g Hg).
  rewrite star_last_psteps in *. rewrite <- HP. exact SLs.
Qed.

Lemma build_from_inv_stars : forall fs2 fs1 (t t' : ftree) es,
  Inv fs1 t -> stars_last fs1 = true ->
  build_from t fs2 = (t', es) -> forallb negb es = true ->
  Inv (fs1 ++ fs2) t' /\ stars_last (fs1 ++ fs2) = true.
Proof.
  induction fs2 as [|f rest IH]; intros fs1 t t' es HI SL HB HE.
  - cbn in HB. inversion HB; subst. rewrite app_nil_r. auto.
  - cbn in HB. destruct (add_flow t f) as [t1 e] eqn:EA.
    destruct (build_from t1 rest) as [t2 es2] eqn:EB. inversion HB; subst. clear HB.
    cbn in HE. apply andb_true_iff in HE as [He HE]. destruct e; [discriminate|].
    assert (SLf : star_last (pat f) = true) by (eapply add_flow_star_last; eauto).
    replace (fs1 ++ f :: rest) with ((fs1 ++ [f]) ++ rest) by (rewrite <- app_assoc; reflexivity).
    eapply IH; eauto.
    + eapply add_flow_inv; eauto.
    + rewrite stars_last_app, SL. cbn. rewrite SLf. reflexivity.
Qed.

(* every accepted configuration has its wildcards last *)
Theorem load_ok_stars_last : forall fs, load_ok fs = true -> stars_last fs = true.
Proof.
  intros fs HL. unfold load_ok, build in HL.
  destruct (build_from empty fs) as [t es] eqn:EB. cbn in HL.
  change fs with ([] ++ fs).
  apply (build_from_inv_stars fs [] empty t es Inv_empty eq_refl EB HL).
Qed.

(* the representation lemma with [load_ok] as its only hypothesis *)
Theorem build_repr_load : forall fs, load_ok fs = true -> Inv fs (fst (build fs)).
Proof. intros fs HL. apply build_repr; [exact HL | apply load_ok_stars_last; exact HL]. Qed.
