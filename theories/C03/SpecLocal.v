(* C03 — vocabulary, part 2 (executable definitions only): the side condition
   of the open finding F-C03c LOCALISED to the flow and the URL in question,
   the kind-aware reading of "no more specific literal pattern is configured
   alongside", and the natural (narrower) reading of that proviso which the
   code does not honour (open finding F-C03g: lookupFlow never backtracks). *)
From Coq Require Import List ZArith Bool.
From Verif Require Import C03.Trie C03.Model C03.Spec.
Import ListNotations.
Open Scope Z_scope.

(* ---- F-C03c, localised ----
   The lookup of a URL reads the kind (host label / path segment) of a node only
   when the node's step accepts the URL's token at that position: a literal
   equal to the token, or a parameter (the kind of a wildcard child is never
   read).  Two patterns collide FOR THIS URL when they agree step by step, along
   steps that accept the URL's tokens, up to a position where they disagree on
   the kind. *)
Definition step_fits (s : step) (uv : tok) : bool :=
  match s with
  | SConst t => tok_eqb t uv
  | SParam => true
  | SWild => false
  end.

Fixpoint kind_compat_on (url p q : list part) : bool :=
  match url, p, q with
  | (_, uv) :: url', (ph, pv) :: p', (qh, qv) :: q' =>
      if step_eqb (step_of pv) (step_of qv) && step_fits (step_of pv) uv
      then eqb ph qh && kind_compat_on url' p' q'
      else true
  | _, _, _ => true
  end.

(* no configured pattern collides with f's pattern on this URL *)
Definition kc_at (fs : list flow) (f : flow) (url : list part) : bool :=
  forallb (fun g => kind_compat_on url (pat f) (pat g)) fs.
(* no two configured patterns collide on this URL *)
Definition kc_url (fs : list flow) (url : list part) : bool :=
  forallb (fun f => kc_at fs f url) fs.

(* ---- the shadowing proviso, kind-aware ----
   some configured pattern starts with the steps [P] and its part at the last
   position of [P] is of kind [h] *)
Definition has_prefix_k (fs : list flow) (P : path) (h : bool) : bool :=
  existsb (fun g => prefixb P (psteps (pat g))
                    && eqb (fst (nth (pred (length P)) (pat g) (false, []))) h) fs.

(* "no more specific literal pattern is configured alongside": wherever the
   pattern has a parameter, no configured pattern agrees with it so far and
   then carries the URL's token literally AS A PART OF THE SAME KIND *)
Fixpoint unshadowed_from_k (fs : list flow) (cur : path) (pat url : list part) : bool :=
  match pat, url with
  | (_, pv) :: prest, (uh, uv) :: urest =>
      (match classify pv with
       | PParam => negb (has_prefix_k fs (cur ++ [SConst uv]) uh)
       | _ => true
       end)
      && unshadowed_from_k fs (cur ++ [step_of pv]) prest urest
  | _, _ => true
  end.
Definition unshadowed_k (fs : list flow) (f : flow) (url : list part) : bool :=
  unshadowed_from_k fs [] (pat f) url.

(* the same, pattern by pattern: [q] is more specific than [p] for this URL *)
Fixpoint more_specific_from (p q url : list part) : bool :=
  match p, q, url with
  | (_, pv) :: p', (qh, qv) :: q', (uh, uv) :: url' =>
      (match classify pv with
       | PParam => step_eqb (step_of qv) (SConst uv) && eqb qh uh
       | _ => false
       end)
      || (step_eqb (step_of pv) (step_of qv) && more_specific_from p' q' url')
  | _, _, _ => false
  end.
Definition shadowed_k (fs : list flow) (f : flow) (url : list part) : bool :=
  existsb (fun g => more_specific_from (pat f) (pat g) url) fs.

(* ---- the natural reading of the proviso (F-C03g) ----
   the most generous reading of "the pattern accepts the URL": kinds and
   literals as always, a trailing * accepts ANY remainder (also none, also of
   the other kind) *)
Fixpoint accepts_may (pat url : list part) : bool :=
  match pat with
  | [] => match url with [] => true | _ => false end
  | (ph, pv) :: prest =>
      match classify pv with
      | PStar => match prest with [] => true | _ => false end
      | PLit t =>
          match url with
          | (uh, uv) :: urest => eqb uh ph && tok_eqb t uv && accepts_may prest urest
          | [] => false
          end
      | PParam =>
          match url with
          | (uh, _) :: urest => eqb uh ph && accepts_may prest urest
          | [] => false
          end
      end
  end.

(* a more specific pattern that itself accepts the URL is configured alongside *)
Definition shadowed_by_matching (fs : list flow) (f : flow) (url : list part) : bool :=
  existsb (fun g => more_specific_from (pat f) (pat g) url && accepts_may (pat g) url) fs.

(* F-C03g: the flow is shadowed only by patterns that do NOT accept the URL *)
Definition no_backtrack_zone (fs : list flow) (f : flow) (url : list part) : bool :=
  shadowed_k fs f url && negb (shadowed_by_matching fs f url).

(* F-C03f, per (flow, transaction): accepted only because a trailing * swallowed
   a part of the other kind *)
Definition wildcard_kind_zone (f : flow) (x : txn) : bool :=
  qualifies x f && matches_lax (pat f) (split_url (t_url x))
  && negb (matches (pat f) (split_url (t_url x))).

(* ---- which configurations the loader accepts, declaratively ----
   two patterns that agree step by step up to a {parameter} position give that
   parameter the same name (InsertDeclaredURL refuses a second name) *)
Fixpoint name_compat (p q : list part) : bool :=
  match p, q with
  | (_, pv) :: p', (_, qv) :: q' =>
      if step_eqb (step_of pv) (step_of qv)
      then (match step_of pv with
            | SParam => tok_eqb (param_name pv) (param_name qv)
            | _ => true
            end) && name_compat p' q'
      else true
  | _, _ => true
  end.

Definition accepted (fs : list flow) : bool :=
  forallb (fun f => validate (pat f)) fs
  && forallb (fun f => forallb (fun g => name_compat (pat f) (pat g)) fs) fs.

