(* C03 — which configurations the loader accepts, declaratively: [load_ok fs]
   holds iff every pattern passes validateURL and no two patterns that agree step
   by step up to a {parameter} position name that parameter differently.  Both
   conditions speak about the SET of flows, so acceptance does not depend on the
   load order. *)
From Coq Require Import List ZArith Bool Lia Permutation.
From Verif Require Import C03.Trie C03.Model C03.Spec C03.SpecLocal C03.Basics C03.Repr C03.Select C03.Stars.
Import ListNotations.
Open Scope Z_scope.

(* ---- Prop form ---- *)
Definition NC (fs : list flow) : Prop :=
  forall f g, In f fs -> In g fs -> name_compat (pat f) (pat g) = true.
Definition Acc (fs : list flow) : Prop :=
  (forall f, In f fs -> validate (pat f) = true) /\ NC fs.

Lemma accepted_Acc : forall fs, accepted fs = true <-> Acc fs.
Proof.
  intro fs. unfold accepted, Acc, NC. rewrite andb_true_iff, !forallb_forall. split.
  - intros [H1 H2]. split; [exact H1|]. intros f g Hf Hg. specialize (H2 f Hf).
    rewrite forallb_forall in H2. auto.
  - intros [H1 H2]. split; [exact H1|]. intros f Hf. rewrite forallb_forall. auto.
Qed.

Lemma Acc_perm : forall fs fs', Permutation fs fs' -> Acc fs -> Acc fs'.
Proof.
  intros fs fs' HP [H1 H2]. apply Permutation_sym in HP. split.
  - intros f Hf. apply H1. eapply Permutation_in; eauto.
  - intros f g Hf Hg. apply H2; eapply Permutation_in; eauto.
Qed.

(* ---- validateURL only looks at the steps ---- *)
Fixpoint path_valid (P : path) : bool :=
  match P with
  | [] => true
  | s :: r =>
      negb (step_eqb s (SConst []))
      && (negb (step_eqb s SWild) || match r with [] => true | _ :: _ => false end)
      && path_valid r
  end.

Lemma empty_tok_step : forall t, tok_eqb t [] = step_eqb (step_of t) (SConst []).
Proof.
  intro t. pose proof (classify_step t) as HC. destruct (step_of t) as [c| |] eqn:ES.
  - destruct HC as [_ ->]. reflexivity.
  - destruct t; [discriminate ES | reflexivity].
  - destruct t; [discriminate ES | reflexivity].
Qed.

Lemma validate_psteps : forall ps, validate ps = path_valid (psteps ps).
Proof.
  induction ps as [|p r IH]; [reflexivity|].
  rewrite psteps_cons. cbn [validate path_valid]. rewrite IH, empty_tok_step, is_wild_step_eqb.
  destruct r; reflexivity.
Qed.

(* ---- name_compat ---- *)
Lemma tok_eqb_sym : forall a b, tok_eqb a b = tok_eqb b a.
Proof.
  intros a b. destruct (tok_eqb a b) eqn:E1, (tok_eqb b a) eqn:E2; try reflexivity.
  - apply tok_eqb_eq in E1. subst. rewrite tok_eqb_refl in E2. discriminate.
  - apply tok_eqb_eq in E2. subst. rewrite tok_eqb_refl in E1. discriminate.
Qed.

Lemma step_eqb_sym' : forall a b, step_eqb a b = step_eqb b a.
Proof.
  intros a b. destruct (step_eqb a b) eqn:E1, (step_eqb b a) eqn:E2; try reflexivity.
  - apply step_eqb_eq in E1. subst. rewrite step_eqb_refl in E2. discriminate.
  - apply step_eqb_eq in E2. subst. rewrite step_eqb_refl in E1. discriminate.
Qed.

Lemma name_compat_sym : forall p q, name_compat p q = name_compat q p.
Proof.
  induction p as [|[ph pv] p IH]; intros [|[qh qv] q]; try reflexivity.
  cbn [name_compat]. rewrite (step_eqb_sym' (step_of qv)).
  destruct (step_eqb (step_of pv) (step_of qv)) eqn:E; [|reflexivity].
  apply step_eqb_eq in E. rewrite <- E, IH, (tok_eqb_sym (param_name qv)). reflexivity.
Qed.

Lemma name_compat_refl : forall p, name_compat p p = true.
Proof.
  induction p as [|[ph pv] p IH]; [reflexivity|]. cbn [name_compat].
  rewrite step_eqb_refl, IH, tok_eqb_refl. destruct (step_of pv); reflexivity.
Qed.

Definition pname_at (ps : list part) (i : nat) : tok := param_name (snd (nth i ps dpart)).

(* two compatible patterns through a common prefix name its parameters alike *)
Lemma name_compat_nth : forall p q P i,
  name_compat p q = true -> prefixb P (psteps p) = true -> prefixb P (psteps q) = true ->
  nth_error P i = Some SParam -> pname_at p i = pname_at q i.
Proof.
  induction p as [|[ph pv] p' IH]; intros q P i HK Hp Hq Hi.
  - destruct P; [destruct i; discriminate | discriminate].
  - destruct P as [|s P']; [destruct i; discriminate|].
    destruct q as [|[qh qv] q']; [discriminate|].
    rewrite psteps_cons in Hp, Hq. cbn in Hp, Hq.
    apply andb_true_iff in Hp as [Hs1 Hp]. apply andb_true_iff in Hq as [Hs2 Hq].
    apply step_eqb_eq in Hs1, Hs2. cbn [snd] in *. subst s.
    cbn [name_compat] in HK. rewrite <- Hs2, step_eqb_refl in HK.
    apply andb_true_iff in HK as [Hn HK].
    destruct i as [|i].
    + cbn in Hi. inversion Hi as [Hi']. rewrite Hi' in Hn. apply tok_eqb_eq in Hn.
      unfold pname_at. cbn. exact Hn.
    + unfold pname_at. cbn [nth]. eapply IH; eauto.
Qed.

(* conversely *)
Lemma name_compat_intro : forall p q,
  (forall P i, prefixb P (psteps p) = true -> prefixb P (psteps q) = true ->
               nth_error P i = Some SParam -> pname_at p i = pname_at q i) ->
  name_compat p q = true.
Proof.
  induction p as [|[ph pv] p' IH]; intros q H; [reflexivity|].
  destruct q as [|[qh qv] q']; [reflexivity|]. cbn [name_compat].
  destruct (step_eqb (step_of pv) (step_of qv)) eqn:E; [|reflexivity].
  apply step_eqb_eq in E. apply andb_true_iff. split.
  - destruct (step_of pv) eqn:ES; try reflexivity.
    specialize (H [SParam] 0%nat). unfold pname_at in H. cbn in H.
    apply tok_eqb_eq. apply H; try reflexivity.
    + rewrite ES. reflexivity.
    + rewrite <- E. reflexivity.
  - apply IH. intros P i Hp Hq Hi.
    specialize (H (step_of pv :: P) (S i)). unfold pname_at in *. cbn [nth] in H. apply H.
    + rewrite psteps_cons. cbn. rewrite step_eqb_refl. exact Hp.
    + rewrite psteps_cons. cbn. rewrite E, step_eqb_refl. exact Hq.
    + exact Hi.
Qed.

(* the name a parametric node remembers is the one every flow through it uses *)
Lemma apart_name : forall fs g cur,
  NC fs -> In g fs -> through (cur ++ [SParam]) g = true ->
  param_name (snd (apart fs (cur ++ [SParam]))) = pname_at (pat g) (length cur).
Proof.
  intros fs g cur HN Hg HT. unfold apart.
  assert (HE : existsb (through (cur ++ [SParam])) fs = true) by (apply existsb_exists; eauto).
  apply existsb_find in HE as [h [HF [Hh HTh]]]. rewrite HF.
  rewrite app_length. cbn [length]. rewrite Nat.add_1_r. cbn [pred].
  apply (name_compat_nth (pat h) (pat g) (cur ++ [SParam]) (length cur)); auto.
  rewrite nth_error_app2 by lia. rewrite Nat.sub_diag. reflexivity.
Qed.

Definition n_pname' (n : ninfo fnode) : tok := param_name (snd (n_part n)).

(* ---- what a successful / failed walk says about parameter names ---- *)
Lemma find_decl_names : forall ps (t : ftree) cur p,
  find_decl t cur ps = Some p ->
  forall ps1 pt ps2, ps = ps1 ++ pt :: ps2 -> step_of (snd pt) = SParam ->
  exists n, t (cur ++ psteps ps1 ++ [SParam]) = Some n /\ param_name (snd pt) = n_pname n.
Proof.
  induction ps as [|pt0 rest IH]; intros t cur p H ps1 pt ps2 HP HS.
  - destruct ps1; discriminate.
  - cbn [find_decl] in H. destruct (t (cur ++ [step_of (snd pt0)])) as [n|] eqn:E; [|discriminate].
    destruct ps1 as [|q ps1'].
    + cbn in HP. inversion HP; subst pt0 rest. rewrite HS in *. cbn [psteps map app].
      destruct (tok_eqb (param_name (snd pt)) (n_pname n)) eqn:ET; [|discriminate].
      exists n. split; [exact E | apply tok_eqb_eq; exact ET].
    + cbn in HP. inversion HP; subst q rest.
      assert (H' : find_decl t (cur ++ [step_of (snd pt0)]) (ps1' ++ pt :: ps2) = Some p).
      { destruct (step_of (snd pt0)); auto.
        destruct (tok_eqb (param_name (snd pt0)) (n_pname n)); [exact H | discriminate]. }
      destruct (IH _ _ _ H' ps1' pt ps2 eq_refl HS) as [n' [Hn' Hname]].
      exists n'. split; [|exact Hname].
      rewrite psteps_cons. cbn [app]. rewrite <- Hn'. rewrite <- app_assoc. reflexivity.
Qed.

Lemma upd_other : forall (t : ftree) p n Q, length Q <> length p -> upd t p n Q = t Q.
Proof.
  intros t p n Q H. unfold upd.
  assert (path_eqb Q p = false) as -> by (apply path_eqb_neq; intro; subst; contradiction).
  reflexivity.
Qed.

Lemma deeper_len : forall (cur : path) s ps1, length (cur ++ [s] ++ ps1 ++ [SParam]) <> length (cur ++ [s]).
Proof. intros. rewrite !app_length. cbn. lia. Qed.

Lemma ins_walk_names : forall ps (t t1 : ftree) cur r,
  star_last ps = true -> ins_walk t cur ps = (t1, r) ->
  match r with
  | Some _ =>
      forall ps1 pt ps2 n, ps = ps1 ++ pt :: ps2 -> step_of (snd pt) = SParam ->
        t (cur ++ psteps ps1 ++ [SParam]) = Some n -> param_name (snd pt) = n_pname n
  | None =>
      exists ps1 pt ps2 n, ps = ps1 ++ pt :: ps2 /\ step_of (snd pt) = SParam /\
        t (cur ++ psteps ps1 ++ [SParam]) = Some n /\ param_name (snd pt) <> n_pname n
  end.
Proof.
  induction ps as [|pt0 rest IH]; intros t t1 cur r SL H.
  - cbn in H. inversion H; subst. intros ps1 pt ps2 n HP. destruct ps1; discriminate.
  - cbn [ins_walk] in H. set (p0 := cur ++ [step_of (snd pt0)]) in *.
    assert (SLr : star_last rest = true) by (eapply star_last_tail; eauto).
    (* the recursive call, over a tree that agrees with t strictly below p0 *)
    assert (REC : forall t' : ftree,
              (forall ps1, t' (p0 ++ psteps ps1 ++ [SParam]) = t (p0 ++ psteps ps1 ++ [SParam])) ->
              ins_walk t' p0 rest = (t1, r) ->
              match r with
              | Some _ =>
                  forall ps1 pt ps2 n, rest = ps1 ++ pt :: ps2 -> step_of (snd pt) = SParam ->
                    t (cur ++ psteps (pt0 :: ps1) ++ [SParam]) = Some n -> param_name (snd pt) = n_pname n
              | None =>
                  exists ps1 pt ps2 n, rest = ps1 ++ pt :: ps2 /\ step_of (snd pt) = SParam /\
                    t (cur ++ psteps (pt0 :: ps1) ++ [SParam]) = Some n /\ param_name (snd pt) <> n_pname n
              end).
    { intros t' Ht' H'. specialize (IH t' t1 p0 r SLr H'). destruct r.
      - intros ps1 pt ps2 n HP HS Hn. apply (IH ps1 pt ps2 n HP HS).
        rewrite Ht'. rewrite <- Hn. rewrite psteps_cons. unfold p0. rewrite <- !app_assoc. reflexivity.
      - destruct IH as [ps1 [pt [ps2 [n [HP [HS [Hn Hne]]]]]]]. exists ps1, pt, ps2, n.
        repeat split; auto. rewrite <- Hn, Ht'. rewrite psteps_cons. unfold p0. rewrite <- !app_assoc. reflexivity. }
    assert (UPD : forall n0 ps1, upd t p0 n0 (p0 ++ psteps ps1 ++ [SParam]) = t (p0 ++ psteps ps1 ++ [SParam])).
    { intros n0 ps1. apply upd_other. unfold p0. rewrite <- app_assoc. apply deeper_len. }
    (* lift a statement about [rest] to one about [pt0 :: rest] *)
    assert (LIFT_S : forall (first : forall n, step_of (snd pt0) = SParam -> t (cur ++ [SParam]) = Some n ->
                                    param_name (snd pt0) = n_pname n),
              (forall ps1 pt ps2 n, rest = ps1 ++ pt :: ps2 -> step_of (snd pt) = SParam ->
                 t (cur ++ psteps (pt0 :: ps1) ++ [SParam]) = Some n -> param_name (snd pt) = n_pname n) ->
              forall ps1 pt ps2 n, pt0 :: rest = ps1 ++ pt :: ps2 -> step_of (snd pt) = SParam ->
                t (cur ++ psteps ps1 ++ [SParam]) = Some n -> param_name (snd pt) = n_pname n).
    { intros first HR ps1 pt ps2 n HP HS Hn. destruct ps1 as [|q ps1'].
      - cbn in HP. inversion HP; subst pt0 rest. apply first; auto.
      - cbn in HP. inversion HP; subst q. eapply HR; eauto. }
    assert (LIFT_N : (exists ps1 pt ps2 n, rest = ps1 ++ pt :: ps2 /\ step_of (snd pt) = SParam /\
                        t (cur ++ psteps (pt0 :: ps1) ++ [SParam]) = Some n /\ param_name (snd pt) <> n_pname n) ->
                     exists ps1 pt ps2 n, pt0 :: rest = ps1 ++ pt :: ps2 /\ step_of (snd pt) = SParam /\
                        t (cur ++ psteps ps1 ++ [SParam]) = Some n /\ param_name (snd pt) <> n_pname n).
    { intros [ps1 [pt [ps2 [n [HP [HS [Hn Hne]]]]]]]. exists (pt0 :: ps1), pt, ps2, n.
      subst rest. repeat split; auto. }
    destruct (step_of (snd pt0)) eqn:S.
    + (* constant *)
      assert (FIRST : forall n, SConst t0 = SParam -> t (cur ++ [SParam]) = Some n ->
                        param_name (snd pt0) = n_pname n) by (intros; discriminate).
      destruct (t p0) as [n0|] eqn:E.
      * pose proof (REC t (fun _ => eq_refl) H) as R. destruct r; [|apply LIFT_N; exact R].
        apply LIFT_S; [exact FIRST | exact R].
      * pose proof (REC _ (UPD _) H) as R. destruct r; [|apply LIFT_N; exact R].
        apply LIFT_S; [exact FIRST | exact R].
    + (* parameter *)
      destruct (t p0) as [n0|] eqn:E.
      * destruct (tok_eqb (param_name (snd pt0)) (n_pname n0)) eqn:ET.
        -- pose proof (REC t (fun _ => eq_refl) H) as R. destruct r; [|apply LIFT_N; exact R].
           apply LIFT_S; [|exact R]. intros n _ Hn. fold p0 in Hn. rewrite E in Hn. inversion Hn; subst n0.
           apply tok_eqb_eq. exact ET.
        -- inversion H; subst t1 r. exists [], pt0, rest, n0. cbn [psteps map app].
           repeat split; auto. apply tok_eqb_neq. exact ET.
      * pose proof (REC _ (UPD _) H) as R. destruct r; [|apply LIFT_N; exact R].
        apply LIFT_S; [|exact R]. intros n _ Hn. fold p0 in Hn. congruence.
    + (* wildcard: the last part, nothing is looked up below it *)
      assert (rest = []) by (eapply star_last_wild_head; eauto). subst rest.
      cbn in H. inversion H; subst t1 r. intros ps1 pt ps2 n HP HS Hn.
      destruct ps1 as [|q ps1']; cbn in HP; inversion HP; subst.
      * congruence.
      * destruct ps1'; discriminate.
Qed.

Lemma ins_walk_reaches : forall ps (t t1 : ftree) cur p,
  t cur <> None -> ins_walk t cur ps = (t1, Some p) -> t1 p <> None.
Proof.
  induction ps as [|pt rest IH]; intros t t1 cur p HC H.
  - cbn in H. inversion H; subst. exact HC.
  - cbn [ins_walk] in H. set (p0 := cur ++ [step_of (snd pt)]) in *.
    assert (UP : forall (t' : ftree) n0, upd t' p0 n0 p0 <> None).
    { intros t' n0. unfold upd. rewrite path_eqb_refl. discriminate. }
    destruct (step_of (snd pt)).
    + destruct (t p0) eqn:E; [eapply IH; [|exact H]; congruence | eapply IH; [|exact H]; apply UP].
    + destruct (t p0) as [n|] eqn:E.
      * destruct (tok_eqb (param_name (snd pt)) (n_pname n)); [|discriminate].
        eapply IH; [|exact H]; congruence.
      * eapply IH; [|exact H]; apply UP.
    + eapply IH; [|exact H]; apply UP.
Qed.

(* ---- one AddFlow ---- *)
Lemma through_split : forall f ps1 pt ps2,
  pat f = ps1 ++ pt :: ps2 -> through (psteps ps1 ++ [step_of (snd pt)]) f = true.
Proof.
  intros f ps1 pt ps2 HP. unfold through. rewrite HP, psteps_app, psteps_cons.
  rewrite (app_cons_snoc _ (psteps ps1) (step_of (snd pt)) (psteps ps2)). apply prefixb_app.
Qed.

Lemma pname_at_split : forall ps1 pt ps2, pname_at (ps1 ++ pt :: ps2) (length (psteps ps1)) = param_name (snd pt).
Proof. intros. unfold pname_at. rewrite psteps_length, nth_middle. reflexivity. Qed.

(* names agree with every node met => compatible with every loaded flow *)
Lemma names_compat_all : forall fs (t : ftree) f,
  Inv fs t -> NC fs ->
  (forall ps1 pt ps2 n, pat f = ps1 ++ pt :: ps2 -> step_of (snd pt) = SParam ->
     t (psteps ps1 ++ [SParam]) = Some n -> param_name (snd pt) = n_pname n) ->
  forall g, In g fs -> name_compat (pat f) (pat g) = true.
Proof.
  intros fs t f HI HN H g Hg. apply name_compat_intro. intros P i Hp Hq Hi.
  (* split f's pattern at position i *)
  assert (Hlen : (i < length (pat f))%nat).
  { apply prefixb_length in Hp. rewrite psteps_length in Hp.
    assert (i < length P)%nat by (apply nth_error_Some; congruence). lia. }
  destruct (nth_split (pat f) dpart Hlen) as [ps1 [ps2 [HP Hl1]]].
  set (pt := nth i (pat f) dpart) in *.
  assert (Hi' : (i < length P)%nat) by (apply nth_error_Some; congruence).
  apply prefixb_spec in Hp as [rp Hrp].
  assert (FS : psteps (pat f) = (psteps ps1 ++ [step_of (snd pt)]) ++ psteps ps2).
  { rewrite HP at 1. rewrite psteps_app, psteps_cons, <- app_assoc. reflexivity. }
  assert (HSt : step_of (snd pt) = SParam).
  { assert (E1 : nth_error (psteps (pat f)) i = Some SParam).
    { rewrite Hrp, nth_error_app1 by exact Hi'. exact Hi. }
    rewrite FS, <- app_assoc in E1. rewrite nth_error_app2 in E1 by (rewrite psteps_length; lia).
    rewrite psteps_length, Hl1, Nat.sub_diag in E1. cbn in E1. congruence. }
  assert (HPi : firstn (S i) P = psteps ps1 ++ [SParam]).
  { assert (E2 : firstn (S i) (psteps (pat f)) = firstn (S i) P).
    { rewrite Hrp, firstn_app. replace (S i - length P)%nat with 0%nat by lia.
      cbn [firstn]. apply app_nil_r. }
    rewrite <- E2, FS, HSt, firstn_app.
    assert (EL : length (psteps ps1 ++ [SParam]) = S i).
    { rewrite app_length, psteps_length, Hl1. cbn. lia. }
    rewrite <- EL at 1. rewrite firstn_all. rewrite EL, Nat.sub_diag. cbn [firstn]. apply app_nil_r. }
  (* g passes through the node *)
  assert (HTg : through (psteps ps1 ++ [SParam]) g = true).
  { unfold through. rewrite <- HPi. apply prefixb_spec in Hq as [r Hr]. apply prefixb_spec.
    exists (skipn (S i) P ++ r). rewrite app_assoc, firstn_skipn. exact Hr. }
  assert (HA : anode fs (psteps ps1 ++ [SParam]) = true) by (apply existsb_exists; eauto).
  assert (Hn : t (psteps ps1 ++ [SParam]) =
               Some {| n_part := apart fs (psteps ps1 ++ [SParam]); n_val := anval fs (psteps ps1 ++ [SParam]) |}).
  { rewrite HI, atree_nonroot by apply snoc_nonempty. rewrite HA. reflexivity. }
  specialize (H ps1 pt ps2 _ HP HSt Hn). unfold n_pname in H. cbn [n_part] in H.
  rewrite (apart_name fs g (psteps ps1) HN Hg HTg) in H.
  rewrite psteps_length, Hl1 in H. unfold pname_at at 1. fold pt. exact H.
Qed.

Lemma insert_flag_names : forall (t t' : ftree) ps v,
  insert_declared t ps v = (t', false) ->
  validate ps = true /\
  forall ps1 pt ps2 n, ps = ps1 ++ pt :: ps2 -> step_of (snd pt) = SParam ->
    t (psteps ps1 ++ [SParam]) = Some n -> param_name (snd pt) = n_pname n.
Proof.
  intros t t' ps v H. unfold insert_declared in H.
  destruct (validate ps) eqn:EV; [|inversion H]. split; [reflexivity|].
  destruct (ins_walk t [] ps) as [t1 [p|]] eqn:EW; [|inversion H].
  pose proof (ins_walk_names ps t t1 [] (Some p) (validate_star_last _ EV) EW) as HN.
  cbn [app] in HN. exact HN.
Qed.

Lemma add_flow_flag : forall fs (t : ftree) f,
  Inv fs t -> Acc fs ->
  (snd (add_flow t f) = false <->
   validate (pat f) = true /\ forall g, In g fs -> name_compat (pat f) (pat g) = true).
Proof.
  intros fs t f HI [HV HN]. split.
  - (* accepted => valid and compatible *)
    intro H. unfold add_flow in H.
    assert (INS : forall t', insert_declared t (pat f) [f] = (t', false) ->
              validate (pat f) = true /\ forall g, In g fs -> name_compat (pat f) (pat g) = true).
    { intros t' H'. destruct (insert_flag_names _ _ _ _ H') as [H1 H2]. split; [exact H1|].
      eapply names_compat_all; eauto. }
    assert (INS' : snd (insert_declared t (pat f) [f]) = false ->
              validate (pat f) = true /\ forall g, In g fs -> name_compat (pat f) (pat g) = true).
    { intro H'. destruct (insert_declared t (pat f) [f]) as [t' e] eqn:E. cbn in H'. subst e. eapply INS; eauto. }
    destruct (find_decl t [] (pat f)) as [p|] eqn:EF; [|auto].
    assert (p = psteps (pat f)) by (apply find_decl_path in EF; exact EF). subst p.
    destruct (t (psteps (pat f))) as [n|] eqn:En; [|auto].
    destruct (n_val n) as [fl|] eqn:Ev; [|auto].
    (* appended to the node an earlier flow g declared on the same step path *)
    destruct (Inv_node _ _ _ _ HI (psteps_pat_nonempty f) En) as [_ [_ HVal]].
    rewrite Ev in HVal. unfold anval in HVal.
    destruct (aval fs (psteps (pat f))) as [|g l] eqn:EA; [discriminate|].
    assert (Hg : In g (aval fs (psteps (pat f)))) by (rewrite EA; left; reflexivity).
    apply aval_in in Hg as [Hg HP]. split.
    + rewrite validate_psteps, <- HP, <- validate_psteps. auto.
    + eapply names_compat_all; eauto. intros ps1 pt ps2 n' HPs HS Hn'.
      destruct (find_decl_names _ _ _ _ EF ps1 pt ps2 HPs HS) as [n2 [Hn2 Hname]].
      cbn [app] in Hn2. rewrite Hn2 in Hn'. inversion Hn'; subst. exact Hname.
  - (* valid and compatible => accepted *)
    intros [HVf HC]. unfold add_flow.
    assert (INS : snd (insert_declared t (pat f) [f]) = false).
    { unfold insert_declared. rewrite HVf.
      destruct (ins_walk t [] (pat f)) as [t1 [p|]] eqn:EW.
      - destruct (t1 p) eqn:E1; [reflexivity|]. exfalso.
        eapply (ins_walk_reaches (pat f) t t1 [] p); eauto. rewrite HI. discriminate.
      - exfalso.
        pose proof (ins_walk_names (pat f) t t1 [] None (validate_star_last _ HVf) EW) as HNm.
        destruct HNm as [ps1 [pt [ps2 [n [HP [HS [Hn Hne]]]]]]]. cbn [app] in Hn.
        destruct (Inv_node _ _ _ _ HI (snoc_nonempty _ _ _) Hn) as [HA [HPart _]].
        unfold anode in HA. apply existsb_exists in HA as [h [Hh HTh]].
        apply Hne. unfold n_pname. rewrite HPart. rewrite (apart_name fs h (psteps ps1) HN Hh HTh).
        rewrite <- (pname_at_split ps1 pt ps2), <- HP.
        apply (name_compat_nth (pat f) (pat h) (psteps ps1 ++ [SParam]) (length (psteps ps1))); auto.
        + rewrite <- HS. apply (through_split f ps1 pt ps2 HP).
        + rewrite nth_error_app2 by lia. rewrite Nat.sub_diag. reflexivity. }
    destruct (find_decl t [] (pat f)) as [p|]; [|exact INS].
    destruct (t p) as [n|]; [|exact INS].
    destruct (n_val n); [reflexivity | exact INS].
Qed.

Lemma Acc_snoc : forall fs f,
  Acc fs -> validate (pat f) = true -> (forall g, In g fs -> name_compat (pat f) (pat g) = true) ->
  Acc (fs ++ [f]).
Proof.
  intros fs f [HV HN] HVf HC. split.
  - intros g Hg. apply in_app_or in Hg as [Hg|[Hg|[]]]; [auto | subst; exact HVf].
  - intros g h Hg Hh. apply in_app_or in Hg as [Hg|[Hg|[]]]; apply in_app_or in Hh as [Hh|[Hh|[]]]; subst.
    + auto.
    + rewrite name_compat_sym. auto.
    + auto.
    + apply name_compat_refl.
Qed.

Lemma build_from_accept : forall fs2 fs1 (t t' : ftree) es,
  Inv fs1 t -> stars_last fs1 = true -> Acc fs1 ->
  build_from t fs2 = (t', es) ->
  (forallb negb es = true <-> Acc (fs1 ++ fs2)).
Proof.
  induction fs2 as [|f rest IH]; intros fs1 t t' es HI SL HA HB.
  - cbn in HB. inversion HB; subst. rewrite app_nil_r. cbn. tauto.
  - cbn in HB. destruct (add_flow t f) as [t1 e] eqn:EA.
    destruct (build_from t1 rest) as [t2 es2] eqn:EB. inversion HB; subst. clear HB.
    pose proof (add_flow_flag fs1 t f HI HA) as HF. rewrite EA in HF. cbn [snd] in HF.
    destruct e.
    + cbn. split; [discriminate|]. intros [HV HN].
      assert (false = true) as X; [|discriminate X]. symmetry. apply HF. split.
      * apply HV. apply in_or_app. right. left. reflexivity.
      * intros g Hg. apply HN; apply in_or_app; [right; left; reflexivity | left; exact Hg].
    + destruct (proj1 HF eq_refl) as [HVf HC].
      assert (SLf : star_last (pat f) = true) by (apply validate_star_last; exact HVf).
      replace (fs1 ++ f :: rest) with ((fs1 ++ [f]) ++ rest) by (rewrite <- app_assoc; reflexivity).
      cbn [forallb negb andb]. eapply IH; eauto.
      * eapply add_flow_inv; eauto.
      * rewrite stars_last_app, SL. cbn. rewrite SLf. reflexivity.
      * apply Acc_snoc; assumption.
Qed.

(* the loader's verdict, declaratively *)
Theorem load_ok_accepted : forall fs, load_ok fs = accepted fs.
Proof.
  intro fs. apply eq_true_iff_eq. rewrite accepted_Acc. unfold load_ok, build.
  destruct (build_from empty fs) as [t es] eqn:EB. cbn [snd].
  change (Acc fs) with (Acc ([] ++ fs)). eapply build_from_accept; eauto.
  - apply Inv_empty.
  - split; [intros f []| intros f g []].
Qed.

(* ... hence independent of the load order *)
Theorem load_ok_perm : forall fs fs', Permutation fs fs' -> load_ok fs = load_ok fs'.
Proof.
  intros fs fs' HP. rewrite !load_ok_accepted. apply eq_true_iff_eq. rewrite !accepted_Acc.
  split; apply Acc_perm; [exact HP | apply Permutation_sym; exact HP].
Qed.
