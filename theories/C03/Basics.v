(* C03 — basic facts: boolean equalities, prefixes, classification. *)
From Coq Require Import List ZArith Bool Lia.
From Verif Require Import C03.Trie C03.Model C03.Spec.
Import ListNotations.
Open Scope Z_scope.

Lemma tok_eqb_eq : forall a b, tok_eqb a b = true <-> a = b.
Proof.
  induction a as [|x a IH]; destruct b as [|y b]; cbn; split; intro H;
    try reflexivity; try discriminate.
  - apply andb_true_iff in H as [H1 H2]. apply Z.eqb_eq in H1. apply IH in H2. congruence.
  - inversion H; subst. apply andb_true_iff; split; [apply Z.eqb_refl | apply IH; reflexivity].
Qed.

Lemma tok_eqb_refl : forall a, tok_eqb a a = true.
Proof. intro a. apply tok_eqb_eq. reflexivity. Qed.

Lemma tok_eqb_neq : forall a b, tok_eqb a b = false <-> a <> b.
Proof.
  intros a b. split; intro H.
  - intro E. apply tok_eqb_eq in E. congruence.
  - destruct (tok_eqb a b) eqn:E; [apply tok_eqb_eq in E; contradiction | reflexivity].
Qed.

Lemma step_eqb_eq : forall a b, step_eqb a b = true <-> a = b.
Proof.
  destruct a, b; cbn; split; intro H; try reflexivity; try discriminate.
  - apply tok_eqb_eq in H. congruence.
  - inversion H. apply tok_eqb_refl.
Qed.

Lemma step_eqb_refl : forall a, step_eqb a a = true.
Proof. intro a. apply step_eqb_eq. reflexivity. Qed.

Lemma path_eqb_eq : forall a b, path_eqb a b = true <-> a = b.
Proof.
  induction a as [|x a IH]; destruct b as [|y b]; cbn; split; intro H;
    try reflexivity; try discriminate.
  - apply andb_true_iff in H as [H1 H2]. apply step_eqb_eq in H1. apply IH in H2. congruence.
  - inversion H; subst. apply andb_true_iff; split; [apply step_eqb_refl | apply IH; reflexivity].
Qed.

Lemma path_eqb_refl : forall a, path_eqb a a = true.
Proof. intro a. apply path_eqb_eq. reflexivity. Qed.

Lemma path_eqb_neq : forall a b, path_eqb a b = false <-> a <> b.
Proof.
  intros a b. split; intro H.
  - intro E. apply path_eqb_eq in E. congruence.
  - destruct (path_eqb a b) eqn:E; [apply path_eqb_eq in E; contradiction | reflexivity].
Qed.

Lemma prefixb_spec : forall p l, prefixb p l = true <-> exists r, l = p ++ r.
Proof.
  induction p as [|x p IH]; intro l; cbn.
  - split; [intros _; exists l; reflexivity | reflexivity].
  - destruct l as [|y l].
    + split; [discriminate | intros [r H]; discriminate].
    + split.
      * intro H. apply andb_true_iff in H as [H1 H2]. apply step_eqb_eq in H1.
        apply IH in H2 as [r ->]. exists r. subst. reflexivity.
      * intros [r H]. inversion H; subst. apply andb_true_iff. split.
        -- apply step_eqb_refl.
        -- apply IH. exists r. reflexivity.
Qed.

Lemma prefixb_refl : forall p, prefixb p p = true.
Proof. intro p. apply prefixb_spec. exists []. rewrite app_nil_r. reflexivity. Qed.

Lemma prefixb_app : forall p r, prefixb p (p ++ r) = true.
Proof. intros. apply prefixb_spec. exists r. reflexivity. Qed.

Lemma prefixb_trans : forall a b c, prefixb a b = true -> prefixb b c = true -> prefixb a c = true.
Proof.
  intros a b c H1 H2. apply prefixb_spec in H1 as [r1 ->]. apply prefixb_spec in H2 as [r2 ->].
  apply prefixb_spec. exists (r1 ++ r2). rewrite app_assoc. reflexivity.
Qed.

Lemma prefixb_firstn : forall p l, prefixb p l = true -> p = firstn (length p) l.
Proof.
  intros p l H. apply prefixb_spec in H as [r ->].
  rewrite firstn_app, Nat.sub_diag, firstn_all. cbn. rewrite app_nil_r. reflexivity.
Qed.

Lemma prefixb_length : forall p l, prefixb p l = true -> (length p <= length l)%nat.
Proof. intros p l H. apply prefixb_spec in H as [r ->]. rewrite app_length. lia. Qed.

Lemma prefixb_same_length : forall p l, prefixb p l = true -> length p = length l -> p = l.
Proof.
  intros p l H L. apply prefixb_spec in H as [r ->]. rewrite app_length in L.
  destruct r; [rewrite app_nil_r; reflexivity | cbn in L; lia].
Qed.

Lemma psteps_length : forall ps, length (psteps ps) = length ps.
Proof. intro ps. unfold psteps. apply map_length. Qed.

Lemma psteps_app : forall a b, psteps (a ++ b) = psteps a ++ psteps b.
Proof. intros. unfold psteps. apply map_app. Qed.

Lemma psteps_firstn : forall n ps, psteps (firstn n ps) = firstn n (psteps ps).
Proof. intros. unfold psteps. symmetry. apply firstn_map. Qed.

(* the spec's reading of a part and the insert's classification agree *)
Lemma classify_step : forall t,
  match step_of t with
  | SConst c => classify t = PLit c /\ c = t
  | SParam => classify t = PParam
  | SWild => classify t = PStar
  end.
Proof.
  intro t. unfold step_of, is_wild.
  destruct (tok_eqb t [ch_star]) eqn:W.
  - apply tok_eqb_eq in W. subst. reflexivity.
  - apply tok_eqb_neq in W. unfold is_param.
    destruct t as [|c r].
    + cbn. split; reflexivity.
    + destruct (c =? ch_lbrace) eqn:E1.
      * apply Z.eqb_eq in E1. subst c. cbn [andb].
        unfold ch_lbrace, ch_rbrace in *.
        destruct (last (123 :: r) 0 =? 125) eqn:E2.
        -- unfold classify. rewrite E2. reflexivity.
        -- unfold classify. rewrite E2. split; reflexivity.
      * cbn [andb]. apply Z.eqb_neq in E1. unfold ch_lbrace in E1.
        assert (classify (c :: r) = PLit (c :: r)) as ->; [|split; reflexivity].
        unfold classify.
        destruct c as [|c|c]; try reflexivity.
        destruct r as [|c2 r].
        ++ unfold ch_star in W.
           repeat (destruct c as [c|c|]; try reflexivity; try (exfalso; apply W; reflexivity);
                   try (exfalso; apply E1; reflexivity)).
        ++ repeat (destruct c as [c|c|]; try reflexivity; try (exfalso; apply E1; reflexivity)).
Qed.

Lemma is_wild_step : forall t, is_wild t = true <-> step_of t = SWild.
Proof.
  intro t. unfold step_of. destruct (is_wild t); split; intro H; try reflexivity; try discriminate.
  destruct (is_param t); discriminate.
Qed.
