(* C03 — model of the flow filter (lunar-engine/streams/filter: filter_tree.go
   AddFlow/GetFlow, filter_node.go getFlow/isFlowValid/validate,
   filter_lookup_validation.go, config/streams.utils.go GetSupportedMethods,
   types/request.util.go header and query tests) over the trie of Trie.v,
   describing the code WITH the repairs F-C03a, F-C03b, F-C03d, F-C03e.
   Executable definitions only.

   Not modelled (listed as trusted in props/C03.json): sample_percentage
   (0 = always), JSONPath expression filters, non-ASCII case folding, URL
   escaping inside net/url (queries are plain k=v&k=v).

   Case format (harness -> cases):
     (flows in load order, AddFlow-failed flags, [(transaction, sorted ids selected)]) *)
From Coq Require Import List ZArith Bool.
From Coq Require String Ascii.
From Verif Require Import C03.Trie.
Import ListNotations.
Open Scope Z_scope.

(* byte codes of a string literal (the harness writes strings as [bs "..."]) *)
Fixpoint bs (s : String.string) : tok :=
  match s with
  | String.EmptyString => []
  | String.String c r => Z.of_N (Ascii.N_of_ascii c) :: bs r
  end.

Record flow := mkFlow {
  f_id : Z;
  f_kind : Z;                      (* 0 user flow, 1 system start, 2 system end *)
  f_url : tok;
  f_methods : list tok;
  f_headers : list (tok * tok);
  f_query : list (tok * tok);
  f_status : list Z
}.

Record txn := mkTxn {
  t_resp : bool;                   (* false: request stream, true: response stream *)
  t_url : tok;
  t_method : tok;
  t_headers : list (tok * tok);    (* Go map: keys unique *)
  t_query : list (tok * tok);      (* in order of appearance *)
  t_status : Z                     (* status of the response object; NEGATIVE = there is no response object *)
}.

(* A stream can be handled as a response although no response object exists:
   after an early response Stream.executeReq re-types the REQUEST stream
   (apiStream.SetType(StreamTypeResponse)) and looks the flows up again; URL,
   method, headers then still come from the request, GetResponse() is nil.
   Encoding: t_resp = true and a negative t_status ([no_response]); HTTP status
   codes are never negative.  [resp_status] is the status as the code can read it. *)
Definition no_response : Z := -1.
Definition resp_status (x : txn) : option Z :=
  if t_status x <? 0 then None else Some (t_status x).

Definition pat (f : flow) : list part := split_url (f_url f).

(* a FilterNode: the flows declared on the node's URL, in the order added
   (user / system-start / system-end lists differ only in execution order) *)
Definition fnode := list flow.
Definition ftree := tree fnode.

(* FilterTree.AddFlow (with repair F-C03e): extend the node declared on exactly
   this URL, else InsertDeclaredURL.  Returns (tree, failed). *)
Definition add_flow (t : ftree) (f : flow) : ftree * bool :=
  let ps := pat f in
  match find_decl t [] ps with
  | Some p =>
      match t p with
      | Some n =>
          match n_val n with
          | Some fl => (upd t p {| n_part := n_part n; n_val := Some (fl ++ [f]) |}, false)
          | None => insert_declared t ps [f]
          end
      | None => insert_declared t ps [f]
      end
  | None => insert_declared t ps [f]
  end.

(* flows added one after the other to a fresh tree; the flags say which AddFlow failed *)
Fixpoint build_from (t : ftree) (fs : list flow) : ftree * list bool :=
  match fs with
  | [] => (t, [])
  | f :: rest =>
      let '(t1, e) := add_flow t f in
      let '(t2, es) := build_from t1 rest in
      (t2, e :: es)
  end.

Definition build (fs : list flow) : ftree * list bool := build_from empty fs.
Definition load_ok (fs : list flow) : bool := forallb negb (snd (build fs)).

(* ---- per-flow qualification (the flow's OWN filter, repair F-C03d) ---- *)
Definition lower_ch (c : Z) : Z := if (65 <=? c) && (c <=? 90) then c + 32 else c.
Definition lower (s : tok) : tok := map lower_ch s.
(* strings.EqualFold, ASCII *)
Definition equal_fold (a b : tok) : bool := tok_eqb (lower a) (lower b).

Fixpoint assoc (k : tok) (l : list (tok * tok)) : option tok :=
  match l with
  | [] => None
  | (k', v) :: r => if tok_eqb k' k then Some v else assoc k r
  end.

(* DoesHeaderValueMatch: Headers[strings.ToLower(name)] found && EqualFold *)
Definition header_matches (x : txn) (name value : tok) : bool :=
  match assoc (lower name) (t_headers x) with
  | Some have => equal_fold have value
  | None => false
  end.

(* isHeadersQualified: requirements grouped by key; every key needs one of its values *)
Definition headers_ok (f : flow) (x : txn) : bool :=
  t_resp x ||
  forallb (fun kv =>
    existsb (fun kv' => tok_eqb (fst kv') (fst kv) && header_matches x (fst kv') (snd kv'))
            (f_headers f)) (f_headers f).

(* isStatusCodeQualified: requests pass; no codes listed passes; otherwise a
   response object must exist and carry one of the codes *)
Definition status_ok (f : flow) (x : txn) : bool :=
  negb (t_resp x) ||
  match f_status f with
  | [] => true
  | l => match resp_status x with
         | Some st => existsb (fun s => s =? st) l
         | None => false
         end
  end.

Definition default_methods : list tok :=
  [[71;69;84]; [80;79;83;84]; [80;85;84]; [68;69;76;69;84;69]; [80;65;84;67;72]].

Definition method_ok (f : flow) (x : txn) : bool :=
  match f_methods f with
  | [] => (f_kind f =? 0) || existsb (fun m => tok_eqb m (t_method x)) default_methods
  | l => existsb (fun m => tok_eqb m (t_method x)) l
  end.

(* DoesQueryParamExist && Query().Get(key) == value (first value of the key) *)
Definition query_ok (f : flow) (x : txn) : bool :=
  t_resp x ||
  forallb (fun kv => match assoc (fst kv) (t_query x) with
                     | Some v => tok_eqb v (snd kv)
                     | None => false
                     end) (f_query f).

(* FilterNode.validate *)
Definition qualifies (x : txn) (f : flow) : bool :=
  headers_ok f x && status_ok f x && method_ok f x && query_ok f x.

(* FilterTree.GetFlow: every qualifying flow of every node the traversal returns *)
Definition get_flow (t : ftree) (x : txn) : list flow :=
  flat_map (filter (qualifies x)) (traverse t (split_url (t_url x))).

(* Stream.ExecuteFlow, as far as selection goes: nothing found => the actions
   are returned untouched and no flow is invoked; otherwise the selected flows
   are handed to the processor machinery [run] (external, C04/C05). *)
Definition exec_flow {A : Type} (run : list flow -> txn -> A -> A) (t : ftree) (x : txn) (acts : A)
  : A * list Z :=
  match get_flow t x with
  | [] => (acts, [])
  | fl => (run fl x acts, map f_id fl)
  end.

(* ---- correspondence entry point ---- *)
Fixpoint insert_sorted (x : Z) (l : list Z) : list Z :=
  match l with
  | [] => [x]
  | y :: r => if x <=? y then x :: l else y :: insert_sorted x r
  end.
Definition sort (l : list Z) : list Z := fold_right insert_sorted [] l.

Fixpoint zlist_eqb (a b : list Z) : bool :=
  match a, b with
  | [], [] => true
  | x :: a', y :: b' => (x =? y) && zlist_eqb a' b'
  | _, _ => false
  end.

Fixpoint blist_eqb (a b : list bool) : bool :=
  match a, b with
  | [], [] => true
  | x :: a', y :: b' => eqb x y && blist_eqb a' b'
  | _, _ => false
  end.

(* an observation: the transaction, the sorted ids of the flows selected and,
   for cases executed through the whole engine (Stream.ExecuteFlow), whether
   ANYTHING happened: an action returned, a processor run, an invocation counted *)
Definition obs := (txn * list Z * option bool)%type.
Definition case := (list flow * list bool * list obs)%type.

(* abbreviations the harness uses to keep the case files small *)
Definition uf (id : Z) (u : String.string) : flow := mkFlow id 0 (bs u) [] [] [] [].
Definition rq (u : String.string) : txn := mkTxn false (bs u) [71; 69; 84] [] [] 0.      (* bare GET request *)
Definition rs (u : String.string) : txn := mkTxn true (bs u) [71; 69; 84] [] [] 200.    (* its 200 response *)
Definition rn (u : String.string) : txn := mkTxn true (bs u) [71; 69; 84] [] [] no_response. (* the request, handled as a response without a response object *)
Definition ob (x : txn) (sel : list Z) : obs := (x, sel, None).
Definition obe (x : txn) (sel : list Z) (acted : bool) : obs := (x, sel, Some acted).

(* a recording stand-in for the processor machinery: the log of who was handed over *)
Definition rec_run (fl : list flow) (_ : txn) (log : list Z) : list Z := log ++ map f_id fl.

(* what the model says for one transaction, THROUGH [exec_flow]: the sorted
   selection and whether anything happened *)
Definition model_obs (t : ftree) (x : txn) : list Z * bool :=
  let '(log, ids) := exec_flow rec_run t x [] in
  (sort ids, match log with [] => false | _ => true end).

Definition obs_agree (t : ftree) (o : obs) : bool :=
  let '(x, sel, act) := o in
  let '(msel, macted) := model_obs t x in
  zlist_eqb msel sel && match act with Some a => eqb a macted | None => true end.

(* None = the implementation's observables equal the model's; otherwise the
   model's load flags and, per transaction, its sorted selection *)
Definition run_case (k : case) : option (list bool * list (list Z)) :=
  let '(fs, errs, obs) := k in
  let '(t, es) := build fs in
  if blist_eqb es errs && forallb (obs_agree t) obs
  then None else Some (es, map (fun o => fst (model_obs t (fst (fst o)))) obs).

(* ---- the loader stage (config/streams.utils.go: GetFlows -> ReadStreamFlowConfig
   -> Filter.UnmarshalYAML) ----
   A flow file is decoded into the filter the tree is built from.  As far as this
   property goes the stage is the identity on the filter: the URL is kept AS
   WRITTEN (upper-case letters in host labels and path segments included), the
   status codes stay in the order written.  It is an explicit stage so that the
   cases loaded through the production YAML loader are evaluated through it
   ([run_case_loaded]) and so that a normalising variant can be stated and refuted
   ([decode_lower]: the URL lower-cased at decode; Loader.v / Property.v). *)
Definition with_url (d : tok -> tok) (f : flow) : flow :=
  mkFlow (f_id f) (f_kind f) (d (f_url f)) (f_methods f) (f_headers f) (f_query f) (f_status f).
Definition decode_keep (u : tok) : tok := u.        (* the code: the URL as written *)
Definition decode_lower (u : tok) : tok := lower u. (* variant (refuted): lower-cased at decode *)
Definition load_with (d : tok -> tok) (ws : list flow) : list flow := map (with_url d) ws.
Definition load_flows (ws : list flow) : list flow := load_with decode_keep ws.

(* cases whose flows were WRITTEN as flow files and read back by the loader
   (tree level: streamconfig.GetFlows + AddFlow in a chosen order; engine level:
   Stream.Initialize): the flows of the case are the flows as written *)
Definition run_case_loaded (k : case) : option (list bool * list (list Z)) :=
  let '(ws, errs, obs) := k in run_case (load_flows ws, errs, obs).

(* ---- status_code list: variant (refuted) that looks the code up by bisection
   (sort.SearchInts on the list as written, which nothing sorts) ---- *)
Fixpoint bsearch (fuel : nat) (a : list Z) (x : Z) (i j : nat) : nat :=
  match fuel with
  | O => i
  | S k =>
      if (i <? j)%nat
      then let h := Nat.div2 (i + j) in
           if nth h a 0 <? x then bsearch k a x (S h) j else bsearch k a x i h
      else i
  end.
Definition status_in_bsearch (l : list Z) (st : Z) : bool :=
  let p := bsearch (S (length l)) l st 0 (length l) in
  (p <? length l)%nat && (nth p l 0 =? st).

(* ---- the query string AS WRITTEN (types/request.util.go: init() -> url.Parse,
   DoesQueryParamExist / DoesQueryParamValueMatch -> ParsedURL.Query()) ----
   net/url's URL.Query() = parseQuery IGNORING its error: the raw query is split on
   "&"; an empty piece is skipped; a piece that contains ";" or whose key or value
   has a bad percent escape (lone "%", "%zz") is DROPPED and the others are kept;
   "+" decodes to a space, "%XX" to the byte.  The parameters a request carries
   are the well-formed pairs, in order of appearance ([decode_query]).
   [rawpair]: one non-empty piece, [None] = a pair that cannot be decoded.
   Variant (refuted, Property.v): [query_strict] - one undecodable pair discards
   every parameter of the request (url.ParseQuery's error taken as fatal). *)
Definition hexval (c : Z) : option Z :=
  if (48 <=? c) && (c <=? 57) then Some (c - 48)
  else if (97 <=? c) && (c <=? 102) then Some (c - 87)
  else if (65 <=? c) && (c <=? 70) then Some (c - 55)
  else None.

(* url.QueryUnescape *)
Fixpoint unescape (s : tok) : option tok :=
  match s with
  | [] => Some []
  | c :: r =>
      if c =? 37 then
        match r with
        | a :: b :: r' =>
            match hexval a, hexval b, unescape r' with
            | Some h, Some l, Some u => Some (16 * h + l :: u)
            | _, _, _ => None
            end
        | _ => None
        end
      else match unescape r with
           | Some u => Some ((if c =? 43 then 32 else c) :: u)
           | None => None
           end
  end.

(* strings.Cut(s, sep) for a one-byte separator *)
Fixpoint cut_at (c : Z) (s : tok) : tok * tok :=
  match s with
  | [] => ([], [])
  | x :: r => if x =? c then ([], r) else let '(a, b) := cut_at c r in (x :: a, b)
  end.

Definition rawpair := option (tok * tok).

Definition parse_pair (p : tok) : rawpair :=
  if existsb (fun x => x =? 59) p then None
  else let '(k, v) := cut_at 61 p in
       match unescape k, unescape v with
       | Some k', Some v' => Some (k', v')
       | _, _ => None
       end.

Definition parse_query (raw : tok) : list rawpair :=
  map parse_pair (filter (fun p => negb (tok_eqb p [])) (split_on 38 raw)).

Definition is_good (o : rawpair) : bool := match o with Some _ => true | None => false end.

(* URL.Query(): the undecodable pairs are dropped, the others kept in order *)
Definition query_keep (l : list rawpair) : list (tok * tok) :=
  flat_map (fun o => match o with Some kv => [kv] | None => [] end) l.
(* variant: one undecodable pair and the request has no parameters at all *)
Definition query_strict (l : list rawpair) : list (tok * tok) :=
  if forallb is_good l then query_keep l else [].

Definition decode_query (raw : tok) : list (tok * tok) := query_keep (parse_query raw).

Definition with_query (x : txn) (q : list (tok * tok)) : txn :=
  mkTxn (t_resp x) (t_url x) (t_method x) (t_headers x) q (t_status x).

Fixpoint kvs_eqb (a b : list (tok * tok)) : bool :=
  match a, b with
  | [], [] => true
  | (k, v) :: a', (k', v') :: b' => tok_eqb k k' && tok_eqb v v' && kvs_eqb a' b'
  | _, _ => false
  end.

(* suite rawq: every observation comes with the request's query string as
   written; [t_query] of its transaction holds the pairs the HARNESS's decoder read.
   The model decodes the raw string itself, compares, and evaluates the selection
   on its own decoding. *)
Definition case_rawq := (list flow * list bool * list (obs * tok))%type.

Definition redecode (o : obs * tok) : obs :=
  let '((x, sel, a), raw) := o in (with_query x (decode_query raw), sel, a).
Definition decoder_agrees (o : obs * tok) : bool :=
  kvs_eqb (decode_query (snd o)) (t_query (fst (fst (fst o)))).

Definition run_case_rawq (k : case_rawq)
  : option (list bool * list (list Z) * list (list (tok * tok))) :=
  let '(fs, errs, ol) := k in
  let '(t, es) := build fs in
  let obs' := map redecode ol in
  if blist_eqb es errs && forallb (obs_agree t) obs' && forallb decoder_agrees ol
  then None
  else Some (es, map (fun o => fst (model_obs t (fst (fst o)))) obs',
             map (fun o => decode_query (snd o)) ol).

(* ---- required header VALUES: compared with strings.EqualFold (the code);
   variant (refuted): compared byte for byte ---- *)
Definition header_matches_exact (x : txn) (name value : tok) : bool :=
  match assoc (lower name) (t_headers x) with
  | Some have => tok_eqb have value
  | None => false
  end.
Definition headers_ok_exact (f : flow) (x : txn) : bool :=
  t_resp x ||
  forallb (fun kv =>
    existsb (fun kv' => tok_eqb (fst kv') (fst kv) && header_matches_exact x (fst kv') (snd kv'))
            (f_headers f)) (f_headers f).
(* the same transaction with every header value / the same flow with every
   required header value spelled in lower case *)
Definition lower_header_values (x : txn) : txn :=
  mkTxn (t_resp x) (t_url x) (t_method x)
        (map (fun kv => (fst kv, lower (snd kv))) (t_headers x)) (t_query x) (t_status x).
Definition lower_required_values (f : flow) : flow :=
  mkFlow (f_id f) (f_kind f) (f_url f) (f_methods f)
         (map (fun kv => (fst kv, lower (snd kv))) (f_headers f)) (f_query f) (f_status f).
