(* C03 — the query string as written (malformed sibling pairs) and the letter
   case of required header values.  Lemmas only; final statements in Property.v. *)
From Coq Require Import List ZArith Bool Lia.
From Verif Require Import C03.Trie C03.Model C03.Basics.
Import ListNotations.
Open Scope Z_scope.

(* ---- undecodable pairs are dropped, nothing else ---- *)
Lemma query_keep_app : forall a b, query_keep (a ++ b) = query_keep a ++ query_keep b.
Proof. intros a b. unfold query_keep. apply flat_map_app. Qed.

Lemma query_keep_drop_bad : forall l1 l2,
  query_keep (l1 ++ None :: l2) = query_keep (l1 ++ l2).
Proof. intros l1 l2. rewrite !query_keep_app. reflexivity. Qed.

Lemma query_keep_filter_good : forall l, query_keep (filter is_good l) = query_keep l.
Proof.
  induction l as [|[kv|] l IH]; cbn [filter is_good]; [reflexivity| |exact IH].
  change (query_keep (Some kv :: filter is_good l)) with (kv :: query_keep (filter is_good l)).
  rewrite IH. reflexivity.
Qed.

Lemma query_strict_all_good : forall l, forallb is_good l = true -> query_strict l = query_keep l.
Proof. intros l H. unfold query_strict. rewrite H. reflexivity. Qed.

(* the well-formed pairs, as a list of pairs *)
Lemma query_keep_map_some : forall q, query_keep (map Some q) = q.
Proof. induction q as [|kv q IH]; [reflexivity|]. cbn. f_equal. exact IH. Qed.

(* ---- [with_query] touches the parameters only ---- *)
Lemma with_query_url : forall x q, t_url (with_query x q) = t_url x.
Proof. reflexivity. Qed.
Lemma with_query_same : forall x, with_query x (t_query x) = x.
Proof. intros [r u m h q s]. reflexivity. Qed.

(* ---- letter case of header values ---- *)
Lemma lower_ch_idem : forall c, lower_ch (lower_ch c) = lower_ch c.
Proof.
  intro c. unfold lower_ch.
  destruct ((65 <=? c) && (c <=? 90)) eqn:E; [|rewrite E; reflexivity].
  apply andb_true_iff in E. destruct E as [E1 E2].
  apply Z.leb_le in E1. apply Z.leb_le in E2.
  destruct ((65 <=? c + 32) && (c + 32 <=? 90)) eqn:E'; [|reflexivity].
  apply andb_true_iff in E'. destruct E' as [_ E4]. apply Z.leb_le in E4. lia.
Qed.

Lemma lower_idem : forall s, lower (lower s) = lower s.
Proof.
  intro s. unfold lower. rewrite map_map. apply map_ext. intro c. apply lower_ch_idem.
Qed.

Lemma equal_fold_lower_l : forall a b, equal_fold (lower a) b = equal_fold a b.
Proof. intros a b. unfold equal_fold. rewrite lower_idem. reflexivity. Qed.
Lemma equal_fold_lower_r : forall a b, equal_fold a (lower b) = equal_fold a b.
Proof. intros a b. unfold equal_fold. rewrite lower_idem. reflexivity. Qed.

Lemma assoc_lower_values : forall k l,
  assoc k (map (fun kv : tok * tok => (fst kv, lower (snd kv))) l) = option_map lower (assoc k l).
Proof.
  intros k l. induction l as [|[k' v] l IH]; [reflexivity|].
  cbn [map assoc fst snd]. destruct (tok_eqb k' k); [reflexivity | exact IH].
Qed.

Lemma header_matches_lower_sent : forall x n v,
  header_matches (lower_header_values x) n v = header_matches x n v.
Proof.
  intros x n v. unfold header_matches, lower_header_values. cbn [t_headers].
  rewrite assoc_lower_values. destruct (assoc (lower n) (t_headers x)) as [h|]; [|reflexivity].
  cbn [option_map]. apply equal_fold_lower_l.
Qed.

Lemma header_matches_lower_required : forall x n v,
  header_matches x n (lower v) = header_matches x n v.
Proof.
  intros x n v. unfold header_matches. destruct (assoc (lower n) (t_headers x)); [|reflexivity].
  apply equal_fold_lower_r.
Qed.

Lemma forallb_ext' {A} (p q : A -> bool) l : (forall a, p a = q a) -> forallb p l = forallb q l.
Proof. intro H. induction l as [|a l IH]; [reflexivity|]. cbn. rewrite H, IH. reflexivity. Qed.
Lemma existsb_ext' {A} (p q : A -> bool) l : (forall a, p a = q a) -> existsb p l = existsb q l.
Proof. intro H. induction l as [|a l IH]; [reflexivity|]. cbn. rewrite H, IH. reflexivity. Qed.

Lemma headers_ok_lower_sent : forall f x, headers_ok f (lower_header_values x) = headers_ok f x.
Proof.
  intros f x. unfold headers_ok. change (t_resp (lower_header_values x)) with (t_resp x).
  f_equal. apply forallb_ext'. intro kv. apply existsb_ext'. intro kv'.
  rewrite header_matches_lower_sent. reflexivity.
Qed.

Lemma qualifies_lower_sent : forall x f, qualifies (lower_header_values x) f = qualifies x f.
Proof.
  intros x f. unfold qualifies. rewrite headers_ok_lower_sent. reflexivity.
Qed.

Lemma get_flow_lower_sent : forall t x, get_flow t (lower_header_values x) = get_flow t x.
Proof.
  intros t x. unfold get_flow. change (t_url (lower_header_values x)) with (t_url x).
  apply flat_map_ext. intro n. apply filter_ext. intro f. apply qualifies_lower_sent.
Qed.

Lemma existsb_map {A B} (g : A -> B) (p : B -> bool) l :
  existsb p (map g l) = existsb (fun a => p (g a)) l.
Proof. induction l as [|a l IH]; [reflexivity|]. cbn. rewrite IH. reflexivity. Qed.
Lemma forallb_map {A B} (g : A -> B) (p : B -> bool) l :
  forallb p (map g l) = forallb (fun a => p (g a)) l.
Proof. induction l as [|a l IH]; [reflexivity|]. cbn. rewrite IH. reflexivity. Qed.

Lemma headers_ok_lower_required : forall f x, headers_ok (lower_required_values f) x = headers_ok f x.
Proof.
  intros f x. unfold headers_ok, lower_required_values. cbn [f_headers].
  f_equal. rewrite forallb_map. apply forallb_ext'. intro kv. rewrite existsb_map.
  apply existsb_ext'. intro kv'. cbn [fst snd]. rewrite header_matches_lower_required. reflexivity.
Qed.

Lemma qualifies_lower_required : forall x f, qualifies x (lower_required_values f) = qualifies x f.
Proof.
  intros x f. unfold qualifies. rewrite headers_ok_lower_required. reflexivity.
Qed.
