(* C03 — the exact characterisation of the selection: which flows the traversal
   returns, as an IFF, under side conditions local to the flow / the URL in
   question (F-C03c localised), with kind-aware shadowing; multiplicity. *)
From Coq Require Import List ZArith Bool Lia Permutation.
From Verif Require Import C03.Trie C03.Model C03.Spec C03.Basics C03.Repr C03.Select C03.Proofs.
From Verif Require Import C03.SpecLocal C03.Stars.
Import ListNotations.
Open Scope Z_scope.

(* ---- the paths whose values lookupFlow collects ---- *)
Fixpoint tpaths (t : ftree) (cur : path) (rest : list part) (lst : part) : list path :=
  match rest with
  | [] => cur :: (if fst lst then [cur ++ [SWild]] else [])
  | u :: r =>
      (cur ++ [SWild]) :: match next t cur u with
                          | Some p => tpaths t p r u
                          | None => []
                          end
  end.

Lemma trav_paths : forall (t : ftree) rest cur lst,
  trav_from t cur rest lst = flat_map (node_val t) (tpaths t cur rest lst).
Proof.
  intros t. induction rest as [|u r IH]; intros cur lst.
  - rewrite trav_nil. cbn [tpaths flat_map]. destruct (fst lst); cbn [flat_map].
    + rewrite app_nil_r. reflexivity.
    + reflexivity.
  - rewrite trav_step. cbn [tpaths flat_map]. f_equal.
    destruct (next t cur u) as [p|]; [apply IH | reflexivity].
Qed.

Lemma next_shape : forall (t : ftree) cur u p,
  next t cur u = Some p -> exists s, p = cur ++ [s] /\ s <> SWild.
Proof.
  intros t cur [h v] p H. unfold next, next_param in H. cbn [fst snd] in H.
  assert (PAR : match t (cur ++ [SParam]) with
                | Some n => if eqb (n_host n) h then Some (cur ++ [SParam]) else None
                | None => None
                end = Some p -> exists s, p = cur ++ [s] /\ s <> SWild).
  { intro HP. destruct (t (cur ++ [SParam])) as [n|]; [|discriminate].
    destruct (eqb (n_host n) h); [|discriminate]. inversion HP. exists SParam. split; [reflexivity | discriminate]. }
  destruct (t (cur ++ [SConst v])) as [n|]; [|auto].
  destruct (eqb (n_host n) h); [|auto]. inversion H. exists (SConst v). split; [reflexivity | discriminate].
Qed.

Lemma tpaths_prefix : forall (t : ftree) rest cur lst Q,
  In Q (tpaths t cur rest lst) -> prefixb cur Q = true.
Proof.
  intros t. induction rest as [|u r IH]; intros cur lst Q H.
  - cbn [tpaths] in H. destruct H as [H|H]; [subst; apply prefixb_refl|].
    destruct (fst lst); [|contradiction]. destruct H as [H|[]]. subst. apply prefixb_app.
  - cbn [tpaths] in H. destruct H as [H|H]; [subst; apply prefixb_app|].
    destruct (next t cur u) as [p|] eqn:EN; [|contradiction].
    destruct (next_shape _ _ _ _ EN) as [s [Hp _]]. subst p.
    apply IH in H. eapply prefixb_trans; [apply prefixb_app | exact H].
Qed.

Lemma snoc_inj : forall (A : Type) (l : list A) a b, l ++ [a] = l ++ [b] -> a = b.
Proof. intros A l a b H. apply app_inv_head in H. inversion H. reflexivity. Qed.

Lemma app_neq_self : forall (A : Type) (l r : list A), r <> [] -> l <> l ++ r.
Proof.
  intros A l r NE H. apply (f_equal (@length A)) in H. rewrite app_length in H.
  destruct r; [contradiction | cbn in H; lia].
Qed.

Lemma prefix_snoc_snoc : forall cur s s' X,
  prefixb (cur ++ [s]) (cur ++ s' :: X) = true -> s = s'.
Proof.
  intros cur s s' X H. apply prefixb_spec in H as [r H].
  rewrite <- app_assoc in H. apply app_inv_head in H. cbn in H. inversion H. reflexivity.
Qed.

Lemma tpaths_nodup : forall (t : ftree) rest cur lst, NoDup (tpaths t cur rest lst).
Proof.
  intros t. induction rest as [|u r IH]; intros cur lst.
  - cbn [tpaths]. destruct (fst lst).
    + constructor; [|constructor; [intros [] | constructor]].
      intros [H|[]]. symmetry in H. revert H. apply app_neq_self. discriminate.
    + constructor; [intros [] | constructor].
  - cbn [tpaths]. constructor.
    + destruct (next t cur u) as [p|] eqn:EN; [|intros []].
      destruct (next_shape _ _ _ _ EN) as [s [Hp Hs]]. subst p. intro H.
      apply tpaths_prefix in H. apply prefix_snoc_snoc in H. contradiction.
    + destruct (next t cur u) as [p|]; [apply IH | constructor].
Qed.

(* ---- membership in the collected values = being declared on a collected path ---- *)
Lemma InT_flat_map : forall (A : Type) (g : A -> list fnode) l f,
  InT f (flat_map g l) <-> exists a, In a l /\ InT f (g a).
Proof.
  intros A g l f. unfold InT. split.
  - intros [fl [H1 H2]]. apply in_flat_map in H1 as [a [Ha Hfl]]. exists a. eauto.
  - intros [a [Ha [fl [H1 H2]]]]. exists fl. split; [|exact H2]. apply in_flat_map. eauto.
Qed.

Lemma InT_node_val : forall fs P f,
  InT f (node_val (atree fs) P) <-> In f fs /\ psteps (pat f) = P.
Proof.
  intros fs P f. split.
  - intros [fl [H1 H2]]. eapply node_val_in; eauto.
  - intros [H1 H2]. apply node_val_has; assumption.
Qed.

Lemma InT_trav : forall fs cur rest lst f,
  InT f (trav_from (atree fs) cur rest lst) <->
  In f fs /\ In (psteps (pat f)) (tpaths (atree fs) cur rest lst).
Proof.
  intros. rewrite trav_paths, InT_flat_map. split.
  - intros [P [HP H]]. apply InT_node_val in H as [H1 H2]. subst P. auto.
  - intros [H1 H2]. exists (psteps (pat f)). split; [exact H2|]. apply InT_node_val. auto.
Qed.

(* ---- kinds, locally ---- *)
Definition fit (s : step) (u : part) : Prop := step_fits s (snd u) = true.
Definition Fits (cur : path) (U : list part) : Prop := Forall2 fit cur U.

Definition KCat (fs : list flow) (f : flow) (url : list part) : Prop :=
  forall g, In g fs -> kind_compat_on url (pat f) (pat g) = true.
Definition KCU (fs : list flow) (url : list part) : Prop :=
  forall f g, In f fs -> In g fs -> kind_compat_on url (pat f) (pat g) = true.

Lemma kc_at_KCat : forall fs f url, kc_at fs f url = true <-> KCat fs f url.
Proof. intros. unfold kc_at, KCat. apply forallb_forall. Qed.

Lemma kc_url_KCU : forall fs url, kc_url fs url = true <-> KCU fs url.
Proof.
  intros fs url. unfold kc_url, KCU. rewrite forallb_forall. split.
  - intros H f g Hf Hg. apply (proj1 (kc_at_KCat _ _ _) (H f Hf)). exact Hg.
  - intros H f Hf. apply kc_at_KCat. intros g Hg. auto.
Qed.

Lemma KCU_KCat : forall fs f url, KCU fs url -> In f fs -> KCat fs f url.
Proof. intros fs f url H Hf g Hg. auto. Qed.

Lemma kind_compat_on_of_compat : forall url p q, kind_compat p q = true -> kind_compat_on url p q = true.
Proof.
  induction url as [|[uh uv] url IH]; intros p q H; [reflexivity|].
  destruct p as [|[ph pv] p]; [reflexivity|]. destruct q as [|[qh qv] q]; [reflexivity|].
  cbn [kind_compat kind_compat_on] in *.
  destruct (step_eqb (step_of pv) (step_of qv)); [|reflexivity]. cbn [andb].
  apply andb_true_iff in H as [H1 H2]. rewrite H1, (IH _ _ H2).
  destruct (step_fits (step_of pv) uv); reflexivity.
Qed.

Lemma kind_consistent_kc_url : forall fs url, kind_consistent fs = true -> kc_url fs url = true.
Proof.
  intros fs url H. apply kc_url_KCU. apply kind_consistent_KC in H.
  intros f g Hf Hg. apply kind_compat_on_of_compat. auto.
Qed.

Lemma kind_compat_on_nth : forall P U, Fits P U ->
  forall rest p q i,
    kind_compat_on (U ++ rest) p q = true ->
    prefixb P (psteps p) = true -> prefixb P (psteps q) = true ->
    (i < length P)%nat -> fst (nth i p dpart) = fst (nth i q dpart).
Proof.
  induction 1 as [|s [uh uv] P U Hs HF IH]; intros rest p q i HK Hp Hq Hi; [cbn in Hi; lia|].
  destruct p as [|[ph pv] p']; [discriminate|]. destruct q as [|[qh qv] q']; [discriminate|].
  rewrite psteps_cons in Hp, Hq. cbn in Hp, Hq.
  apply andb_true_iff in Hp as [Hs1 Hp]. apply andb_true_iff in Hq as [Hs2 Hq].
  apply step_eqb_eq in Hs1, Hs2. cbn [snd] in *. subst s.
  cbn [app kind_compat_on] in HK. rewrite Hs2, step_eqb_refl in HK. unfold fit in Hs. cbn [snd] in Hs.
  rewrite <- Hs2, Hs in HK. cbn [andb] in HK.
  apply andb_true_iff in HK as [Hh HK]. apply eqb_prop in Hh.
  destruct i as [|i]; [exact Hh|]. cbn [nth]. eapply IH; eauto. cbn in Hi. lia.
Qed.

Lemma Fits_length : forall P U, Fits P U -> length P = length U.
Proof. intros. eapply Forall2_len; eauto. Qed.

Lemma Fits_snoc : forall cur U s u, Fits cur U -> fit s u -> Fits (cur ++ [s]) (U ++ [u]).
Proof. intros. apply Forall2_app; [assumption | constructor; [assumption | constructor]]. Qed.

(* the kind a node on f's path remembers is f's own *)
Lemma apart_host_at : forall fs f P U rest,
  KCat fs f (U ++ rest) -> In f fs -> through P f = true -> P <> [] -> Fits P U ->
  fst (apart fs P) = fst (nth (pred (length P)) (pat f) dpart).
Proof.
  intros fs f P U rest HK Hf HT NE HF. unfold apart.
  assert (HE : existsb (through P) fs = true) by (apply existsb_exists; eauto).
  apply existsb_find in HE as [g [HFd [Hg HTg]]]. rewrite HFd. symmetry.
  eapply kind_compat_on_nth; eauto. destruct P; [contradiction | cbn; lia].
Qed.

Lemma node_on_path : forall fs f ps1 ph pv ps2 cur U rest,
  KCat fs f (U ++ rest) -> In f fs -> pat f = ps1 ++ (ph, pv) :: ps2 -> psteps ps1 = cur ->
  Fits (cur ++ [step_of pv]) U ->
  exists n, atree fs (cur ++ [step_of pv]) = Some n /\ n_host n = ph.
Proof.
  intros fs f ps1 ph pv ps2 cur U rest HK Hf HP Hc HF.
  assert (HT : through (cur ++ [step_of pv]) f = true).
  { unfold through. rewrite HP, psteps_app, psteps_cons, Hc. cbn [snd].
    rewrite (app_cons_snoc _ cur (step_of pv) (psteps ps2)). apply prefixb_app. }
  assert (HA : anode fs (cur ++ [step_of pv]) = true).
  { unfold anode. apply existsb_exists. eauto. }
  rewrite atree_nonroot by apply snoc_nonempty. rewrite HA. eexists. split; [reflexivity|].
  unfold n_host. cbn [n_part].
  rewrite (apart_host_at fs f _ U rest HK Hf HT (snoc_nonempty _ _ _) HF).
  rewrite app_length. cbn [length]. rewrite Nat.add_1_r. cbn [pred].
  rewrite <- Hc, psteps_length, HP. rewrite nth_middle. reflexivity.
Qed.

(* ---- shadowing, read off the tree ---- *)
Definition shadow_node (fs : list flow) (cur : path) (u : part) : bool :=
  match atree fs (cur ++ [SConst (snd u)]) with
  | Some n => eqb (n_host n) (fst u)
  | None => false
  end.

Fixpoint unshadowed_node (fs : list flow) (cur : path) (pat url : list part) : bool :=
  match pat, url with
  | (_, pv) :: prest, u :: urest =>
      (match classify pv with
       | PParam => negb (shadow_node fs cur u)
       | _ => true
       end)
      && unshadowed_node fs (cur ++ [step_of pv]) prest urest
  | _, _ => true
  end.

Lemma next_shadow : forall fs cur u,
  next (atree fs) cur u =
  if shadow_node fs cur u then Some (cur ++ [SConst (snd u)]) else next_param (atree fs) cur (fst u).
Proof.
  intros fs cur u. unfold next, shadow_node.
  destruct (atree fs (cur ++ [SConst (snd u)])) as [n|]; [|reflexivity].
  destruct (eqb (n_host n) (fst u)); reflexivity.
Qed.

(* when does the traversal step from f's prefix [cur] to f's next node *)
Lemma next_on_f : forall fs f ps1 ph pv ps2 cur U uh uv rest,
  KCat fs f (U ++ (uh, uv) :: rest) -> In f fs ->
  pat f = ps1 ++ (ph, pv) :: ps2 -> psteps ps1 = cur -> Fits cur U ->
  (next (atree fs) cur (uh, uv) = Some (cur ++ [step_of pv]) <->
   match step_of pv with
   | SConst t => t = uv /\ ph = uh
   | SParam => ph = uh /\ shadow_node fs cur (uh, uv) = false
   | SWild => False
   end).
Proof.
  intros fs f ps1 ph pv ps2 cur U uh uv rest HK Hf HP Hc HF.
  assert (HK' : KCat fs f ((U ++ [(uh, uv)]) ++ rest)) by (rewrite <- app_assoc; exact HK).
  rewrite next_shadow. cbn [fst snd].
  destruct (step_of pv) as [t| |] eqn:ES.
  - (* literal *)
    split.
    + intro H. destruct (shadow_node fs cur (uh, uv)) eqn:ESh.
      * inversion H as [H1]. apply snoc_inj in H1. inversion H1; subst t. split; [reflexivity|].
        assert (HF' : Fits (cur ++ [step_of pv]) (U ++ [(uh, uv)])).
        { apply Fits_snoc; [exact HF|]. unfold fit. rewrite ES. cbn. apply tok_eqb_refl. }
        destruct (node_on_path _ _ _ _ _ _ _ _ _ HK' Hf HP Hc HF') as [n [Hn Hh]].
        unfold shadow_node in ESh. cbn [fst snd] in ESh. rewrite ES in Hn. rewrite Hn in ESh.
        apply eqb_prop in ESh. congruence.
      * unfold next_param in H. destruct (atree fs (cur ++ [SParam])) as [n|]; [|discriminate].
        destruct (eqb (n_host n) uh); [|discriminate]. inversion H as [H1]. apply snoc_inj in H1. discriminate.
    + intros [Ht Hh]. subst t uh.
      assert (HF' : Fits (cur ++ [step_of pv]) (U ++ [(ph, uv)])).
      { apply Fits_snoc; [exact HF|]. unfold fit. rewrite ES. cbn. apply tok_eqb_refl. }
      destruct (node_on_path _ _ _ _ _ _ _ _ _ HK' Hf HP Hc HF') as [n [Hn Hh]].
      unfold shadow_node. cbn [fst snd]. rewrite ES in Hn. rewrite Hn, Hh, eqb_reflx. reflexivity.
  - (* parameter *)
    assert (HF' : Fits (cur ++ [step_of pv]) (U ++ [(uh, uv)])).
    { apply Fits_snoc; [exact HF|]. unfold fit. rewrite ES. reflexivity. }
    destruct (node_on_path _ _ _ _ _ _ _ _ _ HK' Hf HP Hc HF') as [n [Hn Hh]]. rewrite ES in Hn.
    split.
    + intro H. destruct (shadow_node fs cur (uh, uv)) eqn:ESh.
      * inversion H as [H1]. apply snoc_inj in H1. discriminate.
      * split; [|reflexivity]. unfold next_param in H. rewrite Hn in H.
        destruct (eqb (n_host n) uh) eqn:E; [|discriminate]. apply eqb_prop in E. congruence.
    + intros [Hh' ESh]. rewrite ESh. unfold next_param. rewrite Hn, Hh, Hh', eqb_reflx. reflexivity.
  - (* wildcard: never a step of the walk *)
    split; [|contradiction]. intro H.
    destruct (shadow_node fs cur (uh, uv)).
    + inversion H as [H1]. apply snoc_inj in H1. discriminate.
    + unfold next_param in H. destruct (atree fs (cur ++ [SParam])) as [n|]; [|discriminate].
      destruct (eqb (n_host n) uh); [|discriminate]. inversion H as [H1]. apply snoc_inj in H1. discriminate.
Qed.

Lemma psteps_nil : forall ps, psteps ps = [] -> ps = [].
Proof. intros [|p r] H; [reflexivity | discriminate]. Qed.

Lemma cons_app_eq : forall (A : Type) (cur : list A) s X s', cur ++ s :: X = cur ++ [s'] <-> s = s' /\ X = [].
Proof.
  intros. split.
  - intro H. apply app_inv_head in H. inversion H. auto.
  - intros [-> ->]. reflexivity.
Qed.

(* THE characterisation, over the abstract trie: f's node is among the collected
   ones iff the rest of f's pattern accepts the rest of the URL (lax reading of
   the trailing wildcard) and no constant child of the right kind shadows a parameter *)
Theorem tpaths_exact : forall fs f url, In f fs -> KCat fs f url ->
  forall ps2 ps1 cur U rest lst,
    pat f = ps1 ++ ps2 -> psteps ps1 = cur -> url = U ++ rest -> Fits cur U ->
    (In (psteps (pat f)) (tpaths (atree fs) cur rest lst) <->
     matches_from true (fst lst) ps2 rest = true /\ unshadowed_node fs cur ps2 rest = true).
Proof.
  intros fs f url Hf HK. induction ps2 as [|[ph pv] ps2 IH]; intros ps1 cur U rest lst HP Hc HU HF.
  - (* the pattern is used up: f is declared on [cur] *)
    rewrite app_nil_r in HP. rewrite HP, Hc. destruct rest as [|u r].
    + cbn [tpaths matches_from unshadowed_node]. split; [auto | intros _; left; reflexivity].
    + cbn [tpaths matches_from]. split; [|intros [H _]; discriminate].
      intros [H|H]; exfalso.
      * symmetry in H. revert H. apply app_neq_self. discriminate.
      * destruct (next (atree fs) cur u) as [p|] eqn:EN; [|contradiction].
        destruct (next_shape _ _ _ _ EN) as [s [Hp _]]. subst p.
        apply tpaths_prefix in H. apply prefixb_length in H. rewrite app_length in H. cbn in H. lia.
  - assert (FP : psteps (pat f) = cur ++ step_of pv :: psteps ps2).
    { rewrite HP, psteps_app, psteps_cons, Hc. reflexivity. }
    rewrite FP. pose proof (classify_step pv) as HC.
    destruct rest as [|[uh uv] r].
    + (* the URL is used up *)
      cbn [tpaths matches_from unshadowed_node]. split.
      * intros [H|H].
        -- exfalso. revert H. apply app_neq_self. discriminate.
        -- destruct (fst lst) eqn:EL; [|contradiction]. destruct H as [H|[]].
           symmetry in H. apply cons_app_eq in H as [HS HX]. apply psteps_nil in HX. subst ps2.
           rewrite HS in HC. rewrite HC. auto.
      * intros [H _]. destruct (step_of pv) eqn:ES.
        -- destruct HC as [HC _]. rewrite HC in H. discriminate.
        -- rewrite HC in H. discriminate.
        -- rewrite HC in H. destruct ps2; [|discriminate]. rewrite H. right. left. reflexivity.
    + cbn [tpaths]. subst url.
      assert (STEP : forall s, step_of pv = s -> s <> SWild -> fit s (uh, uv) ->
                (In (cur ++ s :: psteps ps2)
                    (match next (atree fs) cur (uh, uv) with
                     | Some p => tpaths (atree fs) p r (uh, uv)
                     | None => []
                     end) <->
                 next (atree fs) cur (uh, uv) = Some (cur ++ [s]) /\
                 matches_from true uh ps2 r = true /\ unshadowed_node fs (cur ++ [s]) ps2 r = true)).
      { intros s ES NW HFs. split.
        - intro H. destruct (next (atree fs) cur (uh, uv)) as [p|] eqn:EN; [|contradiction].
          destruct (next_shape _ _ _ _ EN) as [s' [Hp _]]. subst p.
          pose proof (tpaths_prefix _ _ _ _ _ H) as HPre. apply prefix_snoc_snoc in HPre. subst s'.
          split; [reflexivity|].
          rewrite <- ES in H. rewrite <- FP in H.
          apply (IH (ps1 ++ [(ph, pv)]) (cur ++ [step_of pv]) (U ++ [(uh, uv)]) r (uh, uv)) in H; auto.
          + rewrite ES in H. exact H.
          + rewrite HP, <- app_assoc. reflexivity.
          + rewrite psteps_app, Hc. reflexivity.
          + rewrite <- app_assoc. reflexivity.
          + apply Fits_snoc; [exact HF | rewrite ES; exact HFs].
        - intros [EN H]. rewrite EN.
          rewrite <- ES in H |- *. rewrite <- FP.
          apply (IH (ps1 ++ [(ph, pv)]) (cur ++ [step_of pv]) (U ++ [(uh, uv)]) r (uh, uv)); auto.
          + rewrite HP, <- app_assoc. reflexivity.
          + rewrite psteps_app, Hc. reflexivity.
          + rewrite <- app_assoc. reflexivity.
          + apply Fits_snoc; [exact HF | rewrite ES; exact HFs]. }
      pose proof (next_on_f fs f ps1 ph pv ps2 cur U uh uv r HK Hf HP Hc HF) as NX.
      cbn [matches_from unshadowed_node fst snd].
      destruct (step_of pv) as [t| |] eqn:ES.
      * (* literal *)
        destruct HC as [HC Et]. subst t. rewrite HC.
        split.
        -- intros [H|H]; [exfalso; symmetry in H; apply cons_app_eq in H as [H _]; discriminate|].
           destruct (tok_eqb pv uv) eqn:ET.
           ++ apply tok_eqb_eq in ET. subst uv.
              apply (STEP (SConst pv) eq_refl) in H; [|discriminate | unfold fit; cbn; apply tok_eqb_refl].
              destruct H as [EN [HM HUn]]. apply NX in EN as [_ Hh]. subst uh.
              rewrite eqb_reflx, HM, HUn. auto.
           ++ exfalso. destruct (next (atree fs) cur (uh, uv)) as [p|] eqn:EN; [|contradiction].
              destruct (next_shape _ _ _ _ EN) as [s' [Hp _]]. subst p.
              pose proof (tpaths_prefix _ _ _ _ _ H) as HPre. apply prefix_snoc_snoc in HPre. subst s'.
              destruct (proj1 NX eq_refl) as [Ht _]. subst uv. rewrite tok_eqb_refl in ET. discriminate.
        -- intros [HM HUn]. apply andb_true_iff in HM as [HM HM3]. apply andb_true_iff in HM as [HM1 HM2].
           apply eqb_prop in HM1. apply tok_eqb_eq in HM2. subst uh uv. right.
           apply (STEP (SConst pv) eq_refl); [discriminate | unfold fit; cbn; apply tok_eqb_refl|].
           split; [apply NX; auto|]. split; [exact HM3 | exact HUn].
      * (* parameter *)
        rewrite HC. split.
        -- intros [H|H]; [exfalso; symmetry in H; apply cons_app_eq in H as [H _]; discriminate|].
           apply (STEP SParam eq_refl) in H; [|discriminate | reflexivity].
           destruct H as [EN [HM HUn]]. apply NX in EN as [Hh ESh]. subst uh.
           rewrite eqb_reflx, HM, ESh, HUn. auto.
        -- intros [HM HUn]. apply andb_true_iff in HM as [HM1 HM3]. apply eqb_prop in HM1. subst uh.
           apply andb_true_iff in HUn as [HU1 HUn]. apply negb_true_iff in HU1. right.
           apply (STEP SParam eq_refl); [discriminate | reflexivity|].
           split; [apply NX; auto|]. auto.
      * (* trailing wildcard *)
        rewrite HC. split.
        -- intros [H|H].
           ++ symmetry in H. apply cons_app_eq in H as [_ HX]. apply psteps_nil in HX. subst ps2. cbn. auto.
           ++ exfalso. destruct (next (atree fs) cur (uh, uv)) as [p|] eqn:EN; [|contradiction].
              destruct (next_shape _ _ _ _ EN) as [s' [Hp Hs']]. subst p.
              pose proof (tpaths_prefix _ _ _ _ _ H) as HPre. apply prefix_snoc_snoc in HPre. congruence.
        -- intros [HM _]. destruct ps2; [|discriminate]. left. reflexivity.
Qed.

(* ---- the node-level shadow test vs. the configuration-level one ---- *)
Lemma shadow_node_has_prefix : forall fs cur u,
  shadow_node fs cur u = true -> has_prefix_k fs (cur ++ [SConst (snd u)]) (fst u) = true.
Proof.
  intros fs cur [uh uv] H. unfold shadow_node in H. cbn [fst snd] in *.
  rewrite atree_nonroot in H by apply snoc_nonempty.
  destruct (anode fs (cur ++ [SConst uv])) eqn:EA; [|discriminate].
  unfold n_host in H. cbn [n_part] in H. unfold apart in H.
  unfold anode in EA. apply existsb_find in EA as [g [HF [Hg HT]]]. rewrite HF in H.
  unfold has_prefix_k. apply existsb_exists. exists g. split; [exact Hg|].
  unfold through in HT. rewrite HT. cbn [andb]. exact H.
Qed.

Lemma has_prefix_shadow_node : forall fs cur U uh uv rest,
  KCU fs (U ++ (uh, uv) :: rest) -> Fits cur U ->
  has_prefix_k fs (cur ++ [SConst uv]) uh = true -> shadow_node fs cur (uh, uv) = true.
Proof.
  intros fs cur U uh uv rest HK HF H. unfold has_prefix_k in H.
  apply existsb_exists in H as [g [Hg H]]. apply andb_true_iff in H as [HT Hh].
  apply eqb_prop in Hh.
  assert (HA : anode fs (cur ++ [SConst uv]) = true).
  { unfold anode. apply existsb_exists. exists g. auto. }
  unfold shadow_node. cbn [fst snd]. rewrite atree_nonroot by apply snoc_nonempty. rewrite HA.
  unfold n_host. cbn [n_part].
  assert (HF' : Fits (cur ++ [SConst uv]) (U ++ [(uh, uv)])).
  { apply Fits_snoc; [exact HF|]. unfold fit. cbn. apply tok_eqb_refl. }
  rewrite (apart_host_at fs g _ (U ++ [(uh, uv)]) rest); auto.
  - fold dpart in Hh. rewrite Hh. apply eqb_reflx.
  - rewrite <- app_assoc. apply KCU_KCat; assumption.
  - apply snoc_nonempty.
Qed.

Lemma unshadowed_k_node : forall fs ps2 cur rest,
  unshadowed_from_k fs cur ps2 rest = true -> unshadowed_node fs cur ps2 rest = true.
Proof.
  intros fs. induction ps2 as [|[ph pv] ps2 IH]; intros cur rest H; [reflexivity|].
  destruct rest as [|[uh uv] r]; [reflexivity|].
  cbn [unshadowed_from_k unshadowed_node] in *. apply andb_true_iff in H as [H1 H2].
  rewrite (IH _ _ H2), andb_true_r.
  destruct (classify pv); try reflexivity.
  apply negb_true_iff in H1. apply negb_true_iff.
  destruct (shadow_node fs cur (uh, uv)) eqn:E; [|reflexivity].
  apply shadow_node_has_prefix in E. cbn [fst snd] in E. congruence.
Qed.

Lemma unshadowed_node_k : forall fs ps2 cur U rest b,
  KCU fs (U ++ rest) -> Fits cur U ->
  matches_from true b ps2 rest = true ->
  unshadowed_node fs cur ps2 rest = true -> unshadowed_from_k fs cur ps2 rest = true.
Proof.
  intros fs. induction ps2 as [|[ph pv] ps2 IH]; intros cur U rest b HK HF HM H; [reflexivity|].
  destruct rest as [|[uh uv] r]; [reflexivity|].
  cbn [unshadowed_from_k unshadowed_node matches_from] in *.
  apply andb_true_iff in H as [H1 H2]. pose proof (classify_step pv) as HC.
  destruct (step_of pv) as [t| |] eqn:ES.
  - destruct HC as [HC Et]. subst t. rewrite HC in *. cbn [andb].
    apply andb_true_iff in HM as [HM HM3]. apply andb_true_iff in HM as [_ HM2]. apply tok_eqb_eq in HM2. subst uv.
    apply (IH _ (U ++ [(uh, pv)]) r uh); auto.
    + rewrite <- app_assoc. exact HK.
    + apply Fits_snoc; [exact HF|]. unfold fit. cbn. apply tok_eqb_refl.
  - rewrite HC in *. apply andb_true_iff in HM as [_ HM3].
    apply andb_true_iff. split.
    + apply negb_true_iff in H1. apply negb_true_iff.
      destruct (has_prefix_k fs (cur ++ [SConst uv]) uh) eqn:E; [|reflexivity].
      apply (has_prefix_shadow_node fs cur U uh uv r HK HF) in E. congruence.
    + apply (IH _ (U ++ [(uh, uv)]) r uh); auto.
      * rewrite <- app_assoc. exact HK.
      * apply Fits_snoc; [exact HF|]. reflexivity.
  - rewrite HC in *. cbn [andb]. destruct ps2; [|discriminate].
    destruct r as [|[a b0] r']; reflexivity.
Qed.

(* the kind-blind proviso of Spec.v is the stronger one *)
Lemma has_prefix_k_has_prefix : forall fs P h, has_prefix_k fs P h = true -> has_prefix fs P = true.
Proof.
  intros fs P h H. unfold has_prefix_k in H. apply existsb_exists in H as [g [Hg H]].
  apply andb_true_iff in H as [H _]. unfold has_prefix. apply existsb_exists. eauto.
Qed.

Lemma unshadowed_unshadowed_k : forall fs ps2 cur rest,
  unshadowed_from fs cur ps2 rest = true -> unshadowed_from_k fs cur ps2 rest = true.
Proof.
  intros fs. induction ps2 as [|[ph pv] ps2 IH]; intros cur rest H; [reflexivity|].
  destruct rest as [|[uh uv] r]; [reflexivity|].
  cbn [unshadowed_from unshadowed_from_k] in *. apply andb_true_iff in H as [H1 H2].
  rewrite (IH _ _ H2), andb_true_r.
  destruct (classify pv); try reflexivity.
  apply negb_true_iff in H1. apply negb_true_iff.
  destruct (has_prefix_k fs (cur ++ [SConst uv]) uh) eqn:E; [|reflexivity].
  apply has_prefix_k_has_prefix in E. congruence.
Qed.

(* ---- strict = lax + the F-C03f side condition, exactly ---- *)
Lemma matches_from_split : forall ps b url,
  matches_from false b ps url = matches_from true b ps url && wild_kind_ok ps url.
Proof.
  induction ps as [|[ph pv] ps IH]; intros b url.
  - cbn. rewrite andb_true_r. reflexivity.
  - destruct ps as [|q ps'].
    + cbn [matches_from]. unfold wild_kind_ok. cbn [last fst snd length pred].
      destruct (classify pv) eqn:EC.
      * rewrite andb_true_r. reflexivity.
      * rewrite andb_true_r. reflexivity.
      * destruct url as [|[uh uv] url]; cbn [nth_error]; [rewrite andb_true_r; reflexivity|].
        cbn [orb]. reflexivity.
    + change (matches_from false b ((ph, pv) :: q :: ps') url) with
        (match classify pv with
         | PStar => false
         | PLit t => match url with
                     | (uh, uv) :: urest => eqb uh ph && tok_eqb t uv && matches_from false uh (q :: ps') urest
                     | [] => false
                     end
         | PParam => match url with
                     | (uh, _) :: urest => eqb uh ph && matches_from false uh (q :: ps') urest
                     | [] => false
                     end
         end).
      change (matches_from true b ((ph, pv) :: q :: ps') url) with
        (match classify pv with
         | PStar => false
         | PLit t => match url with
                     | (uh, uv) :: urest => eqb uh ph && tok_eqb t uv && matches_from true uh (q :: ps') urest
                     | [] => false
                     end
         | PParam => match url with
                     | (uh, _) :: urest => eqb uh ph && matches_from true uh (q :: ps') urest
                     | [] => false
                     end
         end).
      destruct (classify pv) eqn:EC.
      * destruct url as [|[uh uv] url]; [reflexivity|].
        rewrite IH, wild_kind_ok_cons. rewrite !andb_assoc. reflexivity.
      * destruct url as [|[uh uv] url]; [reflexivity|].
        rewrite IH, wild_kind_ok_cons. rewrite !andb_assoc. reflexivity.
      * reflexivity.
Qed.

Lemma matches_split : forall p url, matches p url = matches_lax p url && wild_kind_ok p url.
Proof. intros. apply matches_from_split. Qed.

(* ---- assembled over the built tree ---- *)
Lemma get_flow_paths : forall fs x f,
  load_ok fs = true ->
  (In f (get_flow (tree_of fs) x) <->
   In f fs /\ In (psteps (pat f)) (tpaths (atree fs) [] (url_of x) (false, [])) /\ qualifies x f = true).
Proof.
  intros fs x f HL. rewrite get_flow_in.
  rewrite (traverse_ext (tree_of fs) (atree fs)) by (apply build_repr_load; assumption).
  rewrite traverse_trav. fold (url_of x). rewrite InT_trav. tauto.
Qed.

Lemma get_flow_node : forall fs x f,
  load_ok fs = true -> KCat fs f (url_of x) ->
  (In f (get_flow (tree_of fs) x) <->
   In f fs /\ matches_lax (pat f) (url_of x) = true /\ unshadowed_node fs [] (pat f) (url_of x) = true
   /\ qualifies x f = true).
Proof.
  intros fs x f HL HK. rewrite get_flow_paths by assumption. split.
  - intros [Hf [HP HQ]]. split; [exact Hf|].
    apply (tpaths_exact fs f (url_of x) Hf HK (pat f) [] [] [] (url_of x) (false, [])) in HP; auto.
    + destruct HP. auto.
    + constructor.
  - intros [Hf [HM [HU HQ]]]. split; [exact Hf|]. split; [|exact HQ].
    apply (tpaths_exact fs f (url_of x) Hf HK (pat f) [] [] [] (url_of x) (false, [])); auto.
    constructor.
Qed.

Lemma get_flow_in_fs : forall fs x f, load_ok fs = true -> In f (get_flow (tree_of fs) x) -> In f fs.
Proof. intros fs x f HL H. apply get_flow_paths in H; tauto. Qed.

(* soundness with the collision condition local to (f, URL) *)
Lemma sound_at : forall fs x f,
  load_ok fs = true -> In f (get_flow (tree_of fs) x) -> kc_at fs f (url_of x) = true ->
  In f fs /\ qualifies x f = true /\ matches_lax (pat f) (url_of x) = true /\
  (wild_kind_ok (pat f) (url_of x) = true -> matches (pat f) (url_of x) = true).
Proof.
  intros fs x f HL H HK. apply kc_at_KCat in HK. apply get_flow_node in H as [Hf [HM [_ HQ]]]; auto.
  repeat split; auto. intro HW. rewrite matches_split, HM, HW. reflexivity.
Qed.

(* completeness with the collision condition local to (f, URL), kind-aware proviso *)
Lemma complete_at : forall fs x f,
  load_ok fs = true -> kc_at fs f (url_of x) = true -> In f fs ->
  matches_lax (pat f) (url_of x) = true -> qualifies x f = true ->
  unshadowed_k fs f (url_of x) = true ->
  In f (get_flow (tree_of fs) x).
Proof.
  intros fs x f HL HK Hf HM HQ HU. apply kc_at_KCat in HK. apply get_flow_node; auto.
  repeat split; auto. apply unshadowed_k_node. exact HU.
Qed.

(* the IFF, with the collision condition local to the URL *)
Lemma exact_lax : forall fs x f,
  load_ok fs = true -> kc_url fs (url_of x) = true ->
  (In f (get_flow (tree_of fs) x) <->
   In f fs /\ matches_lax (pat f) (url_of x) = true /\ qualifies x f = true /\
   unshadowed_k fs f (url_of x) = true).
Proof.
  intros fs x f HL HK. apply kc_url_KCU in HK. split.
  - intro H. pose proof (get_flow_in_fs _ _ _ HL H) as Hf.
    apply get_flow_node in H as [_ [HM [HU HQ]]]; auto using KCU_KCat.
    repeat split; auto.
    apply (unshadowed_node_k fs (pat f) [] [] (url_of x) false); auto. constructor.
  - intros [Hf [HM [HQ HU]]]. apply complete_at; auto.
    apply kc_at_KCat. apply KCU_KCat; assumption.
Qed.

(* ---- permutations ---- *)
Lemma existsb_perm : forall (A : Type) (p : A -> bool) l l', Permutation l l' -> existsb p l = existsb p l'.
Proof.
  intros A p l l' HP. destruct (existsb p l) eqn:E1, (existsb p l') eqn:E2; try reflexivity.
  - apply existsb_exists in E1 as [a [Ha Hp]].
    assert (existsb p l' = true) by (apply existsb_exists; exists a; eauto using Permutation_in). congruence.
  - apply existsb_exists in E2 as [a [Ha Hp]].
    assert (existsb p l = true)
      by (apply existsb_exists; exists a; eauto using Permutation_in, Permutation_sym). congruence.
Qed.

Lemma unshadowed_from_k_perm : forall fs fs', Permutation fs fs' ->
  forall ps cur url, unshadowed_from_k fs cur ps url = unshadowed_from_k fs' cur ps url.
Proof.
  intros fs fs' HP. induction ps as [|[ph pv] ps IH]; intros cur url; [reflexivity|].
  destruct url as [|[uh uv] url]; [reflexivity|]. cbn [unshadowed_from_k].
  rewrite IH. unfold has_prefix_k. rewrite (existsb_perm _ _ _ _ HP). reflexivity.
Qed.

Lemma KCU_perm : forall fs fs' url, Permutation fs fs' -> KCU fs url -> KCU fs' url.
Proof.
  intros fs fs' url HP HK f g Hf Hg. apply Permutation_sym in HP.
  apply HK; eapply Permutation_in; eauto.
Qed.

Lemma order_independent_url : forall fs fs' x f,
  Permutation fs fs' -> load_ok fs = true -> load_ok fs' = true -> kc_url fs (url_of x) = true ->
  (In f (get_flow (tree_of fs) x) <-> In f (get_flow (tree_of fs') x)).
Proof.
  intros fs fs' x f HP HL HL' HK.
  assert (HK' : kc_url fs' (url_of x) = true).
  { apply kc_url_KCU. eapply KCU_perm; eauto. apply kc_url_KCU. exact HK. }
  rewrite (exact_lax fs x f HL HK), (exact_lax fs' x f HL' HK').
  unfold unshadowed_k. rewrite (unshadowed_from_k_perm fs fs' HP).
  split; intros [H1 H2]; (split; [|exact H2]); eauto using Permutation_in, Permutation_sym.
Qed.

(* ---- multiplicity: a flow is returned at most once ---- *)
Lemma NoDup_flat_map_disjoint : forall (A B : Type) (g : A -> list B) l,
  NoDup l -> (forall a, In a l -> NoDup (g a)) ->
  (forall a b y, In a l -> In b l -> In y (g a) -> In y (g b) -> a = b) ->
  NoDup (flat_map g l).
Proof.
  intros A B g. induction l as [|a l IH]; intros ND H1 H2; [constructor|].
  cbn [flat_map]. inversion ND as [|? ? Hna NDl]; subst.
  assert (NDr : NoDup (flat_map g l)).
  { apply IH; auto.
    - intros b Hb. apply H1. right. exact Hb.
    - intros b c y Hb Hc. apply H2; right; assumption. }
  revert NDr. generalize (flat_map g l) (in_flat_map g l). intros r Hr NDr.
  assert (NDa : NoDup (g a)) by (apply H1; left; reflexivity).
  assert (DIS : forall y, In y (g a) -> ~ In y r).
  { intros y Hy Hyr. apply Hr in Hyr as [b [Hb Hyb]].
    assert (a = b) by (eapply H2; eauto; [left; reflexivity | right; exact Hb]). subst b. contradiction. }
  clear - NDa NDr DIS. induction (g a) as [|y ys IHy]; [exact NDr|].
  cbn [app]. inversion NDa; subst. constructor.
  - intro H. apply in_app_or in H as [H|H]; [contradiction|]. apply (DIS y); [left; reflexivity | exact H].
  - apply IHy; auto. intros z Hz. apply DIS. right. exact Hz.
Qed.

Lemma flat_map_flat_map : forall (A B C : Type) (g : A -> list B) (h : B -> list C) l,
  flat_map h (flat_map g l) = flat_map (fun a => flat_map h (g a)) l.
Proof.
  intros. induction l as [|a l IH]; [reflexivity|]. cbn [flat_map]. rewrite flat_map_app, IH. reflexivity.
Qed.

Lemma node_val_elems : forall fs P q y,
  In y (flat_map (filter q) (node_val (atree fs) P)) -> In y fs /\ psteps (pat y) = P.
Proof.
  intros fs P q y H. apply in_flat_map in H as [fl [H1 H2]]. apply filter_In in H2 as [H2 _].
  eapply node_val_in; eauto.
Qed.

Lemma node_val_nodup : forall fs P (q : flow -> bool), NoDup fs ->
  NoDup (flat_map (filter q) (node_val (atree fs) P)).
Proof.
  intros fs P q ND. unfold node_val, val_at.
  destruct (atree fs P) as [n|] eqn:E; [|constructor].
  destruct (n_val n) as [v|] eqn:EV; [|constructor].
  cbn [flat_map]. rewrite app_nil_r. apply NoDup_filter.
  destruct P as [|s P]; [cbn in E; inversion E; subst n; discriminate|].
  destruct (atree_node _ _ _ (ltac:(discriminate) : s :: P <> []) E) as [_ [_ HV]]. rewrite EV in HV.
  unfold anval in HV. destruct (aval fs (s :: P)) eqn:EA; [discriminate|]. inversion HV; subst v.
  rewrite <- EA. unfold aval. apply NoDup_filter. exact ND.
Qed.

Lemma get_flow_nodup : forall fs x, load_ok fs = true -> NoDup fs -> NoDup (get_flow (tree_of fs) x).
Proof.
  intros fs x HL ND. unfold get_flow.
  rewrite (traverse_ext (tree_of fs) (atree fs)) by (apply build_repr_load; assumption).
  rewrite traverse_trav, trav_paths, flat_map_flat_map.
  apply NoDup_flat_map_disjoint.
  - apply tpaths_nodup.
  - intros P _. apply node_val_nodup. exact ND.
  - intros P Q y _ _ H1 H2. apply node_val_elems in H1 as [_ H1]. apply node_val_elems in H2 as [_ H2]. congruence.
Qed.

(* ---- the proviso, pattern by pattern (the form the monitor computes) ---- *)
Lemma existsb_orb : forall (A : Type) (p q : A -> bool) l,
  existsb (fun a => p a || q a) l = existsb p l || existsb q l.
Proof.
  intros. induction l as [|a l IH]; [reflexivity|]. cbn [existsb]. rewrite IH.
  destruct (p a), (q a), (existsb p l), (existsb q l); reflexivity.
Qed.

Lemma existsb_const_false : forall (A : Type) (l : list A), existsb (fun _ => false) l = false.
Proof. intros. induction l; [reflexivity | assumption]. Qed.

Lemma existsb_ext : forall (A : Type) (p q : A -> bool) l,
  (forall a, p a = q a) -> existsb p l = existsb q l.
Proof. intros A p q l H. induction l as [|a l IH]; [reflexivity|]. cbn. rewrite H, IH. reflexivity. Qed.

Lemma step_eqb_sym : forall a b, step_eqb a b = step_eqb b a.
Proof.
  intros a b. destruct (step_eqb a b) eqn:E1, (step_eqb b a) eqn:E2; try reflexivity.
  - apply step_eqb_eq in E1. subst. rewrite step_eqb_refl in E2. discriminate.
  - apply step_eqb_eq in E2. subst. rewrite step_eqb_refl in E1. discriminate.
Qed.

(* g passes through [cur] and the rest of its pattern is more specific than [ps2] *)
Definition ms_below (cur : path) (ps2 url : list part) (g : flow) : bool :=
  through cur g && more_specific_from ps2 (skipn (length cur) (pat g)) url.

Lemma skipn_snoc_step : forall (ps : list part) n q rest,
  skipn n ps = q :: rest -> skipn (S n) ps = rest.
Proof.
  induction ps as [|p ps IH]; intros n q rest H.
  - destruct n; discriminate.
  - destruct n as [|n]; cbn in *; [inversion H; reflexivity|]. eapply IH; eauto.
Qed.

Lemma through_snoc_skipn : forall cur s g,
  through (cur ++ [s]) g =
  through cur g && match skipn (length cur) (pat g) with
                   | q :: _ => step_eqb (step_of (snd q)) s
                   | [] => false
                   end.
Proof.
  intros cur s g. unfold through. generalize (pat g). clear g.
  induction cur as [|c cur IH]; intros ps.
  - cbn [app length skipn prefixb]. destruct ps as [|p ps]; [reflexivity|].
    rewrite psteps_cons. cbn [prefixb]. rewrite andb_true_r.
    destruct (step_of (snd p)), s; cbn; try reflexivity. apply eq_true_iff_eq.
    rewrite !tok_eqb_eq. split; congruence.
  - destruct ps as [|p ps]; [reflexivity|]. rewrite psteps_cons. cbn [app prefixb length skipn].
    rewrite IH. rewrite andb_assoc. reflexivity.
Qed.

Lemma nth_skipn_hd : forall (ps : list part) n q rest, skipn n ps = q :: rest -> nth n ps dpart = q.
Proof.
  induction ps as [|p ps IH]; intros n q rest H.
  - destruct n; discriminate.
  - destruct n as [|n]; cbn in *; [inversion H; reflexivity|]. eapply IH; eauto.
Qed.

Lemma has_prefix_k_skipn : forall fs cur uv uh,
  has_prefix_k fs (cur ++ [SConst uv]) uh =
  existsb (fun g => through cur g &&
                    match skipn (length cur) (pat g) with
                    | (qh, qv) :: _ => step_eqb (step_of qv) (SConst uv) && eqb qh uh
                    | [] => false
                    end) fs.
Proof.
  intros fs cur uv uh. unfold has_prefix_k. apply existsb_ext. intro g.
  fold (through (cur ++ [SConst uv]) g). rewrite through_snoc_skipn.
  rewrite app_length. cbn [length]. rewrite Nat.add_1_r. cbn [pred].
  destruct (skipn (length cur) (pat g)) as [|[qh qv] r] eqn:ES.
  - rewrite andb_false_r. reflexivity.
  - fold dpart. rewrite (nth_skipn_hd _ _ _ _ ES). cbn [fst snd]. rewrite andb_assoc. reflexivity.
Qed.

Lemma unshadowed_from_k_ms : forall fs ps2 cur url,
  unshadowed_from_k fs cur ps2 url = negb (existsb (ms_below cur ps2 url) fs).
Proof.
  intros fs. induction ps2 as [|[ph pv] ps2 IH]; intros cur url.
  - cbn [unshadowed_from_k]. symmetry. apply negb_true_iff.
    rewrite (existsb_ext _ _ (fun _ => false)).
    + apply existsb_const_false.
    + intro g. unfold ms_below. cbn. apply andb_false_r.
  - destruct url as [|[uh uv] url].
    + cbn [unshadowed_from_k]. symmetry. apply negb_true_iff.
      rewrite (existsb_ext _ _ (fun _ => false)).
      * apply existsb_const_false.
      * intro g. unfold ms_below. cbn [more_specific_from].
        destruct (skipn (length cur) (pat g)) as [|[? ?] ?]; apply andb_false_r.
    + cbn [unshadowed_from_k]. rewrite IH.
      set (A := fun g => through cur g &&
                  match skipn (length cur) (pat g) with
                  | (qh, qv) :: _ =>
                      match classify pv with
                      | PParam => step_eqb (step_of qv) (SConst uv) && eqb qh uh
                      | _ => false
                      end
                  | [] => false
                  end).
      rewrite (existsb_ext _ (ms_below cur ((ph, pv) :: ps2) ((uh, uv) :: url))
                 (fun g => A g || ms_below (cur ++ [step_of pv]) ps2 url g)).
      * rewrite existsb_orb, negb_orb. f_equal. unfold A.
        destruct (classify pv) eqn:EC.
        -- symmetry. apply negb_true_iff. rewrite (existsb_ext _ _ (fun _ => false)).
           ++ apply existsb_const_false.
           ++ intro g. destruct (skipn (length cur) (pat g)) as [|[? ?] ?]; apply andb_false_r.
        -- rewrite has_prefix_k_skipn. reflexivity.
        -- symmetry. apply negb_true_iff. rewrite (existsb_ext _ _ (fun _ => false)).
           ++ apply existsb_const_false.
           ++ intro g. destruct (skipn (length cur) (pat g)) as [|[? ?] ?]; apply andb_false_r.
      * intro g. unfold ms_below, A. rewrite through_snoc_skipn.
        rewrite app_length. cbn [length]. rewrite Nat.add_1_r.
        destruct (skipn (length cur) (pat g)) as [|[qh qv] r] eqn:ES.
        -- cbn [more_specific_from]. rewrite !andb_false_r. reflexivity.
        -- rewrite (skipn_snoc_step _ _ _ _ ES). cbn [more_specific_from snd].
           rewrite (step_eqb_sym (step_of qv) (step_of pv)).
           destruct (through cur g); cbn [andb]; [|reflexivity].
           reflexivity.
Qed.

Lemma unshadowed_k_shadowed_k : forall fs f url, unshadowed_k fs f url = negb (shadowed_k fs f url).
Proof.
  intros fs f url. unfold unshadowed_k, shadowed_k. rewrite unshadowed_from_k_ms. reflexivity.
Qed.

Lemma get_flow_qualifies : forall (t : ftree) x f, In f (get_flow t x) -> qualifies x f = true.
Proof. intros t x f H. apply get_flow_in in H. tauto. Qed.
