(* C03 — representation lemma: the tree built by AddFlow-ing a list of flows
   (all accepted, * only trailing) is, node by node, the ABSTRACT trie
   determined by the list: a node exists exactly for the prefixes of the
   declared step paths, it remembers the part of the FIRST flow that passes
   through it, and it holds the flows declared on exactly its path, in load
   order. *)
From Coq Require Import List ZArith Bool Lia.
From Verif Require Import C03.Trie C03.Model C03.Spec C03.Basics.
Import ListNotations.
Open Scope Z_scope.

Definition dpart : part := (false, []).

Definition through (P : path) (f : flow) : bool := prefixb P (psteps (pat f)).
Definition anode (fs : list flow) (P : path) : bool := existsb (through P) fs.
Definition apart (fs : list flow) (P : path) : part :=
  match find (through P) fs with
  | Some f => nth (pred (length P)) (pat f) dpart
  | None => dpart
  end.
Definition aval (fs : list flow) (P : path) : list flow :=
  filter (fun f => path_eqb (psteps (pat f)) P) fs.
Definition anval (fs : list flow) (P : path) : option fnode :=
  match aval fs P with [] => None | l => Some l end.
Definition atree (fs : list flow) : ftree :=
  fun P => match P with
           | [] => Some root_info
           | _ => if anode fs P
                  then Some {| n_part := apart fs P; n_val := anval fs P |}
                  else None
           end.

Definition Inv (fs : list flow) (t : ftree) : Prop := forall P, t P = atree fs P.

Lemma anode_has_prefix : forall fs P, anode fs P = has_prefix fs P.
Proof. reflexivity. Qed.

(* ---- splitting never yields an empty list ---- *)
Lemma split_on_nonempty : forall c s, split_on c s <> [].
Proof.
  intros c s. destruct s as [|x r]; cbn; [discriminate|].
  destruct (x =? c); [discriminate|]. destruct (split_on c r); discriminate.
Qed.

Lemma split_url_nonempty : forall u, split_url u <> [].
Proof.
  intro u. unfold split_url.
  destruct (split_on ch_slash (trim_url u)) as [|h path] eqn:E.
  - exfalso. eapply split_on_nonempty; eauto.
  - destruct (split_on ch_dot h) eqn:E2.
    + exfalso. eapply split_on_nonempty; eauto.
    + cbn. discriminate.
Qed.

Lemma pat_nonempty : forall f, pat f <> [].
Proof. intro f. apply split_url_nonempty. Qed.

Lemma psteps_pat_nonempty : forall f, psteps (pat f) <> [].
Proof.
  intros f H. apply (pat_nonempty f). destruct (pat f); [reflexivity | discriminate].
Qed.

(* ---- generic list facts ---- *)
Lemma prefix_same_len : forall (Q A B : path),
  prefixb Q (A ++ B) = true -> length Q = length A -> Q = A.
Proof.
  intros Q A B H L. apply prefixb_firstn in H. rewrite H, L.
  rewrite firstn_app, Nat.sub_diag, firstn_all. cbn. apply app_nil_r.
Qed.

Lemma snoc_neq_len : forall (A : Type) (a b : list A), length a <> length b -> a <> b.
Proof. intros A a b H E. subst. contradiction. Qed.

(* ---- the abstract trie ---- *)
Lemma anode_prefix : forall fs P Q,
  anode fs Q = true -> prefixb P Q = true -> anode fs P = true.
Proof.
  intros fs P Q H HP. unfold anode in *. apply existsb_exists in H as [f [Hin Hf]].
  apply existsb_exists. exists f. split; [assumption|].
  unfold through in *. eapply prefixb_trans; eauto.
Qed.

Lemma anode_app : forall fs f P, anode (fs ++ [f]) P = anode fs P || through P f.
Proof. intros. unfold anode. rewrite existsb_app. cbn. rewrite orb_false_r. reflexivity. Qed.

Lemma find_app_some : forall (A : Type) (p : A -> bool) l1 l2 x,
  find p l1 = Some x -> find p (l1 ++ l2) = Some x.
Proof.
  induction l1 as [|a l1 IH]; cbn; intros l2 x H; [discriminate|].
  destruct (p a); [assumption | apply IH; assumption].
Qed.

Lemma find_app_none : forall (A : Type) (p : A -> bool) l1 l2,
  find p l1 = None -> find p (l1 ++ l2) = find p l2.
Proof.
  induction l1 as [|a l1 IH]; cbn; intros l2 H; [reflexivity|].
  destruct (p a); [discriminate | apply IH; assumption].
Qed.

Lemma existsb_find : forall (A : Type) (p : A -> bool) l,
  existsb p l = true -> exists x, find p l = Some x /\ In x l /\ p x = true.
Proof.
  induction l as [|a l IH]; cbn; intro H; [discriminate|].
  destruct (p a) eqn:E.
  - exists a. auto.
  - cbn in H. destruct (IH H) as [x [H1 [H2 H3]]]. exists x. auto.
Qed.

Lemma existsb_false_find : forall (A : Type) (p : A -> bool) l,
  existsb p l = false -> find p l = None.
Proof.
  induction l as [|a l IH]; cbn; intro H; [reflexivity|].
  apply orb_false_iff in H as [H1 H2]. rewrite H1. auto.
Qed.

Lemma apart_app_old : forall fs f P, anode fs P = true -> apart (fs ++ [f]) P = apart fs P.
Proof.
  intros fs f P H. unfold apart. apply existsb_find in H as [x [H1 _]].
  rewrite (find_app_some _ _ _ _ _ H1), H1. reflexivity.
Qed.

Lemma apart_app_new : forall fs f P,
  anode fs P = false -> through P f = true ->
  apart (fs ++ [f]) P = nth (pred (length P)) (pat f) dpart.
Proof.
  intros fs f P H T. unfold apart. rewrite find_app_none by (apply existsb_false_find; exact H).
  cbn. rewrite T. reflexivity.
Qed.

Lemma aval_app : forall fs f P,
  aval (fs ++ [f]) P = aval fs P ++ (if path_eqb (psteps (pat f)) P then [f] else []).
Proof. intros. unfold aval. rewrite filter_app. reflexivity. Qed.

Lemma aval_in : forall fs P f, In f (aval fs P) <-> In f fs /\ psteps (pat f) = P.
Proof.
  intros. unfold aval. rewrite filter_In. rewrite path_eqb_eq. reflexivity.
Qed.

Lemma aval_nonempty_anode : forall fs P, aval fs P <> [] -> anode fs P = true.
Proof.
  intros fs P H. destruct (aval fs P) as [|f l] eqn:E; [contradiction|].
  assert (In f (aval fs P)) as Hin by (rewrite E; left; reflexivity).
  apply aval_in in Hin as [Hin HP]. unfold anode. apply existsb_exists. exists f.
  split; [assumption|]. unfold through. rewrite HP. apply prefixb_refl.
Qed.

Lemma atree_nonroot : forall fs P, P <> [] ->
  atree fs P = if anode fs P then Some {| n_part := apart fs P; n_val := anval fs P |} else None.
Proof. intros fs P H. destruct P; [contradiction | reflexivity]. Qed.

Lemma Inv_empty : Inv [] empty.
Proof. intro P. destruct P; reflexivity. Qed.

Lemma psteps_cons : forall pt rest, psteps (pt :: rest) = step_of (snd pt) :: psteps rest.
Proof. reflexivity. Qed.

Lemma app_cons_snoc : forall (A : Type) (l : list A) x r, l ++ x :: r = (l ++ [x]) ++ r.
Proof. intros. rewrite <- app_assoc. reflexivity. Qed.

(* ---- find_decl ---- *)
Lemma find_decl_path : forall ps (t : ftree) cur p,
  find_decl t cur ps = Some p -> p = cur ++ psteps ps.
Proof.
  induction ps as [|pt rest IH]; intros t cur p H; cbn in H.
  - inversion H. cbn. rewrite app_nil_r. reflexivity.
  - destruct (t (cur ++ [step_of (snd pt)])) as [n|] eqn:E; [|discriminate].
    rewrite psteps_cons, app_cons_snoc.
    destruct (step_of (snd pt)) eqn:S.
    + eapply IH; eauto.
    + destruct (tok_eqb (param_name (snd pt)) (n_pname n)); [|discriminate]. eapply IH; eauto.
    + eapply IH; eauto.
Qed.

Lemma find_decl_nodes : forall ps (t : ftree) cur p,
  find_decl t cur ps = Some p ->
  forall Q, prefixb Q (cur ++ psteps ps) = true -> (length cur < length Q)%nat -> t Q <> None.
Proof.
  induction ps as [|pt rest IH]; intros t cur p H Q HQ HL; cbn in H.
  - cbn in HQ. rewrite app_nil_r in HQ. apply prefixb_length in HQ. lia.
  - destruct (t (cur ++ [step_of (snd pt)])) as [n|] eqn:E; [|discriminate].
    rewrite psteps_cons, app_cons_snoc in HQ.
    assert (exists p', find_decl t (cur ++ [step_of (snd pt)]) rest = Some p') as [p' Hp'].
    { destruct (step_of (snd pt)); eauto.
      destruct (tok_eqb (param_name (snd pt)) (n_pname n)); [eauto | discriminate]. }
    destruct (Nat.eq_dec (length Q) (length (cur ++ [step_of (snd pt)]))) as [EL|NL].
    + apply prefix_same_len in HQ; [|assumption]. subst Q. rewrite E. discriminate.
    + eapply IH; eauto. rewrite app_length in *. cbn in *. lia.
Qed.

(* ---- ins_walk ---- *)
(* the nodes an insertion walk creates below [cur] (when they are missing) *)
Fixpoint created (cur : path) (ps : list part) (Q : path) : option (ninfo fnode) :=
  match ps with
  | [] => None
  | pt :: rest =>
      let p := cur ++ [step_of (snd pt)] in
      if path_eqb Q p then Some (fresh pt) else created p rest Q
  end.

Definition last_wild (ps : list part) : Prop := step_of (snd (last ps dpart)) = SWild.

Lemma star_last_tail : forall pt rest, star_last (pt :: rest) = true -> star_last rest = true.
Proof.
  intros pt rest H. destruct rest as [|q r]; [reflexivity|].
  cbn in H. apply andb_true_iff in H as [_ H]. exact H.
Qed.

Lemma star_last_wild_head : forall pt rest,
  star_last (pt :: rest) = true -> step_of (snd pt) = SWild -> rest = [].
Proof.
  intros pt rest H W. destruct rest as [|q r]; [reflexivity|].
  cbn in H. apply andb_true_iff in H as [H _]. apply is_wild_step in W. rewrite W in H. discriminate.
Qed.

Lemma last_cons_cons : forall (A : Type) (a b : A) l d, last (a :: b :: l) d = last (b :: l) d.
Proof. reflexivity. Qed.

Lemma ins_walk_spec : forall ps (t : ftree) cur t1 p,
  star_last ps = true ->
  (last_wild ps -> forall Q, prefixb (cur ++ psteps ps) Q = true -> t Q = None) ->
  ins_walk t cur ps = (t1, Some p) ->
  p = cur ++ psteps ps /\
  forall Q, t1 Q = match t Q with Some n => Some n | None => created cur ps Q end.
Proof.
  induction ps as [|pt rest IH]; intros t cur t1 p SL HW H.
  - cbn in H. inversion H; subst. split; [cbn; rewrite app_nil_r; reflexivity|].
    intro Q. cbn. destruct (t1 Q); reflexivity.
  - cbn [ins_walk] in H. rewrite psteps_cons, app_cons_snoc.
    set (p0 := cur ++ [step_of (snd pt)]) in *.
    assert (SLr : star_last rest = true) by (eapply star_last_tail; eauto).
    (* the hypothesis on wildcards, for the rest of the walk over a tree t2 *)
    assert (HWr : forall t2 : ftree, (forall Q, Q <> p0 -> t2 Q = t Q) ->
              last_wild rest -> forall Q, prefixb (p0 ++ psteps rest) Q = true -> t2 Q = None).
    { intros t2 Ht2 LW Q HQ. destruct rest as [|q r].
      - exfalso. unfold last_wild in LW. cbn in LW. discriminate.
      - rewrite Ht2.
        + apply HW.
          * unfold last_wild in *. rewrite last_cons_cons. exact LW.
          * rewrite psteps_cons, app_cons_snoc. exact HQ.
        + apply snoc_neq_len. apply prefixb_length in HQ.
          rewrite app_length in HQ. cbn in HQ. lia. }
    destruct (step_of (snd pt)) eqn:S.
    + (* constant *)
      destruct (t p0) as [n|] eqn:E.
      * destruct (IH t p0 t1 p SLr (HWr t (fun _ _ => eq_refl)) H) as [Hp HQ].
        split; [exact Hp|]. intro Q. rewrite HQ. cbn [created]. fold p0. rewrite S. fold p0.
        destruct (t Q) eqn:EQ; [reflexivity|].
        destruct (path_eqb Q p0) eqn:EP; [|reflexivity].
        apply path_eqb_eq in EP. subst Q. congruence.
      * assert (Hupd : forall Q, Q <> p0 -> upd t p0 (fresh pt) Q = t Q).
        { intros Q HQ. unfold upd. apply path_eqb_neq in HQ. rewrite HQ. reflexivity. }
        destruct (IH _ p0 t1 p SLr (HWr _ Hupd) H) as [Hp HQ].
        split; [exact Hp|]. intro Q. rewrite HQ. cbn [created]. rewrite S. fold p0.
        unfold upd. destruct (path_eqb Q p0) eqn:EP.
        -- apply path_eqb_eq in EP. subst Q. rewrite E. reflexivity.
        -- reflexivity.
    + (* parameter *)
      destruct (t p0) as [n|] eqn:E.
      * destruct (tok_eqb (param_name (snd pt)) (n_pname n)); [|discriminate].
        destruct (IH t p0 t1 p SLr (HWr t (fun _ _ => eq_refl)) H) as [Hp HQ].
        split; [exact Hp|]. intro Q. rewrite HQ. cbn [created]. rewrite S. fold p0.
        destruct (t Q) eqn:EQ; [reflexivity|].
        destruct (path_eqb Q p0) eqn:EP; [|reflexivity].
        apply path_eqb_eq in EP. subst Q. congruence.
      * assert (Hupd : forall Q, Q <> p0 -> upd t p0 (fresh pt) Q = t Q).
        { intros Q HQ. unfold upd. apply path_eqb_neq in HQ. rewrite HQ. reflexivity. }
        destruct (IH _ p0 t1 p SLr (HWr _ Hupd) H) as [Hp HQ].
        split; [exact Hp|]. intro Q. rewrite HQ. cbn [created]. rewrite S. fold p0.
        unfold upd. destruct (path_eqb Q p0) eqn:EP.
        -- apply path_eqb_eq in EP. subst Q. rewrite E. reflexivity.
        -- reflexivity.
    + (* wildcard: necessarily the last part; the replaced subtree is empty *)
      assert (rest = []) by (eapply star_last_wild_head; eauto). subst rest.
      cbn in H. inversion H; subst. split; [cbn; rewrite app_nil_r; reflexivity|].
      intro Q. cbn [created]. rewrite S. fold p0.
      assert (HN : forall Q, prefixb p0 Q = true -> t Q = None).
      { intros Q' HQ'. apply HW.
        - unfold last_wild. cbn. exact S.
        - rewrite psteps_cons, app_cons_snoc. cbn. rewrite app_nil_r. rewrite S. exact HQ'. }
      unfold upd, cut. destruct (path_eqb Q p0) eqn:EP.
      * apply path_eqb_eq in EP. subst Q. rewrite (HN p0 (prefixb_refl _)). reflexivity.
      * destruct (prefixb p0 Q) eqn:EPQ.
        -- rewrite (HN Q EPQ). reflexivity.
        -- destruct (t Q); reflexivity.
Qed.

Lemma created_some : forall ps cur Q x,
  created cur ps Q = Some x ->
  exists Q', Q = cur ++ Q' /\ Q' <> [] /\ prefixb Q' (psteps ps) = true.
Proof.
  induction ps as [|pt rest IH]; intros cur Q x H; cbn in H; [discriminate|].
  destruct (path_eqb Q (cur ++ [step_of (snd pt)])) eqn:E.
  - apply path_eqb_eq in E. exists [step_of (snd pt)]. split; [exact E|]. split; [discriminate|].
    cbn. rewrite step_eqb_refl. reflexivity.
  - apply IH in H as [Q' [H1 [H2 H3]]]. exists (step_of (snd pt) :: Q'). split.
    + rewrite H1. rewrite <- app_assoc. reflexivity.
    + split; [discriminate|]. cbn. rewrite step_eqb_refl. exact H3.
Qed.

Lemma created_prefix : forall ps cur Q',
  Q' <> [] -> prefixb Q' (psteps ps) = true ->
  created cur ps (cur ++ Q') = Some (fresh (nth (pred (length Q')) ps dpart)).
Proof.
  induction ps as [|pt rest IH]; intros cur Q' NE HP.
  - destruct Q'; [contradiction | discriminate].
  - destruct Q' as [|s Q'']; [contradiction|].
    rewrite psteps_cons in HP. cbn in HP. apply andb_true_iff in HP as [HS HP].
    apply step_eqb_eq in HS. subst s. cbn [created].
    destruct Q'' as [|s2 Q3].
    + rewrite path_eqb_refl. reflexivity.
    + assert (path_eqb (cur ++ step_of (snd pt) :: s2 :: Q3) (cur ++ [step_of (snd pt)]) = false) as ->.
      { apply path_eqb_neq. apply snoc_neq_len. rewrite !app_length. cbn. lia. }
      rewrite (app_cons_snoc _ cur (step_of (snd pt)) (s2 :: Q3)).
      rewrite IH; [|discriminate|exact HP]. reflexivity.
Qed.

Lemma ins_walk_find : forall ps (t : ftree) cur t1 p,
  star_last ps = true ->
  ins_walk t cur ps = (t1, Some p) ->
  (forall Q, prefixb Q (cur ++ psteps ps) = true -> (length cur < length Q)%nat -> t Q <> None) ->
  find_decl t cur ps = Some (cur ++ psteps ps).
Proof.
  induction ps as [|pt rest IH]; intros t cur t1 p SL H HN.
  - cbn. rewrite app_nil_r. reflexivity.
  - cbn [ins_walk find_decl] in *.
    rewrite psteps_cons, (app_cons_snoc _ cur (step_of (snd pt)) (psteps rest)) in HN.
    rewrite psteps_cons, (app_cons_snoc _ cur (step_of (snd pt)) (psteps rest)).
    set (p0 := cur ++ [step_of (snd pt)]) in *.
    assert (SLr : star_last rest = true) by (eapply star_last_tail; eauto).
    destruct (t p0) as [n|] eqn:E.
    2:{ exfalso. apply (HN p0); [apply prefixb_app | unfold p0; rewrite app_length; cbn; lia | exact E]. }
    assert (HNr : forall Q, prefixb Q (p0 ++ psteps rest) = true -> (length p0 < length Q)%nat -> t Q <> None).
    { intros Q HQ HL. apply HN; [exact HQ|]. unfold p0 in HL. rewrite app_length in HL. cbn in HL. lia. }
    destruct (step_of (snd pt)) eqn:S.
    + eapply IH; eauto.
    + destruct (tok_eqb (param_name (snd pt)) (n_pname n)); [|discriminate]. eapply IH; eauto.
    + assert (rest = []) by (eapply star_last_wild_head; eauto). subst rest.
      cbn. rewrite app_nil_r. reflexivity.
Qed.

Lemma psteps_last : forall ps, ps <> [] -> last (psteps ps) SParam = step_of (snd (last ps dpart)).
Proof.
  induction ps as [|pt rest IH]; intro H; [contradiction|].
  destruct rest as [|q r]; [reflexivity|].
  rewrite psteps_cons. rewrite last_cons_cons. rewrite <- IH by discriminate.
  rewrite psteps_cons. reflexivity.
Qed.

Lemma star_last_prefix_eq : forall ps S,
  star_last ps = true -> prefixb S (psteps ps) = true -> S <> [] -> last S SParam = SWild ->
  S = psteps ps.
Proof.
  induction ps as [|pt rest IH]; intros S SL HP NE LW.
  - destruct S; [contradiction | discriminate].
  - destruct S as [|s S']; [contradiction|].
    rewrite psteps_cons in *. cbn in HP. apply andb_true_iff in HP as [HS HP].
    apply step_eqb_eq in HS. subst s.
    destruct S' as [|s2 S3].
    + cbn in LW. assert (rest = []) by (eapply star_last_wild_head; eauto). subst. reflexivity.
    + f_equal. apply IH; [eapply star_last_tail; eauto | exact HP | discriminate |].
      rewrite last_cons_cons in LW. exact LW.
Qed.

Lemma Inv_node : forall fs t P n, Inv fs t -> P <> [] -> t P = Some n ->
  anode fs P = true /\ n_part n = apart fs P /\ n_val n = anval fs P.
Proof.
  intros fs t P n HI NE H. rewrite HI, atree_nonroot in H by exact NE.
  destruct (anode fs P); [|discriminate]. inversion H; subst. cbn. auto.
Qed.

Lemma Inv_none : forall fs t P, Inv fs t -> t P = None -> P <> [] /\ anode fs P = false.
Proof.
  intros fs t P HI H. rewrite HI in H. destruct P as [|s P]; [discriminate|].
  split; [discriminate|]. rewrite atree_nonroot in H by discriminate.
  destruct (anode fs (s :: P)); [discriminate | reflexivity].
Qed.

Lemma anval_none : forall fs P, anode fs P = false -> aval fs P = [].
Proof.
  intros fs P H. destruct (aval fs P) eqn:E; [reflexivity|].
  rewrite aval_nonempty_anode in H; [discriminate | rewrite E; discriminate].
Qed.

Lemma atree_app_other : forall fs f P,
  P <> psteps (pat f) -> (through P f = true -> P <> [] -> anode fs P = true) ->
  atree (fs ++ [f]) P = atree fs P.
Proof.
  intros fs f P NE HT. destruct P as [|s P]; [reflexivity|].
  rewrite !atree_nonroot by discriminate. rewrite anode_app.
  assert (EV : anval (fs ++ [f]) (s :: P) = anval fs (s :: P)).
  { unfold anval. rewrite aval_app.
    assert (path_eqb (psteps (pat f)) (s :: P) = false) as ->
      by (apply path_eqb_neq; congruence).
    rewrite app_nil_r. reflexivity. }
  destruct (anode fs (s :: P)) eqn:EA.
  - cbn [orb]. rewrite apart_app_old by exact EA. rewrite EV. reflexivity.
  - cbn [orb]. destruct (through (s :: P) f) eqn:ET; [|reflexivity].
    assert (false = true) by (apply HT; [reflexivity | discriminate]). discriminate.
Qed.

Lemma some_nonempty : forall (l : list flow) f,
  match l ++ [f] with [] => None | x => Some x end = Some (l ++ [f]).
Proof. intros l f. destruct l; reflexivity. Qed.

(* appending to the node declared on exactly this URL *)
Lemma add_append_inv : forall fs (t : ftree) f n fl,
  Inv fs t ->
  t (psteps (pat f)) = Some n -> n_val n = Some fl ->
  Inv (fs ++ [f]) (upd t (psteps (pat f)) {| n_part := n_part n; n_val := Some (fl ++ [f]) |}).
Proof.
  intros fs t f n fl HI Hn Hv P.
  set (S := psteps (pat f)) in *.
  assert (SNE : S <> []) by apply psteps_pat_nonempty.
  destruct (Inv_node _ _ _ _ HI SNE Hn) as [HA [HP HV]].
  unfold upd. destruct (path_eqb P S) eqn:EP.
  - apply path_eqb_eq in EP. subst P. rewrite atree_nonroot by exact SNE.
    rewrite anode_app, HA. cbn [orb]. rewrite apart_app_old by exact HA. rewrite HP.
    f_equal. f_equal. unfold anval in *. rewrite aval_app. fold S. rewrite path_eqb_refl.
    rewrite Hv in HV. destruct (aval fs S) eqn:EV; [discriminate|]. inversion HV; subst.
    symmetry. apply some_nonempty.
  - apply path_eqb_neq in EP. rewrite HI. symmetry. apply atree_app_other; [exact EP|].
    intros HT _. eapply anode_prefix; eauto.
Qed.

(* InsertDeclaredURL on a URL whose node holds no value yet *)
Lemma add_insert_inv : forall fs (t t' : ftree) f,
  Inv fs t -> stars_last fs = true -> star_last (pat f) = true ->
  (find_decl t [] (pat f) = None \/ val_at t (psteps (pat f)) = None) ->
  insert_declared t (pat f) [f] = (t', false) ->
  Inv (fs ++ [f]) t'.
Proof.
  intros fs t t' f HI SLs SL Hcase H.
  set (ps := pat f) in *. set (S := psteps ps) in *.
  assert (SNE : S <> []) by apply psteps_pat_nonempty.
  assert (PNE : ps <> []) by apply pat_nonempty.
  unfold insert_declared in H. destruct (validate ps); [|inversion H].
  destruct (ins_walk t [] ps) as [t1 [p|]] eqn:EW; [|inversion H].
  (* the node of this URL exists => all its ancestors exist *)
  assert (HANC : t S <> None ->
            forall Q, prefixb Q ([] ++ S) = true -> (length (@nil step) < length Q)%nat -> t Q <> None).
  { intros HS Q HQ HL. cbn in HQ, HL. destruct (t S) as [n0|] eqn:E0; [|contradiction].
    destruct (Inv_node _ _ _ _ HI SNE E0) as [HA _].
    assert (QNE : Q <> []) by (destruct Q; [cbn in HL; lia | discriminate]).
    rewrite HI, atree_nonroot by exact QNE. rewrite (anode_prefix _ _ _ HA HQ). discriminate. }
  assert (HV : val_at t S = None).
  { destruct Hcase as [HF|HV]; [|exact HV].
    unfold val_at. destruct (t S) as [n0|] eqn:E0; [|reflexivity]. exfalso.
    assert (find_decl t [] ps = Some ([] ++ S)) as HF'.
    { eapply ins_walk_find; eauto. apply HANC. congruence. }
    rewrite HF in HF'. discriminate. }
  (* a trailing wildcard: its node (hence everything below) is absent *)
  assert (HW : last_wild ps -> forall Q, prefixb ([] ++ S) Q = true -> t Q = None).
  { intros LW Q HQ. cbn in HQ. destruct (t Q) as [nq|] eqn:EQ; [exfalso|reflexivity].
    assert (QNE : Q <> []).
    { intro. subst Q. destruct S; [contradiction | discriminate]. }
    destruct (Inv_node _ _ _ _ HI QNE EQ) as [HAQ _].
    assert (HAS : anode fs S = true) by (eapply anode_prefix; eauto).
    unfold anode in HAS. apply existsb_exists in HAS as [g [Hg HTg]]. unfold through in HTg.
    assert (SLg : star_last (pat g) = true).
    { unfold stars_last in SLs. rewrite forallb_forall in SLs. apply SLs. exact Hg. }
    assert (HSg : S = psteps (pat g)).
    { apply star_last_prefix_eq; auto. unfold S. rewrite psteps_last by exact PNE. exact LW. }
    assert (HgS : In g (aval fs S)) by (apply aval_in; split; [exact Hg | congruence]).
    unfold val_at in HV. destruct (t S) as [n0|] eqn:E0.
    - destruct (Inv_node _ _ _ _ HI SNE E0) as [_ [_ HV0]]. rewrite HV in HV0.
      unfold anval in HV0. destruct (aval fs S); [contradiction | discriminate].
    - destruct (Inv_none _ _ _ HI E0) as [_ HA0]. rewrite anval_none in HgS by exact HA0. contradiction. }
  destruct (ins_walk_spec ps t [] t1 p SL HW EW) as [Hp HQ]. cbn in Hp. fold S in Hp. subst p.
  destruct (t1 S) as [n|] eqn:E1; [|inversion H].
  inversion H; subst t'. clear H.
  intro P. unfold upd. destruct (path_eqb P S) eqn:EP.
  - apply path_eqb_eq in EP. subst P. rewrite atree_nonroot by exact SNE.
    rewrite anode_app. rewrite HQ in E1.
    destruct (t S) as [n0|] eqn:E0.
    + inversion E1; subst n0. destruct (Inv_node _ _ _ _ HI SNE E0) as [HA [HP HV0]].
      rewrite HA. cbn [orb]. rewrite apart_app_old by exact HA. rewrite HP.
      f_equal. f_equal. unfold val_at in HV. rewrite E0 in HV. rewrite HV in HV0.
      unfold anval in *. rewrite aval_app. fold ps. fold S. rewrite path_eqb_refl.
      destruct (aval fs S); [reflexivity | discriminate].
    + destruct (Inv_none _ _ _ HI E0) as [_ HA0]. rewrite HA0. cbn [orb].
      assert (HT : through S f = true) by (unfold through; fold ps; fold S; apply prefixb_refl).
      rewrite HT. rewrite apart_app_new by assumption. fold ps.
      change S with ([] ++ S) in E1. rewrite created_prefix in E1 by (auto using prefixb_refl).
      inversion E1; subst n. cbn. f_equal. f_equal.
      unfold anval. rewrite aval_app. fold ps. fold S. rewrite path_eqb_refl.
      rewrite anval_none by exact HA0. reflexivity.
  - apply path_eqb_neq in EP. rewrite HQ. destruct (t P) as [n0|] eqn:E0.
    + rewrite <- E0, HI. symmetry. apply atree_app_other; [exact EP|].
      intros _ PNE'. destruct (Inv_node _ _ _ _ HI PNE' E0) as [HA _]. exact HA.
    + destruct (Inv_none _ _ _ HI E0) as [PNE' HA0].
      rewrite atree_nonroot by exact PNE'. rewrite anode_app, HA0. cbn [orb].
      destruct (through P f) eqn:ET.
      * unfold through in ET. fold ps in ET. fold S in ET.
        change P with ([] ++ P). rewrite created_prefix by assumption. cbn [app].
        rewrite apart_app_new by assumption. fold ps. unfold fresh. f_equal. f_equal.
        unfold anval. rewrite aval_app. fold ps. fold S.
        assert (path_eqb S P = false) as -> by (apply path_eqb_neq; congruence).
        rewrite anval_none by exact HA0. reflexivity.
      * destruct (created [] ps P) as [x|] eqn:EC; [exfalso|reflexivity].
        apply created_some in EC as [Q' [H1 [H2 H3]]]. cbn in H1. subst Q'.
        unfold through in ET. fold ps in ET. rewrite H3 in ET. discriminate.
Qed.

Lemma add_flow_inv : forall fs (t t' : ftree) f,
  Inv fs t -> stars_last fs = true -> star_last (pat f) = true ->
  add_flow t f = (t', false) -> Inv (fs ++ [f]) t'.
Proof.
  intros fs t t' f HI SLs SL H. unfold add_flow in H.
  destruct (find_decl t [] (pat f)) as [p|] eqn:EF.
  - assert (p = psteps (pat f)) by (apply find_decl_path in EF; exact EF). subst p.
    destruct (t (psteps (pat f))) as [n|] eqn:En.
    + destruct (n_val n) as [fl|] eqn:Ev.
      * inversion H; subst. eapply add_append_inv; eauto.
      * eapply add_insert_inv; eauto. right. unfold val_at. rewrite En. exact Ev.
    + eapply add_insert_inv; eauto. right. unfold val_at. rewrite En. reflexivity.
  - eapply add_insert_inv; eauto.
Qed.

Lemma stars_last_app : forall a b, stars_last (a ++ b) = stars_last a && stars_last b.
Proof. intros. unfold stars_last. apply forallb_app. Qed.

Lemma build_from_inv : forall fs2 fs1 (t t' : ftree) es,
  Inv fs1 t -> stars_last (fs1 ++ fs2) = true ->
  build_from t fs2 = (t', es) -> forallb negb es = true ->
  Inv (fs1 ++ fs2) t'.
Proof.
  induction fs2 as [|f rest IH]; intros fs1 t t' es HI SL HB HE.
  - cbn in HB. inversion HB; subst. rewrite app_nil_r. exact HI.
  - cbn in HB. destruct (add_flow t f) as [t1 e] eqn:EA.
    destruct (build_from t1 rest) as [t2 es2] eqn:EB. inversion HB; subst. clear HB.
    cbn in HE. apply andb_true_iff in HE as [He HE]. destruct e; [discriminate|].
    rewrite stars_last_app in SL. apply andb_true_iff in SL as [SL1 SL2].
    cbn in SL2. apply andb_true_iff in SL2 as [SLf SLr].
    replace (fs1 ++ f :: rest) with ((fs1 ++ [f]) ++ rest) by (rewrite <- app_assoc; reflexivity).
    eapply IH; eauto.
    + eapply add_flow_inv; eauto.
    + rewrite !stars_last_app. apply andb_true_iff; split;
        [apply andb_true_iff; split; [exact SL1 | cbn; rewrite SLf; reflexivity] | exact SLr].
Qed.

(* THE representation lemma *)
Theorem build_repr : forall fs,
  load_ok fs = true -> stars_last fs = true -> Inv fs (fst (build fs)).
Proof.
  intros fs HL SL. unfold load_ok, build in *.
  destruct (build_from empty fs) as [t es] eqn:EB. cbn in *.
  change fs with ([] ++ fs). eapply build_from_inv; eauto. apply Inv_empty.
Qed.
