(* C03 — A flow runs for a transaction exactly when its own filter accepts it.
   Final statements only; proofs are in Repr.v / Select.v / Proofs.v.

   Objects (Model.v, Trie.v = the code with the repairs F-C03a/b/d/e):
     tree_of fs        the FilterTree after AddFlow-ing the flows fs in list order
     get_flow t x      the flows FilterTree.GetFlow returns for transaction x
     exec_flow run ..  Stream.ExecuteFlow as far as selection goes
   Vocabulary (Spec.v, written from the property text):
     matches pat url   literal = same token of the same kind, {p} = one part of
                       that kind, trailing * = at least one further part of the
                       kind it was written in (or none when the URL is host-only)
     constraints_hold  the flow's own method / header / query / status requirements
     unshadowed        no more specific literal pattern is configured alongside
   Hypotheses (all decidable, all computed by the monitor too):
     load_ok fs          every AddFlow succeeded (else the engine refuses to start)
     stars_last fs       * occurs only as the last part of a pattern
     kind_consistent fs  no host-label / path-segment collision   (open finding F-C03c)
     wild_kind_ok p url  the part under a trailing * has the *'s kind (open finding F-C03f) *)
From Coq Require Import List ZArith Bool Permutation String.
From Verif Require Import C03.Trie C03.Model C03.Spec C03.Proofs.
Import ListNotations.
Open Scope Z_scope.

(* ---- only if: every selected flow is loaded and its OWN filter is satisfied ---- *)
Theorem C03_sound : forall fs x f,
  load_ok fs = true -> stars_last fs = true -> kind_consistent fs = true ->
  In f (get_flow (tree_of fs) x) ->
  wild_kind_ok (pat f) (url_of x) = true ->
  In f fs /\ matches (pat f) (url_of x) = true /\ constraints_hold f x.
Proof.
  intros fs x f HL HS HK H HW. destruct (sound fs x f HL HS HK H) as [H1 [H2 [_ H4]]].
  split; [exact H1|]. split; [exact (H4 HW) | apply qualifies_iff; exact H2].
Qed.
Print Assumptions C03_sound.

(* without the side condition on the trailing wildcard: the reading the code
   implements (a trailing * swallows parts of ANY kind) *)
Theorem C03_sound_lax : forall fs x f,
  load_ok fs = true -> stars_last fs = true -> kind_consistent fs = true ->
  In f (get_flow (tree_of fs) x) ->
  In f fs /\ matches_lax (pat f) (url_of x) = true /\ constraints_hold f x.
Proof.
  intros fs x f HL HS HK H. destruct (sound fs x f HL HS HK H) as [H1 [H2 [H3 _]]].
  split; [exact H1|]. split; [exact H3 | apply qualifies_iff; exact H2].
Qed.
Print Assumptions C03_sound_lax.

(* ---- if: a loaded flow whose filter is satisfied and which is not shadowed is selected ---- *)
Theorem C03_complete : forall fs x f,
  load_ok fs = true -> stars_last fs = true -> kind_consistent fs = true ->
  In f fs ->
  matches (pat f) (url_of x) = true -> constraints_hold f x ->
  unshadowed fs f (url_of x) = true ->
  In f (get_flow (tree_of fs) x).
Proof.
  intros fs x f HL HS HK Hf HM HC HU. apply complete; auto.
  unfold satisfied. fold (url_of x). rewrite HM. apply qualifies_iff in HC. rewrite HC. reflexivity.
Qed.
Print Assumptions C03_complete.

(* ---- the selection (as a set) does not depend on the load order ---- *)
Theorem C03_order_independent : forall fs fs',
  Permutation fs fs' ->
  load_ok fs = true -> load_ok fs' = true -> stars_last fs = true -> kind_consistent fs = true ->
  forall x f, In f (get_flow (tree_of fs) x) <-> In f (get_flow (tree_of fs') x).
Proof. intros. apply order_independent; assumption. Qed.
Print Assumptions C03_order_independent.

(* ---- a transaction that satisfies no filter is passed through untouched:
        no flow is invoked, the actions come back as they went in ---- *)
Theorem C03_no_match_no_action :
  forall (A : Type) (run : list flow -> txn -> A -> A) fs x acts,
  load_ok fs = true -> stars_last fs = true -> kind_consistent fs = true ->
  (forall f, In f fs -> satisfied f x = false /\ wild_kind_ok (pat f) (url_of x) = true) ->
  exec_flow run (tree_of fs) x acts = (acts, []).
Proof.
  intros A run fs x acts HL HS HK HN. apply no_match_no_action; auto.
  intros f Hf. destruct (HN f Hf). apply satisfied_lax_of_strict; assumption.
Qed.
Print Assumptions C03_no_match_no_action.

Theorem C03_no_match_no_action_lax :
  forall (A : Type) (run : list flow -> txn -> A -> A) fs x acts,
  load_ok fs = true -> stars_last fs = true -> kind_consistent fs = true ->
  (forall f, In f fs -> satisfied_lax f x = false) ->
  exec_flow run (tree_of fs) x acts = (acts, []).
Proof. intros. apply no_match_no_action; assumption. Qed.
Print Assumptions C03_no_match_no_action_lax.

(* ======== open findings: the unrestricted statements are false ======== *)
Definition U (s : string) : flow := mkFlow 0 0 (bs s) [] [] [] [].
Definition Un (n : Z) (s : string) : flow := mkFlow n 0 (bs s) [] [] [] [].
Definition GET (s : string) : txn := mkTxn false (bs s) (bs "GET") [] [] 0.

(* F-C03f: "a/*" is selected for "a.b" (host a.b, not host a) *)
Definition C03_sound_full : Prop := forall fs x f,
  load_ok fs = true -> stars_last fs = true -> kind_consistent fs = true ->
  In f (get_flow (tree_of fs) x) -> matches (pat f) (url_of x) = true.
Theorem C03_sound_full_refuted : ~ C03_sound_full.
Proof.
  intro H. specialize (H [U "a/*"] (GET "a.b") (U "a/*")).
  assert (E : matches (pat (U "a/*")) (url_of (GET "a.b")) = false) by (vm_compute; reflexivity).
  rewrite H in E; [discriminate | vm_compute; reflexivity ..| vm_compute; left; reflexivity].
Qed.
Print Assumptions C03_sound_full_refuted.

(* F-C03c: "a.a" and "a/a" collide in the trie; which one works depends on the load order *)
Definition C03_order_independent_full : Prop := forall fs fs',
  Permutation fs fs' -> load_ok fs = true -> load_ok fs' = true -> stars_last fs = true ->
  forall x f, In f (get_flow (tree_of fs) x) <-> In f (get_flow (tree_of fs') x).
Theorem C03_order_independent_full_refuted : ~ C03_order_independent_full.
Proof.
  intro H.
  specialize (H [Un 0 "a.a"; Un 1 "a/a"] [Un 1 "a/a"; Un 0 "a.a"]).
  assert (HP : Permutation [Un 0 "a.a"; Un 1 "a/a"] [Un 1 "a/a"; Un 0 "a.a"]) by apply perm_swap.
  specialize (H HP eq_refl eq_refl eq_refl (GET "a.a") (Un 0 "a.a")).
  assert (E1 : get_flow (tree_of [Un 0 "a.a"; Un 1 "a/a"]) (GET "a.a") = [Un 0 "a.a"; Un 1 "a/a"])
    by (vm_compute; reflexivity).
  assert (E2 : get_flow (tree_of [Un 1 "a/a"; Un 0 "a.a"]) (GET "a.a") = [])
    by (vm_compute; reflexivity).
  rewrite E1, E2 in H. apply H. left. reflexivity.
Qed.
Print Assumptions C03_order_independent_full_refuted.

Definition C03_complete_full : Prop := forall fs x f,
  load_ok fs = true -> stars_last fs = true -> In f fs ->
  matches (pat f) (url_of x) = true -> constraints_hold f x ->
  unshadowed fs f (url_of x) = true -> In f (get_flow (tree_of fs) x).
Theorem C03_complete_full_refuted : ~ C03_complete_full.
Proof.
  intro H.
  specialize (H [Un 1 "a/a"; Un 0 "a.a"] (GET "a.a") (Un 0 "a.a") eq_refl eq_refl).
  assert (E2 : get_flow (tree_of [Un 1 "a/a"; Un 0 "a.a"]) (GET "a.a") = [])
    by (vm_compute; reflexivity).
  rewrite E2 in H. apply H.
  - right. left. reflexivity.
  - vm_compute. reflexivity.
  - apply qualifies_iff. vm_compute. reflexivity.
  - vm_compute. reflexivity.
Qed.
Print Assumptions C03_complete_full_refuted.

(* ======== non-vacuity: the hypotheses hold on a non-trivial configuration ======== *)
Definition demo : list flow :=
  [ mkFlow 0 0 (bs "api.com/v1/*") [] [] [] [];
    mkFlow 1 0 (bs "api.com/v1/users/{id}") [bs "POST"] [(bs "x-b", bs "1")] [] [];
    mkFlow 2 0 (bs "api.com/v1/users/{id}") [] [] [(bs "q", bs "1")] [201];
    mkFlow 3 0 (bs "api.com/v1/users/me") [] [] [] [];
    mkFlow 4 1 (bs "*") [] [] [] [] ].

Example C03_demo_hypotheses :
  load_ok demo = true /\ stars_last demo = true /\ kind_consistent demo = true.
Proof. vm_compute. auto. Qed.

(* POST api.com/v1/users/7 with header x-b: 1: the wildcard flow, the first
   {id} flow (its own method+header hold), the system flow; NOT flow 2 (its own
   query requirement fails although flow 1 on the same URL has none), NOT "me" *)
Example C03_demo_selection :
  map f_id (get_flow (tree_of demo)
             (mkTxn false (bs "api.com/v1/users/7") (bs "POST") [(bs "x-b", bs "1")] [] 0))
  = [4; 0; 1].
Proof. vm_compute. reflexivity. Qed.

(* the literal "me" shadows {id}; one segment too many selects only the wildcards;
   another host selects only "*" *)
Example C03_demo_shadow :
  map f_id (get_flow (tree_of demo) (GET "api.com/v1/users/me")) = [4; 0; 3]
  /\ map f_id (get_flow (tree_of demo) (GET "api.com/v1/users/7/x")) = [4; 0]
  /\ map f_id (get_flow (tree_of demo) (GET "api.org/v1")) = [4]
  /\ unshadowed demo (nth 2 demo (U "")) (url_of (GET "api.com/v1/users/me")) = false
  /\ unshadowed demo (nth 2 demo (U "")) (url_of (GET "api.com/v1/users/7")) = true.
Proof. vm_compute. auto. Qed.

(* every load order of the demo set is accepted (so C03_order_independent applies) *)
Example C03_demo_reversed : load_ok (rev demo) = true.
Proof. vm_compute. reflexivity. Qed.
