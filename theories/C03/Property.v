(* C03 — A flow runs for a transaction exactly when its own filter accepts it.
   Final statements only; proofs are in Repr.v / Stars.v / Select.v / Exact.v / Proofs.v.

   Objects (Model.v, Trie.v = the code as it is in /repo, repairs F-C03a/b/d/e included):
     tree_of fs        the FilterTree after AddFlow-ing the flows fs in list order
     get_flow t x      the flows FilterTree.GetFlow returns for transaction x
     exec_flow run ..  Stream.ExecuteFlow as far as selection goes
   Vocabulary (Spec.v, SpecLocal.v, written from the property text):
     matches pat url   literal = same token of the same kind, {p} = one part of
                       that kind, trailing * = at least one further part of the
                       kind it was written in (or none when the URL is host-only)
     matches_lax       the same, a trailing * swallows parts of ANY kind (the code)
     constraints_hold  the flow's own method / header / query / status requirements
     unshadowed_k      no more specific literal pattern is configured alongside
                       (kind-aware; unshadowed = the older, kind-blind, stronger one)
   Hypotheses (all decidable, all computed by the monitor too):
     load_ok fs          every AddFlow succeeded (else the engine refuses to start)
     kc_at fs f url      no configured pattern collides (host label vs path segment)
                         with f's pattern on a node the look-up of url reads
     kc_url fs url       no two configured patterns collide on such a node
                         (both: open finding F-C03c, localised; implied by the
                         older global kind_consistent fs)
     wild_kind_ok p url  the part under a trailing * has the *'s kind (open finding F-C03f)
   stars_last fs (a wildcard only as the last part) is NOT a hypothesis any more: it follows
   from load_ok (C03_load_ok_stars_last).  The five theorems C03_sound,
   C03_sound_lax, C03_complete, C03_order_independent, C03_no_match_no_action keep
   their original statements (other units apply them positionally); the
   statements with the narrower hypotheses are the ones named _at / _url / _exact. *)
From Coq Require Import List ZArith Bool Permutation String.
From Verif Require Import C03.Trie C03.Model C03.Spec C03.SpecLocal C03.Proofs C03.Stars C03.Exact C03.Accept C03.Loader C03.Query.
Import ListNotations.
Open Scope Z_scope.

(* ---- only if: every selected flow is loaded and its OWN filter is satisfied ---- *)
Theorem C03_sound : forall fs x f,
  load_ok fs = true -> stars_last fs = true -> kind_consistent fs = true ->
  In f (get_flow (tree_of fs) x) ->
  wild_kind_ok (pat f) (url_of x) = true ->
  In f fs /\ matches (pat f) (url_of x) = true /\ constraints_hold f x.
Proof.
  intros fs x f HL HS HK H HW. destruct (sound fs x f HL HS HK H) as [H1 [H2 [_ H4]]].
  split; [exact H1|]. split; [exact (H4 HW) | apply qualifies_iff; exact H2].
Qed.
Print Assumptions C03_sound.

(* without the side condition on the trailing wildcard: the reading the code
   implements (a trailing * swallows parts of ANY kind) *)
Theorem C03_sound_lax : forall fs x f,
  load_ok fs = true -> stars_last fs = true -> kind_consistent fs = true ->
  In f (get_flow (tree_of fs) x) ->
  In f fs /\ matches_lax (pat f) (url_of x) = true /\ constraints_hold f x.
Proof.
  intros fs x f HL HS HK H. destruct (sound fs x f HL HS HK H) as [H1 [H2 [H3 _]]].
  split; [exact H1|]. split; [exact H3 | apply qualifies_iff; exact H2].
Qed.
Print Assumptions C03_sound_lax.

(* ---- if: a loaded flow whose filter is satisfied and which is not shadowed is selected ---- *)
Theorem C03_complete : forall fs x f,
  load_ok fs = true -> stars_last fs = true -> kind_consistent fs = true ->
  In f fs ->
  matches (pat f) (url_of x) = true -> constraints_hold f x ->
  unshadowed fs f (url_of x) = true ->
  In f (get_flow (tree_of fs) x).
Proof.
  intros fs x f HL HS HK Hf HM HC HU. apply complete; auto.
  unfold satisfied. fold (url_of x). rewrite HM. apply qualifies_iff in HC. rewrite HC. reflexivity.
Qed.
Print Assumptions C03_complete.

(* ---- the selection (as a set) does not depend on the load order ---- *)
Theorem C03_order_independent : forall fs fs',
  Permutation fs fs' ->
  load_ok fs = true -> load_ok fs' = true -> stars_last fs = true -> kind_consistent fs = true ->
  forall x f, In f (get_flow (tree_of fs) x) <-> In f (get_flow (tree_of fs') x).
Proof. intros. apply order_independent; assumption. Qed.
Print Assumptions C03_order_independent.

(* ---- a transaction that satisfies no filter is passed through untouched:
        no flow is invoked, the actions come back as they went in ---- *)
Theorem C03_no_match_no_action :
  forall (A : Type) (run : list flow -> txn -> A -> A) fs x acts,
  load_ok fs = true -> stars_last fs = true -> kind_consistent fs = true ->
  (forall f, In f fs -> satisfied f x = false /\ wild_kind_ok (pat f) (url_of x) = true) ->
  exec_flow run (tree_of fs) x acts = (acts, []).
Proof.
  intros A run fs x acts HL HS HK HN. apply no_match_no_action; auto.
  intros f Hf. destruct (HN f Hf). apply satisfied_lax_of_strict; assumption.
Qed.
Print Assumptions C03_no_match_no_action.

Theorem C03_no_match_no_action_lax :
  forall (A : Type) (run : list flow -> txn -> A -> A) fs x acts,
  load_ok fs = true -> stars_last fs = true -> kind_consistent fs = true ->
  (forall f, In f fs -> satisfied_lax f x = false) ->
  exec_flow run (tree_of fs) x acts = (acts, []).
Proof. intros. apply no_match_no_action; assumption. Qed.
Print Assumptions C03_no_match_no_action_lax.

(* ================================================================
   The same four clauses with the narrowest hypotheses
   ================================================================ *)

(* ---- the loader accepts a * only as the last part of a pattern ---- *)
Theorem C03_load_ok_stars_last : forall fs, load_ok fs = true -> stars_last fs = true.
Proof. exact load_ok_stars_last. Qed.
Print Assumptions C03_load_ok_stars_last.

(* ---- only if, no side condition at all: whatever is selected is a loaded
        flow whose OWN method / header / query / status requirements hold ---- *)
Theorem C03_selected_own_constraints : forall fs x f,
  load_ok fs = true -> In f (get_flow (tree_of fs) x) -> In f fs /\ constraints_hold f x.
Proof.
  intros fs x f HL H. split; [eapply get_flow_in_fs; eauto|].
  apply qualifies_iff. eapply get_flow_qualifies; eauto.
Qed.
Print Assumptions C03_selected_own_constraints.

(* ---- only if, URL pattern: F-C03c localised to the selected flow and the URL ---- *)
Theorem C03_sound_at : forall fs x f,
  load_ok fs = true -> In f (get_flow (tree_of fs) x) ->
  kc_at fs f (url_of x) = true -> wild_kind_ok (pat f) (url_of x) = true ->
  In f fs /\ matches (pat f) (url_of x) = true /\ constraints_hold f x.
Proof.
  intros fs x f HL H HK HW. destruct (sound_at fs x f HL H HK) as [H1 [H2 [_ H4]]].
  split; [exact H1|]. split; [exact (H4 HW) | apply qualifies_iff; exact H2].
Qed.
Print Assumptions C03_sound_at.

Theorem C03_sound_lax_at : forall fs x f,
  load_ok fs = true -> In f (get_flow (tree_of fs) x) -> kc_at fs f (url_of x) = true ->
  In f fs /\ matches_lax (pat f) (url_of x) = true /\ constraints_hold f x.
Proof.
  intros fs x f HL H HK. destruct (sound_at fs x f HL H HK) as [H1 [H2 [H3 _]]].
  split; [exact H1|]. split; [exact H3 | apply qualifies_iff; exact H2].
Qed.
Print Assumptions C03_sound_lax_at.

(* strict = lax + the F-C03f side condition, exactly: wild_kind_ok is not broader than the finding *)
Theorem C03_strict_is_lax_and_wild_kind_ok : forall p url,
  matches p url = matches_lax p url && wild_kind_ok p url.
Proof. exact matches_split. Qed.
Print Assumptions C03_strict_is_lax_and_wild_kind_ok.

(* ---- if: F-C03c localised, kind-aware proviso ---- *)
Theorem C03_complete_at : forall fs x f,
  load_ok fs = true -> kc_at fs f (url_of x) = true -> In f fs ->
  matches (pat f) (url_of x) = true -> constraints_hold f x ->
  unshadowed_k fs f (url_of x) = true ->
  In f (get_flow (tree_of fs) x).
Proof.
  intros fs x f HL HK Hf HM HC HU. apply complete_at; auto.
  - rewrite matches_split in HM. apply andb_true_iff in HM. tauto.
  - apply qualifies_iff. exact HC.
Qed.
Print Assumptions C03_complete_at.

(* the kind-blind proviso of C03_complete is the stronger premise *)
Theorem C03_unshadowed_implies_unshadowed_k : forall fs f url,
  unshadowed fs f url = true -> unshadowed_k fs f url = true.
Proof. intros fs f url. apply unshadowed_unshadowed_k. Qed.
Print Assumptions C03_unshadowed_implies_unshadowed_k.

(* the proviso pattern by pattern, as the monitor computes it *)
Theorem C03_unshadowed_k_pattern_by_pattern : forall fs f url,
  unshadowed_k fs f url = negb (existsb (fun g => more_specific_from (pat f) (pat g) url) fs).
Proof. exact unshadowed_k_shadowed_k. Qed.
Print Assumptions C03_unshadowed_k_pattern_by_pattern.

(* ---- EXACTLY WHEN: selected <-> loaded, own filter accepted, not shadowed ---- *)
Theorem C03_exact_lax : forall fs x f,
  load_ok fs = true -> kc_url fs (url_of x) = true ->
  (In f (get_flow (tree_of fs) x) <->
   In f fs /\ matches_lax (pat f) (url_of x) = true /\ constraints_hold f x /\
   unshadowed_k fs f (url_of x) = true).
Proof.
  intros fs x f HL HK. rewrite (exact_lax fs x f HL HK). rewrite qualifies_iff. reflexivity.
Qed.
Print Assumptions C03_exact_lax.

Theorem C03_exact : forall fs x f,
  load_ok fs = true -> kc_url fs (url_of x) = true ->
  (In f (get_flow (tree_of fs) x) /\ wild_kind_ok (pat f) (url_of x) = true <->
   In f fs /\ matches (pat f) (url_of x) = true /\ constraints_hold f x /\
   unshadowed_k fs f (url_of x) = true).
Proof.
  intros fs x f HL HK. rewrite (C03_exact_lax fs x f HL HK), matches_split, andb_true_iff. tauto.
Qed.
Print Assumptions C03_exact.

(* ---- load order, acceptance: whether the loader accepts the configuration is a
        property of the SET of flows (every pattern valid, parameter names agree) ---- *)
Theorem C03_load_ok_declarative : forall fs, load_ok fs = accepted fs.
Proof. exact load_ok_accepted. Qed.
Print Assumptions C03_load_ok_declarative.

Theorem C03_acceptance_order_independent : forall fs fs',
  Permutation fs fs' -> load_ok fs = load_ok fs'.
Proof. exact load_ok_perm. Qed.
Print Assumptions C03_acceptance_order_independent.

(* ---- load order, selection: the same set for this transaction, collisions judged
        on its URL only; that the other order is accepted too is derived ---- *)
Theorem C03_order_independent_url : forall fs fs' x,
  Permutation fs fs' -> load_ok fs = true -> kc_url fs (url_of x) = true ->
  forall f, In f (get_flow (tree_of fs) x) <-> In f (get_flow (tree_of fs') x).
Proof.
  intros fs fs' x HP HL HK f. apply order_independent_url; auto.
  rewrite <- (load_ok_perm fs fs' HP). exact HL.
Qed.
Print Assumptions C03_order_independent_url.

(* ---- multiplicity: a flow is applied at most once (no side condition) ---- *)
Theorem C03_at_most_once : forall fs x,
  load_ok fs = true -> NoDup fs -> NoDup (get_flow (tree_of fs) x).
Proof. exact get_flow_nodup. Qed.
Print Assumptions C03_at_most_once.

(* hence the selection does not depend on the load order as a MULTISET either *)
Theorem C03_order_independent_multiset : forall fs fs' x,
  Permutation fs fs' -> NoDup fs -> load_ok fs = true -> kc_url fs (url_of x) = true ->
  Permutation (get_flow (tree_of fs) x) (get_flow (tree_of fs') x).
Proof.
  intros fs fs' x HP ND HL HK.
  assert (HL' : load_ok fs' = true) by (rewrite <- (load_ok_perm fs fs' HP); exact HL).
  apply NoDup_Permutation.
  - apply get_flow_nodup; assumption.
  - apply get_flow_nodup; [assumption | eapply Permutation_NoDup; eauto].
  - intro f. apply order_independent_url; assumption.
Qed.
Print Assumptions C03_order_independent_multiset.

(* ---- pass-through, exactly: nobody is invoked and the actions come back
        untouched IFF no loaded flow is (accepted and not shadowed) ---- *)
Theorem C03_pass_through_iff :
  forall (A : Type) (run : list flow -> txn -> A -> A) fs x acts,
  load_ok fs = true -> kc_url fs (url_of x) = true ->
  (exec_flow run (tree_of fs) x acts = (acts, []) <->
   forall f, In f fs ->
     ~ (matches_lax (pat f) (url_of x) = true /\ constraints_hold f x /\
        unshadowed_k fs f (url_of x) = true)).
Proof.
  intros A run fs x acts HL HK. unfold exec_flow. split.
  - intros H f Hf HN. destruct (get_flow (tree_of fs) x) as [|g l] eqn:E; [|inversion H].
    assert (In f (get_flow (tree_of fs) x)) as Hin by (apply C03_exact_lax; tauto).
    rewrite E in Hin. contradiction.
  - intro H. destruct (get_flow (tree_of fs) x) as [|g l] eqn:E; [reflexivity|]. exfalso.
    assert (Hin : In g (get_flow (tree_of fs) x)) by (rewrite E; left; reflexivity).
    apply C03_exact_lax in Hin; auto. destruct Hin as [Hg HR]. exact (H g Hg HR).
Qed.
Print Assumptions C03_pass_through_iff.

(* and when somebody is accepted and not shadowed, the processor machinery IS handed that flow *)
Theorem C03_accepted_is_handed_over :
  forall (A : Type) (run : list flow -> txn -> A -> A) fs x acts f,
  load_ok fs = true -> kc_at fs f (url_of x) = true -> In f fs ->
  matches (pat f) (url_of x) = true -> constraints_hold f x -> unshadowed_k fs f (url_of x) = true ->
  exists fl, In f fl /\ exec_flow run (tree_of fs) x acts = (run fl x acts, map f_id fl).
Proof.
  intros A run fs x acts f HL HK Hf HM HC HU.
  pose proof (C03_complete_at fs x f HL HK Hf HM HC HU) as Hin. unfold exec_flow.
  destruct (get_flow (tree_of fs) x) as [|g l] eqn:E; [contradiction|].
  exists (g :: l). split; [exact Hin | reflexivity].
Qed.
Print Assumptions C03_accepted_is_handed_over.

(* the strict no-match statement with the F-C03f side condition made exact:
   per flow, "accepted only because a trailing * swallowed a part of the other kind" *)
Theorem C03_satisfied_lax_split : forall f x,
  satisfied_lax f x = false <-> satisfied f x = false /\ wildcard_kind_zone f x = false.
Proof.
  intros f x. unfold satisfied_lax, satisfied, wildcard_kind_zone.
  fold (url_of x). rewrite matches_split.
  destruct (matches_lax (pat f) (url_of x)), (wild_kind_ok (pat f) (url_of x)), (qualifies x f);
    cbn; split; try tauto; try (intros [? ?]; discriminate); auto.
Qed.
Print Assumptions C03_satisfied_lax_split.

Theorem C03_no_match_no_action_exact :
  forall (A : Type) (run : list flow -> txn -> A -> A) fs x acts,
  load_ok fs = true -> kc_url fs (url_of x) = true ->
  (forall f, In f fs -> satisfied f x = false /\ wildcard_kind_zone f x = false) ->
  exec_flow run (tree_of fs) x acts = (acts, []).
Proof.
  intros A run fs x acts HL HK HN. apply C03_pass_through_iff; auto.
  intros f Hf [HM [HC _]]. specialize (HN f Hf). apply C03_satisfied_lax_split in HN.
  unfold satisfied_lax in HN. fold (url_of x) in HN. apply qualifies_iff in HC.
  rewrite HM, HC in HN. discriminate.
Qed.
Print Assumptions C03_no_match_no_action_exact.

(* ---- a stream handled as a response WITHOUT a response object (the request
        stream re-typed after an early response): a flow that requires status
        codes is never selected for it, whatever is configured (no side condition) ---- *)
Theorem C03_no_response_no_status_match : forall (t : ftree) x f,
  t_resp x = true -> resp_status x = None -> f_status f <> [] ->
  ~ In f (get_flow t x).
Proof.
  intros t x f HR HN HS H. apply get_flow_qualifies in H. unfold qualifies in H.
  apply andb_true_iff in H as [H _]. apply andb_true_iff in H as [H _]. apply andb_true_iff in H as [_ H].
  unfold status_ok in H. rewrite HR, HN in H. cbn [negb orb] in H.
  destruct (f_status f); [contradiction | discriminate].
Qed.
Print Assumptions C03_no_response_no_status_match.

(* the global condition of the original statements implies the local ones *)
Theorem C03_kind_consistent_implies_local : forall fs url,
  kind_consistent fs = true ->
  kc_url fs url = true /\ forall f, In f fs -> kc_at fs f url = true.
Proof.
  intros fs url H. pose proof (kind_consistent_kc_url fs url H) as HU. split; [exact HU|].
  intros f Hf. apply kc_at_KCat. apply KCU_KCat; [apply kc_url_KCU; exact HU | exact Hf].
Qed.
Print Assumptions C03_kind_consistent_implies_local.

(* ======== open findings: the unrestricted statements are false ======== *)
Definition U (s : string) : flow := mkFlow 0 0 (bs s) [] [] [] [].
Definition Un (n : Z) (s : string) : flow := mkFlow n 0 (bs s) [] [] [] [].
Definition GET (s : string) : txn := mkTxn false (bs s) (bs "GET") [] [] 0.

(* F-C03f: "a/*" is selected for "a.b" (host a.b, not host a) *)
Definition C03_sound_full : Prop := forall fs x f,
  load_ok fs = true -> stars_last fs = true -> kind_consistent fs = true ->
  In f (get_flow (tree_of fs) x) -> matches (pat f) (url_of x) = true.
Theorem C03_sound_full_refuted : ~ C03_sound_full.
Proof.
  intro H. specialize (H [U "a/*"] (GET "a.b") (U "a/*")).
  assert (E : matches (pat (U "a/*")) (url_of (GET "a.b")) = false) by (vm_compute; reflexivity).
  rewrite H in E; [discriminate | vm_compute; reflexivity ..| vm_compute; left; reflexivity].
Qed.
Print Assumptions C03_sound_full_refuted.

(* F-C03c: "a.a" and "a/a" collide in the trie; which one works depends on the load order *)
Definition C03_order_independent_full : Prop := forall fs fs',
  Permutation fs fs' -> load_ok fs = true -> load_ok fs' = true -> stars_last fs = true ->
  forall x f, In f (get_flow (tree_of fs) x) <-> In f (get_flow (tree_of fs') x).
Theorem C03_order_independent_full_refuted : ~ C03_order_independent_full.
Proof.
  intro H.
  specialize (H [Un 0 "a.a"; Un 1 "a/a"] [Un 1 "a/a"; Un 0 "a.a"]).
  assert (HP : Permutation [Un 0 "a.a"; Un 1 "a/a"] [Un 1 "a/a"; Un 0 "a.a"]) by apply perm_swap.
  specialize (H HP eq_refl eq_refl eq_refl (GET "a.a") (Un 0 "a.a")).
  assert (E1 : get_flow (tree_of [Un 0 "a.a"; Un 1 "a/a"]) (GET "a.a") = [Un 0 "a.a"; Un 1 "a/a"])
    by (vm_compute; reflexivity).
  assert (E2 : get_flow (tree_of [Un 1 "a/a"; Un 0 "a.a"]) (GET "a.a") = [])
    by (vm_compute; reflexivity).
  rewrite E1, E2 in H. apply H. left. reflexivity.
Qed.
Print Assumptions C03_order_independent_full_refuted.

Definition C03_complete_full : Prop := forall fs x f,
  load_ok fs = true -> stars_last fs = true -> In f fs ->
  matches (pat f) (url_of x) = true -> constraints_hold f x ->
  unshadowed fs f (url_of x) = true -> In f (get_flow (tree_of fs) x).
Theorem C03_complete_full_refuted : ~ C03_complete_full.
Proof.
  intro H.
  specialize (H [Un 1 "a/a"; Un 0 "a.a"] (GET "a.a") (Un 0 "a.a") eq_refl eq_refl).
  assert (E2 : get_flow (tree_of [Un 1 "a/a"; Un 0 "a.a"]) (GET "a.a") = [])
    by (vm_compute; reflexivity).
  rewrite E2 in H. apply H.
  - right. left. reflexivity.
  - vm_compute. reflexivity.
  - apply qualifies_iff. vm_compute. reflexivity.
  - vm_compute. reflexivity.
Qed.
Print Assumptions C03_complete_full_refuted.

(* F-C03c breaks the only-if clause as well: "a/a" is selected for "a.a" although
   its pattern does not accept that URL in any reading *)
Definition C03_sound_nokc : Prop := forall fs x f,
  load_ok fs = true -> In f (get_flow (tree_of fs) x) -> matches_lax (pat f) (url_of x) = true.
Theorem C03_sound_nokc_refuted : ~ C03_sound_nokc.
Proof.
  intro H. specialize (H [Un 0 "a.a"; Un 1 "a/a"] (GET "a.a") (Un 1 "a/a") eq_refl).
  assert (E : matches_lax (pat (Un 1 "a/a")) (url_of (GET "a.a")) = false) by (vm_compute; reflexivity).
  rewrite H in E; [discriminate|]. vm_compute. right. left. reflexivity.
Qed.
Print Assumptions C03_sound_nokc_refuted.

(* ... and the side condition that excludes it is local: the colliding pair does
   not disturb a transaction whose look-up never reads the collided node *)
Example C03_local_condition_is_weaker :
  let fs := [Un 0 "a.a"; Un 1 "a/a"; Un 2 "z/x"] in
  load_ok fs = true /\ kind_consistent fs = false /\
  kc_url fs (url_of (GET "z/x")) = true /\ kc_url fs (url_of (GET "a.a")) = false /\
  kc_at fs (Un 2 "z/x") (url_of (GET "a.a")) = true /\
  map f_id (get_flow (tree_of fs) (GET "z/x")) = [2].
Proof. vm_compute. repeat split; reflexivity. Qed.

(* F-C03g: lookupFlow never backtracks.  The NATURAL reading of "no more specific
   literal pattern is configured alongside" exempts a flow only when a more
   specific pattern that itself accepts the URL exists (most generous reading of
   "accepts": accepts_may).  Under that reading completeness is false: with
   "a/{p}" and "a/b/c/d" configured, GET a/b satisfies the filter "a/{p}", no
   configured pattern is a better match - and NO flow at all is applied. *)
Definition C03_complete_natural : Prop := forall fs x f,
  load_ok fs = true -> kc_url fs (url_of x) = true -> In f fs ->
  matches (pat f) (url_of x) = true -> constraints_hold f x ->
  shadowed_by_matching fs f (url_of x) = false ->
  In f (get_flow (tree_of fs) x).
Theorem C03_complete_natural_refuted : ~ C03_complete_natural.
Proof.
  intro H.
  specialize (H [Un 0 "a/{p}"; Un 1 "a/b/c/d"] (GET "a/b") (Un 0 "a/{p}") eq_refl eq_refl).
  assert (E : get_flow (tree_of [Un 0 "a/{p}"; Un 1 "a/b/c/d"]) (GET "a/b") = [])
    by (vm_compute; reflexivity).
  rewrite E in H. apply H.
  - left. reflexivity.
  - vm_compute. reflexivity.
  - apply qualifies_iff. vm_compute. reflexivity.
  - vm_compute. reflexivity.
Qed.
Print Assumptions C03_complete_natural_refuted.

(* the transaction of the witness is passed through although it satisfies a filter *)
Example C03_no_backtrack_witness_passes_through :
  let fs := [Un 0 "a/{p}"; Un 1 "a/b/c/d"] in
  satisfied (Un 0 "a/{p}") (GET "a/b") = true /\
  no_backtrack_zone fs (Un 0 "a/{p}") (url_of (GET "a/b")) = true /\
  exec_flow (fun _ _ (a : nat) => S a) (tree_of fs) (GET "a/b") 0%nat = (0%nat, []).
Proof. vm_compute. repeat split; reflexivity. Qed.

(* outside F-C03g (decidable, = the monitor's classifier) the natural reading holds ... *)
Theorem C03_complete_holds_outside_F_C03g : forall fs x f,
  load_ok fs = true -> kc_at fs f (url_of x) = true -> In f fs ->
  matches (pat f) (url_of x) = true -> constraints_hold f x ->
  shadowed_by_matching fs f (url_of x) = false ->
  no_backtrack_zone fs f (url_of x) = false ->
  In f (get_flow (tree_of fs) x).
Proof.
  intros fs x f HL HK Hf HM HC HS HZ. apply C03_complete_at; auto.
  rewrite unshadowed_k_shadowed_k. unfold no_backtrack_zone in HZ. rewrite HS in HZ.
  cbn [negb] in HZ. rewrite andb_true_r in HZ. rewrite HZ. reflexivity.
Qed.
Print Assumptions C03_complete_holds_outside_F_C03g.

(* ... and inside it the flow is NEVER selected: the zone is exactly the loss *)
Theorem C03_no_backtrack_zone_never_selected : forall fs x f,
  load_ok fs = true -> kc_url fs (url_of x) = true ->
  no_backtrack_zone fs f (url_of x) = true -> ~ In f (get_flow (tree_of fs) x).
Proof.
  intros fs x f HL HK HZ H. apply C03_exact_lax in H; auto. destruct H as [_ [_ [_ HU]]].
  rewrite unshadowed_k_shadowed_k in HU. unfold no_backtrack_zone in HZ.
  apply andb_true_iff in HZ as [HZ _]. rewrite HZ in HU. discriminate.
Qed.
Print Assumptions C03_no_backtrack_zone_never_selected.

(* the kind-blind proviso of C03_complete is not necessary for selection:
   "a.b" (host label b) does not shadow "a/{p}" on GET a/b, the flow IS selected *)
Example C03_kind_blind_proviso_not_necessary :
  let fs := [Un 0 "a/{p}"; Un 1 "a.b"] in
  load_ok fs = true /\ kind_consistent fs = true /\
  unshadowed fs (Un 0 "a/{p}") (url_of (GET "a/b")) = false /\
  unshadowed_k fs (Un 0 "a/{p}") (url_of (GET "a/b")) = true /\
  map f_id (get_flow (tree_of fs) (GET "a/b")) = [0].
Proof. vm_compute. repeat split; reflexivity. Qed.

(* ======== non-vacuity: the hypotheses hold on a non-trivial configuration ======== *)
Definition demo : list flow :=
  [ mkFlow 0 0 (bs "api.com/v1/*") [] [] [] [];
    mkFlow 1 0 (bs "api.com/v1/users/{id}") [bs "POST"] [(bs "x-b", bs "1")] [] [];
    mkFlow 2 0 (bs "api.com/v1/users/{id}") [] [] [(bs "q", bs "1")] [201];
    mkFlow 3 0 (bs "api.com/v1/users/me") [] [] [] [];
    mkFlow 4 1 (bs "*") [] [] [] [] ].

Example C03_demo_hypotheses :
  load_ok demo = true /\ stars_last demo = true /\ kind_consistent demo = true.
Proof. vm_compute. auto. Qed.

(* POST api.com/v1/users/7 with header x-b: 1: the wildcard flow, the first
   {id} flow (its own method+header hold), the system flow; NOT flow 2 (its own
   query requirement fails although flow 1 on the same URL has none), NOT "me" *)
Example C03_demo_selection :
  map f_id (get_flow (tree_of demo)
             (mkTxn false (bs "api.com/v1/users/7") (bs "POST") [(bs "x-b", bs "1")] [] 0))
  = [4; 0; 1].
Proof. vm_compute. reflexivity. Qed.

(* the literal "me" shadows {id}; one segment too many selects only the wildcards;
   another host selects only "*" *)
Example C03_demo_shadow :
  map f_id (get_flow (tree_of demo) (GET "api.com/v1/users/me")) = [4; 0; 3]
  /\ map f_id (get_flow (tree_of demo) (GET "api.com/v1/users/7/x")) = [4; 0]
  /\ map f_id (get_flow (tree_of demo) (GET "api.org/v1")) = [4]
  /\ unshadowed demo (nth 2 demo (U "")) (url_of (GET "api.com/v1/users/me")) = false
  /\ unshadowed demo (nth 2 demo (U "")) (url_of (GET "api.com/v1/users/7")) = true.
Proof. vm_compute. auto. Qed.

(* every load order of the demo set is accepted (so C03_order_independent applies) *)
Example C03_demo_reversed : load_ok (rev demo) = true.
Proof. vm_compute. reflexivity. Qed.

(* the hypotheses of C03_sound (incl. wild_kind_ok) on a selected flow of the demo *)
Example C03_demo_wild_kind_ok :
  let x := mkTxn false (bs "api.com/v1/users/7") (bs "POST") [(bs "x-b", bs "1")] [] 0 in
  In (nth 0 demo (U "")) (get_flow (tree_of demo) x)
  /\ wild_kind_ok (pat (nth 0 demo (U ""))) (url_of x) = true
  /\ kc_url demo (url_of x) = true
  /\ unshadowed_k demo (nth 1 demo (U "")) (url_of x) = true.
Proof. vm_compute. repeat split; try reflexivity. right. left. reflexivity. Qed.

(* the hypotheses of C03_no_match_no_action / _exact hold for a transaction on
   another host when the catch-all system flow is left out *)
Example C03_demo_no_match :
  let fs := firstn 4 demo in
  let x := GET "api.org/v1" in
  load_ok fs = true /\ kind_consistent fs = true /\ kc_url fs (url_of x) = true /\
  forallb (fun f => negb (satisfied f x) && wild_kind_ok (pat f) (url_of x)
                    && negb (wildcard_kind_zone f x)) fs = true /\
  exec_flow (fun _ _ (a : nat) => S a) (tree_of fs) x 0%nat = (0%nat, []).
Proof. vm_compute. repeat split; reflexivity. Qed.

(* NoDup hypothesis of C03_at_most_once *)
Example C03_demo_nodup : NoDup demo.
Proof.
  repeat constructor; cbn; intro H; repeat (destruct H as [H|H]; [discriminate H|]); exact H.
Qed.

(* the declarative acceptance test on the demo and on two rejected configurations *)
Example C03_demo_accepted :
  accepted demo = true
  /\ accepted [U "a/{p}/b"; U "a/{q}"] = false /\ load_ok [U "a/{p}/b"; U "a/{q}"] = false
  /\ accepted [U "a/*/b"] = false /\ load_ok [U "a/*/b"] = false.
Proof. vm_compute. repeat split; reflexivity. Qed.

(* the same URL and verb as a request, as its 201 response, and as the request
   stream handled as a response with no response object: flow 2 (status 201
   required) only for the real 201 response; flow 1 (no status requirement; its
   header requirement is not judged on responses) for both response-typed ones *)
Example C03_demo_no_response :
  let rq := mkTxn false (bs "api.com/v1/users/7") (bs "POST") [] [(bs "q", bs "1")] 0 in
  let rs := mkTxn true (bs "api.com/v1/users/7") (bs "POST") [] [(bs "q", bs "1")] 201 in
  let rn := mkTxn true (bs "api.com/v1/users/7") (bs "POST") [] [(bs "q", bs "1")] no_response in
  map f_id (get_flow (tree_of demo) rq) = [4; 0; 2]
  /\ map f_id (get_flow (tree_of demo) rs) = [4; 0; 1; 2]
  /\ map f_id (get_flow (tree_of demo) rn) = [4; 0; 1]
  /\ resp_status rn = None /\ resp_status rs = Some 201.
Proof. vm_compute. repeat split; reflexivity. Qed.

(* ================================================================
   The loader stage: flows WRITTEN in flow files, decoded, then loaded
   (Model.load_with d ws: every written flow with its URL passed through d;
    the code is d = decode_keep, the identity: the URL as written)
   ================================================================ *)

(* ---- decoding a flow file keeps the filter as written: every statement above
        transfers verbatim to the flows as written ----
   DEFINITIONAL: [load_flows] is defined as [map (with_url decode_keep)] and
   [decode_keep u := u]; the theorem unfolds that definition (the model's stage is
   the identity) and says nothing about Filter.UnmarshalYAML.  That the Go loader
   (GetFlows -> ReadStreamFlowConfig -> Filter.UnmarshalYAML) hands AddFlow the
   filter as written is TESTED, not proved: suite 'loaded' writes flow files,
   reads them back through the production loader and evaluates the outcome
   through [run_case_loaded] = [run_case] after [load_flows].  The theorem is
   kept because it is what lets C03_loaded_exact_lax / C03_loader_complete /
   C03_loader_sound be read off the older statements. *)
Theorem C03_loader_keeps_filter : forall ws, load_flows ws = ws.
Proof. exact load_flows_id. Qed.
Print Assumptions C03_loader_keeps_filter.

(* ---- the "exactly when", from the flow FILE to the selection: the pattern
        judged is the URL as written (letter case included: [matches_lax]
        compares tokens byte by byte) ---- *)
Theorem C03_loaded_exact_lax : forall ws x f,
  load_ok (load_flows ws) = true -> kc_url ws (url_of x) = true ->
  (In f (get_flow (tree_of (load_flows ws)) x) <->
   In f ws /\ matches_lax (pat f) (url_of x) = true /\ constraints_hold f x /\
   unshadowed_k ws f (url_of x) = true).
Proof. intros ws x f. rewrite load_flows_id. apply C03_exact_lax. Qed.
Print Assumptions C03_loaded_exact_lax.

(* the two directions for an arbitrary decode function d, flows identified by id
   (the decoded flow is another record when d changes the URL) *)
Definition C03_loader_complete_for (d : tok -> tok) : Prop := forall ws x f,
  load_ok (load_with d ws) = true -> kc_at ws f (url_of x) = true -> In f ws ->
  matches (pat f) (url_of x) = true -> constraints_hold f x ->
  unshadowed_k ws f (url_of x) = true ->
  In (f_id f) (map f_id (get_flow (tree_of (load_with d ws)) x)).

Definition C03_loader_sound_for (d : tok -> tok) : Prop := forall ws x g,
  load_ok (load_with d ws) = true -> kc_url ws (url_of x) = true ->
  In g (get_flow (tree_of (load_with d ws)) x) ->
  exists f, In f ws /\ f_id f = f_id g /\ matches_lax (pat f) (url_of x) = true.

Theorem C03_loader_complete : C03_loader_complete_for decode_keep.
Proof.
  intros ws x f HL HK Hf HM HC HU. fold (load_flows ws) in *. rewrite load_flows_id in *.
  apply in_map. apply C03_complete_at; assumption.
Qed.
Print Assumptions C03_loader_complete.

Theorem C03_loader_sound : C03_loader_sound_for decode_keep.
Proof.
  intros ws x g HL HK H. fold (load_flows ws) in *. rewrite load_flows_id in *.
  exists g. apply (C03_exact_lax ws x g HL HK) in H. destruct H as [H1 [H2 _]].
  split; [exact H1|]. split; [reflexivity | exact H2].
Qed.
Print Assumptions C03_loader_sound.

(* the variant "URL lower-cased when the flow file is decoded" loses the flow on
   the URL it was written for ... *)
Theorem C03_loader_lowercase_complete_refuted : ~ C03_loader_complete_for decode_lower.
Proof.
  intro H. specialize (H [U "a/B"] (GET "a/B") (U "a/B")).
  assert (HF : In (f_id (U "a/B"))
                  (map f_id (get_flow (tree_of (load_with decode_lower [U "a/B"])) (GET "a/B")))).
  { apply H.
    - vm_compute. reflexivity.
    - vm_compute. reflexivity.
    - left. reflexivity.
    - vm_compute. reflexivity.
    - apply qualifies_iff. vm_compute. reflexivity.
    - vm_compute. reflexivity. }
  vm_compute in HF. exact HF.
Qed.
Print Assumptions C03_loader_lowercase_complete_refuted.

(* ... and applies it to a URL with another literal segment *)
Theorem C03_loader_lowercase_sound_refuted : ~ C03_loader_sound_for decode_lower.
Proof.
  intro H. specialize (H [U "a/B"] (GET "a/b") (with_url decode_lower (U "a/B"))).
  destruct H as [f [Hf [_ HM]]]; try reflexivity.
  - vm_compute. left. reflexivity.
  - destruct Hf as [<-|[]]. vm_compute in HM. discriminate HM.
Qed.
Print Assumptions C03_loader_lowercase_sound_refuted.

(* ---- seed C03-10 as it is written: ToLower AND TrimSpace ----
   [decode_lower] is the ToLower half of the seed's line
   f.URL = strings.ToLower(strings.TrimSpace(f.URL)); [Loader.decode_canon] is the
   whole line (TrimSpace over the ASCII white-space bytes).  Where no written URL
   has surrounding blanks the two load the same flows, so the refutations above
   ARE refutations of the seed; they are restated for [decode_canon] itself. *)
Theorem C03_loader_canon_is_lowercase_without_blanks : forall ws,
  Forall (fun f => trim_space (f_url f) = f_url f) ws ->
  load_with decode_canon ws = load_with decode_lower ws.
Proof. exact load_with_canon_lower. Qed.
Print Assumptions C03_loader_canon_is_lowercase_without_blanks.

Theorem C03_loader_canon_complete_refuted : ~ C03_loader_complete_for decode_canon.
Proof.
  intro H. specialize (H [U "a/B"] (GET "a/B") (U "a/B")).
  assert (HF : In (f_id (U "a/B"))
                  (map f_id (get_flow (tree_of (load_with decode_canon [U "a/B"])) (GET "a/B")))).
  { apply H.
    - vm_compute. reflexivity.
    - vm_compute. reflexivity.
    - left. reflexivity.
    - vm_compute. reflexivity.
    - apply qualifies_iff. vm_compute. reflexivity.
    - vm_compute. reflexivity. }
  vm_compute in HF. exact HF.
Qed.
Print Assumptions C03_loader_canon_complete_refuted.

Theorem C03_loader_canon_sound_refuted : ~ C03_loader_sound_for decode_canon.
Proof.
  intro H. specialize (H [U "a/B"] (GET "a/b") (with_url decode_canon (U "a/B"))).
  destruct H as [f [Hf [_ HM]]]; try reflexivity.
  - vm_compute. left. reflexivity.
  - destruct Hf as [<-|[]]. vm_compute in HM. discriminate HM.
Qed.
Print Assumptions C03_loader_canon_sound_refuted.

(* the hypothesis of C03_loader_canon_is_lowercase_without_blanks holds for the
   witness list; and the TrimSpace half on its own is visible too: a filter
   written with a trailing blank ("a/b ": the last segment is the three bytes
   'b' ' ') is, as written, not the resource a/b - the seed's decode makes it so *)
Example C03_demo_surrounding_blanks :
  Forall (fun f => trim_space (f_url f) = f_url f) [U "a/B"]
  /\ decode_canon (bs "  Api.X.com/v2/Users ") = bs "api.x.com/v2/users"
  /\ decode_lower (bs "  Api.X.com/v2/Users ") = bs "  api.x.com/v2/users "
  /\ load_ok (load_flows [U "a/b "]) = true
  /\ map f_id (get_flow (tree_of (load_flows [U "a/b "])) (GET "a/b")) = []
  /\ map f_id (get_flow (tree_of (load_flows [U "a/b "])) (GET "a/b ")) = [0]
  /\ map f_id (get_flow (tree_of (load_with decode_lower [U "a/b "])) (GET "a/b")) = []
  /\ map f_id (get_flow (tree_of (load_with decode_canon [U "a/b "])) (GET "a/b")) = [0]
  /\ map f_id (get_flow (tree_of (load_with decode_canon [U "a/b "])) (GET "a/b ")) = [].
Proof. split; [repeat constructor|]. vm_compute. repeat split; reflexivity. Qed.

(* two flows whose filters differ only in letter case are two different resources *)
Example C03_demo_letter_case :
  let ws := [mkFlow 0 0 (bs "Api.x.com/v2/Users/{id}") [] [] [] [];
             mkFlow 1 0 (bs "Api.x.com/v2/users/{id}") [] [] [] []] in
  load_ok (load_flows ws) = true
  /\ kc_url ws (url_of (GET "Api.x.com/v2/Users/42")) = true
  /\ map f_id (get_flow (tree_of (load_flows ws)) (GET "Api.x.com/v2/Users/42")) = [0]
  /\ map f_id (get_flow (tree_of (load_flows ws)) (GET "Api.x.com/v2/users/42")) = [1]
  /\ map f_id (get_flow (tree_of (load_flows ws)) (GET "Api.x.com/v2/USERS/42")) = []
  /\ map f_id (get_flow (tree_of (load_flows ws)) (GET "api.x.com/v2/users/42")) = []
  /\ map f_id (get_flow (tree_of (load_with decode_lower ws)) (GET "Api.x.com/v2/Users/42")) = []
  /\ map f_id (get_flow (tree_of (load_with decode_lower ws)) (GET "api.x.com/v2/users/42")) = [0; 1].
Proof. vm_compute. repeat split; reflexivity. Qed.

(* ================================================================
   status_code is a SET of codes: the order written is irrelevant
   ================================================================ *)
Theorem C03_status_membership : forall f x,
  status_ok f x = true <->
  t_resp x = false \/ f_status f = [] \/
  exists st, resp_status x = Some st /\ In st (f_status f).
Proof. exact status_ok_iff. Qed.
Print Assumptions C03_status_membership.

Theorem C03_status_list_order_free : forall f f' x,
  Permutation (f_status f) (f_status f') -> status_ok f x = status_ok f' x.
Proof. exact status_ok_perm. Qed.
Print Assumptions C03_status_list_order_free.

(* the variant "codes looked up by bisection" (sort.SearchInts on the list as
   written) is not the membership test: [500; 429; 404] loses all three codes *)
Theorem C03_status_bsearch_refuted :
  ~ (forall l st, status_in_bsearch l st = existsb (fun s => s =? st) l).
Proof. intro H. specialize (H [500; 429; 404] 404). vm_compute in H. discriminate H. Qed.
Print Assumptions C03_status_bsearch_refuted.

Example C03_demo_status_lists :
  let f l := mkFlow 0 0 (bs "a/b") [] [] [] l in
  let r st := mkTxn true (bs "a/b") (bs "GET") [] [] st in
  map (fun st => status_ok (f [500; 429; 404]) (r st)) [200; 404; 429; 499; 500] = [false; true; true; false; true]
  /\ map (fun st => status_ok (f [404; 200]) (r st)) [200; 404; 429] = [true; true; false]
  /\ map (status_in_bsearch [500; 429; 404]) [404; 429; 500] = [false; false; false]
  /\ map (status_in_bsearch [404; 429; 500]) [404; 429; 500; 200; 503] = [true; true; true; false; false].
Proof. vm_compute. repeat split; reflexivity. Qed.

(* ================================================================
   the query string AS WRITTEN: a pair that cannot be decoded (bad percent
   escape, lone "%", raw ";") is not a parameter and takes nothing away from the
   well-formed pairs next to it
   ================================================================ *)

(* for every tree, transaction and position: an undecodable pair anywhere in the
   query string changes nothing about the selection *)
Theorem C03_malformed_query_pair_ignored : forall t x l1 l2,
  get_flow t (with_query x (query_keep (l1 ++ None :: l2))) =
  get_flow t (with_query x (query_keep (l1 ++ l2))).
Proof. intros t x l1 l2. rewrite query_keep_drop_bad. reflexivity. Qed.
Print Assumptions C03_malformed_query_pair_ignored.

(* completeness with the filter judged on the WELL-FORMED pairs only; [mode] is
   what the request-side reads out of the pieces of the query string *)
Definition C03_complete_at_rawquery_for (mode : list rawpair -> list (tok * tok)) : Prop :=
  forall fs x l f,
  load_ok fs = true -> kc_at fs f (url_of x) = true -> In f fs ->
  matches (pat f) (url_of x) = true -> unshadowed_k fs f (url_of x) = true ->
  constraints_hold f (with_query x (query_keep (filter is_good l))) ->
  In f (get_flow (tree_of fs) (with_query x (mode l))).

Theorem C03_complete_at_rawquery : C03_complete_at_rawquery_for query_keep.
Proof.
  intros fs x l f HL HK Hf HM HU HC. rewrite query_keep_filter_good in HC.
  exact (C03_complete_at fs (with_query x (query_keep l)) f HL HK Hf HM HC HU).
Qed.
Print Assumptions C03_complete_at_rawquery.

(* the "exactly when", from the raw query string to the selection *)
Theorem C03_exact_lax_rawquery : forall fs x raw f,
  load_ok fs = true -> kc_url fs (url_of x) = true ->
  (In f (get_flow (tree_of fs) (with_query x (decode_query raw))) <->
   In f fs /\ matches_lax (pat f) (url_of x) = true /\
   constraints_hold f (with_query x (query_keep (filter is_good (parse_query raw)))) /\
   unshadowed_k fs f (url_of x) = true).
Proof.
  intros fs x raw f HL HK. rewrite query_keep_filter_good.
  exact (C03_exact_lax fs (with_query x (decode_query raw)) f HL HK).
Qed.
Print Assumptions C03_exact_lax_rawquery.

(* the variant "one undecodable pair and the request has no parameters at all"
   (url.ParseQuery's error taken as fatal) loses the flow whose requirement a
   well-formed pair meets *)
Theorem C03_query_strict_refuted : ~ C03_complete_at_rawquery_for query_strict.
Proof.
  intro H.
  pose (f := mkFlow 0 0 (bs "a/b") [] [] [(bs "page", bs "1")] []).
  specialize (H [f] (GET "a/b") (parse_query (bs "page=1&cursor=%zz")) f).
  assert (HF : In f (get_flow (tree_of [f])
                       (with_query (GET "a/b") (query_strict (parse_query (bs "page=1&cursor=%zz")))))).
  { apply H.
    - vm_compute. reflexivity.
    - vm_compute. reflexivity.
    - left. reflexivity.
    - vm_compute. reflexivity.
    - vm_compute. reflexivity.
    - apply qualifies_iff. vm_compute. reflexivity. }
  vm_compute in HF. exact HF.
Qed.
Print Assumptions C03_query_strict_refuted.

(* on well-formed query strings the two readings coincide: the variant is
   invisible to every test that sends well-formed queries only *)
Theorem C03_query_strict_agrees_when_wellformed : forall l,
  forallb is_good l = true -> query_strict l = query_keep l.
Proof. exact query_strict_all_good. Qed.
Print Assumptions C03_query_strict_agrees_when_wellformed.

Example C03_demo_raw_query :
  let f := mkFlow 0 0 (bs "a/b") [] [] [(bs "page", bs "1")] [] in
  let sel (raw : string) := map f_id (get_flow (tree_of [f]) (with_query (GET "a/b") (decode_query (bs raw)))) in
  load_ok [f] = true
  /\ parse_query (bs "page=1&cursor=%zz") = [Some (bs "page", bs "1"); None]
  /\ parse_query (bs "cursor=100%&&page=1&sig=a;b") = [None; Some (bs "page", bs "1"); None]
  /\ decode_query (bs "x=%41+b&=y&page") = [(bs "x", bs "A b"); ([], bs "y"); (bs "page", [])]
  /\ map sel ["page=1"%string; "page=1&cursor=%zz"%string; "page=1&sig=a;b"%string; "cursor=100%&page=1"%string; "page=2&cursor=%zz"%string;
              "page=%zz&page=1"%string; "page=1;sort=asc"%string; "page=%31"%string]
     = [[0]; [0]; [0]; [0]; []; [0]; []; [0]]
  /\ query_strict (parse_query (bs "page=1&cursor=%zz")) = [].
Proof. vm_compute. repeat split; reflexivity. Qed.

(* ================================================================
   required header VALUES are compared without regard to ASCII letter case
   (strings.EqualFold), on both sides
   ================================================================ *)
Theorem C03_header_value_case_insensitive : forall t x,
  get_flow t (lower_header_values x) = get_flow t x.
Proof. exact get_flow_lower_sent. Qed.
Print Assumptions C03_header_value_case_insensitive.

Theorem C03_required_header_value_case_insensitive : forall x f,
  qualifies x (lower_required_values f) = qualifies x f.
Proof. exact qualifies_lower_required. Qed.
Print Assumptions C03_required_header_value_case_insensitive.

(* the variant "values compared byte for byte" depends on the spelling sent *)
Theorem C03_header_value_exact_refuted :
  ~ (forall f x, headers_ok_exact f (lower_header_values x) = headers_ok_exact f x).
Proof.
  intro H.
  specialize (H (mkFlow 0 0 (bs "a/b") [] [(bs "X-Env", bs "prod")] [] [])
                (mkTxn false (bs "a/b") (bs "GET") [(bs "x-env", bs "PROD")] [] 0)).
  vm_compute in H. discriminate H.
Qed.
Print Assumptions C03_header_value_exact_refuted.

Example C03_demo_header_value_case :
  let fl i (v : string) := mkFlow i 0 (bs "a/{id}") [bs "GET"] [(bs "X-Env", bs v)] [] [] in
  let fs := [fl 0 "prod"%string; fl 1 "staging"%string] in
  let sel (v : string) := map f_id (get_flow (tree_of fs) (mkTxn false (bs "a/17") (bs "GET") [(bs "x-env", bs v)] [] 0)) in
  load_ok fs = true
  /\ map sel ["prod"%string; "PROD"%string; "Staging"%string; "dev"%string; "pro"%string] = [[0]; [0]; [1]; []; []]
  /\ headers_ok_exact (fl 0 "prod"%string) (mkTxn false (bs "a/17") (bs "GET") [(bs "x-env", bs "PROD")] [] 0) = false.
Proof. vm_compute. repeat split; reflexivity. Qed.
