(* C14 — concrete syntax of the registered expressions (executable definitions
   only; the theorems are in Syntax.v): a READER for the
   fragment of RE2 / PCRE syntax the formatter emits, written independently
   of the printer of Lib/Regex and of the formatter:

     \c (c one of the punctuation characters regexp.QuoteMeta escapes)  the character c
     any other character that is not one of  \.+*?()|[]{}^$            itself
     .                                                                  any character but LF
     [xyz]  [^xyz]  (x,y,z without meaning inside a class: not \ ] [ ^ - :)  class / negated class
     ( ... )   one level of grouping, no alternation
     X*  X+  X?   after a character, ".", a class or a group (not after another repetition)
     $            only as the last symbol: end of the subject

   Everything else ("|", "{", "^", "\d", nested groups, ranges ..) is refused
   ([None]) — the formatter never emits it.  [parse] yields the AST of Lib/Regex
   whose meaning is [lang] / [searches].

   Theorems: [parse_print]: for every expression in the fragment ([emit1])
   reading the printed string gives back the expression up to re-association
   of sequences ([items]), which does not change the language ([lang_items]);
   [format_emit] / [format_any_emit]: everything the formatter builds is in the
   fragment, for all methods and URL patterns.  So the byte string the Go code
   registers (compared with the printed model on every check run) denotes,
   under this reading of the syntax, exactly the language the coverage and
   literal-ness theorems speak about; and two expressions that print the same
   string have the same language ([print_determines_language]). *)
From Coq Require Import List ZArith Bool.
From Verif Require Import Lib.UrlTree Lib.Regex.
Import ListNotations.
Open Scope Z_scope.

(* ------------------------------------------------------------------ *)
(* Tokens                                                               *)

Inductive tok :=
| TChar (c : Z) | TAny | TSet (cs : list Z) | TNot (cs : list Z)
| TOpen | TClose | TStar | TPlus | TQuest | TEos.

Inductive tstate :=
| SNorm                               (* between symbols *)
| SEsc                                (* after a backslash *)
| SClass0                             (* after "[" *)
| SClass (neg : bool) (acc : list Z)  (* inside a class; acc reversed *).

(* characters without a special meaning inside a class *)
Definition class_plain (c : Z) : bool := negb (mem c [92; 93; 91; 94; 45; 58]).

Definition mk_class (neg : bool) (cs : list Z) : tok := if neg then TNot cs else TSet cs.

Definition tcons (t : tok) (r : option (list tok)) : option (list tok) :=
  match r with Some l => Some (t :: l) | None => None end.

Fixpoint tokenize (st : tstate) (s : str) : option (list tok) :=
  match s with
  | [] => match st with SNorm => Some [] | _ => None end
  | c :: s' =>
      match st with
      | SNorm =>
          if negb (is_meta c) then tcons (TChar c) (tokenize SNorm s')
          else if c =? 92 then tokenize SEsc s'
          else if c =? 91 then tokenize SClass0 s'
          else if c =? 46 then tcons TAny (tokenize SNorm s')
          else if c =? 40 then tcons TOpen (tokenize SNorm s')
          else if c =? 41 then tcons TClose (tokenize SNorm s')
          else if c =? 42 then tcons TStar (tokenize SNorm s')
          else if c =? 43 then tcons TPlus (tokenize SNorm s')
          else if c =? 63 then tcons TQuest (tokenize SNorm s')
          else if c =? 36 then tcons TEos (tokenize SNorm s')
          else None                     (* | ] { } ^ *)
      | SEsc => if is_meta c then tcons (TChar c) (tokenize SNorm s') else None
      | SClass0 =>
          if c =? 94 then tokenize (SClass true []) s'
          else if class_plain c then tokenize (SClass false [c]) s'
          else None
      | SClass neg acc =>
          if c =? 93 then
            (if is_nil acc then None else tcons (mk_class neg (rev acc)) (tokenize SNorm s'))
          else if class_plain c then tokenize (SClass neg (c :: acc)) s'
          else None
      end
  end.

(* ------------------------------------------------------------------ *)
(* From tokens to the AST                                               *)

Fixpoint seq_of (l : list regex) : regex :=
  match l with
  | [] => REmp
  | r :: l' => RSeq r (seq_of l')
  end.

(* items read so far, newest first: of the expression, and of the open group *)
Definition pstate := (list regex * option (list regex))%type.

Definition push1 (st : pstate) (r : regex) : pstate :=
  match st with
  | (o, Some l) => (o, Some (r :: l))
  | (o, None) => (r :: o, None)
  end.

Definition is_rep (r : regex) : bool :=
  match r with RStar _ | RPlus _ | ROpt _ => true | _ => false end.

Definition postfix (st : pstate) (f : regex -> regex) : option pstate :=
  let (o, i) := st in
  match i with
  | Some l => match l with
              | r :: l' => if is_rep r then None else Some (o, Some (f r :: l'))
              | [] => None
              end
  | None => match o with
            | r :: o' => if is_rep r then None else Some (f r :: o', None)
            | [] => None
            end
  end.

Fixpoint parse_toks (st : pstate) (ts : list tok) : option (pstate * bool) :=
  match ts with
  | [] => Some (st, false)
  | t :: ts' =>
      match t with
      | TChar c => parse_toks (push1 st (RChar c)) ts'
      | TAny => parse_toks (push1 st RAny) ts'
      | TSet cs => parse_toks (push1 st (RSet cs)) ts'
      | TNot cs => parse_toks (push1 st (RNot cs)) ts'
      | TOpen => match st with
                 | (o, None) => parse_toks (o, Some []) ts'
                 | _ => None
                 end
      | TClose => match st with
                  | (o, Some l) => if is_nil l then None
                                   else parse_toks (seq_of (rev l) :: o, None) ts'
                  | _ => None
                  end
      | TStar => match postfix st RStar with Some st' => parse_toks st' ts' | None => None end
      | TPlus => match postfix st RPlus with Some st' => parse_toks st' ts' | None => None end
      | TQuest => match postfix st ROpt with Some st' => parse_toks st' ts' | None => None end
      | TEos => if is_nil ts' then Some (st, true) else None
      end
  end.

Definition parse (s : str) : option expr :=
  match tokenize SNorm s with
  | Some ts =>
      match parse_toks ([], None) ts with
      | Some ((o, None), eos) => Some {| e_re := seq_of (rev o); e_eos := eos |}
      | _ => None
      end
  | None => None
  end.

(* ------------------------------------------------------------------ *)
(* The fragment, and the normal form the reader produces                 *)

Definition class_ok (cs : list Z) : bool := negb (is_nil cs) && forallb class_plain cs.

(* group-free *)
Fixpoint emit0 (r : regex) : bool :=
  match r with
  | REmp | RChar _ | RAny => true
  | RSet cs | RNot cs => class_ok cs
  | RSeq a b => emit0 a && emit0 b
  | RStar a | RPlus a | ROpt a => is_atom a && emit0 a
  | RNone | RAlt _ _ => false
  end.

(* sequences re-associated to the right, empty pieces dropped, inside groups too *)
Fixpoint items (r : regex) : list regex :=
  match r with
  | REmp => []
  | RSeq a b => items a ++ items b
  | RStar a => [RStar (if is_atom a then a else seq_of (items a))]
  | RPlus a => [RPlus (if is_atom a then a else seq_of (items a))]
  | ROpt a => [ROpt (if is_atom a then a else seq_of (items a))]
  | _ => [r]
  end.

Definition body_ok (a : regex) : bool :=
  if is_atom a then emit0 a else emit0 a && negb (is_nil (items a)).

(* one level of groups *)
Fixpoint emit1 (r : regex) : bool :=
  match r with
  | RSeq a b => emit1 a && emit1 b
  | RStar a | RPlus a | ROpt a => body_ok a
  | _ => emit0 r
  end.

