(* C14 — coverage under the EXACT side condition [url_ok_exact]: the pieces
   strings.Trim takes off a request URL, and the expression finding the raw
   spelling whenever the leading / trailing pieces are harmless. *)
From Coq Require Import List ZArith Bool Lia.
From Verif Require Import Lib.UrlTree Lib.UrlTreeProofs Lib.Regex C14.Model C14.Proofs.
Import ListNotations.
Open Scope Z_scope.

Lemma take_drop_while : forall p s, s = take_while p s ++ drop_while p s.
Proof.
  intros p. induction s as [|c s IH]; [reflexivity|]. cbn.
  destruct (p c); [cbn; f_equal; exact IH | reflexivity].
Qed.

Lemma take_while_all : forall p s, Forall (fun c => p c = true) (take_while p s).
Proof.
  intros p. induction s as [|c s IH]; [constructor|]. cbn.
  destruct (p c) eqn:E; constructor; assumption.
Qed.

Lemma drop_while_length : forall p s, (length (drop_while p s) <= length s)%nat.
Proof.
  intros p. induction s as [|c s IH]; cbn; [lia|]. destruct (p c); cbn; lia.
Qed.

Lemma drop_while_head : forall p s c r, drop_while p s = c :: r -> p c = false.
Proof.
  intros p. induction s as [|x s IH]; intros c r H; cbn in H; [discriminate|].
  destruct (p x) eqn:E; [eapply IH; eauto | inversion H; subst; exact E].
Qed.

Definition junk (s : str) : Prop := Forall (fun c => is_dot_slash c = true) s.

Lemma trail_junk : forall u, junk (trail u).
Proof. intro u. unfold trail, junk. apply Forall_rev. apply take_while_all. Qed.

Lemma lead_junk : forall u, junk (lead u).
Proof. intro u. apply take_while_all. Qed.

(* the three pieces of a request URL *)
Lemma url_pieces : forall u, u = lead u ++ trim_url u ++ trail u.
Proof.
  intro u. unfold lead, trail, trim_url, trim.
  rewrite (take_drop_while is_dot_slash u) at 1. f_equal.
  set (d := drop_while is_dot_slash u).
  rewrite <- rev_app_distr, <- take_drop_while, rev_involutive. reflexivity.
Qed.

(* the trimmed URL neither starts nor ends with a trimmed character *)
Lemma trim_url_head : forall u c r, trim_url u = c :: r -> is_dot_slash c = false.
Proof.
  intros u c r H. unfold trim_url, trim in H.
  set (d := drop_while is_dot_slash u) in *.
  (* the head of rev (drop_while (rev d)) is the head of d unless d is all junk *)
  destruct d as [|x d'] eqn:Ed; [cbn in H; discriminate|].
  assert (Hx : is_dot_slash x = false) by (eapply drop_while_head; exact Ed).
  assert (Hk : forall l, drop_while is_dot_slash (l ++ [x]) = drop_while is_dot_slash l ++ [x] \/
                         exists l', drop_while is_dot_slash (l ++ [x]) = l' ++ [x]).
  { intro l. right. induction l as [|y l IH]; cbn.
    - rewrite Hx. exists []. reflexivity.
    - destruct (is_dot_slash y).
      + exact IH.
      + exists (y :: l). reflexivity. }
  destruct (Hk (rev d')) as [E|[l' E]]; cbn [rev] in H; rewrite E in H;
    rewrite rev_app_distr in H; cbn in H; inversion H; subst; exact Hx.
Qed.

Lemma trim_url_last : forall u l c, trim_url u = l ++ [c] -> is_dot_slash c = false.
Proof.
  intros u l c H. unfold trim_url, trim in H.
  apply (f_equal (@rev Z)) in H. rewrite rev_involutive, rev_app_distr in H. cbn in H.
  eapply drop_while_head; exact H.
Qed.

(* url_ok (the older condition) is the stronger one *)
Lemma trimmed_pieces : forall u, trimmed u = true -> lead u = [] /\ trail u = [].
Proof.
  intros u H. apply trimmed_eq in H.
  pose proof (url_pieces u) as E. rewrite H in E.
  apply (f_equal (@length Z)) in E. rewrite !app_length in E.
  split; [destruct (lead u) | destruct (trail u)]; try reflexivity; cbn in E; lia.
Qed.

Lemma url_ok_exact_of_url_ok : forall p u, url_ok p u = true -> url_ok_exact p u = true.
Proof.
  intros p u H. unfold url_ok in H. apply andb_true_iff in H. destruct H as [HT HP].
  destruct (trimmed_pieces u HT) as [HL HR].
  unfold url_ok_exact, lead_ok, tail_ok. rewrite HL, HR, HP. cbn.
  rewrite !orb_true_r. reflexivity.
Qed.

(* ---- a path parameter in last position swallows trailing dots ---- *)
Lemma cover_parts_dots : forall ps us first J,
  matches (parse_pattern ps) us = true ->
  params_nonempty (parse_pattern ps) us = true ->
  parts_wf us ->
  last_path_param ps = true ->
  forallb is_dot J = true ->
  lang (url_re first ps) (unsplit first us ++ J).
Proof.
  induction ps as [|[k s] rest IH]; intros us first J HM HP HW HL HJ.
  - cbn in HL. discriminate.
  - cbn [parse_pattern map fst snd] in HM, HP. cbn [url_re].
    cbn [last_path_param] in HL.
    destruct (classify_cases s) as [[Es Ec]|[[Es [Eb Ec]]|[Es [Eb Ec]]]]; rewrite Ec in HM, HP; rewrite Es.
    + (* a wildcard is not a path parameter *)
      cbn [matches] in HM. rewrite is_nil_map in HM.
      destruct rest as [|r rest']; [|discriminate HM]. cbn [is_nil] in HL.
      apply str_eqb_eq in Es. subst s. rewrite andb_false_r in HL. discriminate.
    + cbn [andb]. cbn [matches] in HM. destruct us as [|[k' s'] us']; [discriminate|].
      apply andb_true_iff in HM. destruct HM as [Hk HM]. apply eqb_prop in Hk. subst k'.
      cbn [params_nonempty] in HP. apply andb_true_iff in HP. destruct HP as [Hne HP].
      inversion HW as [|? ? Hs' HW']; subst. cbn [fst snd] in Hs'.
      cbn [unsplit]. rewrite <- !app_assoc.
      constructor; [apply lang_delim; reflexivity|].
      destruct rest as [|r rest'].
      * (* the last part: s' ++ J is one run without "/" *)
        cbn [is_nil] in HL. apply andb_true_iff in HL. destruct HL as [Hk _].
        apply negb_true_iff in Hk. subst k.
        cbn [parse_pattern map matches] in HM. destruct us'; [|discriminate].
        cbn [unsplit url_re app].
        replace (s' ++ J) with ((s' ++ J) ++ []) by apply app_nil_r.
        constructor; [|constructor]. unfold part_re. rewrite Eb. apply lang_param. split.
        -- destruct s'; [discriminate Hne | discriminate].
        -- unfold sep_free in *. apply Forall_app. split; [exact Hs'|].
           apply Forall_forall. intros c Hc. rewrite forallb_forall in HJ.
           specialize (HJ c Hc). unfold is_dot in HJ. apply Z.eqb_eq in HJ. subst c.
           split; [discriminate | discriminate].
      * cbn [is_nil] in HL.
        constructor; [unfold part_re; rewrite Eb; apply lang_param; split;
                      [destruct s'; [discriminate Hne | discriminate] | exact Hs']|].
        apply IH; assumption.
    + cbn [andb]. cbn [matches] in HM. destruct us as [|[k' s'] us']; [discriminate|].
      apply andb_true_iff in HM. destruct HM as [HM1 HM].
      apply andb_true_iff in HM1. destruct HM1 as [Hk Hs]. apply eqb_prop in Hk. subst k'.
      apply str_eqb_eq in Hs. subst s'. cbn [params_nonempty] in HP.
      inversion HW as [|? ? Hs' HW']; subst.
      destruct rest as [|r rest'].
      * cbn [is_nil] in HL. rewrite Eb, andb_false_r in HL. discriminate.
      * cbn [is_nil] in HL. cbn [unsplit]. rewrite <- !app_assoc.
        constructor; [apply lang_delim; reflexivity|].
        constructor; [unfold part_re; rewrite Eb; apply lang_lit; reflexivity|].
        apply IH; assumption.
Qed.

Lemma only_wild_url_re : forall ps first, only_wild ps = true ->
  lang (url_re first ps) [] /\ ends_wild ps = true.
Proof.
  intros ps first H. destruct ps as [|[k s] [|r rest]]; try discriminate.
  cbn in H. cbn. rewrite H. cbn. split; [apply LOpt0 | reflexivity].
Qed.

(* the expression built with a method expression [mre] that accepts a suffix
   of the method finds the raw subject *)
Lemma cover_url_exact : forall mre m p u,
  (exists a b, m = a ++ b /\ lang mre b) ->
  matches (parse_pattern (split_url p)) (split_url u) = true ->
  url_ok_exact p u = true ->
  re_search (format_with mre p) (subject m u) = true.
Proof.
  intros mre m p u (a & b & -> & Hb) HM HO.
  unfold url_ok_exact in HO. apply andb_true_iff in HO. destruct HO as [HO HP].
  apply andb_true_iff in HO. destruct HO as [HLd HTl].
  apply re_search_spec. unfold lead_ok in HLd. apply orb_true_iff in HLd.
  destruct HLd as [HOW|HLd].
  { (* the lone wildcard: the expression finds everything after ":::" *)
    destruct (only_wild_url_re _ true HOW) as [HL HE].
    exists a, (b ++ sep3 ++ []), u. split.
    { unfold subject. rewrite <- !app_assoc. reflexivity. }
    split.
    { cbn [format_with e_re]. constructor; [exact Hb|]. constructor; [apply lang_lit; reflexivity | exact HL]. }
    cbn [format_with e_eos]. rewrite HE. discriminate. }
  assert (EL : lead u = []) by (destruct (lead u); [reflexivity | discriminate]).
  pose proof (url_pieces u) as EU. rewrite EL in EU. cbn [app] in EU.
  unfold tail_ok in HTl. apply orb_true_iff in HTl. destruct HTl as [HTl|HTl];
    [apply orb_true_iff in HTl; destruct HTl as [HW|HT]|].
  - (* wildcard: no "$", the rest of the subject is free *)
    destruct (cover_parts (split_url p) (split_url u) true HM HP (split_url_wf u))
      as (s1 & s2 & E & HL & He).
    rewrite unsplit_split in E.
    exists a, (b ++ sep3 ++ s1), (s2 ++ trail u). split.
    { unfold subject. rewrite EU at 1. rewrite E. rewrite <- !app_assoc. reflexivity. }
    split.
    { cbn [format_with e_re]. constructor; [exact Hb|]. constructor; [apply lang_lit; reflexivity | exact HL]. }
    cbn [format_with e_eos]. rewrite HW. discriminate.
  - (* nothing trimmed on the right *)
    assert (ET : trail u = []) by (destruct (trail u); [reflexivity | discriminate]).
    rewrite ET, app_nil_r in EU.
    destruct (cover_parts (split_url p) (split_url u) true HM HP (split_url_wf u))
      as (s1 & s2 & E & HL & He).
    rewrite unsplit_split, <- EU in E.
    exists a, (b ++ sep3 ++ s1), s2. split.
    { unfold subject. rewrite E. rewrite <- !app_assoc. reflexivity. }
    split.
    { cbn [format_with e_re]. constructor; [exact Hb|]. constructor; [apply lang_lit; reflexivity | exact HL]. }
    cbn [format_with e_eos]. intro Hw. apply He. apply negb_true_iff. exact Hw.
  - (* trailing dots after a path parameter *)
    apply andb_true_iff in HTl. destruct HTl as [HLp HD].
    pose proof (cover_parts_dots (split_url p) (split_url u) true (trail u) HM HP
                                 (split_url_wf u) HLp HD) as HL.
    rewrite unsplit_split, <- EU in HL.
    exists a, (b ++ sep3 ++ u), []. split.
    { unfold subject. rewrite <- !app_assoc, app_nil_r. reflexivity. }
    split; [|reflexivity].
    cbn [format_with e_re]. constructor; [exact Hb|]. constructor; [apply lang_lit; reflexivity | exact HL].
Qed.

Lemma cover_format_exact : forall m p u,
  matches (parse_pattern (split_url p)) (split_url u) = true ->
  url_ok_exact p u = true ->
  re_search (format m p) (subject m u) = true.
Proof.
  intros m p u. apply cover_url_exact. exists [], m. split; [reflexivity | apply lang_lit; reflexivity].
Qed.

Lemma cover_format_any_exact : forall m p u,
  matches (parse_pattern (split_url p)) (split_url u) = true ->
  url_ok_exact p u = true ->
  re_search (format_any p) (subject m u) = true.
Proof.
  intros m p u. apply cover_url_exact. exists m, []. split; [rewrite app_nil_r; reflexivity | apply LStar0].
Qed.
