(* C14 — the side condition [url_ok_exact] is EXACT: when the pattern matches
   the request URL and the expression of the pattern finds the raw subject,
   the URL is spelled as [url_ok_exact] says (so, with Cover.v, found <-> ok).
   The only proviso: ":::" occurs once in the subject ([sep_once]); a URL that
   itself contains "METHOD:::" can be found at that inner position. *)
From Coq Require Import List ZArith Bool Lia.
From Verif Require Import Lib.UrlTree Lib.UrlTreeProofs Lib.Regex C14.Model C14.Proofs C14.Literal.
From Verif Require Import C14.Cover C14.Bridge.
From Verif Require C03.Trie C03.Model C03.Spec C03.SpecLocal C03.Basics C03.Proofs C03.Property.
Import ListNotations.
Open Scope Z_scope.

(* ------------------------------------------------------------------ *)
(* ":::" occurs once                                                    *)

Lemma starts_spec : forall x s, starts x s = true <-> exists r, s = x ++ r.
Proof.
  induction x as [|c x IH]; intro s; cbn.
  - split; [intros _; exists s; reflexivity | reflexivity].
  - destruct s as [|d s]; [split; [discriminate | intros [r E]; discriminate]|].
    rewrite andb_true_iff, Z.eqb_eq, IH. split.
    + intros [-> [r ->]]. exists r. reflexivity.
    + intros [r E]. inversion E; subst. split; [reflexivity | exists r; reflexivity].
Qed.

Lemma occ3_cons : forall c s,
  occ3 (c :: s) = ((if starts sep3 (c :: s) then 1 else 0) + occ3 s)%nat.
Proof. reflexivity. Qed.

Lemma occ3_ge1 : forall a b, (1 <= occ3 (a ++ sep3 ++ b))%nat.
Proof.
  induction a as [|c a IH]; intro b.
  - cbn [app]. change (sep3 ++ b) with (58 :: 58 :: 58 :: b). rewrite occ3_cons.
    change (starts sep3 (58 :: 58 :: 58 :: b)) with true. cbv iota. lia.
  - cbn [app]. rewrite occ3_cons. specialize (IH b). lia.
Qed.

Lemma occ3_ge2 : forall a a' b b',
  a ++ sep3 ++ b = a' ++ sep3 ++ b' -> (length a < length a')%nat ->
  (2 <= occ3 (a ++ sep3 ++ b))%nat.
Proof.
  induction a as [|c a IH]; intros a' b b' E HL.
  - destruct a' as [|c' a']; [cbn in HL; lia|].
    cbn [app] in E. change (sep3 ++ b) with (58 :: 58 :: 58 :: b) in *.
    cbn [app]. rewrite occ3_cons. change (starts sep3 (58 :: 58 :: 58 :: b)) with true. cbv iota.
    inversion E as [[Ec Et]]. 
    pose proof (occ3_ge1 a' b') as H1. change (sep3 ++ b') with (58 :: 58 :: 58 :: b') in H1.
    rewrite <- Et in H1. lia.
  - destruct a' as [|c' a']; [cbn in HL; lia|].
    cbn [app] in E. inversion E as [[Ec Et]]. cbn [app]. rewrite occ3_cons.
    assert (H2 : (2 <= occ3 (a ++ sep3 ++ b))%nat).
    { eapply IH; [exact Et | cbn in HL; lia]. }
    lia.
Qed.

Lemma app_same_length : forall (A : Type) (a a' b b' : list A),
  a ++ b = a' ++ b' -> length a = length a' -> a = a' /\ b = b'.
Proof.
  induction a as [|x a IH]; intros a' b b' E HL; destruct a' as [|y a']; try discriminate.
  - auto.
  - cbn in E. inversion E; subst. cbn in HL.
    destruct (IH a' b b' H1) as [-> ->]; [lia | auto].
Qed.

Lemma sep_onceb_spec : forall m u, sep_onceb m u = true -> sep_once m u.
Proof.
  intros m u H a b E. unfold sep_onceb in H. apply Nat.eqb_eq in H. unfold subject in *.
  destruct (Nat.lt_trichotomy (length a) (length m)) as [L|[L|L]].
  - pose proof (occ3_ge2 a m b u (eq_sym E) L) as H2. rewrite <- E in H2. lia.
  - destruct (app_same_length _ _ _ _ _ E (eq_sym L)) as [X _]. symmetry. exact X.
  - pose proof (occ3_ge2 m a u b E L) as H2. lia.
Qed.

(* ------------------------------------------------------------------ *)
(* Shape of split URLs                                                  *)

(* host labels precede path segments *)
Fixpoint hf (ps : list part) : Prop :=
  match ps with
  | (k, _) :: rest =>
      match rest with
      | (k2, _) :: _ => (k2 = true -> k = true) /\ hf rest
      | [] => True
      end
  | [] => True
  end.

Lemma hf_cons_intro : forall k s rest,
  (forall k2 s2 r, rest = (k2, s2) :: r -> k2 = true -> k = true) -> hf rest -> hf ((k, s) :: rest).
Proof.
  intros k s rest H H0. cbn [hf]. destruct rest as [|[k2 s2] r]; [exact I|].
  split; [eapply H; reflexivity | exact H0].
Qed.

Lemma hf_tail : forall x rest, hf (x :: rest) -> hf rest.
Proof. intros [k s] rest H. cbn [hf] in H. destruct rest as [|[k2 s2] r]; [exact I | tauto]. Qed.

Lemma hf_head : forall k s k2 s2 r, hf ((k, s) :: (k2, s2) :: r) -> k2 = true -> k = true.
Proof. intros k s k2 s2 r H. cbn [hf] in H. tauto. Qed.

Lemma hf_paths : forall qs : list str, hf (map (fun s => (false, s)) qs).
Proof.
  induction qs as [|q qs IH]; [exact I|]. cbn [map]. apply hf_cons_intro; [|exact IH].
  intros k2 s2 r E Hk. destruct qs; cbn in E; inversion E; subst; discriminate.
Qed.

Lemma hf_split : forall u, hf (split_url u).
Proof.
  intro u. destruct (split_url_host_first u) as (hs & qs & ->).
  induction hs as [|h hs IH]; [apply hf_paths|].
  cbn [map app]. apply hf_cons_intro; [|exact IH]. intros; reflexivity.
Qed.

Lemma split_url_first_host : forall u, exists s rest, split_url u = (true, s) :: rest.
Proof.
  intro u. unfold split_url.
  destruct (split_on c_slash (trim_url u)) as [|host path] eqn:S;
    [exfalso; eapply split_on_nonempty; eauto|].
  destruct (split_on c_dot host) as [|h hs] eqn:S2;
    [exfalso; eapply split_on_nonempty; eauto|].
  cbn. eauto.
Qed.

(* the last part is not empty *)
Fixpoint last_ne (us : list part) : Prop :=
  match us with
  | [] => True
  | (_, s) :: rest => match rest with [] => s <> [] | _ => last_ne rest end
  end.

Definition sepc (k : bool) : Z := if k then c_dot else c_slash.

Lemma sepc_junk : forall k, is_dot_slash (sepc k) = true.
Proof. destruct k; reflexivity. Qed.

Lemma delim_sepc : forall k, delim k = [sepc k].
Proof. destruct k; reflexivity. Qed.

Lemma unsplit_cons : forall first k s rest,
  unsplit first ((k, s) :: rest) = delim_txt first k ++ s ++ unsplit false rest.
Proof. reflexivity. Qed.

Lemma unsplit_last_ne : forall us first,
  (forall l c, unsplit first us = l ++ [c] -> is_dot_slash c = false) ->
  unsplit first us <> [] -> last_ne us.
Proof.
  induction us as [|[k s] rest IH]; intros first HL HN; [exact I|].
  cbn [last_ne]. destruct rest as [|[k2 s2] rest'].
  - intro E. subst s. cbn [unsplit] in HL, HN. rewrite app_nil_r in *.
    unfold delim_txt in *. destruct first; [apply HN; reflexivity|].
    rewrite delim_sepc in HL. specialize (HL [] (sepc k) eq_refl).
    rewrite sepc_junk in HL. discriminate.
  - apply (IH false).
    + intros l c E. apply (HL (delim_txt first k ++ s ++ l) c).
      rewrite unsplit_cons, E. rewrite <- !app_assoc. reflexivity.
    + rewrite unsplit_cons. unfold delim_txt. rewrite delim_sepc. discriminate.
Qed.

Lemma split_last_ne : forall u, trim_url u <> [] -> last_ne (split_url u).
Proof.
  intros u H. apply (unsplit_last_ne _ true); rewrite unsplit_split.
  - intros l c E. eapply trim_url_last; exact E.
  - exact H.
Qed.

(* ------------------------------------------------------------------ *)
(* Alignment of an instance of the pattern with the split request URL   *)

Lemma app_sep_unique : forall (c : Z) a b x y,
  ~ In c a -> ~ In c b -> a ++ c :: x = b ++ c :: y -> a = b /\ x = y.
Proof.
  intros c. induction a as [|p a IH]; intros b x y Ha Hb E; destruct b as [|q b].
  - cbn in E. inversion E. auto.
  - cbn in E. inversion E; subst. exfalso. apply Hb. left. reflexivity.
  - cbn in E. inversion E; subst. exfalso. apply Ha. left. reflexivity.
  - cbn in E. inversion E; subst.
    destruct (IH b x y) as [-> ->]; auto.
    + intro H. apply Ha. right. exact H.
    + intro H. apply Hb. right. exact H.
Qed.

Lemma sep_free_no_sepc : forall k k2 v, (k2 = true -> k = true) -> sep_free k v -> ~ In (sepc k2) v.
Proof.
  intros k k2 v Hk Hv Hin. unfold sep_free in Hv. rewrite Forall_forall in Hv.
  destruct (Hv _ Hin) as [H1 H2]. destruct k2; cbn in *.
  - apply H2; [apply Hk; reflexivity | reflexivity].
  - apply H1. reflexivity.
Qed.

Lemma inst_cons_delim : forall k s rest w,
  inst false ((k, s) :: rest) w -> exists w', w = sepc k :: w'.
Proof.
  intros k s rest w H. cbn [inst] in H. unfold delim_txt in H. rewrite delim_sepc in H.
  destruct (is_brace s).
  - destruct H as (v & w' & -> & _). eexists. reflexivity.
  - destruct H as (w' & -> & _). eexists. reflexivity.
Qed.

Lemma unsplit_cons_delim : forall k s rest, unsplit false ((k, s) :: rest) = sepc k :: s ++ unsplit false rest.
Proof. intros. cbn [unsplit]. unfold delim_txt. rewrite delim_sepc. reflexivity. Qed.

Lemma junk_no_sep_free_host : forall J, junk J -> sep_free true J -> J = [].
Proof.
  intros J HJ HS. destruct J as [|c J]; [reflexivity|]. exfalso.
  inversion HJ; subst. inversion HS; subst. destruct H3 as [Hs Hd].
  unfold is_dot_slash in H1. apply orb_true_iff in H1. destruct H1 as [E|E]; apply Z.eqb_eq in E.
  - apply Hd; auto.
  - apply Hs; auto.
Qed.

Lemma junk_no_slash_dots : forall J, junk J -> ~ In c_slash J -> forallb is_dot J = true.
Proof.
  induction J as [|c J IH]; intros HJ HN; [reflexivity|]. inversion HJ; subst.
  cbn [forallb]. apply andb_true_iff. split.
  - unfold is_dot_slash in H1. apply orb_true_iff in H1. destruct H1 as [E|E]; [exact E|].
    apply Z.eqb_eq in E. subst c. exfalso. apply HN. left. reflexivity.
  - apply IH; [exact H2 | intro H; apply HN; right; exact H].
Qed.

(* A. pattern not ending in a wildcard: the instance w is the text of the
      matched parts followed by trimmed characters J *)
Lemma align_nowild : forall ps us first w J,
  hf us -> parts_wf us -> last_ne us ->
  matches (parse_pattern ps) us = true -> ends_wild ps = false ->
  inst first ps w -> w = unsplit first us ++ J -> junk J ->
  params_nonempty (parse_pattern ps) us = true /\
  (J = [] \/ (last_path_param ps = true /\ forallb is_dot J = true)).
Proof.
  induction ps as [|[k s] rest IH]; intros us first w J HF HW HN HM HE HI EW HJ.
  - cbn in HM. destruct us; [|discriminate]. cbn in HI, EW. subst w.
    split; [reflexivity|]. left. symmetry. exact EW.
  - assert (Hr : ends_wild rest = false).
    { cbn [ends_wild] in HE. destruct rest; [reflexivity | exact HE]. }
    cbn [parse_pattern map fst snd] in HM |- *. cbn [inst] in HI.
    destruct (classify_cases s) as [[Es Ec]|[[Es [Eb Ec]]|[Es [Eb Ec]]]]; rewrite Ec in HM |- *.
    + (* "*" in the middle matches nothing *)
      cbn [matches] in HM. rewrite is_nil_map in HM. destruct rest; [|discriminate].
      cbn in HE. congruence.
    + (* parameter *)
      rewrite Eb in HI. destruct HI as (v & w' & -> & Hv & Hsv & HI).
      cbn [matches] in HM. destruct us as [|[k' s'] us']; [discriminate|].
      apply andb_true_iff in HM. destruct HM as [Hk HM]. apply eqb_prop in Hk. subst k'.
      inversion HW as [|? ? Hs' HW']; subst. cbn [fst snd] in Hs'.
      cbn [unsplit] in EW. rewrite <- !app_assoc in EW. apply app_inv_head in EW.
      cbn [params_nonempty last_path_param].
      destruct rest as [|[k2 s2] rest'].
      * cbn [inst] in HI. subst w'. cbn [parse_pattern map matches] in HM.
        destruct us'; [|discriminate]. cbn [unsplit app] in EW. rewrite app_nil_r in EW.
        cbn [last_ne] in HN. cbn [is_nil].
        split; [destruct s'; [congruence | reflexivity]|].
        destruct k.
        -- left. apply junk_no_sep_free_host; [exact HJ|].
           subst v. unfold sep_free in *. apply Forall_app in Hsv. tauto.
        -- right. rewrite Eb. split; [reflexivity|]. apply junk_no_slash_dots; [exact HJ|].
           intro Hin. subst v. unfold sep_free in Hsv. rewrite Forall_forall in Hsv.
           destruct (Hsv c_slash) as [X _]; [apply in_or_app; right; exact Hin | congruence].
      * (* the next part starts with its delimiter on both sides *)
        cbn [parse_pattern map fst snd] in HM.
        assert (Hus : exists s2' us'', us' = (k2, s2') :: us'').
        { destruct (classify_cases s2) as [[Fs Fc]|[[Fs [Fb Fc]]|[Fs [Fb Fc]]]]; rewrite Fc in HM.
          - cbn [matches] in HM. rewrite is_nil_map in HM. destruct rest'; [|discriminate].
            cbn in Hr. congruence.
          - cbn [matches] in HM. destruct us' as [|[k3 s3] us'']; [discriminate|].
            apply andb_true_iff in HM. destruct HM as [Hk _]. apply eqb_prop in Hk. subst k3. eauto.
          - cbn [matches] in HM. destruct us' as [|[k3 s3] us'']; [discriminate|].
            apply andb_true_iff in HM. destruct HM as [Hk _]. apply andb_true_iff in Hk.
            destruct Hk as [Hk _]. apply eqb_prop in Hk. subst k3. eauto. }
        destruct Hus as (s2' & us'' & ->).
        destruct (inst_cons_delim _ _ _ _ HI) as [w'' Ew']. rewrite Ew' in EW.
        rewrite unsplit_cons_delim in EW. cbn [app] in EW.
        pose proof (hf_head _ _ _ _ _ HF) as Hkk. pose proof (hf_tail _ _ HF) as HF'.
        destruct (app_sep_unique (sepc k2) v s' w'' ((s2' ++ unsplit false us'') ++ J)) as [Evs Ew''].
        { eapply sep_free_no_sepc; eauto. }
        { eapply sep_free_no_sepc; eauto. }
        { rewrite EW. rewrite <- !app_assoc. reflexivity. }
        subst s'. cbn [is_nil].
        destruct (IH ((k2, s2') :: us'') false w' J HF' HW') as [HP HT]; auto.
        { rewrite Ew', Ew'', unsplit_cons_delim. cbn [app]. rewrite <- !app_assoc. reflexivity. }
        split; [|exact HT].
        unfold parse_pattern in HP. rewrite HP.
        destruct v; [congruence | reflexivity].
    + (* literal *)
      rewrite Eb in HI. destruct HI as (w' & -> & HI).
      cbn [matches] in HM. destruct us as [|[k' s'] us']; [discriminate|].
      apply andb_true_iff in HM. destruct HM as [HM1 HM].
      apply andb_true_iff in HM1. destruct HM1 as [Hk Hs]. apply eqb_prop in Hk. subst k'.
      apply str_eqb_eq in Hs. subst s'.
      inversion HW as [|? ? Hs' HW']; subst.
      cbn [unsplit] in EW. rewrite <- !app_assoc in EW. apply app_inv_head in EW. apply app_inv_head in EW.
      cbn [params_nonempty last_path_param].
      pose proof (hf_tail _ _ HF) as HF'.
      assert (HN' : last_ne us').
      { cbn [last_ne] in HN. destruct us' as [|[k3 s3] us'']; [exact I | exact HN]. }
      destruct (IH us' false w' J HF' HW' HN' HM Hr HI EW HJ) as [HP HT].
      split; [exact HP|]. destruct HT as [HT|HT]; [left; exact HT|].
      destruct rest as [|r rest']; [cbn in HT; destruct HT; discriminate|]. cbn [is_nil]. right. exact HT.
Qed.

(* B. pattern = init ++ [wildcard]: an instance w1 of init, then anything (R) *)
Lemma align_wild : forall init us first w1 R J kw,
  hf us -> parts_wf us -> last_ne us ->
  matches (parse_pattern (init ++ [(kw, star)])) us = true ->
  inst first init w1 -> w1 ++ R = unsplit first us ++ J ->
  params_nonempty (parse_pattern (init ++ [(kw, star)])) us = true.
Proof.
  induction init as [|[k s] rest IH]; intros us first w1 R J kw HF HW HN HM HI EW.
  - reflexivity.
  - cbn [app parse_pattern map fst snd] in HM |- *. cbn [inst] in HI.
    fold (parse_pattern (rest ++ [(kw, star)])) in HM |- *.
    assert (Hne : is_nil (parse_pattern (rest ++ [(kw, star)])) = false).
    { unfold parse_pattern. rewrite is_nil_map. destruct rest; reflexivity. }
    destruct (classify_cases s) as [[Es Ec]|[[Es [Eb Ec]]|[Es [Eb Ec]]]]; rewrite Ec in HM |- *.
    + cbn [matches] in HM. congruence.
    + rewrite Eb in HI. destruct HI as (v & w' & -> & Hv & Hsv & HI).
      cbn [matches] in HM. destruct us as [|[k' s'] us']; [discriminate|].
      apply andb_true_iff in HM. destruct HM as [Hk HM]. apply eqb_prop in Hk. subst k'.
      inversion HW as [|? ? Hs' HW']; subst. cbn [fst snd] in Hs'.
      cbn [unsplit] in EW. rewrite <- !app_assoc in EW. apply app_inv_head in EW.
      cbn [params_nonempty].
      pose proof (hf_tail _ _ HF) as HF'.
      assert (HN' : last_ne us').
      { cbn [last_ne] in HN. destruct us' as [|[k3 s3] us'']; [exact I | exact HN]. }
      destruct rest as [|[k2 s2] rest'].
      * cbn [inst] in HI. subst w'. cbn [app] in EW |- *.
        rewrite andb_true_r. destruct s' as [|c0 s']; [|reflexivity]. exfalso.
        cbn [app] in EW. destruct us' as [|[k3 s3] us''].
        -- cbn [last_ne] in HN. congruence.
        -- rewrite unsplit_cons_delim in EW. destruct v as [|c v]; [congruence|].
           cbn [app] in EW. injection EW as Ec0 _.
           pose proof (hf_head _ _ _ _ _ HF) as Hkk.
           eapply (sep_free_no_sepc k k3 (c :: v)); eauto. left. exact Ec0.
      * cbn [app parse_pattern map fst snd] in HM.
        fold (parse_pattern (rest' ++ [(kw, star)])) in HM.
        assert (Hne2 : is_nil (parse_pattern (rest' ++ [(kw, star)])) = false).
        { unfold parse_pattern. rewrite is_nil_map. destruct rest'; reflexivity. }
        assert (Hus : exists s2' us'', us' = (k2, s2') :: us'').
        { destruct (classify_cases s2) as [[Fs Fc]|[[Fs [Fb Fc]]|[Fs [Fb Fc]]]]; rewrite Fc in HM.
          - cbn [matches] in HM. congruence.
          - cbn [matches] in HM. destruct us' as [|[k3 s3] us'']; [discriminate|].
            apply andb_true_iff in HM. destruct HM as [Hk _]. apply eqb_prop in Hk. subst k3. eauto.
          - cbn [matches] in HM. destruct us' as [|[k3 s3] us'']; [discriminate|].
            apply andb_true_iff in HM. destruct HM as [Hk _]. apply andb_true_iff in Hk.
            destruct Hk as [Hk _]. apply eqb_prop in Hk. subst k3. eauto. }
        destruct Hus as (s2' & us'' & ->).
        destruct (inst_cons_delim _ _ _ _ HI) as [w'' Ew']. rewrite Ew' in EW.
        rewrite unsplit_cons_delim in EW. cbn [app] in EW.
        pose proof (hf_head _ _ _ _ _ HF) as Hkk.
        destruct (app_sep_unique (sepc k2) v s' (w'' ++ R) ((s2' ++ unsplit false us'') ++ J)) as [Evs Ew''].
        { eapply sep_free_no_sepc; eauto. }
        { eapply sep_free_no_sepc; eauto. }
        { rewrite <- !app_assoc in *. exact EW. }
        subst s'.
        assert (HP : params_nonempty (parse_pattern (((k2, s2) :: rest') ++ [(kw, star)])) ((k2, s2') :: us'') = true).
        { apply (IH ((k2, s2') :: us'') false w' R J kw HF' HW' HN'); auto.
          rewrite Ew', unsplit_cons_delim. cbn [app]. rewrite Ew''. rewrite <- !app_assoc. reflexivity. }
        cbn [app parse_pattern map fst snd] in HP |- *. rewrite HP.
        destruct v; [congruence | reflexivity].
    + rewrite Eb in HI. destruct HI as (w' & -> & HI).
      cbn [matches] in HM. destruct us as [|[k' s'] us']; [discriminate|].
      apply andb_true_iff in HM. destruct HM as [HM1 HM].
      apply andb_true_iff in HM1. destruct HM1 as [Hk Hs]. apply eqb_prop in Hk. subst k'.
      apply str_eqb_eq in Hs. subst s'.
      inversion HW as [|? ? Hs' HW']; subst.
      cbn [unsplit] in EW. rewrite <- !app_assoc in EW. apply app_inv_head in EW. apply app_inv_head in EW.
      cbn [params_nonempty].
      pose proof (hf_tail _ _ HF) as HF'.
      assert (HN' : last_ne us').
      { cbn [last_ne] in HN. destruct us' as [|[k3 s3] us'']; [exact I | exact HN]. }
      exact (IH us' false w' R J kw HF' HW' HN' HM HI EW).
Qed.

(* ------------------------------------------------------------------ *)
(* The first character of an instance is not a trimmed character        *)

Lemma first_part_nonempty : forall p, trim_url p <> [] ->
  exists c s rest, split_url p = (true, c :: s) :: rest /\ is_dot_slash c = false.
Proof.
  intros p HN. destruct (split_url_first_host p) as (s & rest & E).
  pose proof (unsplit_split p) as EU. rewrite E in EU. cbn [unsplit delim_txt app] in EU.
  destruct s as [|c s].
  - exfalso. cbn [app] in EU. destruct rest as [|[k2 s2] rest'].
    + cbn in EU. congruence.
    + rewrite unsplit_cons_delim in EU. symmetry in EU.
      pose proof (trim_url_head _ _ _ EU) as H. rewrite sepc_junk in H. discriminate.
  - exists c, s, rest. split; [exact E|]. cbn [app] in EU. symmetry in EU.
    eapply trim_url_head; exact EU.
Qed.

Lemma inst_head : forall c s rest w,
  is_dot_slash c = false ->
  inst true ((true, c :: s) :: rest) w -> exists d r, w = d :: r /\ is_dot_slash d = false.
Proof.
  intros c s rest w Hc H. cbn [inst delim_txt app] in H.
  destruct (is_brace (c :: s)).
  - destruct H as (v & w' & -> & Hv & Hs & _). destruct v as [|d v]; [congruence|].
    exists d, (v ++ w'). split; [reflexivity|]. inversion Hs as [|? ? [X1 X2] ?]; subst.
    unfold is_dot_slash. apply orb_false_iff. split; apply Z.eqb_neq; auto.
  - destruct H as (w' & -> & _). exists c, (s ++ w'). auto.
Qed.

Lemma lead_nil_of_head : forall d r, is_dot_slash d = false -> lead (d :: r) = [].
Proof. intros d r H. unfold lead. cbn. rewrite H. reflexivity. Qed.

Lemma junk_head : forall d r, junk (d :: r) -> is_dot_slash d = true.
Proof. intros d r H. inversion H; assumption. Qed.

(* ------------------------------------------------------------------ *)
(* Found => spelled as url_ok_exact says                                *)

Lemma ends_wild_last : forall ps, ends_wild ps = true ->
  exists kw, ps = removelast ps ++ [(kw, star)].
Proof.
  induction ps as [|[k s] rest IH]; intro H; [discriminate|].
  destruct rest as [|r rest'].
  - cbn in H. apply str_eqb_eq in H. subst s. exists k. reflexivity.
  - cbn [ends_wild is_nil] in H. destruct (IH H) as [kw E]. exists kw.
    change (removelast ((k, s) :: r :: rest')) with ((k, s) :: removelast (r :: rest')).
    cbn [app]. f_equal. exact E.
Qed.

(* what the three pieces of u are once its first character is known not to
   be a trimmed one *)
Lemma pieces_of_head : forall u d r, u = d :: r -> is_dot_slash d = false ->
  lead u = [] /\ u = trim_url u ++ trail u /\ trim_url u <> [].
Proof.
  intros u d r E Hd. assert (HL : lead u = []) by (subst u; apply lead_nil_of_head; exact Hd).
  pose proof (url_pieces u) as EU. rewrite HL in EU. cbn [app] in EU.
  split; [exact HL|]. split; [exact EU|].
  intro HT. rewrite HT in EU. cbn [app] in EU.
  pose proof (trail_junk u) as HJ. rewrite <- EU, E in HJ.
  apply junk_head in HJ. congruence.
Qed.

Theorem found_ok_exact : forall mre m p u,
  trim_url p <> [] ->
  matches (parse_pattern (split_url p)) (split_url u) = true ->
  sep_once m u ->
  re_search (format_with mre p) (subject m u) = true ->
  url_ok_exact p u = true.
Proof.
  intros mre m p u HP HM HS HR.
  destruct (first_part_nonempty p HP) as (c & s & rest & Eps & Hc).
  unfold url_ok_exact.
  destruct (ends_wild (split_url p)) eqn:HE.
  - (* wildcard *)
    apply (search_open _ _ _ HE) in HR. destruct HR as (pre & a & u1 & R & E & _ & HI).
    assert (Em : pre ++ a = m).
    { apply (HS (pre ++ a) (u1 ++ R)). rewrite E. rewrite <- !app_assoc. reflexivity. }
    assert (Eu : u = u1 ++ R).
    { unfold subject in E. rewrite <- Em in E. rewrite <- !app_assoc in E.
      apply app_inv_head in E. apply app_inv_head in E. apply app_inv_head in E. exact E. }
    unfold tail_ok. rewrite HE. cbn [orb]. rewrite andb_true_r.
    destruct (ends_wild_last _ HE) as [kw Ekw].
    destruct (only_wild (split_url p)) eqn:HO.
    + unfold lead_ok. rewrite HO. cbn [orb andb].
      rewrite Eps in HO |- *. destruct rest; [|discriminate].
      change (str_eqb (c :: s) star = true) in HO.
      cbn [parse_pattern map fst snd]. unfold classify. rewrite HO. reflexivity.
    + (* there is a first part before the wildcard *)
      assert (Hinit : exists rest0, removelast (split_url p) = (true, c :: s) :: rest0).
      { rewrite Eps in *. destruct rest as [|r rest'].
        - cbn in HE, HO. congruence.
        - exists (removelast (r :: rest')). reflexivity. }
      destruct Hinit as [rest0 Ei]. rewrite Ei in HI.
      destruct (inst_head _ _ _ _ Hc HI) as (d & r & Eu1 & Hd).
      destruct (pieces_of_head u d (r ++ R)) as (HL & EU & HT); [rewrite Eu, Eu1; reflexivity | exact Hd|].
      unfold lead_ok. rewrite HL. cbn [is_nil]. rewrite orb_true_r. cbn [andb].
      rewrite Ekw. rewrite Ekw in HM. rewrite <- Ei in HI.
      apply (align_wild (removelast (split_url p)) (split_url u) true u1 R (trail u) kw
                        (hf_split u) (split_url_wf u) (split_last_ne u HT) HM HI).
      rewrite unsplit_split, <- EU. symmetry. exact Eu.
  - (* end anchor *)
    apply (search_anchored_nowild _ _ _ HE) in HR. destruct HR as (pre & a & u1 & E & _ & HI).
    assert (Em : pre ++ a = m).
    { apply (HS (pre ++ a) u1). rewrite E. rewrite <- !app_assoc. reflexivity. }
    assert (Eu : u = u1).
    { unfold subject in E. rewrite <- Em in E. rewrite <- !app_assoc in E.
      apply app_inv_head in E. apply app_inv_head in E. apply app_inv_head in E. exact E. }
    subst u1. rewrite Eps in HI.
    destruct (inst_head _ _ _ _ Hc HI) as (d & r & Eu1 & Hd).
    destruct (pieces_of_head u d r Eu1 Hd) as (HL & EU & HT).
    rewrite <- Eps in HI.
    destruct (align_nowild (split_url p) (split_url u) true u (trail u)
                (hf_split u) (split_url_wf u) (split_last_ne u HT) HM HE HI) as [HPn HTl].
    { rewrite unsplit_split. exact EU. }
    { apply trail_junk. }
    unfold lead_ok, tail_ok. rewrite HL, HE, HPn. cbn [is_nil orb]. rewrite orb_true_r. cbn [andb].
    rewrite andb_true_r.
    destruct HTl as [HTl|[H1 H2]].
    + rewrite HTl. reflexivity.
    + rewrite H1, H2. cbn. apply orb_true_r.
Qed.

(* with Cover.v: on the URLs the pattern matches, the expression finds the raw
   spelling exactly when it is spelled as [url_ok_exact] says *)
Corollary found_iff_ok_exact : forall m p u,
  trim_url p <> [] ->
  matches (parse_pattern (split_url p)) (split_url u) = true ->
  sep_once m u ->
  re_search (format m p) (subject m u) = url_ok_exact p u.
Proof.
  intros m p u HP HM HS.
  destruct (url_ok_exact p u) eqn:HO.
  - apply cover_format_exact; assumption.
  - destruct (re_search (format m p) (subject m u)) eqn:HR; [|reflexivity].
    unfold format in HR. rewrite (found_ok_exact _ _ _ _ HP HM HS HR) in HO. discriminate.
Qed.

Corollary found_any_iff_ok_exact : forall m p u,
  trim_url p <> [] ->
  matches (parse_pattern (split_url p)) (split_url u) = true ->
  sep_once m u ->
  re_search (format_any p) (subject m u) = url_ok_exact p u.
Proof.
  intros m p u HP HM HS.
  destruct (url_ok_exact p u) eqn:HO.
  - apply cover_format_any_exact; assumption.
  - destruct (re_search (format_any p) (subject m u)) eqn:HR; [|reflexivity].
    unfold format_any in HR. rewrite (found_ok_exact _ _ _ _ HP HM HS HR) in HO. discriminate.
Qed.


(* ------------------------------------------------------------------ *)
(* One flow: selected => (managed <-> url_ok_exact)                      *)

Lemma kind_compat_on_refl : forall url p, C03.SpecLocal.kind_compat_on url p p = true.
Proof.
  induction url as [|[uh uv] url IH]; intros [|[ph pv] p]; try reflexivity.
  cbn [C03.SpecLocal.kind_compat_on].
  destruct (C03.Trie.step_eqb (C03.Trie.step_of pv) (C03.Trie.step_of pv) &&
            C03.SpecLocal.step_fits (C03.Trie.step_of pv) uv); [|reflexivity].
  rewrite eqb_reflx, IH. reflexivity.
Qed.

Lemma single_flow_exact : forall f x,
  C03.Model.load_ok [f] = true ->
  In f (C03.Model.get_flow (C03.Proofs.tree_of [f]) x) ->
  trim_url (C03.Model.f_url f) <> [] ->
  sep_once (C03.Model.t_method x) (C03.Model.t_url x) ->
  managed false (flows_endpoints [f]) (C03.Model.t_method x) (C03.Model.t_url x)
  = url_ok_exact (C03.Model.f_url f) (C03.Model.t_url x).
Proof.
  intros f x HL H HP HS.
  assert (HK : C03.SpecLocal.kc_at [f] f (C03.Proofs.url_of x) = true).
  { unfold C03.SpecLocal.kc_at. cbn [forallb]. rewrite kind_compat_on_refl. reflexivity. }
  destruct (flow_selected_matches_at [f] x f HL H HK) as (_ & HM & Hm).
  destruct (url_ok_exact (C03.Model.f_url f) (C03.Model.t_url x)) eqn:HO.
  - destruct (cover_flows_at [f] x f HL H HK HO) as (_ & e & He & Hs).
    apply (managed_of_endpoint _ _ e); [|exact Hs].
    unfold flows_endpoints. cbn [flat_map]. rewrite app_nil_r. exact He.
  - unfold managed. cbn [orb]. unfold flows_endpoints. cbn [flat_map]. rewrite app_nil_r.
    destruct (existsb (fun e => re_search e (subject (C03.Model.t_method x) (C03.Model.t_url x)))
                      (flow_endpoints f)) eqn:HE; [|reflexivity].
    apply existsb_exists in HE. destruct HE as (e & He & Hs).
    assert (HX : exists mre, e = format_with mre (C03.Model.f_url f)).
    { unfold flow_endpoints in He. destruct (C03.Model.f_methods f) as [|m0 ms].
      - destruct He as [<-|[]]. exists any_method_re. reflexivity.
      - apply in_map_iff in He. destruct He as (m' & <- & _). exists (lit m'). reflexivity. }
    destruct HX as [mre ->].
    rewrite (found_ok_exact mre _ _ _ HP HM HS Hs) in HO. discriminate.
Qed.
