(* C14 — the request host may name a PORT.

   txn.url = txn.host ++ txn.path and txn.host is the Host / x-lunar-host header
   as sent, so "api.acme.com:8443/v1/orders" is a request URL the proxy judges
   (subject "GET:::api.acme.com:8443/v1/orders") and the engine looks up.

   The engine's reading of such a URL is a parameter of the model:
     AsSent            the URL is looked up as it is (the code: ':' and the digits
                       are ordinary characters of the last host label);
     HostNameFallback  when the traversal of the filter tree returns nothing for
                       the URL and its host has the form name:digits, the URL is
                       looked up again without the port (seeded change C14-12;
                       FilterTree.GetFlow + withoutHostPort).
   The registered expressions are built from the DECLARED URL in both variants.

   AsSent is the modelled code: the coverage theorems (C14_cover_flows_exact ..)
   quantify over all request URLs, with or without a port, so they are
   inherited unchanged.  HostNameFallback keeps them exactly for the requests
   whose host names no port (or whose URL the tree finds as sent) and loses
   them otherwise (witness in Property.v). *)
From Coq Require Import List ZArith Bool.
From Verif Require Import Lib.UrlTree Lib.Regex C14.Model.
From Verif Require C03.Trie C03.Model C03.Proofs.
Import ListNotations.
Open Scope Z_scope.

Inductive host_reading := AsSent | HostNameFallback.

Definition c_colon : Z := 58.
Definition is_digit (c : Z) : bool := (48 <=? c) && (c <=? 57).
Definition not_slash (c : Z) : bool := negb (c =? c_slash).
Definition not_colon (c : Z) : bool := negb (c =? c_colon).

(* strings.Cut(url, "/"): the host is what precedes the first '/' *)
Definition host_of (u : str) : str := take_while not_slash u.
Definition after_host (u : str) : str := drop_while not_slash u.   (* "" or "/path" *)

(* withoutHostPort: Some (url without the port) when the host is name:digits,
   name and digits not empty (the FIRST ':' of the host separates them) *)
Definition strip_port (u : str) : option str :=
  let h := host_of u in
  let name := take_while not_colon h in
  match drop_while not_colon h with
  | [] => None                                   (* no ':' in the host *)
  | _ :: port =>
      if is_nil name || is_nil port || negb (forallb is_digit port) then None
      else Some (name ++ after_host u)
  end.

Definition with_url (x : C03.Model.txn) (u : str) : C03.Model.txn :=
  C03.Model.mkTxn (C03.Model.t_resp x) u (C03.Model.t_method x)
                  (C03.Model.t_headers x) (C03.Model.t_query x) (C03.Model.t_status x).

(* FilterTree.GetFlow under the two readings of the request host *)
Definition get_flow_v (v : host_reading) (t : C03.Model.ftree) (x : C03.Model.txn)
  : list C03.Model.flow :=
  match v with
  | AsSent => C03.Model.get_flow t x
  | HostNameFallback =>
      match C03.Trie.traverse t (C03.Trie.split_url (C03.Model.t_url x)),
            strip_port (C03.Model.t_url x) with
      | [], Some u' => C03.Model.get_flow t (with_url x u')
      | _, _ => C03.Model.get_flow t x
      end
  end.

(* the request names a port the fallback reading would drop *)
Definition names_port (u : str) : bool :=
  match strip_port u with Some _ => true | None => false end.

Lemma get_flow_as_sent : forall t x, get_flow_v AsSent t x = C03.Model.get_flow t x.
Proof. reflexivity. Qed.

Lemma get_flow_fallback_no_port : forall t x,
  names_port (C03.Model.t_url x) = false ->
  get_flow_v HostNameFallback t x = C03.Model.get_flow t x.
Proof.
  intros t x H. unfold names_port in H. unfold get_flow_v.
  destruct (strip_port (C03.Model.t_url x)); [discriminate|].
  destruct (C03.Trie.traverse t (C03.Trie.split_url (C03.Model.t_url x))); reflexivity.
Qed.

(* the fallback only ever adds selections: what the tree finds for the URL as
   sent is selected in both readings *)
Lemma get_flow_fallback_found_as_sent : forall t x f,
  In f (C03.Model.get_flow t x) -> In f (get_flow_v HostNameFallback t x).
Proof.
  intros t x f H. unfold get_flow_v.
  destruct (C03.Trie.traverse t (C03.Trie.split_url (C03.Model.t_url x))) eqn:E.
  - unfold C03.Model.get_flow in H. rewrite E in H. destruct H.
  - exact H.
Qed.

(* what the fallback selects for a URL it re-reads is what the tree selects for
   the port-less URL *)
Lemma get_flow_fallback_stripped : forall t x u',
  C03.Trie.traverse t (C03.Trie.split_url (C03.Model.t_url x)) = [] ->
  strip_port (C03.Model.t_url x) = Some u' ->
  get_flow_v HostNameFallback t x = C03.Model.get_flow t (with_url x u').
Proof. intros t x u' E S. unfold get_flow_v. rewrite E, S. reflexivity. Qed.
