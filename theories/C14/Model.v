(* C14 — model of the managed-endpoint expressions the engine registers with
   the proxy, and of the decision the proxy takes with them:

     config/update_endpoints.go     HaproxyEndpointFormat / HaproxyAnyMethodEndpointFormat
                                    (formatURLParts), BuildHAProxyEndpointsRequest
     routing/handling_data_manager.go  buildHAProxyFlowsEndpointsRequest
     streams/config/streams.utils.go   IsAnyURLAccepted
     rootfs/etc/haproxy/haproxy.cfg    acl is_managed: var(proc.manage_all) found, or
                                       capture.req.method,concat(":::",txn.url),map_reg(endpoints.map)
                                       = UNANCHORED, case-sensitive search of every
                                       registered expression in "METHOD:::host/path"
                                       (txn.url = host header ++ path, no query string;
                                       the same txn.url is what the engine receives as the
                                       URL of the transaction: spoe/lunar.conf url=var(txn.url))

   The model describes the code WITH patches/C14/fix-F-C14a (expression built from the
   URL parts the URL tree matches on; literal parts and the method quoted with
   regexp.QuoteMeta), fix-F-C14b (every part the tree treats as a parameter,
   in host or path position, whatever its name), fix-F-C14f (wildcard written in
   the host) and fix-F-C14d (a filter without methods registers an any-method
   expression).  Executable definitions only.

   Engine side (imported, not re-modelled): flows = C03.Model (AddFlow / GetFlow
   over C03.Trie, lookupFlow + per-flow qualification); policies = C13.Model
   (BuildEndpointPolicyTree / dispatcher selection over Lib/UrlTree Lookup).
   URL syntax = Lib/UrlTree (split_url, is_brace, star). *)
From Coq Require Import List ZArith Bool.
From Coq Require String.
From Verif Require Import Lib.UrlTree Lib.Regex C14.Reader.
From Verif Require C03.Trie C03.Model C03.SpecLocal C13.Model.
Import ListNotations.
Open Scope Z_scope.

(* ":::" *)
Definition sep3 : str := [58; 58; 58].

(* the subject string HAProxy searches in *)
Definition subject (m u : str) : str := m ++ sep3 ++ u.

(* ------------------------------------------------------------------ *)
(* The translation, structured (AST)                                   *)

(* RegexToReplacePathParameters without its "/" = [^/]+ ; RegexToReplaceHostParameters = [^/.]+ *)
Definition param_re (host : bool) : regex :=
  RPlus (RNot (if host then [c_slash; c_dot] else [c_slash])).

(* RegexToReplaceWildcard: optional group of "/" and any rest; RegexToReplaceHostWildcard:
   optional group of "." or "/" and any rest (see b_path_wild / b_host_wild below) *)
Definition wild_re (host : bool) : regex :=
  ROpt (RSeq (if host then RSet [c_dot; c_slash] else RChar c_slash) (RStar RAny)).

(* partDelimiter: "\." before a host label, "/" before a path segment, nothing
   before the first part *)
Definition delim_re (first host : bool) : regex :=
  if first then REmp else RChar (if host then c_dot else c_slash).

(* a parameter part (TryExtractPathParameter) or a quoted literal *)
Definition part_re (host : bool) (s : str) : regex :=
  if is_brace s then param_re host else lit s.

(* formatURLParts: the loop over the parts *)
Fixpoint url_re (first : bool) (ps : list part) : regex :=
  match ps with
  | [] => REmp
  | (k, s) :: rest =>
      if str_eqb s star && is_nil rest then wild_re k
      else RSeq (delim_re first k) (RSeq (part_re k s) (url_re false rest))
  end.

(* hasWildcard: the last part is "*" *)
Fixpoint ends_wild (ps : list part) : bool :=
  match ps with
  | [] => false
  | (_, s) :: rest => if is_nil rest then str_eqb s star else ends_wild rest
  end.

(* formatEndpoint(methodRegex, url) *)
Definition format_with (mre : regex) (url : str) : expr :=
  let ps := split_url url in
  {| e_re := RSeq mre (RSeq (lit sep3) (url_re true ps));
     e_eos := negb (ends_wild ps) |}.

(* HaproxyEndpointFormat(method, url): the method is quoted *)
Definition format (m url : str) : expr := format_with (lit m) url.

(* RegexToMatchAnyMethod = dot star ; HaproxyAnyMethodEndpointFormat(url) *)
Definition any_method_re : regex := RStar RAny.
Definition format_any (url : str) : expr := format_with any_method_re url.

(* ------------------------------------------------------------------ *)
(* The same translation at byte level: the strings the Go code writes   *)

Definition b_path_param : str := [91; 94; 47; 93; 43].              (* [^/]+ *)
Definition b_host_param : str := [91; 94; 47; 46; 93; 43].          (* [^/.]+ *)
Definition b_path_wild : str := [40; 47; 46; 42; 41; 63].           (* "(/." "*" ")?" *)
Definition b_host_wild : str := [40; 91; 46; 47; 93; 46; 42; 41; 63]. (* "([./]." "*" ")?" *)
Definition b_any_method : str := [46; 42].                          (* dot star *)

Fixpoint url_bytes (first : bool) (ps : list part) : str :=
  match ps with
  | [] => []
  | (k, s) :: rest =>
      if str_eqb s star && is_nil rest then (if k then b_host_wild else b_path_wild)
      else (if first then [] else if k then [92; c_dot] else [c_slash])
           ++ (if is_brace s then (if k then b_host_param else b_path_param) else quote_meta s)
           ++ url_bytes false rest
  end.

Definition format_bytes_with (mbytes : str) (url : str) : str :=
  let ps := split_url url in
  mbytes ++ sep3 ++ url_bytes true ps ++ (if ends_wild ps then [] else [36]).

Definition format_bytes (m url : str) : str := format_bytes_with (quote_meta m) url.
Definition format_any_bytes (url : str) : str := format_bytes_with b_any_method url.

(* ------------------------------------------------------------------ *)
(* What is registered, and the proxy's decision                        *)

(* Filter.IsAnyURLAccepted: "", "*", ".*" *)
Definition any_url (u : str) : bool :=
  is_nil u || str_eqb u [c_star] || str_eqb u [c_dot; c_star].

(* buildHAProxyFlowsEndpointsRequest: per filter, one expression per listed
   method, or the any-method expression when no method is listed *)
Definition flow_endpoints (f : C03.Model.flow) : list expr :=
  match C03.Model.f_methods f with
  | [] => [format_any (C03.Model.f_url f)]
  | ms => map (fun m => format m (C03.Model.f_url f)) ms
  end.

Definition flows_endpoints (fs : list C03.Model.flow) : list expr :=
  flat_map flow_endpoints fs.

Definition flows_manage_all (fs : list C03.Model.flow) : bool :=
  existsb (fun f => any_url (C03.Model.f_url f)) fs.

(* BuildHAProxyEndpointsRequest: one expression per endpoint that has an
   enabled remedy or diagnosis; manage-all when a global plugin is enabled *)
Definition decl_enabled (d : C13.Model.decl) : bool :=
  existsb C13.Model.r_enabled (C13.Model.d_rem d) ||
  existsb C13.Model.g_enabled (C13.Model.d_diag d).

Definition policy_endpoints (ds : list C13.Model.decl) : list expr :=
  flat_map (fun d => if decl_enabled d
                     then [format (C13.Model.d_method d) (C13.Model.d_url d)] else []) ds.

Definition policy_manage_all (grem : list C13.Model.remedy)
           (gdiag : list C13.Model.diagnosis) : bool :=
  existsb C13.Model.g_enabled gdiag || existsb C13.Model.r_enabled grem.

(* acl is_managed *)
Definition managed (all : bool) (es : list expr) (m u : str) : bool :=
  all || existsb (fun e => re_search e (subject m u)) es.

(* ------------------------------------------------------------------ *)
(* Side conditions left by the open findings                           *)

(* F-C14e: the URL part standing at a parameter position is not empty *)
Fixpoint params_nonempty (pat : pattern) (parts : list part) : bool :=
  match pat, parts with
  | (_, PParam _) :: pat', (_, s) :: parts' => negb (is_nil s) && params_nonempty pat' parts'
  | (_, PConst _) :: pat', _ :: parts' => params_nonempty pat' parts'
  | _, _ => true
  end.

(* F-C14c: the request URL is spelled without leading/trailing '.' '/'
   (what the engine trims before matching) *)
Definition trimmed (u : str) : bool := str_eqb (trim_url u) u.

Definition url_ok (p u : str) : bool :=
  trimmed u && params_nonempty (parse_pattern (split_url p)) (split_url u).

(* --- the same two findings, EXACT: [url_ok] also excludes request URLs that
   are spelled with trailing '.' '/' but ARE found by the expression (no "$"
   after a wildcard; a trailing "[^/]+" swallows dots).  [url_ok_exact] is the
   set of spellings on which the expression of the pattern finds the URL the
   pattern matches (Property.v: C14_found_exactly; [url_ok] implies it):
     - no leading '.' '/' (unless the pattern is the lone wildcard, whose
       expression finds everything),
     - trailing '.' '/' only when the pattern ends in a wildcard, or when its
       last part is a PATH parameter and the trailing characters are dots,
     - no empty part at a parameter position. *)
Fixpoint take_while (p : Z -> bool) (s : str) : str :=
  match s with
  | [] => []
  | c :: s' => if p c then c :: take_while p s' else []
  end.

(* what strings.Trim(u, "./") removes on the left / on the right *)
Definition lead (u : str) : str := take_while is_dot_slash u.
Definition trail (u : str) : str :=
  rev (take_while is_dot_slash (rev (drop_while is_dot_slash u))).

(* the pattern is the lone wildcard ("*", ".*", "*/" ..: one part, "*") *)
Definition only_wild (ps : list part) : bool :=
  match ps with
  | [(_, s)] => str_eqb s star
  | _ => false
  end.

(* the last part of the pattern is a parameter in path position *)
Fixpoint last_path_param (ps : list part) : bool :=
  match ps with
  | [] => false
  | (k, s) :: rest => if is_nil rest then negb k && is_brace s else last_path_param rest
  end.

Definition is_dot (c : Z) : bool := c =? c_dot.

Definition lead_ok (ps : list part) (u : str) : bool := only_wild ps || is_nil (lead u).
Definition tail_ok (ps : list part) (u : str) : bool :=
  ends_wild ps || is_nil (trail u) || (last_path_param ps && forallb is_dot (trail u)).

Definition url_ok_exact (p u : str) : bool :=
  lead_ok (split_url p) u && tail_ok (split_url p) u &&
  params_nonempty (parse_pattern (split_url p)) (split_url u).

(* the root cause when it is false, in the order the monitor's classifier
   tests them: 1 = leading/trailing spelling (F-C14c), 2 = empty part at a
   parameter (F-C14e), 0 = none *)
Definition bypass_class (p u : str) : Z :=
  if negb (lead_ok (split_url p) u && tail_ok (split_url p) u) then 1
  else if negb (params_nonempty (parse_pattern (split_url p)) (split_url u)) then 2
  else 0.

(* ":::" occurs exactly once in the subject (at the end of the method): the
   proviso of the exactness statement C14_found_exactly.  A request URL that
   itself contains "METHOD:::" can be found at that inner position. *)
Fixpoint starts (x s : str) : bool :=
  match x, s with
  | [], _ => true
  | c :: x', d :: s' => (c =? d) && starts x' s'
  | _ :: _, [] => false
  end.

Fixpoint occ3 (s : str) : nat :=
  match s with
  | [] => O
  | _ :: s' => ((if starts sep3 s then 1 else 0) + occ3 s')%nat
  end.

Definition sep_onceb (m u : str) : bool := Nat.eqb (occ3 (subject m u)) 1.

Definition sep_once (m u : str) : Prop :=
  forall a b, subject m u = a ++ sep3 ++ b -> a = m.

(* ------------------------------------------------------------------ *)
(* Vocabulary of the literal-ness statements                           *)

Definition is_const_part (p : part) : bool :=
  negb (str_eqb (snd p) star) && negb (is_brace (snd p)).
Definition literal_pattern (ps : list part) : bool := forallb is_const_part ps.
Definition wild_free (ps : list part) : bool :=
  forallb (fun p => negb (str_eqb (snd p) star)) ps.

Definition delim_txt (first host : bool) : str :=
  if first then [] else delim host.

(* the text of a list of URL parts (inverse of split_url on trimmed URLs) *)
Fixpoint unsplit (first : bool) (ps : list part) : str :=
  match ps with
  | [] => []
  | (k, s) :: rest => delim_txt first k ++ s ++ unsplit false rest
  end.

Definition sep_free (host : bool) (s : str) : Prop :=
  Forall (fun c => c <> c_slash /\ (host = true -> c <> c_dot)) s.

(* [inst first ps w]: the text w spells the parts ps, every literal part by
   exactly its own characters, every parameter part by a non-empty run of
   characters that are not a separator of its position *)
Fixpoint inst (first : bool) (ps : list part) (w : str) : Prop :=
  match ps with
  | [] => w = []
  | (k, s) :: rest =>
      if is_brace s
      then exists v w', w = delim_txt first k ++ v ++ w' /\ v <> [] /\ sep_free k v /\
                        inst false rest w'
      else exists w', w = delim_txt first k ++ s ++ w' /\ inst false rest w'
  end.

(* ------------------------------------------------------------------ *)
(* Correspondence entry points                                          *)

Definition bs := C03.Model.bs.

Fixpoint blist_eqb (a b : list bool) : bool :=
  match a, b with
  | [], [] => true
  | x :: a', y :: b' => eqb x y && blist_eqb a' b'
  | _, _ => false
  end.

Fixpoint zlist_eqb (a b : list Z) : bool :=
  match a, b with
  | [], [] => true
  | x :: a', y :: b' => (x =? y) && zlist_eqb a' b'
  | _, _ => false
  end.

Definition str_mem (s : str) (l : list str) : bool := existsb (str_eqb s) l.
(* equal as sets of strings *)
Definition strs_same (a b : list str) : bool :=
  forallb (fun s => str_mem s b) a && forallb (fun s => str_mem s a) b.

(* --- suite "expr": one expression, its printed form, verdicts on subjects ---
   case = (method (None = any-method expression), url pattern,
           the Go string, [(subject, Go regexp.MatchString verdict)]).
   Compared: the printed model expression and the byte-level translation with
   the Go string; the model matcher on the model expression with Go's regexp on
   every subject; AND the Go string itself read back by the independent reader
   (Reader.parse) and matched by the same matcher, with Go's regexp again. *)
Definition case_expr := (option str * str * str * list (str * bool))%type.

Definition run_expr (k : case_expr) : option (str * str * list bool * option (list bool)) :=
  let '(m, u, go, subs) := k in
  let e := match m with Some m => format m u | None => format_any u end in
  let b := match m with Some m => format_bytes m u | None => format_any_bytes u end in
  let p := print_expr e in
  let vs := map (fun sb => re_search e (fst sb)) subs in
  let rd := match parse go with
            | Some e' => Some (map (fun sb => re_search e' (fst sb)) subs)
            | None => None
            end in
  if str_eqb p go && str_eqb b go && blist_eqb vs (map snd subs) &&
     match rd with Some vs' => blist_eqb vs' (map snd subs) | None => false end
  then None
  else Some (p, b, vs, rd).

(* --- suite "flows": a flow configuration loaded by the engine ---
   case = (flows (id, url, methods) in load order, loaded without error,
           ManageAll, registered expressions,
           [(method, url, sorted ids of the flows the engine selects,
             is_managed evaluated with Go regexp over the registered list,
             per selected id the class the monitor's classifier gives the pair
             (pattern of that flow, request URL))]).
   Class (computed by the monitor's own code, compared here with the side
   conditions of the theorems): 3 = the flow's pattern collides with another
   configured pattern on the look-up path of this URL (not kc_at: F-C14h),
   1 = leading / trailing spelling (F-C14c), 2 = empty part at a parameter
   (F-C14e), 0 = none: the hypotheses of C14_no_bypass_flows_exact hold. *)
Definition flow_t := (Z * str * list str)%type.
Definition case_flows :=
  (list flow_t * bool * bool * list str * list (str * str * list Z * bool * list Z))%type.

Definition mk_flow (x : flow_t) : C03.Model.flow :=
  let '(id, u, ms) := x in C03.Model.mkFlow id 0 u ms [] [] [].
Definition mk_txn (m u : str) : C03.Model.txn := C03.Model.mkTxn false u m [] [] 0.

Definition side_class (fs : list C03.Model.flow) (f : C03.Model.flow) (u : str) : Z :=
  if negb (C03.SpecLocal.kc_at fs f (C03.Trie.split_url u)) then 3
  else bypass_class (C03.Model.f_url f) u.

Definition class_of_id (fs : list C03.Model.flow) (u : str) (id : Z) : Z :=
  match find (fun f => C03.Model.f_id f =? id) fs with
  | Some f => side_class fs f u
  | None => -1
  end.

Definition run_flows (k : case_flows)
  : option (bool * bool * list str * list (list Z * bool * list Z)) :=
  let '(fl, loaded, all, eps, obs) := k in
  let fs := map mk_flow fl in
  let '(t, errs) := C03.Model.build fs in
  let ok := forallb negb errs in
  if negb ok then (if loaded then Some (false, false, [], []) else None)
  else
    let mall := flows_manage_all fs in
    let mes := flows_endpoints fs in
    let meps := map print_expr mes in
    let mobs := map (fun o => let '(m, u, _, _, _) := o in
                       let sel := C03.Model.sort (map C03.Model.f_id (C03.Model.get_flow t (mk_txn m u))) in
                       (sel, managed mall mes m u, map (class_of_id fs u) sel)) obs in
    if loaded && eqb mall all && strs_same meps eps &&
       forallb (fun mo => let '(ms, mg, mc) := fst mo in let '(_, _, s, g, c) := snd mo in
                          zlist_eqb ms s && eqb mg g && zlist_eqb mc c) (combine mobs obs)
    then None else Some (true, mall, meps, mobs).

(* --- suite "policies": a policies.yaml endpoint list ---
   case = (declarations (method, url, remedies (name, enabled), diagnoses (name, enabled)),
           global remedies / diagnoses enabled flags, accepted, ManageAll,
           registered expressions,
           [(method, url, names of the endpoint remedies selected, names of the
             endpoint diagnoses selected, is_managed)]) *)
Definition pdecl_t := (str * str * list (Z * bool) * list (Z * bool))%type.
Definition case_policies :=
  (list pdecl_t * (list bool * list bool) * bool * bool * list str *
   list (str * str * list Z * list Z * bool))%type.

Definition mk_decl (x : pdecl_t) : C13.Model.decl :=
  let '(m, u, rs, gs) := x in
  {| C13.Model.d_method := m; C13.Model.d_url := u;
     C13.Model.d_rem := map (fun r => {| C13.Model.r_name := fst r; C13.Model.r_type := 0;
                                         C13.Model.r_enabled := snd r |}) rs;
     C13.Model.d_diag := map (fun g => {| C13.Model.g_name := fst g;
                                          C13.Model.g_enabled := snd g |}) gs |}.

Definition run_policies (k : case_policies)
  : option (bool * bool * list str * list (list Z * list Z * bool)) :=
  let '(dl, (gr, gd), accepted, all, eps, obs) := k in
  let ds := map mk_decl dl in
  let grem := map (fun e => {| C13.Model.r_name := 0; C13.Model.r_type := 0;
                               C13.Model.r_enabled := e |}) gr in
  let gdiag := map (fun e => {| C13.Model.g_name := 0; C13.Model.g_enabled := e |}) gd in
  match C13.Model.build ds with
  | None => if accepted then Some (false, false, [], []) else None
  | Some pt =>
      let mall := policy_manage_all grem gdiag in
      let mes := policy_endpoints ds in
      let meps := map print_expr mes in
      let mobs := map (fun o => let '(m, u, _, _, _) := o in
                         (map C13.Model.r_name (C13.Model.endpoint_remedies pt m u),
                          map C13.Model.g_name (C13.Model.endpoint_diagnoses pt m u),
                          managed mall mes m u)) obs in
      if accepted && eqb mall all && strs_same meps eps &&
         forallb (fun mo => let '(mr, md, mg) := fst mo in let '(_, _, r, d, g) := snd mo in
                            zlist_eqb mr r && zlist_eqb md d && eqb mg g) (combine mobs obs)
      then None else Some (true, mall, meps, mobs)
  end.
