(* C14 — proofs about configuration histories (model: Reload.v). *)
From Coq Require Import List ZArith Bool Lia.
From Verif Require Import Lib.UrlTree Lib.Regex C14.Reader C14.Model C14.Syntax C14.Bridge C14.Reload.
From Verif Require C03.Trie C03.Model C03.SpecLocal C03.Proofs C13.Model.
Import ListNotations.
Open Scope Z_scope.

(* ------------------------------------------------------------------ *)
(* Sets of keys                                                         *)

Lemma str_mem_In : forall k l, str_mem k l = true <-> In k l.
Proof.
  intros k l. unfold str_mem. rewrite existsb_exists. split.
  - intros (x & Hin & E). apply str_eqb_eq in E. subst x. exact Hin.
  - intro Hin. exists k. split; [exact Hin | apply str_eqb_refl].
Qed.

Lemma str_mem_false : forall k l, str_mem k l = false <-> ~ In k l.
Proof.
  intros k l. split.
  - intros E Hin. apply str_mem_In in Hin. congruence.
  - intro H. destruct (str_mem k l) eqn:E; [|reflexivity]. apply str_mem_In in E. contradiction.
Qed.

Lemma In_put : forall k x m, In k (put x m) <-> k = x \/ In k m.
Proof.
  intros k x m. unfold put. destruct (str_mem x m) eqn:E.
  - apply str_mem_In in E. split; [auto|]. intros [->|H]; assumption.
  - cbn [In]. split; intros [H|H]; auto.
Qed.

Lemma In_put_all : forall k ks m, In k (put_all ks m) <-> In k ks \/ In k m.
Proof.
  intros k ks m. induction ks as [|x ks IH]; cbn [put_all fold_right In].
  - tauto.
  - fold (put_all ks m). rewrite In_put, IH. split; intros H; intuition auto.
Qed.

Lemma In_del_all : forall k ks m, In k (del_all ks m) <-> In k m /\ ~ In k ks.
Proof.
  intros k ks m. unfold del_all. rewrite filter_In, negb_true_iff, str_mem_false. tauto.
Qed.

Lemma In_minus : forall k a b, In k (kminus a b) <-> In k a /\ ~ In k b.
Proof.
  intros k a b. unfold kminus. rewrite filter_In, negb_true_iff, str_mem_false. tauto.
Qed.

Lemma covers_spec : forall c p,
  covers c p = true <->
  (if q_all c then p_all p = true else forall k, In k (q_eps c) -> In k (p_map p)).
Proof.
  intros c p. unfold covers. destruct (q_all c); [tauto|].
  rewrite forallb_forall. split; intros H k Hk; [apply str_mem_In | apply str_mem_In]; auto.
Qed.

(* ------------------------------------------------------------------ *)
(* One step                                                             *)

Lemma covers_manage : forall c p, covers c (manage c p) = true.
Proof.
  intros c p. apply covers_spec. unfold manage. destruct (q_all c) eqn:E; cbn [p_all p_map].
  - reflexivity.
  - intros k Hk. apply In_put_all. left. exact Hk.
Qed.

(* a job that cannot hurt the configuration in force *)
Definition job_safe (c : req) (j : job) : Prop :=
  match j with
  | JDel ks => forall k, In k ks -> ~ In k (q_eps c)
  | JGlobal => q_all c = false
  end.

Lemma covers_fire_safe : forall v c j p,
  covers c p = true -> job_safe c j -> covers c (fire v (Some c) j p) = true.
Proof.
  intros v c j p H S. apply covers_spec. apply covers_spec in H.
  destruct j as [ks|]; cbn [job_safe] in S.
  - assert (D : forall ks', (forall k, In k ks' -> In k ks) ->
                 if q_all c then p_all (mkProxy (p_all p) (del_all ks' (p_map p))) = true
                 else forall k, In k (q_eps c) -> In k (p_map (mkProxy (p_all p) (del_all ks' (p_map p))))).
    { intros ks' Sub. destruct (q_all c); cbn [p_all p_map]; [exact H|].
      intros k Hk. apply In_del_all. split; [apply H; exact Hk|].
      intro Hd. exact (S k (Sub k Hd) Hk). }
    unfold fire. destruct v.
    + apply D. auto.
    + apply D. auto.
    + apply D. intros k Hk. apply In_minus in Hk. tauto.
  - revert H. unfold fire. cbv zeta. rewrite !S. intro H. destruct v; cbn [p_map]; exact H.
Qed.

(* the re-checking variant needs no condition on the job *)
Lemma covers_fire_recheck : forall c j p,
  covers c p = true -> covers c (fire Recheck (Some c) j p) = true.
Proof.
  intros c j p H. apply covers_spec. apply covers_spec in H.
  destruct j as [ks|]; unfold fire.
  - destruct (q_all c); cbn [p_all p_map]; [exact H|].
    intros k Hk. apply In_del_all. split; [apply H; exact Hk|].
    intro Hd. apply In_minus in Hd. tauto.
  - destruct (q_all c); [exact H|]. cbn [p_map]. exact H.
Qed.

Lemma fire_due_cur : forall v cur now pend p,
  (forall c, cur = Some c -> covers c p = true) ->
  (forall c dj, cur = Some c -> In dj pend -> v = Recheck \/ job_safe c (snd dj)) ->
  forall c, cur = Some c -> covers c (fst (fire_due v cur now pend p)) = true.
Proof.
  intros v cur now pend. induction pend as [|[due j] rest IH]; intros p H S c E; cbn [fire_due].
  - cbn [fst]. apply H. exact E.
  - destruct (due <=? now).
    + apply IH; [| intros c' dj E' Hin; apply (S c' dj E'); right; exact Hin | exact E].
      intros c' E'. subst cur. injection E' as <-.
      destruct (S c (due, j) eq_refl (or_introl eq_refl)) as [-> | Sj].
      * apply covers_fire_recheck. apply H. reflexivity.
      * apply covers_fire_safe; [apply H; reflexivity | exact Sj].
    + destruct (fire_due v cur now rest p) as [p' rest'] eqn:F. cbn [fst].
      specialize (IH p H). rewrite F in IH. cbn [fst] in IH. apply IH; [|exact E].
      intros c' dj E' Hin. apply (S c' dj E'). right. exact Hin.
Qed.

Lemma fire_due_sub : forall v cur now pend p dj,
  In dj (snd (fire_due v cur now pend p)) -> In dj pend.
Proof.
  intros v cur now pend. induction pend as [|[due j] rest IH]; intros p dj; cbn [fire_due].
  - cbn. tauto.
  - destruct (due <=? now).
    + intro H. right. exact (IH _ _ H).
    + destruct (fire_due v cur now rest p) as [p' rest'] eqn:F. cbn [snd In].
      intros [<-|H]; [left; reflexivity|]. right. specialize (IH p dj). rewrite F in IH. exact (IH H).
Qed.

Lemma remove_nth_sub : forall (A : Type) i (l : list A) x, In x (remove_nth i l) -> In x l.
Proof.
  intros A i l. revert i. induction l as [|y l IH]; intros i x H; [destruct i; exact H|].
  destruct i; cbn [remove_nth] in H; [right; exact H|].
  destruct H as [<-|H]; [left; reflexivity | right; exact (IH _ _ H)].
Qed.

(* the jobs a reload creates are safe for the configuration it installs, when
   the difference is taken by expression *)
Lemma minus_safe : forall c prev, job_safe c (JDel (kminus prev (q_eps c))).
Proof. intros c prev k Hk. apply In_minus in Hk. tauto. Qed.

Lemma load_cur : forall v k c s, s_cur (load v k c s) = Some c.
Proof. intros v k c s. unfold load. destruct k as [|[|]]; reflexivity. Qed.

(* ------------------------------------------------------------------ *)
(* The invariant, re-checking variant: every history                    *)

Lemma managed_ok_step : forall s o,
  managed_ok s = true -> managed_ok (step Recheck s o) = true.
Proof.
  intros s o H. destruct o as [k c | i | d]; cbn [step].
  - unfold managed_ok. rewrite load_cur. unfold load.
    destruct k as [|imm]; cbn [s_px]; [apply covers_manage|].
    destruct imm; cbn [s_px]; [|apply covers_manage].
    match goal with |- covers _ (if ?g then _ else _) = true => destruct g end.
    + apply covers_fire_recheck, covers_fire_recheck, covers_manage.
    + apply covers_fire_recheck, covers_manage.
  - unfold tick. destruct (nth_error (s_pend s) i) as [[due j]|]; [|exact H].
    unfold managed_ok in *. cbn [s_cur s_px]. destruct (s_cur s) as [c|]; [|reflexivity].
    apply covers_fire_recheck. exact H.
  - unfold advance. destruct (fire_due Recheck (s_cur s) (s_now s + d) (s_pend s) (s_px s)) as [p pend] eqn:F.
    unfold managed_ok in *. cbn [s_cur s_px]. destruct (s_cur s) as [c|] eqn:E; [|reflexivity].
    change p with (fst (p, pend)). rewrite <- F. apply (fire_due_cur Recheck (Some c)).
    + intros c' E'. injection E' as <-. exact H.
    + intros. left. reflexivity.
    + reflexivity.
Qed.

Lemma managed_ok_run : forall ops s,
  managed_ok s = true -> managed_ok (run Recheck ops s) = true.
Proof.
  induction ops as [|o ops IH]; intros s H; [exact H|].
  cbn [run fold_left]. apply IH. apply managed_ok_step. exact H.
Qed.

Theorem managed_after_reloads : forall ops, managed_ok (run Recheck ops init) = true.
Proof. intro ops. apply managed_ok_run. reflexivity. Qed.

(* ------------------------------------------------------------------ *)
(* Comparison by expression WITHOUT the re-check: spaced reloads only   *)

Definition pend_safe (s : state) : Prop :=
  forall c dj, s_cur s = Some c -> In dj (s_pend s) -> job_safe c (snd dj).

Lemma spaced_step : forall s o,
  (match o with Load _ _ => is_nil (s_pend s) | _ => true end) = true ->
  managed_ok s = true -> pend_safe s ->
  managed_ok (step ByExpr s o) = true /\ pend_safe (step ByExpr s o).
Proof.
  intros s o Q H S. destruct o as [k c | i | d]; cbn [step].
  - destruct (s_pend s) as [|x l] eqn:EP; [|discriminate]. clear Q.
    assert (SJ : job_safe c (JDel (difference ByExpr
                    (q_eps match s_cur s with Some p => p | None => empty_req end) (q_eps c))))
      by apply minus_safe.
    split.
    + unfold managed_ok. rewrite load_cur. unfold load.
      destruct k as [|imm]; cbn [s_px]; [apply covers_manage|].
      destruct imm; cbn [s_px]; [|apply covers_manage].
      match goal with |- covers _ (if ?g then _ else _) = true => destruct g eqn:G end.
      * apply andb_true_iff in G. destruct G as [_ G]. apply negb_true_iff in G.
        apply covers_fire_safe; [|exact G]. apply covers_fire_safe; [apply covers_manage | exact SJ].
      * apply covers_fire_safe; [apply covers_manage | exact SJ].
    + intros c' dj E Hin. rewrite load_cur in E. injection E as <-.
      unfold load in Hin. rewrite EP in Hin.
      destruct k as [|imm]; cbn [s_pend app] in Hin.
      * destruct (is_nil _); [destruct Hin|]. destruct Hin as [<-|[]]. exact SJ.
      * destruct imm; cbn [s_pend app] in Hin; [destruct Hin|].
        apply in_app_or in Hin. destruct Hin as [Hin|Hin].
        -- match type of Hin with In _ (if ?g then _ else _) => destruct g eqn:G end; [|destruct Hin].
           destruct Hin as [<-|[]]. cbn [snd job_safe].
           apply andb_true_iff in G. destruct G as [_ G]. apply negb_true_iff in G. exact G.
        -- destruct (is_nil _); [destruct Hin|]. destruct Hin as [<-|[]]. exact SJ.
  - unfold tick. destruct (nth_error (s_pend s) i) as [[due j]|] eqn:N; [|split; assumption].
    split.
    + unfold managed_ok in *. cbn [s_cur s_px]. destruct (s_cur s) as [c|] eqn:E; [|reflexivity].
      apply covers_fire_safe; [exact H|]. apply (S c (due, j) E). apply nth_error_In in N. exact N.
    + intros c dj E Hin. cbn [s_cur s_pend] in *. apply (S c dj E). apply remove_nth_sub in Hin. exact Hin.
  - unfold advance. destruct (fire_due ByExpr (s_cur s) (s_now s + d) (s_pend s) (s_px s)) as [p pend] eqn:F.
    split.
    + unfold managed_ok in *. cbn [s_cur s_px]. destruct (s_cur s) as [c|] eqn:E; [|reflexivity].
      change p with (fst (p, pend)). rewrite <- F. apply (fire_due_cur ByExpr (Some c)).
      * intros c' E'. injection E' as <-. exact H.
      * intros c' dj E' Hin. injection E' as <-. right. apply (S c dj E Hin).
      * reflexivity.
    + intros c dj E Hin. cbn [s_cur s_pend] in *. apply (S c dj E).
      apply (fire_due_sub ByExpr (s_cur s) (s_now s + d) (s_pend s) (s_px s)). rewrite F. exact Hin.
Qed.

Lemma spaced_run : forall ops s,
  spaced ByExpr ops s = true -> managed_ok s = true -> pend_safe s ->
  managed_ok (run ByExpr ops s) = true.
Proof.
  induction ops as [|o ops IH]; intros s Q H S; [exact H|].
  cbn [spaced] in Q. apply andb_true_iff in Q. destruct Q as [Q1 Q2].
  cbn [run fold_left]. destruct (spaced_step s o Q1 H S) as [H' S']. apply IH; assumption.
Qed.

Theorem managed_after_spaced_reloads : forall ops,
  spaced ByExpr ops init = true -> managed_ok (run ByExpr ops init) = true.
Proof.
  intros ops Q. apply spaced_run; [exact Q | reflexivity |].
  intros c dj E. discriminate.
Qed.

(* ------------------------------------------------------------------ *)
(* From the proxy's state to its decision                               *)

Lemma flows_endpoints_emit : forall fs e, In e (flows_endpoints fs) -> emit1 (e_re e) = true.
Proof.
  intros fs e H. unfold flows_endpoints in H. apply in_flat_map in H. destruct H as (f & _ & H).
  unfold flow_endpoints in H. destruct (C03.Model.f_methods f) as [|m ms].
  - destruct H as [<-|[]]. apply format_any_emit.
  - apply in_map_iff in H. destruct H as (m' & <- & _). apply format_emit.
Qed.

Lemma policy_endpoints_emit : forall ds e, In e (policy_endpoints ds) -> emit1 (e_re e) = true.
Proof.
  intros ds e H. unfold policy_endpoints in H. apply in_flat_map in H. destruct H as (d & _ & H).
  destruct (decl_enabled d); [|destruct H]. destruct H as [<-|[]]. apply format_emit.
Qed.

Lemma proxy_covers : forall p all es m u,
  (forall e, In e es -> emit1 (e_re e) = true) ->
  covers (mkReq all (map print_expr es)) p = true ->
  managed all es m u = true -> proxy_managed p m u = true.
Proof.
  intros p all es m u HE HC HM. apply covers_spec in HC. cbn [q_all q_eps] in HC.
  unfold managed in HM. unfold proxy_managed. destruct all.
  - rewrite HC. reflexivity.
  - cbn [orb] in HM. apply existsb_exists in HM. destruct HM as (e & Hin & Hs).
    apply orb_true_iff. right. apply existsb_exists. exists (print_expr e). split.
    + apply HC. apply in_map. exact Hin.
    + rewrite (parse_print e (HE e Hin)), re_search_normal. exact Hs.
Qed.

Theorem no_bypass_flows_after_reloads : forall ops fs x f,
  s_cur (run Recheck ops init) = Some (flows_req fs) ->
  C03.Model.load_ok fs = true ->
  In f (C03.Model.get_flow (C03.Proofs.tree_of fs) x) ->
  C03.SpecLocal.kc_at fs f (C03.Proofs.url_of x) = true ->
  url_ok_exact (C03.Model.f_url f) (C03.Model.t_url x) = true ->
  proxy_managed (s_px (run Recheck ops init)) (C03.Model.t_method x) (C03.Model.t_url x) = true.
Proof.
  intros ops fs x f E HL HS HK HU.
  pose proof (managed_after_reloads ops) as OK. unfold managed_ok in OK. rewrite E in OK.
  apply (proxy_covers _ (flows_manage_all fs) (flows_endpoints fs)).
  - apply flows_endpoints_emit.
  - exact OK.
  - exact (no_bypass_flows_at fs x f HL HS HK HU).
Qed.

Theorem no_bypass_policies_after_reloads : forall ops ds grem gdiag pt m u,
  s_cur (run Recheck ops init) = Some (policy_req ds grem gdiag) ->
  C13.Model.build ds = Some pt -> C13.Model.kind_consistentb ds = true ->
  policy_selected pt m u ->
  (forall d, In d ds -> C13.Model.d_method d = m ->
             matches_kind (parse_pattern (split_url (C13.Model.d_url d))) (split_url u) = true ->
             url_ok_exact (C13.Model.d_url d) u = true) ->
  proxy_managed (s_px (run Recheck ops init)) m u = true.
Proof.
  intros ops ds grem gdiag pt m u E HB HK HS HU.
  pose proof (managed_after_reloads ops) as OK. unfold managed_ok in OK. rewrite E in OK.
  apply (proxy_covers _ (policy_manage_all grem gdiag) (policy_endpoints ds)).
  - apply policy_endpoints_emit.
  - exact OK.
  - exact (no_bypass_policies_at ds grem gdiag pt m u HB HK HS HU).
Qed.

(* an enabled global plugin: everything is managed after any history *)
Theorem globals_managed_after_reloads : forall ops ds grem gdiag m u,
  s_cur (run Recheck ops init) = Some (policy_req ds grem gdiag) ->
  policy_manage_all grem gdiag = true ->
  proxy_managed (s_px (run Recheck ops init)) m u = true.
Proof.
  intros ops ds grem gdiag m u E G.
  pose proof (managed_after_reloads ops) as OK. unfold managed_ok in OK. rewrite E in OK.
  unfold covers, policy_req in OK. cbn [q_all] in OK. rewrite G in OK.
  unfold proxy_managed. rewrite OK. reflexivity.
Qed.
