(* C14 — the repaired un-management still un-manages: nothing stays registered
   for ever.  After any history (re-checking variant) every key of the proxy's
   map is registered by the configuration in force or is awaited by a pending
   un-management.  (Model: Reload.v.) *)
From Coq Require Import List ZArith Bool Lia.
From Verif Require Import Lib.UrlTree Lib.Regex C14.Model C14.Reload C14.ReloadProofs.
Import ListNotations.
Open Scope Z_scope.

Definition jkeys (j : job) : list str := match j with JDel ks => ks | JGlobal => [] end.

Definition cur_eps (cur : option req) : list str :=
  q_eps match cur with Some c => c | None => empty_req end.

Definition leak_free (s : state) : Prop :=
  forall k, In k (p_map (s_px s)) -> In k (cur_eps (s_cur s)) \/ In k (pending_keys (s_pend s)).

Lemma no_leak_spec : forall s, no_leak s = true <-> leak_free s.
Proof.
  intro s. unfold no_leak, leak_free, cur_eps. rewrite forallb_forall. split; intros H k Hk.
  - specialize (H k Hk). apply orb_true_iff in H. destruct H as [H|H]; apply str_mem_In in H; auto.
  - apply orb_true_iff. destruct (H k Hk) as [H'|H']; [left | right]; apply str_mem_In; exact H'.
Qed.

Lemma pending_keys_cons : forall d j r, pending_keys ((d, j) :: r) = jkeys j ++ pending_keys r.
Proof. reflexivity. Qed.

Lemma pending_keys_app : forall a b, pending_keys (a ++ b) = pending_keys a ++ pending_keys b.
Proof. intros a b. unfold pending_keys. apply flat_map_app. Qed.

Lemma str_in_dec : forall (k : str) l, In k l \/ ~ In k l.
Proof. intros k l. destruct (in_dec (list_eq_dec Z.eq_dec) k l); auto. Qed.

(* one job runs: its keys that the configuration in force does not register
   leave the map; [other] = the keys of the jobs still pending *)
Lemma fire_leak : forall cur j p other,
  (forall k, In k (p_map p) -> In k (cur_eps cur) \/ In k (jkeys j) \/ In k other) ->
  forall k, In k (p_map (fire Recheck cur j p)) -> In k (cur_eps cur) \/ In k other.
Proof.
  intros cur j p other H k Hk. unfold cur_eps in *. destruct j as [ks|]; unfold fire in Hk.
  - cbn [p_map] in Hk. apply In_del_all in Hk. destruct Hk as [Hm Hn].
    destruct (H k Hm) as [A|[B|C]]; auto.
    destruct (str_in_dec k (q_eps match cur with Some c => c | None => empty_req end)) as [I|NI];
      [left; exact I|].
    exfalso. apply Hn. apply In_minus. split; assumption.
  - assert (Hm : In k (p_map p)).
    { destruct (q_all match cur with Some c => c | None => empty_req end); exact Hk. }
    destruct (H k Hm) as [A|[[]|C]]; auto.
Qed.

Lemma fire_due_leak : forall cur now pend p other,
  (forall k, In k (p_map p) -> In k (cur_eps cur) \/ In k (pending_keys pend) \/ In k other) ->
  forall k, In k (p_map (fst (fire_due Recheck cur now pend p))) ->
    In k (cur_eps cur) \/ In k (pending_keys (snd (fire_due Recheck cur now pend p))) \/ In k other.
Proof.
  intros cur now pend. induction pend as [|[due j] rest IH]; intros p other H k Hk.
  - cbn [fire_due fst snd] in *. exact (H k Hk).
  - cbn [fire_due] in *. destruct (due <=? now).
    + apply (IH (fire Recheck cur j p) other); [|exact Hk].
      intros k' Hk'.
      assert (X : In k' (cur_eps cur) \/ In k' (pending_keys rest ++ other)).
      { apply (fire_leak cur j p (pending_keys rest ++ other)); [|exact Hk'].
        intros k'' Hk''. specialize (H k'' Hk''). rewrite pending_keys_cons in H.
        rewrite !in_app_iff in *. tauto. }
      rewrite in_app_iff in X. tauto.
    + specialize (IH p (jkeys j ++ other)).
      destruct (fire_due Recheck cur now rest p) as [p' rest'] eqn:F. cbn [fst snd] in *.
      assert (X : In k (cur_eps cur) \/ In k (pending_keys rest') \/ In k (jkeys j ++ other)).
      { apply IH; [|exact Hk]. intros k' Hk'. specialize (H k' Hk').
        rewrite pending_keys_cons in H. rewrite !in_app_iff in *. tauto. }
      rewrite pending_keys_cons. rewrite !in_app_iff in *. tauto.
Qed.

Lemma remove_nth_keys : forall i pend due j k,
  nth_error pend i = Some (due, j) -> In k (pending_keys pend) ->
  In k (jkeys j) \/ In k (pending_keys (remove_nth i pend)).
Proof.
  induction i as [|i IH]; intros pend due j k N Hk; destruct pend as [|[d' j'] rest]; try discriminate.
  - cbn [nth_error] in N. injection N as -> ->. cbn [remove_nth].
    rewrite pending_keys_cons, in_app_iff in Hk. exact Hk.
  - cbn [nth_error] in N. cbn [remove_nth].
    rewrite pending_keys_cons, in_app_iff in *.
    destruct Hk as [Hk|Hk]; [tauto|]. destruct (IH rest due j k N Hk); tauto.
Qed.

Lemma is_nil_false_In : forall (k : str) l, In k l -> is_nil l = false.
Proof. intros k l H. destruct l; [destruct H | reflexivity]. Qed.

(* the job list a reload appends holds the keys it found to un-manage *)
Lemma jdel_keys : forall k rm due,
  In k rm -> In k (pending_keys (if is_nil rm then [] else [(due, JDel rm)])).
Proof.
  intros k rm due H. rewrite (is_nil_false_In k rm H). rewrite pending_keys_cons. cbn [jkeys].
  apply in_or_app. left. exact H.
Qed.

Lemma leak_free_step : forall s o, leak_free s -> leak_free (step Recheck s o).
Proof.
  intros s o L. destruct o as [k c | i | d]; cbn [step].
  - set (prev := match s_cur s with Some p => p | None => empty_req end).
    set (rm := kminus (q_eps prev) (q_eps c)).
    assert (M : forall x, In x (p_map (manage c (s_px s))) ->
                  In x (q_eps c) \/ In x rm \/ In x (pending_keys (s_pend s))).
    { intros x Hx.
      assert (Hx' : In x (q_eps c) \/ In x (p_map (s_px s))).
      { unfold manage in Hx. destruct (q_all c); cbn [p_map] in Hx; [right; exact Hx|].
        apply In_put_all in Hx. exact Hx. }
      destruct Hx' as [A|B]; [left; exact A|].
      destruct (L x B) as [P|Q]; [|right; right; exact Q].
      destruct (str_in_dec x (q_eps c)) as [I|NI]; [left; exact I|].
      right. left. apply In_minus. split; [exact P | exact NI]. }
    intros x Hx. rewrite load_cur. unfold cur_eps. unfold load in Hx |- *. fold prev in Hx |- *.
    cbn [difference] in Hx |- *. fold rm in Hx |- *.
    destruct k as [|imm].
    + cbn [s_px s_pend] in *. rewrite pending_keys_app, in_app_iff.
      destruct (M x Hx) as [A|[B|C]]; [tauto | | tauto].
      right. right. apply jdel_keys. exact B.
    + destruct imm.
      * cbn [s_px s_pend] in *.
        assert (Hx1 : In x (p_map (fire Recheck (Some c) (JDel rm) (manage c (s_px s))))).
        { destruct (q_all prev && negb (q_all c)); [|exact Hx].
          unfold fire at 1 in Hx. destruct (q_all c); exact Hx. }
        apply (fire_leak (Some c) (JDel rm) (manage c (s_px s)) (pending_keys (s_pend s))); [|exact Hx1].
        intros k' Hk'. unfold cur_eps. cbn [jkeys]. exact (M k' Hk').
      * cbn [s_px s_pend] in *. rewrite !pending_keys_app, !in_app_iff.
        destruct (M x Hx) as [A|[B|C]]; [tauto | | tauto].
        right. right. right. apply jdel_keys. exact B.
  - unfold tick. destruct (nth_error (s_pend s) i) as [[due j]|] eqn:N; [|exact L].
    intros x Hx. cbn [s_px s_cur s_pend] in *.
    apply (fire_leak (s_cur s) j (s_px s) (pending_keys (remove_nth i (s_pend s)))); [|exact Hx].
    intros k' Hk'. destruct (L k' Hk') as [A|B]; [left; exact A|]. right.
    exact (remove_nth_keys i (s_pend s) due j k' N B).
  - unfold advance.
    pose proof (fire_due_leak (s_cur s) (s_now s + d) (s_pend s) (s_px s) []) as FL.
    destruct (fire_due Recheck (s_cur s) (s_now s + d) (s_pend s) (s_px s)) as [p pend] eqn:F.
    cbn [fst snd] in FL.
    intros x Hx. cbn [s_px s_cur s_pend] in *.
    destruct (FL) with (k := x) as [A|[B|[]]]; auto.
    intros k' Hk'. destruct (L k' Hk') as [A|B]; auto.
Qed.

Theorem no_leak_after_reloads : forall ops, no_leak (run Recheck ops init) = true.
Proof.
  intro ops. apply no_leak_spec.
  assert (G : forall ops s, leak_free s -> leak_free (run Recheck ops s)).
  { clear ops. induction ops as [|o ops IH]; intros s L; [exact L|].
    cbn [run fold_left]. apply IH. apply leak_free_step. exact L. }
  apply G. intros k [].
Qed.

(* ------------------------------------------------------------------ *)
(* Un-management is EFFECTIVE: once the clock has moved by the TTL (or   *)
(* more) after ANY history whose clock steps are not negative, nothing is *)
(* pending and every key of the map is an expression of the              *)
(* configuration in force — exactly its expressions when it does not     *)
(* manage all.  (A pending job's wake-up time is at most now + TTL.)     *)

Definition nonneg_op (o : op) : Prop := match o with Advance d => 0 <= d | _ => True end.

Definition due_bounded (s : state) : Prop :=
  forall dj, In dj (s_pend s) -> fst dj <= s_now s + ttl.

Lemma due_bounded_step : forall s o,
  nonneg_op o -> due_bounded s -> due_bounded (step Recheck s o).
Proof.
  intros s o NN B. destruct o as [k c | i | d]; cbn [step].
  - intros dj H. unfold load in *. destruct k as [|[|]]; cbn [s_pend s_now] in *.
    + apply in_app_or in H. destruct H as [H|H]; [exact (B dj H)|].
      destruct (is_nil _); [destruct H|]. destruct H as [<-|[]]. cbn [fst]. lia.
    + exact (B dj H).
    + apply in_app_or in H. destruct H as [H|H]; [exact (B dj H)|].
      apply in_app_or in H. destruct H as [H|H].
      * destruct (_ && _); [|destruct H]. destruct H as [<-|[]]. cbn [fst]. lia.
      * destruct (is_nil _); [destruct H|]. destruct H as [<-|[]]. cbn [fst]. lia.
  - unfold tick. destruct (nth_error (s_pend s) i) as [[due j]|]; [|exact B].
    intros dj H. cbn [s_pend s_now] in *. apply remove_nth_sub in H. exact (B dj H).
  - unfold advance. cbn [nonneg_op] in NN.
    pose proof (fire_due_sub Recheck (s_cur s) (s_now s + d) (s_pend s) (s_px s)) as S.
    destruct (fire_due Recheck (s_cur s) (s_now s + d) (s_pend s) (s_px s)) as [p pend].
    cbn [snd] in S. intros dj H. cbn [s_pend s_now] in *. specialize (B dj (S dj H)). lia.
Qed.

Lemma due_bounded_run : forall ops s,
  Forall nonneg_op ops -> due_bounded s -> due_bounded (run Recheck ops s).
Proof.
  induction ops as [|o ops IH]; intros s F B; [exact B|].
  inversion F as [|o' ops' NN F']; subst. cbn [run fold_left]. apply IH; [exact F'|].
  apply due_bounded_step; assumption.
Qed.

Lemma fire_due_all : forall v cur now pend p,
  (forall dj, In dj pend -> fst dj <= now) -> snd (fire_due v cur now pend p) = [].
Proof.
  intros v cur now pend. induction pend as [|[due j] rest IH]; intros p H; cbn [fire_due];
    [reflexivity|].
  assert (E : (due <=? now) = true).
  { apply Z.leb_le. apply (H (due, j)). left. reflexivity. }
  rewrite E. apply IH. intros dj Hd. apply H. right. exact Hd.
Qed.

Lemma run_app : forall v a b s, run v (a ++ b) s = run v b (run v a s).
Proof. intros v a b s. unfold run. apply fold_left_app. Qed.

Theorem drained_after_ttl : forall ops d,
  Forall nonneg_op ops -> ttl <= d ->
  let s := run Recheck (ops ++ [Advance d]) init in
  s_pend s = [] /\
  (forall k, In k (p_map (s_px s)) -> In k (cur_eps (s_cur s))) /\
  (forall c, s_cur s = Some c -> q_all c = false ->
             forall k, In k (p_map (s_px s)) <-> In k (q_eps c)).
Proof.
  intros ops d F D s.
  assert (P : s_pend s = []).
  { unfold s. rewrite run_app. cbn [run fold_left step]. unfold advance.
    set (s0 := run Recheck ops init).
    assert (B : due_bounded s0).
    { apply due_bounded_run; [exact F|]. intros dj []. }
    pose proof (fire_due_all Recheck (s_cur s0) (s_now s0 + d) (s_pend s0) (s_px s0)) as A.
    destruct (fire_due Recheck (s_cur s0) (s_now s0 + d) (s_pend s0) (s_px s0)) as [p pend].
    cbn [snd s_pend] in *. apply A. intros dj H. specialize (B dj H). lia. }
  assert (L : forall k, In k (p_map (s_px s)) -> In k (cur_eps (s_cur s))).
  { intros k Hk.
    pose proof (proj1 (no_leak_spec s) (no_leak_after_reloads (ops ++ [Advance d]))) as LF.
    destruct (LF k Hk) as [A|A]; [exact A|]. rewrite P in A. destruct A. }
  split; [exact P|]. split; [exact L|].
  intros c E Q k. split.
  - intro Hk. specialize (L k Hk). rewrite E in L. exact L.
  - intro Hk. pose proof (managed_after_reloads (ops ++ [Advance d])) as M.
    fold s in M. unfold managed_ok in M. rewrite E in M. apply covers_spec in M.
    rewrite Q in M. exact (M k Hk).
Qed.
