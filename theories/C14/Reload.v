(* C14 — configuration HISTORIES: what the proxy manages after loads, reloads
   and the delayed un-management of a previous configuration's expressions.

     routing/handling_data_manager.go   initializeStreams (flows: first load and every reload)
     config/policies_accessor.go        UpdatePoliciesData (policies: delayed / immediate),
                                        ScheduleUnmanageHAProxyEndpoints, scheduleUnmanageHAProxyGlobal
                                        (goroutines sleeping staleVersionTTL = 30 s on the clock)
     config/update_endpoints.go         ManageHAProxyEndpoints / updateHAProxyEndpoints,
                                        unmanageHAProxyEndpoints, unmanageGlobal, EndpointsToUnmanage
     rootfs/etc/haproxy/haproxy.cfg     frontend manage_endpoints: PUT/DELETE /managed_endpoint =
                                        set-map / del-map on endpoints.map, PUT /manage_all sets
                                        proc.manage_all, DELETE /unmanage_global unsets it

   The model describes the code WITH patches/C14/fix-F-C14i (the expressions to
   un-manage are those of the previous request that the new one does not contain,
   compared BY EXPRESSION) and fix-F-C14j (ManageHAProxyEndpoints records its
   request as currentHAProxyEndpoints BEFORE it registers anything; an
   un-management that runs drops from its list what that request registers and
   holds haproxyEndpointsMutex from this check to its last DELETE; unmanage_global
   is skipped while the request manages all) = variant [Recheck].  Because the
   request is recorded before the PUTs and the un-management is atomic w.r.t.
   recording, a job that runs in the middle of a load only deletes keys the new
   request does not register: it commutes with the PUTs, so [Load] as ONE step is
   exact for this variant.  (This commutation is an ARGUMENT, not a theorem: there
   is no split-load model; listed in props/C14.json assumptions.  Likewise [load]
   takes the previous request from [s_cur] whatever the kind of the previous load:
   exact for single-mode histories — flows only, or policies only after the
   BuildInitialFromFile load —, the model's choice for mixed ones.)  The variants
   [ByPointer] (the code before fix i: lo.Difference over freshly allocated
   pointers = every previous expression) and [ByExpr] (fix i alone) are kept to
   state what they do NOT guarantee.  Executable definitions only. *)
From Coq Require Import List ZArith Bool.
From Verif Require Import Lib.UrlTree Lib.Regex C14.Reader C14.Model.
From Verif Require C03.Model C13.Model.
Import ListNotations.
Open Scope Z_scope.

(* HAProxyEndpointsRequest: ManageAll and the Endpoint strings of ManagedEndpoints *)
Record req := mkReq { q_all : bool; q_eps : list str }.
Definition empty_req : req := mkReq false [].

(* the proxy: proc.manage_all and the keys of endpoints.map *)
Record proxy := mkProxy { p_all : bool; p_map : list str }.

(* set-map / del-map, for a list of keys *)
Definition put (k : str) (m : list str) : list str := if str_mem k m then m else k :: m.
Definition put_all (ks m : list str) : list str := fold_right put m ks.
Definition del_all (ks m : list str) : list str := filter (fun x => negb (str_mem x ks)) m.

(* keys of [a] that are not keys of [b] *)
Definition kminus (a b : list str) : list str := filter (fun k => negb (str_mem k b)) a.

Inductive variant := ByPointer | ByExpr | Recheck.

(* what a reload finds to un-manage: lo.Difference(previous, new) over pointers
   that are all distinct = everything previous; EndpointsToUnmanage = by expression *)
Definition difference (v : variant) (prev new : list str) : list str :=
  match v with
  | ByPointer => prev
  | ByExpr | Recheck => kminus prev new
  end.

(* a pending un-management: unmanageHAProxyEndpoints(keys) / unmanageGlobal() *)
Inductive job := JDel (ks : list str) | JGlobal.

(* updateHAProxyEndpoints: manage-all => PUT /manage_all and RETURN (the
   expressions are not registered); otherwise PUT every expression *)
Definition manage (c : req) (p : proxy) : proxy :=
  if q_all c then mkProxy true (p_map p)
  else mkProxy (p_all p) (put_all (q_eps c) (p_map p)).

(* a job runs; [cur] = the request of the last ManageHAProxyEndpoints
   (currentHAProxyEndpoints), consulted by the re-checking variant only *)
Definition fire (v : variant) (cur : option req) (j : job) (p : proxy) : proxy :=
  let c := match cur with Some c => c | None => empty_req end in
  match j with
  | JDel ks =>
      let ks' := match v with Recheck => kminus ks (q_eps c) | _ => ks end in
      mkProxy (p_all p) (del_all ks' (p_map p))
  | JGlobal =>
      match v with
      | Recheck => if q_all c then p else mkProxy false (p_map p)
      | _ => mkProxy false (p_map p)
      end
  end.

(* staleVersionTTL, ns *)
Definition ttl : Z := 30000000000.

Record state := mkState {
  s_now : Z;
  s_px : proxy;
  s_cur : option req;            (* configuration in force *)
  s_pend : list (Z * job)        (* sleeping goroutines: wake-up time, job *)
}.

Definition init : state := mkState 0 (mkProxy false []) None [].

Inductive kind := Flows | Policies (imm : bool).

(* initializeStreams / UpdatePoliciesData(new, imm) with request [c] *)
Definition load (v : variant) (k : kind) (c : req) (s : state) : state :=
  let prev := match s_cur s with Some p => p | None => empty_req end in
  let px := manage c (s_px s) in
  let rm := difference v (q_eps prev) (q_eps c) in
  let due := s_now s + ttl in
  (* ScheduleUnmanageHAProxyEndpoints starts no goroutine for an empty list *)
  let jdel := if is_nil rm then [] else [(due, JDel rm)] in
  match k with
  | Flows =>
      (* previousHaProxyReq != nil && len(previous.ManagedEndpoints) > 0; no
         un-management of manage_all in flows mode *)
      mkState (s_now s) px (Some c) (s_pend s ++ jdel)
  | Policies imm =>
      let g := q_all prev && negb (q_all c) in
      if imm then
        let px1 := fire v (Some c) (JDel rm) px in
        let px2 := if g then fire v (Some c) JGlobal px1 else px1 in
        mkState (s_now s) px2 (Some c) (s_pend s)
      else
        mkState (s_now s) px (Some c) (s_pend s ++ (if g then [(due, JGlobal)] else []) ++ jdel)
  end.

Fixpoint remove_nth {A} (i : nat) (l : list A) : list A :=
  match l, i with
  | [], _ => []
  | _ :: l', O => l'
  | x :: l', S i' => x :: remove_nth i' l'
  end.

(* the i-th sleeping goroutine runs — in ANY order, whatever its wake-up time *)
Definition tick (v : variant) (i : nat) (s : state) : state :=
  match nth_error (s_pend s) i with
  | Some (_, j) => mkState (s_now s) (fire v (s_cur s) j (s_px s)) (s_cur s) (remove_nth i (s_pend s))
  | None => s
  end.

(* the clock moves: every goroutine whose wake-up time is reached runs *)
Fixpoint fire_due (v : variant) (cur : option req) (now : Z) (pend : list (Z * job)) (p : proxy)
  : proxy * list (Z * job) :=
  match pend with
  | [] => (p, [])
  | (due, j) :: rest =>
      if due <=? now
      then fire_due v cur now rest (fire v cur j p)
      else let '(p', rest') := fire_due v cur now rest p in (p', (due, j) :: rest')
  end.

Definition advance (v : variant) (d : Z) (s : state) : state :=
  let now := s_now s + d in
  let '(p, pend) := fire_due v (s_cur s) now (s_pend s) (s_px s) in
  mkState now p (s_cur s) pend.

Inductive op := Load (k : kind) (c : req) | Tick (i : nat) | Advance (d : Z).

Definition step (v : variant) (s : state) (o : op) : state :=
  match o with
  | Load k c => load v k c s
  | Tick i => tick v i s
  | Advance d => advance v d s
  end.

Definition run (v : variant) (ops : list op) (s : state) : state := fold_left (step v) ops s.

(* ------------------------------------------------------------------ *)
(* The guarantee                                                        *)

(* what the configuration in force registers is in the proxy *)
Definition covers (c : req) (p : proxy) : bool :=
  if q_all c then p_all p else forallb (fun k => str_mem k (p_map p)) (q_eps c).

Definition managed_ok (s : state) : bool :=
  match s_cur s with Some c => covers c (s_px s) | None => true end.

(* every reload happens while nothing is pending (reloads further apart than the TTL) *)
Fixpoint spaced (v : variant) (ops : list op) (s : state) : bool :=
  match ops with
  | [] => true
  | o :: ops' =>
      (match o with Load _ _ => is_nil (s_pend s) | _ => true end) && spaced v ops' (step v s o)
  end.

(* nothing stays registered for ever: a key of the proxy's map is registered by
   the configuration in force or awaits a pending un-management *)
Definition pending_keys (pend : list (Z * job)) : list str :=
  flat_map (fun dj => match snd dj with JDel ks => ks | JGlobal => [] end) pend.

Definition no_leak (s : state) : bool :=
  let c := match s_cur s with Some c => c | None => empty_req end in
  forallb (fun k => str_mem k (q_eps c) || str_mem k (pending_keys (s_pend s))) (p_map (s_px s)).

(* acl is_managed over the proxy's state: the keys are byte strings, the proxy
   READS them (Reader.parse = this development's reading of the emitted syntax) *)
Definition proxy_managed (p : proxy) (m u : str) : bool :=
  p_all p ||
  existsb (fun k => match parse k with
                    | Some e => re_search e (subject m u)
                    | None => false
                    end) (p_map p).

(* the requests the engine builds *)
Definition flows_req (fs : list C03.Model.flow) : req :=
  mkReq (flows_manage_all fs) (map print_expr (flows_endpoints fs)).

Definition policy_req (ds : list C13.Model.decl) (grem : list C13.Model.remedy)
           (gdiag : list C13.Model.diagnosis) : req :=
  mkReq (policy_manage_all grem gdiag) (map print_expr (policy_endpoints ds)).

(* ------------------------------------------------------------------ *)
(* SUPERSEDED entry point (first version of suite "reload", no           *)
(* requirements).  No suite evaluates [rop] / [case_reload] / [rstep] /   *)
(* [rrun] / [run_reload_with] / [run_reload] any more: suite reload       *)
(* evaluates ReloadReq.run_reload2, which is tied to [run Recheck] by     *)
(* ReloadReq.accepted_reload_case_is_a_run (Property:                     *)
(* C14_accepted_reload_case_is_a_run).  Kept for the record only.         *)

(* a history step as the harness performed it: the configuration itself (the
   request is computed here from it), or a clock advance in ns *)
Inductive rop :=
| RLoadF (fl : list flow_t)
| RLoadP (dl : list pdecl_t) (g : list bool * list bool) (imm : bool)
| RAdvance (ns : Z).

(* (step, (the load succeeded, proc.manage_all, keys of endpoints.map)) *)
Definition case_reload := list (rop * (bool * bool * list str)).

(* a load the engine refuses (stream initialisation / policy tree) changes nothing *)
Definition rstep (v : variant) (s : state) (o : rop) : state * bool :=
  match o with
  | RLoadF fl =>
      let fs := map mk_flow fl in
      if C03.Model.load_ok fs then (load v Flows (flows_req fs) s, true) else (s, false)
  | RLoadP dl (gr, gd) imm =>
      let ds := map mk_decl dl in
      let grem := map (fun e => {| C13.Model.r_name := 0; C13.Model.r_type := 0;
                                   C13.Model.r_enabled := e |}) gr in
      let gdiag := map (fun e => {| C13.Model.g_name := 0; C13.Model.g_enabled := e |}) gd in
      match C13.Model.build ds with
      | Some _ =>
          (* the first load is BuildInitialFromFile: ManageHAProxyEndpoints only *)
          match s_cur s with
          | None => (load v Flows (policy_req ds grem gdiag) s, true)
          | Some _ => (load v (Policies imm) (policy_req ds grem gdiag) s, true)
          end
      | None => (s, false)
      end
  | RAdvance ns => (advance v ns s, false)
  end.

Fixpoint rrun (v : variant) (s : state) (k : case_reload) : list (bool * bool * list str) * bool :=
  match k with
  | [] => ([], true)
  | (o, (ok, all, keys)) :: k' =>
      let '(s', mok) := rstep v s o in
      let agree := eqb mok ok && eqb (p_all (s_px s')) all && strs_same (p_map (s_px s')) keys in
      let '(outs, rest) := rrun v s' k' in
      ((mok, p_all (s_px s'), p_map (s_px s')) :: outs, agree && rest)
  end.

Definition run_reload_with (v : variant) (k : case_reload)
  : option (list (bool * bool * list str)) :=
  let '(outs, agree) := rrun v init k in
  if agree then None else Some outs.

(* the code with both repairs *)
Definition run_reload : case_reload -> option (list (bool * bool * list str)) :=
  run_reload_with Recheck.
