(* C14 — proofs: the printed form of the expression, the text of a split URL,
   coverage of the specification matcher by the expression, the bridges to
   the engine-side models of C03 (flows) and C13 (policies), literal-ness. *)
From Coq Require Import List ZArith Bool Lia.
From Verif Require Import Lib.UrlTree Lib.UrlTreeProofs Lib.Regex C14.Model.
From Verif Require C03.Trie C03.Model C03.Spec C03.Basics C03.Proofs C03.Property.
From Verif Require C13.Model C13.Property.
Import ListNotations.
Open Scope Z_scope.

(* ------------------------------------------------------------------ *)
(* 1. The printed expression is the string the Go code writes          *)

Lemma print_url_re : forall ps first, print (url_re first ps) = url_bytes first ps.
Proof.
  induction ps as [|[k s] rest IH]; intro first; [reflexivity|].
  cbn [url_re url_bytes].
  destruct (str_eqb s star && is_nil rest).
  - destruct k; reflexivity.
  - cbn [print]. rewrite IH. f_equal.
    + destruct first; [reflexivity | destruct k; reflexivity].
    + f_equal. unfold part_re. destruct (is_brace s).
      * destruct k; reflexivity.
      * apply print_lit.
Qed.

Lemma print_format_with : forall mre u,
  print_expr (format_with mre u) = format_bytes_with (print mre) u.
Proof.
  intros mre u. unfold print_expr, format_with, format_bytes_with. cbn [e_re e_eos print].
  rewrite print_url_re, print_lit. change (quote_meta sep3) with sep3.
  rewrite <- !app_assoc. do 3 f_equal.
  destruct (ends_wild (split_url u)); reflexivity.
Qed.

Lemma print_format : forall m u, print_expr (format m u) = format_bytes m u.
Proof. intros. unfold format, format_bytes. rewrite print_format_with, print_lit. reflexivity. Qed.

Lemma print_format_any : forall u, print_expr (format_any u) = format_any_bytes u.
Proof. intros. unfold format_any, format_any_bytes. rewrite print_format_with. reflexivity. Qed.

(* ------------------------------------------------------------------ *)
(* 2. A trimmed URL is the text of its parts                           *)

Definition join (c : Z) (l : list str) : str :=
  match l with
  | [] => []
  | h :: t => h ++ flat_map (cons c) t
  end.

Lemma join_split_on : forall c s, join c (split_on c s) = s.
Proof.
  intros c. induction s as [|x s IH]; [reflexivity|].
  cbn [split_on]. destruct (x =? c) eqn:E.
  - apply Z.eqb_eq in E. subst x.
    destruct (split_on c s) as [|h t] eqn:S; [exfalso; eapply split_on_nonempty; eauto|].
    cbn in *. rewrite IH. reflexivity.
  - destruct (split_on c s) as [|h t] eqn:S; [exfalso; eapply split_on_nonempty; eauto|].
    cbn in *. rewrite IH. reflexivity.
Qed.

Lemma unsplit_host_labels : forall hs R,
  unsplit false (map (fun s => (true, s)) hs ++ R) = flat_map (cons c_dot) hs ++ unsplit false R.
Proof.
  induction hs as [|h hs IH]; intro R; [reflexivity|].
  cbn. rewrite IH. rewrite <- app_assoc. reflexivity.
Qed.

Lemma unsplit_path_segments : forall ps,
  unsplit false (map (fun s => (false, s)) ps) = flat_map (cons c_slash) ps.
Proof.
  induction ps as [|p ps IH]; [reflexivity|]. cbn. rewrite IH. reflexivity.
Qed.

Lemma unsplit_split : forall u, unsplit true (split_url u) = trim_url u.
Proof.
  intro u. unfold split_url.
  rewrite <- (join_split_on c_slash (trim_url u)) at 2.
  destruct (split_on c_slash (trim_url u)) as [|host path]; [reflexivity|].
  cbn [join]. rewrite <- (join_split_on c_dot host) at 2.
  destruct (split_on c_dot host) as [|h hs] eqn:S; [exfalso; eapply split_on_nonempty; eauto|].
  cbn [map app unsplit delim_txt join]. cbn [app].
  rewrite unsplit_host_labels, unsplit_path_segments. rewrite <- !app_assoc. reflexivity.
Qed.

(* the pieces of a split contain no separator and only characters of the string *)
Lemma split_on_pieces : forall c s x, In x (split_on c s) ->
  ~ In c x /\ (forall d, In d x -> In d s).
Proof.
  intros c. induction s as [|y s IH]; intros x Hx.
  - cbn in Hx. destruct Hx as [<-|[]]. split; [intros []|intros d []].
  - cbn [split_on] in Hx. destruct (y =? c) eqn:E.
    + destruct Hx as [<-|Hx].
      * split; [intros []|intros d []].
      * destruct (IH x Hx) as [H1 H2]. split; [exact H1|]. intros d Hd. right. auto.
    + apply Z.eqb_neq in E.
      destruct (split_on c s) as [|h t] eqn:S; [exfalso; eapply split_on_nonempty; eauto|].
      destruct Hx as [<-|Hx].
      * destruct (IH h (or_introl eq_refl)) as [H1 H2]. split.
        -- intros [Hc|Hc]; [congruence | contradiction].
        -- intros d [<-|Hd]; [left; reflexivity | right; auto].
      * destruct (IH x (or_intror Hx)) as [H1 H2]. split; [exact H1|]. intros d Hd. right. auto.
Qed.

Definition parts_wf (us : list part) : Prop :=
  Forall (fun p => sep_free (fst p) (snd p)) us.

Lemma split_url_wf : forall u, parts_wf (split_url u).
Proof.
  intro u. unfold split_url, parts_wf.
  destruct (split_on c_slash (trim_url u)) as [|host path] eqn:S; [constructor|].
  apply Forall_app. split; apply Forall_forall; intros p Hp; apply in_map_iff in Hp;
    destruct Hp as (x & <- & Hx); cbn [fst snd]; apply Forall_forall; intros d Hd.
  - destruct (split_on_pieces c_dot host x Hx) as [H1 H2].
    assert (Hh : In host (split_on c_slash (trim_url u))) by (rewrite S; left; reflexivity).
    destruct (split_on_pieces c_slash _ host Hh) as [H3 _].
    split.
    + intro E. subst d. apply H3. apply H2. exact Hd.
    + intros _ E. subst d. contradiction.
  - assert (Hh : In x (split_on c_slash (trim_url u))) by (rewrite S; right; exact Hx).
    destruct (split_on_pieces c_slash _ x Hh) as [H3 _].
    split; [intro E; subst d; contradiction | discriminate].
Qed.

(* ------------------------------------------------------------------ *)
(* 3. The expression covers the specification matcher                  *)

Lemma lang_delim : forall first k d, lang (delim_re first k) d <-> d = delim_txt first k.
Proof.
  intros first k d. unfold delim_re, delim_txt. destruct first.
  - apply lang_emp.
  - unfold delim. split; intro H.
    + inversion H; subst. destruct k; reflexivity.
    + subst. destruct k; constructor.
Qed.

Lemma lang_param : forall k v, lang (param_re k) v <-> v <> [] /\ sep_free k v.
Proof.
  intros k v. unfold param_re. rewrite lang_plus_not. unfold sep_free.
  split; intros [Hn H]; (split; [exact Hn|]); eapply Forall_impl; try exact H; cbn beta.
  - intros c Hc. destruct k.
    + split; [intro E | intros _ E]; subst c; apply Hc; cbn; auto.
    + split; [intro E; subst c; apply Hc; cbn; auto | discriminate].
  - intros c [H1 H2]. destruct k.
    + intros [E|[E|[]]]; [apply H1 | apply H2]; auto.
    + intros [E|[]]. apply H1. auto.
Qed.

Lemma classify_cases : forall s,
  (str_eqb s star = true /\ classify s = PWild) \/
  (str_eqb s star = false /\ is_brace s = true /\ classify s = PParam (brace_name s)) \/
  (str_eqb s star = false /\ is_brace s = false /\ classify s = PConst s).
Proof.
  intro s. unfold classify. destruct (str_eqb s star); [left; auto|].
  destruct (is_brace s); [right; left; auto | right; right; auto].
Qed.

Lemma is_nil_map : forall (A B : Type) (f : A -> B) l, is_nil (map f l) = is_nil l.
Proof. intros A B f l. destruct l; reflexivity. Qed.

Lemma ends_wild_cons : forall k s rest,
  str_eqb s star && is_nil rest = false ->
  ends_wild rest = false -> ends_wild ((k, s) :: rest) = false.
Proof.
  intros k s rest H1 H2. cbn [ends_wild]. destruct rest as [|r rest'].
  - cbn in *. rewrite andb_true_r in H1. exact H1.
  - cbn [is_nil]. exact H2.
Qed.

Lemma ends_wild_cons_inv : forall k s rest,
  str_eqb s star = false ->
  ends_wild ((k, s) :: rest) = false -> ends_wild rest = false.
Proof.
  intros k s rest H1 H2. cbn [ends_wild] in H2. destruct rest as [|r rest']; [reflexivity|].
  cbn [is_nil] in H2. exact H2.
Qed.

(* some prefix of the URL text is in the language of the URL expression; the
   whole text when the pattern does not end in a wildcard *)
Lemma cover_parts : forall ps us first,
  matches (parse_pattern ps) us = true ->
  params_nonempty (parse_pattern ps) us = true ->
  parts_wf us ->
  exists s1 s2, unsplit first us = s1 ++ s2 /\ lang (url_re first ps) s1 /\
                (ends_wild ps = false -> s2 = []).
Proof.
  induction ps as [|[k s] rest IH]; intros us first HM HP HW.
  - cbn in HM. destruct us; [|discriminate]. exists [], []. repeat split; constructor.
  - cbn [parse_pattern map fst snd] in HM, HP. cbn [url_re].
    destruct (classify_cases s) as [[Es Ec]|[[Es [Eb Ec]]|[Es [Eb Ec]]]]; rewrite Ec in HM, HP; rewrite Es.
    + (* trailing wildcard *)
      cbn [matches] in HM. rewrite is_nil_map in HM.
      destruct rest as [|r rest']; [|discriminate HM]. cbn [is_nil andb].
      exists [], (unsplit first us). split; [reflexivity|]. split; [apply LOpt0|].
      intro E. cbn in E. congruence.
    + (* parameter *)
      cbn [andb]. cbn [matches] in HM. destruct us as [|[k' s'] us']; [discriminate|].
      apply andb_true_iff in HM. destruct HM as [Hk HM]. apply eqb_prop in Hk. subst k'.
      cbn [params_nonempty] in HP. apply andb_true_iff in HP. destruct HP as [Hne HP].
      inversion HW as [|? ? Hs' HW']; subst. cbn [fst snd] in Hs'.
      destruct (IH us' false HM HP HW') as (s1 & s2 & E & HL & He).
      exists (delim_txt first k ++ s' ++ s1), s2. split.
      { cbn [unsplit]. rewrite E. rewrite <- !app_assoc. reflexivity. }
      split.
      { constructor; [apply lang_delim; reflexivity|].
        constructor; [|exact HL]. unfold part_re. rewrite Eb. apply lang_param.
        split; [|exact Hs']. destruct s'; [discriminate | discriminate]. }
      intro Ew. apply He. eapply ends_wild_cons_inv; eauto.
    + (* literal *)
      cbn [andb]. cbn [matches] in HM. destruct us as [|[k' s'] us']; [discriminate|].
      apply andb_true_iff in HM. destruct HM as [HM1 HM].
      apply andb_true_iff in HM1. destruct HM1 as [Hk Hs]. apply eqb_prop in Hk. subst k'.
      apply str_eqb_eq in Hs. subst s'.
      cbn [params_nonempty] in HP.
      inversion HW as [|? ? Hs' HW']; subst.
      destruct (IH us' false HM HP HW') as (s1 & s2 & E & HL & He).
      exists (delim_txt first k ++ s ++ s1), s2. split.
      { cbn [unsplit]. rewrite E. rewrite <- !app_assoc. reflexivity. }
      split.
      { constructor; [apply lang_delim; reflexivity|].
        constructor; [|exact HL]. unfold part_re. rewrite Eb. apply lang_lit. reflexivity. }
      intro Ew. apply He. eapply ends_wild_cons_inv; eauto.
Qed.

Lemma trimmed_eq : forall u, trimmed u = true -> trim_url u = u.
Proof. intros u H. apply str_eqb_eq. exact H. Qed.

(* the expression built with a method expression [mre] that accepts a suffix
   of the method finds the subject *)
Lemma cover_url : forall mre m p u,
  (exists a b, m = a ++ b /\ lang mre b) ->
  matches (parse_pattern (split_url p)) (split_url u) = true ->
  url_ok p u = true ->
  re_search (format_with mre p) (subject m u) = true.
Proof.
  intros mre m p u (a & b & -> & Hb) HM HO.
  unfold url_ok in HO. apply andb_true_iff in HO. destruct HO as [HT HP].
  apply trimmed_eq in HT.
  destruct (cover_parts (split_url p) (split_url u) true HM HP (split_url_wf u))
    as (s1 & s2 & E & HL & He).
  rewrite unsplit_split, HT in E.
  apply re_search_spec. exists a, (b ++ sep3 ++ s1), s2. split.
  { unfold subject. rewrite E. rewrite <- !app_assoc. reflexivity. }
  split.
  { cbn [format_with e_re]. constructor; [exact Hb|]. constructor; [apply lang_lit; reflexivity | exact HL]. }
  cbn [format_with e_eos]. intro Hw. apply He. apply negb_true_iff. exact Hw.
Qed.

Lemma cover_format : forall m p u,
  matches (parse_pattern (split_url p)) (split_url u) = true ->
  url_ok p u = true ->
  re_search (format m p) (subject m u) = true.
Proof.
  intros m p u. apply cover_url. exists [], m. split; [reflexivity | apply lang_lit; reflexivity].
Qed.

Lemma cover_format_any : forall m p u,
  matches (parse_pattern (split_url p)) (split_url u) = true ->
  url_ok p u = true ->
  re_search (format_any p) (subject m u) = true.
Proof.
  intros m p u. apply cover_url. exists m, []. split; [rewrite app_nil_r; reflexivity | apply LStar0].
Qed.
