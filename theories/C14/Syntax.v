(* C14 — proofs about the reader of Reader.v: round trip with the printer of
   Lib/Regex on the emitted fragment, re-association does not change the
   language, everything the formatter builds is in the fragment. *)
From Coq Require Import List ZArith Bool Lia.
From Verif Require Import Lib.UrlTree Lib.Regex C14.Reader C14.Model C14.Proofs.
Import ListNotations.
Open Scope Z_scope.

(* ------------------------------------------------------------------ *)
(* Re-association does not change the language                           *)

Definition leq (a b : regex) : Prop := forall w, lang a w <-> lang b w.

Lemma lang_seq_of_app : forall l1 l2 w,
  lang (seq_of (l1 ++ l2)) w <-> lang (RSeq (seq_of l1) (seq_of l2)) w.
Proof.
  induction l1 as [|r l1 IH]; intros l2 w; cbn [app seq_of].
  - split; intro H.
    + change w with ([] ++ w). constructor; [constructor | exact H].
    + apply lang_seq_inv in H. destruct H as (s & t & -> & Hs & Ht).
      apply lang_emp in Hs. subst s. exact Ht.
  - split; intro H.
    + apply lang_seq_inv in H. destruct H as (s & t & -> & Hs & Ht).
      apply IH in Ht. apply lang_seq_inv in Ht. destruct Ht as (t1 & t2 & -> & H1 & H2).
      rewrite app_assoc. constructor; [constructor; assumption | exact H2].
    + apply lang_seq_inv in H. destruct H as (s & t & -> & Hs & Ht).
      apply lang_seq_inv in Hs. destruct Hs as (s1 & s2 & -> & H1 & H2).
      rewrite <- app_assoc. constructor; [exact H1|]. apply IH. constructor; assumption.
Qed.

Lemma star_congr : forall a b, leq a b -> leq (RStar a) (RStar b).
Proof.
  assert (X : forall a b, leq a b -> forall w, lang (RStar a) w -> lang (RStar b) w).
  { intros a b H w Hw. remember (RStar a) as r eqn:Er. induction Hw; try discriminate.
    - constructor.
    - inversion Er; subst. apply LStarS; [apply H; assumption | apply IHHw2; reflexivity]. }
  intros a b H w. split; apply X; [exact H | intro v; symmetry; apply H].
Qed.

Lemma plus_congr : forall a b, leq a b -> leq (RPlus a) (RPlus b).
Proof.
  intros a b H w. split; intro Hw; inversion Hw; subst;
    (constructor; [apply H; assumption | apply (star_congr a b H); assumption]).
Qed.

Lemma opt_congr : forall a b, leq a b -> leq (ROpt a) (ROpt b).
Proof.
  intros a b H w. split; intro Hw; inversion Hw; subst;
    try apply LOpt0; apply LOpt1; apply H; assumption.
Qed.

Lemma lang_single : forall r w, lang (seq_of [r]) w <-> lang r w.
Proof.
  intros r w. cbn. split; intro H.
  - apply lang_seq_inv in H. destruct H as (s & t & -> & Hs & Ht).
    apply lang_emp in Ht. subst t. rewrite app_nil_r. exact Hs.
  - rewrite <- (app_nil_r w). constructor; [exact H | constructor].
Qed.

Lemma lang_items : forall r, leq (seq_of (items r)) r.
Proof.
  induction r; intro w; cbn [items]; try apply lang_single.
  - cbn. reflexivity.
  - rewrite lang_seq_of_app. split; intro H; apply lang_seq_inv in H;
      destruct H as (s & t & -> & Hs & Ht); constructor;
      try (apply IHr1; assumption); apply IHr2; assumption.
  - rewrite lang_single. destruct (is_atom r); [reflexivity|]. apply star_congr. exact IHr.
  - rewrite lang_single. destruct (is_atom r); [reflexivity|]. apply plus_congr. exact IHr.
  - rewrite lang_single. destruct (is_atom r); [reflexivity|]. apply opt_congr. exact IHr.
Qed.

(* ------------------------------------------------------------------ *)
(* The tokens of a printed expression                                    *)

Definition body_toks (toks : regex -> list tok) (a : regex) : list tok :=
  if is_atom a then toks a else TOpen :: toks a ++ [TClose].

Fixpoint toks (r : regex) : list tok :=
  match r with
  | REmp => []
  | RChar c => [TChar c]
  | RAny => [TAny]
  | RSet cs => [TSet cs]
  | RNot cs => [TNot cs]
  | RSeq a b => toks a ++ toks b
  | RStar a => (if is_atom a then toks a else TOpen :: toks a ++ [TClose]) ++ [TStar]
  | RPlus a => (if is_atom a then toks a else TOpen :: toks a ++ [TClose]) ++ [TPlus]
  | ROpt a => (if is_atom a then toks a else TOpen :: toks a ++ [TClose]) ++ [TQuest]
  | RNone | RAlt _ _ => []
  end.

Definition tapp (l : list tok) (r : option (list tok)) : option (list tok) :=
  match r with Some l' => Some (l ++ l') | None => None end.

Lemma tapp_nil : forall r, tapp [] r = r.
Proof. destruct r; reflexivity. Qed.

Lemma tapp_app : forall a b r, tapp (a ++ b) r = tapp a (tapp b r).
Proof. intros a b [l|]; cbn; [rewrite app_assoc; reflexivity | reflexivity]. Qed.

Lemma tcons_tapp : forall t r, tcons t r = tapp [t] r.
Proof. intros t [l|]; reflexivity. Qed.

Lemma class_plain_not_close : forall c, class_plain c = true -> (c =? 93) = false.
Proof.
  intros c H. destruct (c =? 93) eqn:E; [|reflexivity]. apply Z.eqb_eq in E. subst c. discriminate H.
Qed.

Lemma class_plain_not_caret : forall c, class_plain c = true -> (c =? 94) = false.
Proof.
  intros c H. destruct (c =? 94) eqn:E; [|reflexivity]. apply Z.eqb_eq in E. subst c. discriminate H.
Qed.

Lemma tokenize_class_body : forall cs neg acc rest,
  forallb class_plain cs = true -> is_nil (acc ++ cs) = false ->
  tokenize (SClass neg acc) (cs ++ 93 :: rest) =
  tcons (mk_class neg (rev acc ++ cs)) (tokenize SNorm rest).
Proof.
  induction cs as [|c cs IH]; intros neg acc rest HP HN.
  - rewrite app_nil_r in *. cbn [app tokenize]. rewrite Z.eqb_refl.
    destruct acc; [discriminate | reflexivity].
  - cbn [forallb] in HP. apply andb_true_iff in HP. destruct HP as [Hc HP].
    cbn [app tokenize]. rewrite (class_plain_not_close c Hc), Hc.
    rewrite IH; [|exact HP | destruct acc; reflexivity].
    cbn [rev]. rewrite <- app_assoc. reflexivity.
Qed.

Lemma tokenize_class : forall (neg : bool) cs rest, class_ok cs = true ->
  tokenize SNorm (print (if neg then RNot cs else RSet cs) ++ rest) =
  tcons (mk_class neg cs) (tokenize SNorm rest).
Proof.
  intros neg cs rest H. unfold class_ok in H. apply andb_true_iff in H. destruct H as [HN HP].
  destruct neg; cbn [print].
  - change (([91; 94] ++ cs ++ [93]) ++ rest) with (91 :: 94 :: ((cs ++ [93]) ++ rest)).
    rewrite <- app_assoc. cbn [app]. cbn [tokenize].
    change (negb (is_meta 91)) with false. cbn [negb]. change (91 =? 92) with false.
    change (91 =? 91) with true. cbn iota. change (94 =? 94) with true. cbn iota.
    rewrite tokenize_class_body; [reflexivity | exact HP |].
    cbn [app]. destruct cs; [discriminate | reflexivity].
  - change (([91] ++ cs ++ [93]) ++ rest) with (91 :: ((cs ++ [93]) ++ rest)).
    rewrite <- app_assoc. cbn [app]. cbn [tokenize].
    change (negb (is_meta 91)) with false. change (91 =? 92) with false.
    change (91 =? 91) with true. cbn iota.
    destruct cs as [|c cs]; [discriminate|].
    cbn [forallb] in HP. apply andb_true_iff in HP. destruct HP as [Hc HP].
    cbn [app tokenize]. rewrite (class_plain_not_caret c Hc), Hc.
    rewrite tokenize_class_body; [reflexivity | exact HP | reflexivity].
Qed.

Lemma tokenize_char : forall c rest,
  tokenize SNorm (quote_char c ++ rest) = tcons (TChar c) (tokenize SNorm rest).
Proof.
  intros c rest. unfold quote_char. destruct (is_meta c) eqn:E; cbn [app tokenize].
  - change (negb (is_meta 92)) with false. change (92 =? 92) with true. cbn iota.
    rewrite E. reflexivity.
  - rewrite E. reflexivity.
Qed.

Lemma tokenize_atom : forall a rest, is_atom a = true -> emit0 a = true ->
  tokenize SNorm (print a ++ rest) = tapp (toks a) (tokenize SNorm rest).
Proof.
  intros a rest HA HE. destruct a; try discriminate; cbn [toks]; rewrite <- tcons_tapp.
  - apply tokenize_char.
  - reflexivity.
  - apply (tokenize_class false); exact HE.
  - apply (tokenize_class true); exact HE.
Qed.

Lemma tokenize_post : forall c t rest, (c = 42 /\ t = TStar) \/ (c = 43 /\ t = TPlus) \/ (c = 63 /\ t = TQuest) ->
  tokenize SNorm (c :: rest) = tcons t (tokenize SNorm rest).
Proof. intros c t rest [[-> ->]|[[-> ->]|[-> ->]]]; reflexivity. Qed.

Lemma tokenize_emit0 : forall r rest, emit0 r = true ->
  tokenize SNorm (print r ++ rest) = tapp (toks r) (tokenize SNorm rest).
Proof.
  induction r; intros rest H; cbn [emit0] in H; try discriminate.
  - cbn. symmetry. apply tapp_nil.
  - apply tokenize_atom; reflexivity.
  - apply tokenize_atom; reflexivity.
  - apply tokenize_atom; [reflexivity | exact H].
  - apply tokenize_atom; [reflexivity | exact H].
  - apply andb_true_iff in H. destruct H as [H1 H2]. cbn [print toks].
    rewrite <- app_assoc, IHr1, IHr2, tapp_app; auto.
  - apply andb_true_iff in H. destruct H as [HA HE]. cbn [print toks]. rewrite HA.
    rewrite <- app_assoc, (tokenize_atom r _ HA HE). cbn [app].
    rewrite (tokenize_post 42 TStar); [|auto]. rewrite tcons_tapp, tapp_app. reflexivity.
  - apply andb_true_iff in H. destruct H as [HA HE]. cbn [print toks]. rewrite HA.
    rewrite <- app_assoc, (tokenize_atom r _ HA HE). cbn [app].
    rewrite (tokenize_post 43 TPlus); [|auto]. rewrite tcons_tapp, tapp_app. reflexivity.
  - apply andb_true_iff in H. destruct H as [HA HE]. cbn [print toks]. rewrite HA.
    rewrite <- app_assoc, (tokenize_atom r _ HA HE). cbn [app].
    rewrite (tokenize_post 63 TQuest); [|auto]. rewrite tcons_tapp, tapp_app. reflexivity.
Qed.

Lemma tokenize_body : forall a c t rest, body_ok a = true ->
  (c = 42 /\ t = TStar) \/ (c = 43 /\ t = TPlus) \/ (c = 63 /\ t = TQuest) ->
  tokenize SNorm (((if is_atom a then print a else paren (print a)) ++ [c]) ++ rest) =
  tapp ((if is_atom a then toks a else TOpen :: toks a ++ [TClose]) ++ [t]) (tokenize SNorm rest).
Proof.
  intros a c t rest HB HC. unfold body_ok in HB. destruct (is_atom a) eqn:HA.
  - rewrite <- app_assoc, (tokenize_atom a _ HA HB). cbn [app].
    rewrite (tokenize_post c t); [|exact HC]. rewrite tcons_tapp, tapp_app. reflexivity.
  - apply andb_true_iff in HB. destruct HB as [HE _].
    unfold paren. rewrite <- !app_assoc. cbn [app]. cbn [tokenize].
    change (negb (is_meta 40)) with false. change (40 =? 92) with false. change (40 =? 91) with false.
    change (40 =? 46) with false. change (40 =? 40) with true. cbn iota.
    rewrite (tokenize_emit0 a _ HE).
    change (tokenize SNorm (41 :: c :: rest)) with (tcons TClose (tokenize SNorm (c :: rest))).
    rewrite (tokenize_post c t); [|exact HC].
    destruct (tokenize SNorm rest) as [l|]; cbn; [|reflexivity].
    rewrite <- !app_assoc. reflexivity.
Qed.

Lemma tokenize_emit1 : forall r rest, emit1 r = true ->
  tokenize SNorm (print r ++ rest) = tapp (toks r) (tokenize SNorm rest).
Proof.
  induction r; intros rest H; cbn [emit1] in H; try (apply tokenize_emit0; exact H).
  - apply andb_true_iff in H. destruct H as [H1 H2]. cbn [print toks].
    rewrite <- app_assoc, IHr1, IHr2, tapp_app; auto.
  - cbn [print toks]. apply tokenize_body; auto.
  - cbn [print toks]. apply tokenize_body; auto.
  - cbn [print toks]. apply tokenize_body; auto.
Qed.

(* ------------------------------------------------------------------ *)
(* Reading the tokens back                                               *)

Definition push_all (st : pstate) (l : list regex) : pstate := fold_left push1 l st.

Lemma push_all_app : forall l1 l2 st, push_all st (l1 ++ l2) = push_all (push_all st l1) l2.
Proof. intros. unfold push_all. apply fold_left_app. Qed.

Lemma parse_atom : forall a st ts, is_atom a = true ->
  parse_toks st (toks a ++ ts) = parse_toks (push1 st a) ts.
Proof. intros a st ts H. destruct a; try discriminate; reflexivity. Qed.

Lemma postfix_push : forall st a f, is_rep a = false -> postfix (push1 st a) f = Some (push1 st (f a)).
Proof. intros [o [l|]] a f H; cbn; rewrite H; reflexivity. Qed.

Lemma atom_not_rep : forall a, is_atom a = true -> is_rep a = false.
Proof. destruct a; try discriminate; reflexivity. Qed.

Lemma parse_emit0 : forall r st ts, emit0 r = true ->
  parse_toks st (toks r ++ ts) = parse_toks (push_all st (items r)) ts.
Proof.
  induction r; intros st ts H; cbn [emit0] in H; try discriminate; try reflexivity.
  - apply andb_true_iff in H. destruct H as [H1 H2]. cbn [toks items].
    rewrite <- app_assoc, IHr1, IHr2, push_all_app; auto.
  - apply andb_true_iff in H. destruct H as [HA HE]. cbn [toks items]. rewrite HA.
    rewrite <- app_assoc, (parse_atom r _ _ HA). cbn [app parse_toks].
    rewrite postfix_push; [reflexivity | apply atom_not_rep; exact HA].
  - apply andb_true_iff in H. destruct H as [HA HE]. cbn [toks items]. rewrite HA.
    rewrite <- app_assoc, (parse_atom r _ _ HA). cbn [app parse_toks].
    rewrite postfix_push; [reflexivity | apply atom_not_rep; exact HA].
  - apply andb_true_iff in H. destruct H as [HA HE]. cbn [toks items]. rewrite HA.
    rewrite <- app_assoc, (parse_atom r _ _ HA). cbn [app parse_toks].
    rewrite postfix_push; [reflexivity | apply atom_not_rep; exact HA].
Qed.

Lemma push_all_inner : forall l o acc, push_all (o, Some acc) l = (o, Some (rev l ++ acc)).
Proof.
  induction l as [|r l IH]; intros o acc; [reflexivity|].
  cbn [push_all fold_left push1]. fold (push_all (o, Some (r :: acc)) l). rewrite IH.
  cbn [rev]. rewrite <- app_assoc. reflexivity.
Qed.

Lemma seq_of_not_rep : forall l, is_nil l = false -> is_rep (seq_of l) = false.
Proof. destruct l; [discriminate | reflexivity]. Qed.

Lemma parse_body : forall a o ts t f, body_ok a = true ->
  (t = TStar /\ f = RStar) \/ (t = TPlus /\ f = RPlus) \/ (t = TQuest /\ f = ROpt) ->
  parse_toks (o, None) (((if is_atom a then toks a else TOpen :: toks a ++ [TClose]) ++ [t]) ++ ts) =
  parse_toks (f (if is_atom a then a else seq_of (items a)) :: o, None) ts.
Proof.
  intros a o ts t f HB HT. unfold body_ok in HB. destruct (is_atom a) eqn:HA.
  - rewrite <- app_assoc, (parse_atom a _ _ HA). cbn [app push1].
    destruct HT as [[-> ->]|[[-> ->]|[-> ->]]]; cbn [parse_toks postfix];
      rewrite (atom_not_rep a HA); reflexivity.
  - apply andb_true_iff in HB. destruct HB as [HE HN]. apply negb_true_iff in HN.
    rewrite <- !app_assoc. cbn [app parse_toks]. rewrite <- !app_assoc. cbn [app].
    rewrite (parse_emit0 a _ _ HE), push_all_inner, app_nil_r. cbn [parse_toks].
    assert (HR : is_nil (rev (items a)) = false).
    { destruct (items a) as [|x l]; [discriminate|]. cbn [rev]. destruct (rev l); reflexivity. }
    rewrite HR, rev_involutive.
    destruct HT as [[-> ->]|[[-> ->]|[-> ->]]]; cbn [parse_toks postfix];
      rewrite (seq_of_not_rep _ HN); reflexivity.
Qed.

Lemma push_all_outer : forall l o, push_all (o, None) l = (rev l ++ o, None).
Proof.
  induction l as [|r l IH]; intro o; [reflexivity|].
  cbn [push_all fold_left push1]. fold (push_all (r :: o, None) l). rewrite IH.
  cbn [rev]. rewrite <- app_assoc. reflexivity.
Qed.

Lemma parse_emit1 : forall r o ts, emit1 r = true ->
  parse_toks (o, None) (toks r ++ ts) = parse_toks (push_all (o, None) (items r)) ts.
Proof.
  induction r; intros o ts H; cbn [emit1] in H; try (apply parse_emit0; exact H).
  - apply andb_true_iff in H. destruct H as [H1 H2]. cbn [toks items].
    rewrite <- app_assoc, IHr1, push_all_outer, IHr2, push_all_app, !push_all_outer; auto.
  - cbn [toks items]. rewrite (parse_body r o ts TStar RStar); auto.
  - cbn [toks items]. rewrite (parse_body r o ts TPlus RPlus); auto.
  - cbn [toks items]. rewrite (parse_body r o ts TQuest ROpt); auto.
Qed.

(* ------------------------------------------------------------------ *)
(* Round trip                                                           *)

Definition normal (e : expr) : expr := {| e_re := seq_of (items (e_re e)); e_eos := e_eos e |}.

Theorem parse_print : forall e, emit1 (e_re e) = true -> parse (print_expr e) = Some (normal e).
Proof.
  intros [r b] H. cbn [e_re] in H. unfold parse, print_expr, normal. cbn [e_re e_eos].
  rewrite (tokenize_emit1 r _ H).
  destruct b.
  - change (tokenize SNorm [36]) with (Some [TEos]). cbn [tapp].
    rewrite (parse_emit1 r [] [TEos] H), push_all_outer, app_nil_r. cbn [parse_toks is_nil].
    rewrite rev_involutive. reflexivity.
  - cbn [tokenize tapp]. rewrite (parse_emit1 r [] [] H), push_all_outer, app_nil_r.
    cbn [parse_toks]. rewrite rev_involutive. reflexivity.
Qed.

Lemma searches_normal : forall e s, searches (normal e) s <-> searches e s.
Proof.
  intros e s. unfold searches, normal. cbn [e_re e_eos].
  split; intros (pre & mid & post & E & HL & HP); exists pre, mid, post;
    (split; [exact E|]); (split; [apply lang_items; exact HL | exact HP]).
Qed.

Theorem re_search_normal : forall e s, re_search (normal e) s = re_search e s.
Proof.
  intros e s. destruct (re_search e s) eqn:E.
  - apply re_search_spec. apply searches_normal. apply re_search_spec. exact E.
  - destruct (re_search (normal e) s) eqn:E2; [|reflexivity].
    apply (proj1 (re_search_spec _ _)) in E2. apply (proj1 (searches_normal _ _)) in E2.
    apply (proj2 (re_search_spec _ _)) in E2. congruence.
Qed.

(* two expressions of the fragment that print the same string find the same subjects *)
Theorem print_determines_language : forall e1 e2,
  emit1 (e_re e1) = true -> emit1 (e_re e2) = true -> print_expr e1 = print_expr e2 ->
  forall s, re_search e1 s = re_search e2 s.
Proof.
  intros e1 e2 H1 H2 E s. pose proof (parse_print e1 H1) as P1. pose proof (parse_print e2 H2) as P2.
  rewrite E in P1. rewrite P1 in P2. injection P2 as X Y.
  rewrite <- (re_search_normal e1), <- (re_search_normal e2). unfold normal. rewrite X, Y.
  reflexivity.
Qed.

(* ------------------------------------------------------------------ *)
(* Everything the formatter builds is in the fragment                    *)

Lemma emit0_lit : forall s, emit0 (lit s) = true.
Proof. induction s as [|c s IH]; [reflexivity|]. cbn. exact IH. Qed.

Lemma emit0_emit1 : forall r, emit0 r = true -> emit1 r = true.
Proof.
  induction r; intro H; cbn [emit0 emit1] in *; try exact H; try discriminate.
  - apply andb_true_iff in H. destruct H. rewrite IHr1, IHr2; auto.
  - apply andb_true_iff in H. destruct H as [HA HE]. unfold body_ok. rewrite HA. exact HE.
  - apply andb_true_iff in H. destruct H as [HA HE]. unfold body_ok. rewrite HA. exact HE.
  - apply andb_true_iff in H. destruct H as [HA HE]. unfold body_ok. rewrite HA. exact HE.
Qed.

Lemma emit1_url_re : forall ps first, emit1 (url_re first ps) = true.
Proof.
  induction ps as [|[k s] rest IH]; intro first; [reflexivity|].
  cbn [url_re]. destruct (str_eqb s star && is_nil rest).
  - destruct k; reflexivity.
  - cbn [emit1]. rewrite IH, andb_true_r. apply andb_true_iff. split.
    + destruct first; [reflexivity | destruct k; reflexivity].
    + unfold part_re. destruct (is_brace s).
      * destruct k; reflexivity.
      * apply emit0_emit1, emit0_lit.
Qed.

Lemma format_with_emit : forall mre p, emit1 mre = true -> emit1 (e_re (format_with mre p)) = true.
Proof.
  intros mre p H. cbn [format_with e_re emit1]. rewrite H, emit1_url_re. reflexivity.
Qed.

Theorem format_emit : forall m p, emit1 (e_re (format m p)) = true.
Proof. intros. apply format_with_emit. apply emit0_emit1, emit0_lit. Qed.

Theorem format_any_emit : forall p, emit1 (e_re (format_any p)) = true.
Proof. intros. apply format_with_emit. reflexivity. Qed.

(* the registered byte string, read back, has the language of the model expression *)
Theorem read_format : forall m p,
  exists e', parse (format_bytes m p) = Some e' /\ forall s, re_search e' s = re_search (format m p) s.
Proof.
  intros m p. exists (normal (format m p)). split.
  - rewrite <- print_format. apply parse_print, format_emit.
  - apply re_search_normal.
Qed.

Theorem read_format_any : forall p,
  exists e', parse (format_any_bytes p) = Some e' /\ forall s, re_search e' s = re_search (format_any p) s.
Proof.
  intro p. exists (normal (format_any p)). split.
  - rewrite <- print_format_any. apply parse_print, format_any_emit.
  - apply re_search_normal.
Qed.
