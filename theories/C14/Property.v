(* C14 — Traffic a flow or policy must see is always registered as managed.
   Final statements only; proofs are in Lib/Regex.v, Proofs.v, Cover.v, Bridge.v,
   Literal.v, Found.v, Syntax.v.  The model is the code as it is in /repo
   (repairs F-C14a/b/f/d included).

   Objects
     format m p / format_any p   the expression registered for method m (for a
                                 filter without methods) and configured URL p
                                 (HaproxyEndpointFormat / HaproxyAnyMethodEndpointFormat)
     print_expr e                its concrete syntax (compared byte for byte
                                 with the Go string on every check run)
     parse s                     the independent reader of that syntax (Reader.v)
     re_search e s               HAProxy's map_reg: unanchored search of e in s
                                 (proved equal to the semantics [searches])
     subject m u                 "METHOD:::host/path", what HAProxy searches in
     managed all es m u          acl is_managed: manage-all, or some registered
                                 expression finds the subject
     engine side                 flows: C03.Model.get_flow (C03.Proofs.tree_of fs)
                                 policies: C13.Model endpoint_remedies / endpoint_diagnoses
   Hypotheses (all decidable, all computed by the monitor's classifier too; the
   classes are compared with the model on every run, suite flows)
     load_ok fs                  every AddFlow succeeded
     kc_at fs f url              no configured pattern collides (host label vs path
                                 segment) with f's pattern on a node the look-up of
                                 url reads: open finding F-C14h (= F-C03c) localised
                                 to the selected flow and the request URL
     build ds = Some pt, kind_consistentb ds   (policies) the hypotheses of C13_sound;
                                 kind consistency = F-C13e, config-wide: C13 offers
                                 no localised form
     url_ok_exact p u            the request URL is spelled without leading '.' '/',
                                 with trailing '.' '/' only where the expression
                                 absorbs them (pattern ending in a wildcard; dots
                                 after a path parameter in last position) — the rest
                                 is open finding F-C14c — and no part of it standing
                                 at a parameter position of p is empty (F-C14e).
                                 EXACT: C14_found_exactly.
   Configuration histories (Reload.v; the code with repairs F-C14i and F-C14j)
     run Recheck ops init        the engine + proxy after the history ops: Load (flows:
                                 initializeStreams; policies: UpdatePoliciesData, delayed or
                                 immediate un-management) / Tick i (the i-th sleeping
                                 un-management goroutine runs, ANY order) / Advance d (the
                                 clock moves, the due ones run)
     s_cur, s_px                 the request of the configuration in force; the proxy's
                                 proc.manage_all and the keys of endpoints.map
     managed_ok s                manage-all configured => proc.manage_all set; otherwise
                                 every expression of the configuration in force is a key
     proxy_managed p m u         acl is_managed over the proxy's CURRENT state (the keys
                                 read by Reader.parse)
   Histories with requirements, the suite's run function (ReloadReq.v)
     qrun SameExpr ops rinit     the same transition system with registrations =
                                 expression + {body, request capture}; erase_state of it
                                 IS run Recheck of the erased history (C14_requirements_irrelevant)
     run_reload2 k               what suite reload evaluates on every case k; a case it
                                 accepts is a run of run Recheck (C14_accepted_reload_case_is_a_run)
   Request hosts that name a port (Port.v)
     get_flow_v AsSent           = C03.Model.get_flow (the code); HostNameFallback = the
                                 reading of seeded change C14-12 (no suite evaluates it)
     names_port u                the request host ends in :digits (decidable)
   The theorems of the first round (C14_cover_flows .. C14_no_bypass_policies, with
   stars_last, the config-wide kind_consistent and the broader url_ok) are kept
   unchanged; they are consequences (C14_old_conditions_imply_new). *)
From Coq Require Import List ZArith Bool String.
From Verif Require Import Lib.UrlTree Lib.Regex.
From Verif Require Import C14.Reader C14.Model C14.Proofs C14.Cover C14.Bridge C14.Literal C14.Found C14.Syntax.
From Verif Require Import C14.Reload C14.ReloadProofs C14.ReloadLeak C14.ReloadReq C14.Port.
From Verif Require C03.Trie C03.Model C03.Spec C03.SpecLocal C03.Proofs C13.Model.
Import ListNotations.
Open Scope Z_scope.

(* ---- the executable matcher decides the language semantics ---- *)
Theorem C14_matcher_correct : forall e s, re_search e s = true <-> searches e s.
Proof. exact re_search_spec. Qed.
Print Assumptions C14_matcher_correct.

(* ---- the AST prints to the string the Go code writes ---- *)
Theorem C14_printed_expression : forall m p,
  print_expr (format m p) = format_bytes m p /\
  print_expr (format_any p) = format_any_bytes p.
Proof. intros m p. split; [apply print_format | apply print_format_any]. Qed.
Print Assumptions C14_printed_expression.

(* ---- flows: a filter the engine selects for (method, URL) has a registered
        expression that finds "METHOD:::URL" ---- *)
Theorem C14_cover_flows : forall fs x f,
  C03.Model.load_ok fs = true -> C03.Spec.stars_last fs = true ->
  C03.Spec.kind_consistent fs = true ->
  In f (C03.Model.get_flow (C03.Proofs.tree_of fs) x) ->
  url_ok (C03.Model.f_url f) (C03.Model.t_url x) = true ->
  In f fs /\
  exists e, In e (flow_endpoints f) /\
            re_search e (subject (C03.Model.t_method x) (C03.Model.t_url x)) = true.
Proof. exact cover_flows. Qed.
Print Assumptions C14_cover_flows.

(* the same statement under the name that says which findings delimit it *)
Corollary C14_cover_holds_outside_untrimmed_url_and_empty_parameter : forall fs x f,
  C03.Model.load_ok fs = true -> C03.Spec.stars_last fs = true ->
  C03.Spec.kind_consistent fs = true ->
  In f (C03.Model.get_flow (C03.Proofs.tree_of fs) x) ->
  url_ok (C03.Model.f_url f) (C03.Model.t_url x) = true ->
  In f fs /\
  exists e, In e (flow_endpoints f) /\
            re_search e (subject (C03.Model.t_method x) (C03.Model.t_url x)) = true.
Proof. exact cover_flows. Qed.
Print Assumptions C14_cover_holds_outside_untrimmed_url_and_empty_parameter.

(* so the transaction does not bypass the engine *)
Theorem C14_no_bypass_flows : forall fs x f,
  C03.Model.load_ok fs = true -> C03.Spec.stars_last fs = true ->
  C03.Spec.kind_consistent fs = true ->
  In f (C03.Model.get_flow (C03.Proofs.tree_of fs) x) ->
  url_ok (C03.Model.f_url f) (C03.Model.t_url x) = true ->
  managed (flows_manage_all fs) (flows_endpoints fs)
          (C03.Model.t_method x) (C03.Model.t_url x) = true.
Proof. exact no_bypass_flows. Qed.
Print Assumptions C14_no_bypass_flows.

(* ---- policies: an endpoint whose remedy / diagnosis the dispatcher selects
        for (method, URL) is registered with an expression that finds it ---- *)
Theorem C14_cover_policies : forall ds pt m u,
  C13.Model.build ds = Some pt -> C13.Model.kind_consistentb ds = true ->
  policy_selected pt m u ->
  exists d, In d ds /\ C13.Model.d_method d = m /\
            matches (parse_pattern (split_url (C13.Model.d_url d))) (split_url u) = true /\
            In (format m (C13.Model.d_url d)) (policy_endpoints ds) /\
            (url_ok (C13.Model.d_url d) u = true ->
             re_search (format m (C13.Model.d_url d)) (subject m u) = true).
Proof. exact cover_policies. Qed.
Print Assumptions C14_cover_policies.

Theorem C14_no_bypass_policies : forall ds grem gdiag pt m u,
  C13.Model.build ds = Some pt -> C13.Model.kind_consistentb ds = true ->
  policy_selected pt m u ->
  (forall d, In d ds -> url_ok (C13.Model.d_url d) u = true) ->
  managed (policy_manage_all grem gdiag) (policy_endpoints ds) m u = true.
Proof. exact no_bypass_policies. Qed.
Print Assumptions C14_no_bypass_policies.

(* an enabled global remedy / diagnosis manages every transaction *)
Theorem C14_globals_manage_all : forall grem gdiag es m u,
  policy_manage_all grem gdiag = true -> managed (policy_manage_all grem gdiag) es m u = true.
Proof. exact globals_manage_all. Qed.
Print Assumptions C14_globals_manage_all.

(* ---- literal characters are matched literally ----
   For a configured URL without parameter and wildcard parts the expression
   finds exactly the subjects that END with "METHOD:::URL" (URL in the trimmed
   spelling the engine uses); the left end is open because the proxy searches
   (the code's choice: map_reg, no "^").  Method characters are literal too. *)
Theorem C14_literal : forall m p w,
  literal_pattern (split_url p) = true ->
  (re_search (format m p) w = true <-> exists pre, w = pre ++ subject m (trim_url p)).
Proof. exact literal_format. Qed.
Print Assumptions C14_literal.

(* hence a URL of the same length differing in any character is not found *)
Theorem C14_literal_same_length : forall m p u,
  literal_pattern (split_url p) = true ->
  List.length u = List.length (trim_url p) ->
  re_search (format m p) (subject m u) = true -> u = trim_url p.
Proof. exact literal_same_length. Qed.
Print Assumptions C14_literal_same_length.

(* with parameters: exactly the instances of the pattern ([inst]: literal parts
   by their own characters, a parameter by a non-empty run of non-separators) *)
Theorem C14_exact : forall m p w,
  wild_free (split_url p) = true ->
  (re_search (format m p) w = true <->
   exists pre u, w = pre ++ subject m u /\ inst true (split_url p) u).
Proof. exact exact_format. Qed.
Print Assumptions C14_exact.

Theorem C14_literal_any_method : forall p w,
  literal_pattern (split_url p) = true ->
  (re_search (format_any p) w = true <-> exists pre, w = pre ++ sep3 ++ trim_url p).
Proof. exact literal_format_any. Qed.
Print Assumptions C14_literal_any_method.

(* ================================================================
   The same clauses with the narrowest hypotheses
   ================================================================ *)

(* ---- flows: collision finding localised (kc_at), stars_last dropped (it
        follows from load_ok), exact spelling condition ---- *)
Theorem C14_cover_flows_exact : forall fs x f,
  C03.Model.load_ok fs = true ->
  In f (C03.Model.get_flow (C03.Proofs.tree_of fs) x) ->
  C03.SpecLocal.kc_at fs f (C03.Proofs.url_of x) = true ->
  url_ok_exact (C03.Model.f_url f) (C03.Model.t_url x) = true ->
  In f fs /\
  exists e, In e (flow_endpoints f) /\
            re_search e (subject (C03.Model.t_method x) (C03.Model.t_url x)) = true.
Proof. exact cover_flows_at. Qed.
Print Assumptions C14_cover_flows_exact.

Theorem C14_no_bypass_flows_exact : forall fs x f,
  C03.Model.load_ok fs = true ->
  In f (C03.Model.get_flow (C03.Proofs.tree_of fs) x) ->
  C03.SpecLocal.kc_at fs f (C03.Proofs.url_of x) = true ->
  url_ok_exact (C03.Model.f_url f) (C03.Model.t_url x) = true ->
  managed (flows_manage_all fs) (flows_endpoints fs)
          (C03.Model.t_method x) (C03.Model.t_url x) = true.
Proof. exact no_bypass_flows_at. Qed.
Print Assumptions C14_no_bypass_flows_exact.

(* the hypotheses of the first-round statements are the stronger ones *)
Theorem C14_old_conditions_imply_new :
  (forall p u, url_ok p u = true -> url_ok_exact p u = true) /\
  (forall fs x f, C03.Spec.kind_consistent fs = true -> In f fs ->
                  C03.SpecLocal.kc_at fs f (C03.Proofs.url_of x) = true).
Proof. split; [exact url_ok_exact_of_url_ok | exact old_hyps_imply_new]. Qed.
Print Assumptions C14_old_conditions_imply_new.

(* ---- the spelling condition is EXACT.  For a pattern that matches the request
        URL (what the engine's selection implies, C03_sound_lax_at / C13_sound)
        the expression registered for it finds the raw subject IF AND ONLY IF
        url_ok_exact holds: outside it the transaction really is not covered by
        that expression.  Proviso: ":::" occurs once in the subject (a URL that
        contains "METHOD:::" itself can be found at the inner position). ---- *)
Theorem C14_found_exactly : forall m p u,
  trim_url p <> [] ->
  matches (parse_pattern (split_url p)) (split_url u) = true ->
  sep_once m u ->
  re_search (format m p) (subject m u) = url_ok_exact p u /\
  re_search (format_any p) (subject m u) = url_ok_exact p u.
Proof.
  intros m p u HP HM HS. split;
    [apply found_iff_ok_exact | apply found_any_iff_ok_exact]; assumption.
Qed.
Print Assumptions C14_found_exactly.

(* in the words of the property, for a configuration of one flow: a transaction
   the engine matches to the flow is managed by the proxy IF AND ONLY IF its URL
   is spelled as url_ok_exact says — the three classes of known-finding hits are
   exactly the bypasses, no more *)
Theorem C14_single_flow_managed_iff : forall f x,
  C03.Model.load_ok [f] = true ->
  In f (C03.Model.get_flow (C03.Proofs.tree_of [f]) x) ->
  trim_url (C03.Model.f_url f) <> [] ->
  sep_once (C03.Model.t_method x) (C03.Model.t_url x) ->
  managed false (flows_endpoints [f]) (C03.Model.t_method x) (C03.Model.t_url x)
  = url_ok_exact (C03.Model.f_url f) (C03.Model.t_url x).
Proof. exact single_flow_exact. Qed.
Print Assumptions C14_single_flow_managed_iff.

(* [sep_once] is decidable: count the positions where ":::" starts *)
Theorem C14_sep_once_decidable : forall m u, sep_onceb m u = true -> sep_once m u.
Proof. exact sep_onceb_spec. Qed.
Print Assumptions C14_sep_once_decidable.

(* ---- policies, through the kind-aware C13_sound: the selected endpoint's
        pattern matches the URL in the kind-aware reading (a wildcard stands for
        parts of its own kind: fix F-C13g in /repo) ---- *)
Theorem C14_cover_policies_kind : forall ds pt m u,
  C13.Model.build ds = Some pt -> C13.Model.kind_consistentb ds = true ->
  policy_selected pt m u ->
  exists d, In d ds /\ C13.Model.d_method d = m /\
            matches_kind (parse_pattern (split_url (C13.Model.d_url d))) (split_url u) = true /\
            In (format m (C13.Model.d_url d)) (policy_endpoints ds) /\
            (url_ok_exact (C13.Model.d_url d) u = true ->
             re_search (format m (C13.Model.d_url d)) (subject m u) = true).
Proof. exact cover_policies_kind. Qed.
Print Assumptions C14_cover_policies_kind.

(* the spelling condition is asked only of the declarations for this method
   whose pattern matches this URL — not of every declaration *)
Theorem C14_no_bypass_policies_exact : forall ds grem gdiag pt m u,
  C13.Model.build ds = Some pt -> C13.Model.kind_consistentb ds = true ->
  policy_selected pt m u ->
  (forall d, In d ds -> C13.Model.d_method d = m ->
             matches_kind (parse_pattern (split_url (C13.Model.d_url d))) (split_url u) = true ->
             url_ok_exact (C13.Model.d_url d) u = true) ->
  managed (policy_manage_all grem gdiag) (policy_endpoints ds) m u = true.
Proof. exact no_bypass_policies_at. Qed.
Print Assumptions C14_no_bypass_policies_exact.

(* ---- literal characters, every pattern.
   Not ending in a wildcard (a "*" elsewhere is a literal character for the
   formatter): exactly the instances, anchored on the right. ---- *)
Theorem C14_exact_nowild : forall m p w,
  ends_wild (split_url p) = false ->
  (re_search (format m p) w = true <->
   exists pre u, w = pre ++ subject m u /\ inst true (split_url p) u).
Proof. exact exact_format_nowild. Qed.
Print Assumptions C14_exact_nowild.

(* Ending in a wildcard: the subject contains "METHOD:::" followed by an instance
   of the parts BEFORE the wildcard (literal parts by exactly their characters,
   parameters by non-empty runs of non-separators); what follows is free — the
   optional group may be empty and the search does not reach the end. *)
Theorem C14_exact_wild : forall m p w,
  ends_wild (split_url p) = true ->
  (re_search (format m p) w = true <->
   exists pre u rest, w = pre ++ subject m u ++ rest /\ inst true (removelast (split_url p)) u).
Proof. exact exact_format_wild. Qed.
Print Assumptions C14_exact_wild.

Theorem C14_exact_any_wild : forall p w,
  ends_wild (split_url p) = true ->
  (re_search (format_any p) w = true <->
   exists pre u rest, w = pre ++ sep3 ++ u ++ rest /\ inst true (removelast (split_url p)) u).
Proof. exact exact_format_any_wild. Qed.
Print Assumptions C14_exact_any_wild.

(* literal parts in front of the wildcard (api.com/v1/[wildcard]): found exactly when the
   subject contains "METHOD:::api.com/v1" *)
Theorem C14_literal_wild : forall m p w,
  ends_wild (split_url p) = true ->
  literal_pattern (removelast (split_url p)) = true ->
  (re_search (format m p) w = true <->
   exists pre rest, w = pre ++ subject m (unsplit true (removelast (split_url p))) ++ rest).
Proof. exact literal_format_wild. Qed.
Print Assumptions C14_literal_wild.

(* ---- the concrete syntax.  The byte string the engine registers (format_bytes =
        what the Go loop writes, compared with the Go string on every run), read
        by the independent reader of the emitted fragment of RE2 syntax, is an
        expression that finds exactly the subjects the model expression finds —
        for ALL methods and URL patterns. ---- *)
Theorem C14_concrete_syntax : forall m p,
  (exists e', parse (format_bytes m p) = Some e' /\
              forall s, re_search e' s = re_search (format m p) s) /\
  (exists e', parse (format_any_bytes p) = Some e' /\
              forall s, re_search e' s = re_search (format_any p) s).
Proof. intros m p. split; [apply read_format | apply read_format_any]. Qed.
Print Assumptions C14_concrete_syntax.

(* reader after printer = identity up to re-association of sequences, on the whole
   fragment (not only on what the formatter builds) *)
Theorem C14_reader_round_trip : forall e,
  emit1 (e_re e) = true ->
  parse (print_expr e) = Some (normal e) /\ forall s, re_search (normal e) s = re_search e s.
Proof. intros e H. split; [apply parse_print; exact H | apply re_search_normal]. Qed.
Print Assumptions C14_reader_round_trip.

(* hence the printed string determines the language: two expressions of the
   fragment with the same concrete syntax find the same subjects *)
Theorem C14_print_determines_language : forall e1 e2,
  emit1 (e_re e1) = true -> emit1 (e_re e2) = true -> print_expr e1 = print_expr e2 ->
  forall s, re_search e1 s = re_search e2 s.
Proof. exact print_determines_language. Qed.
Print Assumptions C14_print_determines_language.

(* ======== open findings: the unrestricted statements are false ======== *)
Definition uf := C03.Model.uf.
Definition rq := C03.Model.rq.

(* F-C14c: the engine trims a trailing "/" (and leading/trailing '.' '/'), the
   expression ends in "$": GET a/x/ selects the flow of a/x and is not managed *)
Definition C14_cover_full : Prop := forall fs x f,
  C03.Model.load_ok fs = true -> C03.Spec.stars_last fs = true ->
  C03.Spec.kind_consistent fs = true ->
  In f (C03.Model.get_flow (C03.Proofs.tree_of fs) x) ->
  managed (flows_manage_all fs) (flows_endpoints fs)
          (C03.Model.t_method x) (C03.Model.t_url x) = true.
Theorem C14_cover_full_refuted : ~ C14_cover_full.
Proof.
  intro H. specialize (H [uf 0 "a/x"] (rq "a/x/") (uf 0 "a/x") eq_refl eq_refl eq_refl).
  assert (E : managed (flows_manage_all [uf 0 "a/x"]) (flows_endpoints [uf 0 "a/x"])
                      (C03.Model.t_method (rq "a/x/")) (C03.Model.t_url (rq "a/x/")) = false)
    by (vm_compute; reflexivity).
  rewrite H in E; [discriminate | vm_compute; left; reflexivity].
Qed.
Print Assumptions C14_cover_full_refuted.

(* F-C14e: a parameter node accepts an EMPTY URL part, "[^/]+" does not:
   GET a//x selects the flow of a/{p}/x and is not managed (the URL is trimmed) *)
Definition C14_cover_trimmed_full : Prop := forall fs x f,
  C03.Model.load_ok fs = true -> C03.Spec.stars_last fs = true ->
  C03.Spec.kind_consistent fs = true ->
  In f (C03.Model.get_flow (C03.Proofs.tree_of fs) x) ->
  trimmed (C03.Model.t_url x) = true ->
  managed (flows_manage_all fs) (flows_endpoints fs)
          (C03.Model.t_method x) (C03.Model.t_url x) = true.
Theorem C14_cover_trimmed_full_refuted : ~ C14_cover_trimmed_full.
Proof.
  intro H. specialize (H [uf 0 "a/{p}/x"] (rq "a//x") (uf 0 "a/{p}/x") eq_refl eq_refl eq_refl).
  assert (E : managed (flows_manage_all [uf 0 "a/{p}/x"]) (flows_endpoints [uf 0 "a/{p}/x"])
                      (C03.Model.t_method (rq "a//x")) (C03.Model.t_url (rq "a//x")) = false)
    by (vm_compute; reflexivity).
  rewrite H in E; [discriminate | vm_compute; left; reflexivity | vm_compute; reflexivity].
Qed.
Print Assumptions C14_cover_trimmed_full_refuted.

(* F-C03c (host label / path segment collision in the trie): with a.b/c loaded
   before a/b/d, GET a.b/d selects the flow of a/b/d; neither expression finds it *)
Definition C14_cover_any_kinds_full : Prop := forall fs x f,
  C03.Model.load_ok fs = true -> C03.Spec.stars_last fs = true ->
  In f (C03.Model.get_flow (C03.Proofs.tree_of fs) x) ->
  url_ok (C03.Model.f_url f) (C03.Model.t_url x) = true ->
  managed (flows_manage_all fs) (flows_endpoints fs)
          (C03.Model.t_method x) (C03.Model.t_url x) = true.
Theorem C14_cover_any_kinds_full_refuted : ~ C14_cover_any_kinds_full.
Proof.
  intro H.
  specialize (H [uf 0 "a.b/c"; uf 1 "a/b/d"] (rq "a.b/d") (uf 1 "a/b/d") eq_refl eq_refl).
  assert (E : managed (flows_manage_all [uf 0 "a.b/c"; uf 1 "a/b/d"])
                      (flows_endpoints [uf 0 "a.b/c"; uf 1 "a/b/d"])
                      (C03.Model.t_method (rq "a.b/d")) (C03.Model.t_url (rq "a.b/d")) = false)
    by (vm_compute; reflexivity).
  rewrite H in E; [discriminate | vm_compute; left; reflexivity | vm_compute; reflexivity].
Qed.
Print Assumptions C14_cover_any_kinds_full_refuted.

(* the same two URL spellings on the policy side *)
Definition pd (m u : string) : C13.Model.decl :=
  {| C13.Model.d_method := bs m; C13.Model.d_url := bs u;
     C13.Model.d_rem := [{| C13.Model.r_name := 1; C13.Model.r_type := 0; C13.Model.r_enabled := true |}];
     C13.Model.d_diag := [] |}.

Definition C14_cover_policies_full : Prop := forall ds pt m u,
  C13.Model.build ds = Some pt -> C13.Model.kind_consistentb ds = true ->
  policy_selected pt m u ->
  managed false (policy_endpoints ds) m u = true.
Theorem C14_cover_policies_full_refuted : ~ C14_cover_policies_full.
Proof.
  intro H.
  destruct (C13.Model.build [pd "GET" "a/x"]) as [pt|] eqn:HB; [|vm_compute in HB; discriminate].
  specialize (H [pd "GET" "a/x"] pt (bs "GET") (bs "a/x/") HB eq_refl).
  assert (E : managed false (policy_endpoints [pd "GET" "a/x"]) (bs "GET") (bs "a/x/") = false)
    by (vm_compute; reflexivity).
  rewrite H in E; [discriminate|].
  left. vm_compute in HB. inversion HB; subst pt. eexists. vm_compute. left. reflexivity.
Qed.
Print Assumptions C14_cover_policies_full_refuted.

(* F-C14e on the policy side: GET a//x selects the remedy of a/{p}/x, not managed *)
Definition C14_cover_policies_trimmed_full : Prop := forall ds pt m u,
  C13.Model.build ds = Some pt -> C13.Model.kind_consistentb ds = true ->
  policy_selected pt m u -> trimmed u = true ->
  managed false (policy_endpoints ds) m u = true.
Theorem C14_cover_policies_trimmed_full_refuted : ~ C14_cover_policies_trimmed_full.
Proof.
  intro H.
  destruct (C13.Model.build [pd "GET" "a/{p}/x"]) as [pt|] eqn:HB; [|vm_compute in HB; discriminate].
  specialize (H [pd "GET" "a/{p}/x"] pt (bs "GET") (bs "a//x") HB eq_refl).
  assert (E : managed false (policy_endpoints [pd "GET" "a/{p}/x"]) (bs "GET") (bs "a//x") = false)
    by (vm_compute; reflexivity).
  rewrite H in E; [discriminate | | vm_compute; reflexivity].
  left. vm_compute in HB. inversion HB; subst pt. eexists. vm_compute. left. reflexivity.
Qed.
Print Assumptions C14_cover_policies_trimmed_full_refuted.

(* F-C13e / F-C14h on the policy side: a.b/c declared before a/b/d, GET a.b/d
   selects the remedy of a/b/d; neither expression finds it *)
Definition pdn (m u : string) (n : Z) : C13.Model.decl :=
  {| C13.Model.d_method := bs m; C13.Model.d_url := bs u;
     C13.Model.d_rem := [{| C13.Model.r_name := n; C13.Model.r_type := 0; C13.Model.r_enabled := true |}];
     C13.Model.d_diag := [] |}.
Definition C14_cover_policies_any_kinds_full : Prop := forall ds pt m u,
  C13.Model.build ds = Some pt ->
  policy_selected pt m u -> (forall d, In d ds -> url_ok (C13.Model.d_url d) u = true) ->
  managed false (policy_endpoints ds) m u = true.
Theorem C14_cover_policies_any_kinds_full_refuted : ~ C14_cover_policies_any_kinds_full.
Proof.
  intro H.
  destruct (C13.Model.build [pdn "GET" "a.b/c" 1; pdn "GET" "a/b/d" 2]) as [pt|] eqn:HB;
    [|vm_compute in HB; discriminate].
  specialize (H [pdn "GET" "a.b/c" 1; pdn "GET" "a/b/d" 2] pt (bs "GET") (bs "a.b/d") HB).
  assert (E : managed false (policy_endpoints [pdn "GET" "a.b/c" 1; pdn "GET" "a/b/d" 2])
                      (bs "GET") (bs "a.b/d") = false) by (vm_compute; reflexivity).
  rewrite H in E; [discriminate | |].
  - left. vm_compute in HB. inversion HB; subst pt. eexists. vm_compute. left. reflexivity.
  - intros d [<-|[<-|[]]]; vm_compute; reflexivity.
Qed.
Print Assumptions C14_cover_policies_any_kinds_full_refuted.

(* ======== non-vacuity ======== *)
Open Scope string_scope.
Definition mf (id : Z) (u : string) (ms : list string) : C03.Model.flow :=
  C03.Model.mkFlow id 0 (bs u) (map bs ms) [] [] [].
Definition tx (m u : string) : C03.Model.txn := mk_txn (bs m) (bs u).

Definition demo : list C03.Model.flow :=
  [ mf 0 "api.com/v1/*" [];
    mf 1 "{tenant}.api.com/v1/users/{user.id}" ["POST"];
    mf 2 "api.com/a+b(1)/$x" ["GET"; "M-SEARCH"];
    mf 3 "files.*" ["GET"] ].

Example C14_demo_hypotheses :
  C03.Model.load_ok demo = true /\ C03.Spec.stars_last demo = true /\
  C03.Spec.kind_consistent demo = true.
Proof. vm_compute. auto. Qed.

Example C14_demo_expressions :
  map print_expr (flows_endpoints demo) =
  [ bs ".*:::api\.com/v1(/.*)?";
    bs "POST:::[^/.]+\.api\.com/v1/users/[^/]+$";
    bs "GET:::api\.com/a\+b\(1\)/\$x$";
    bs "M-SEARCH:::api\.com/a\+b\(1\)/\$x$";
    bs "GET:::files([./].*)?" ].
Proof. vm_compute. reflexivity. Qed.

(* selected by the engine, side condition met, managed — and the unselected
   neighbours (one literal character changed, other verb) are not managed *)
Example C14_demo_covered :
  map C03.Model.f_id (C03.Model.get_flow (C03.Proofs.tree_of demo) (tx "POST" "eu.api.com/v1/users/7")) = [1]
  /\ url_ok (bs "{tenant}.api.com/v1/users/{user.id}") (bs "eu.api.com/v1/users/7") = true
  /\ managed false (flows_endpoints demo) (bs "POST") (bs "eu.api.com/v1/users/7") = true
  /\ map C03.Model.f_id (C03.Model.get_flow (C03.Proofs.tree_of demo) (tx "GET" "api.com/a+b(1)/$x")) = [2]
  /\ managed false (flows_endpoints demo) (bs "GET") (bs "api.com/a+b(1)/$x") = true
  /\ managed false (flows_endpoints demo) (bs "GET") (bs "api.com/aab(1)/$x") = false
  /\ managed false (flows_endpoints demo) (bs "PUT") (bs "api.com/a+b(1)/$x") = false
  /\ map C03.Model.f_id (C03.Model.get_flow (C03.Proofs.tree_of demo) (tx "HEAD" "api.com/v1/x")) = [0]
  /\ managed false (flows_endpoints demo) (bs "HEAD") (bs "api.com/v1/x") = true
  /\ map C03.Model.f_id (C03.Model.get_flow (C03.Proofs.tree_of demo) (tx "GET" "files.example.org/x")) = [3]
  /\ managed false (flows_endpoints demo) (bs "GET") (bs "files.example.org/x") = true.
Proof. vm_compute. repeat split; reflexivity. Qed.

Example C14_demo_literal :
  literal_pattern (split_url (bs "api.com/a+b(1)/$x")) = true /\
  wild_free (split_url (bs "{tenant}.api.com/v1/users/{user.id}")) = true.
Proof. vm_compute. auto. Qed.

Example C14_demo_policies :
  exists pt, C13.Model.build [pd "GET" "a.com/x/{id}"; pd "POST" "a.com/x/*"] = Some pt /\
    C13.Model.kind_consistentb [pd "GET" "a.com/x/{id}"; pd "POST" "a.com/x/*"] = true /\
    policy_selected pt (bs "GET") (bs "a.com/x/7") /\
    url_ok (bs "a.com/x/{id}") (bs "a.com/x/7") = true /\
    managed false (policy_endpoints [pd "GET" "a.com/x/{id}"; pd "POST" "a.com/x/*"]) (bs "GET") (bs "a.com/x/7") = true.
Proof.
  destruct (C13.Model.build [pd "GET" "a.com/x/{id}"; pd "POST" "a.com/x/*"]) as [pt|] eqn:HB;
    [|vm_compute in HB; discriminate].
  exists pt. split; [reflexivity|]. split; [vm_compute; reflexivity|].
  split; [|split; vm_compute; reflexivity].
  left. vm_compute in HB. inversion HB; subst pt. eexists. vm_compute. left. reflexivity.
Qed.

(* ---- the narrower hypotheses admit what the first-round ones excluded ---- *)

(* api.com/v1/x/ under api.com/v1/[wildcard] (the most common shape): url_ok = false,
   url_ok_exact = true, selected and managed; a/x. under a/{p}: the dots are
   absorbed; a/x/ under a/{p} and a.x. under a.{p}: real bypasses, class 1 *)
Example C14_demo_exact_spelling :
  url_ok (bs "api.com/v1/*") (bs "api.com/v1/x/") = false
  /\ url_ok_exact (bs "api.com/v1/*") (bs "api.com/v1/x/") = true
  /\ map C03.Model.f_id (C03.Model.get_flow (C03.Proofs.tree_of demo) (tx "HEAD" "api.com/v1/x/")) = [0]
  /\ managed false (flows_endpoints demo) (bs "HEAD") (bs "api.com/v1/x/") = true
  /\ url_ok_exact (bs "a/{p}") (bs "a/x.") = true
  /\ re_search (format (bs "GET") (bs "a/{p}")) (subject (bs "GET") (bs "a/x.")) = true
  /\ bypass_class (bs "a/{p}") (bs "a/x/") = 1
  /\ re_search (format (bs "GET") (bs "a/{p}")) (subject (bs "GET") (bs "a/x/")) = false
  /\ bypass_class (bs "a.{p}") (bs "a.x.") = 1
  /\ bypass_class (bs "a/*") (bs "/a/x") = 1
  /\ bypass_class (bs "*") (bs "/a/x") = 0
  /\ bypass_class (bs "a/{p}/x") (bs "a//x") = 2
  /\ sep_onceb (bs "GET") (bs "api.com:8080/v1/x/") = true
  /\ sep_onceb (bs "GET") (bs "a//GET:::a/b") = false.
Proof. vm_compute. repeat split; reflexivity. Qed.

(* one colliding pair does not void the guarantee for the other flows: the
   config-wide condition fails, the localised one holds for z.com/x *)
Definition demo_clash : list C03.Model.flow :=
  [ mf 0 "a.b/c" []; mf 1 "a/b/d" []; mf 2 "z.com/x" [] ].
Example C14_demo_localised_collision :
  C03.Model.load_ok demo_clash = true
  /\ C03.Spec.kind_consistent demo_clash = false
  /\ C03.SpecLocal.kc_at demo_clash (mf 2 "z.com/x" []) (C03.Proofs.url_of (tx "GET" "z.com/x")) = true
  /\ map C03.Model.f_id (C03.Model.get_flow (C03.Proofs.tree_of demo_clash) (tx "GET" "z.com/x")) = [2]
  /\ managed false (flows_endpoints demo_clash) (bs "GET") (bs "z.com/x") = true
  /\ C03.SpecLocal.kc_at demo_clash (mf 1 "a/b/d" []) (C03.Proofs.url_of (tx "GET" "a.b/d")) = false.
Proof. vm_compute. repeat split; reflexivity. Qed.

(* the reader: what it reads, what it refuses *)
Example C14_demo_reader :
  parse (bs "GET:::api\.com/v1(/.*)?") = Some (normal (format (bs "GET") (bs "api.com/v1/*")))
  /\ parse (bs "POST:::[^/.]+\.api\.com/v1/users/[^/]+$")
      = Some (normal (format (bs "POST") (bs "{tenant}.api.com/v1/users/{user.id}")))
  /\ parse (bs ".*:::files([./].*)?") = Some (normal (format_any (bs "files.*")))
  /\ parse (bs "a|b") = None /\ parse (bs "a{2}") = None /\ parse (bs "^a") = None
  /\ parse (bs "a$b") = None /\ parse (bs "((a))") = None /\ parse (bs "a**") = None
  /\ parse (bs "[a-z]") = None /\ parse (bs "\d") = None /\ parse (bs "(a") = None.
Proof. vm_compute. repeat split; reflexivity. Qed.

(* hypotheses of C14_single_flow_managed_iff, both outcomes *)
Example C14_demo_single_flow :
  let f := mf 0 "a.com/{p}" ["GET"] in
  C03.Model.load_ok [f] = true
  /\ map C03.Model.f_id (C03.Model.get_flow (C03.Proofs.tree_of [f]) (tx "GET" "a.com/x/")) = [0]
  /\ map C03.Model.f_id (C03.Model.get_flow (C03.Proofs.tree_of [f]) (tx "GET" "a.com/x.")) = [0]
  /\ trim_url (C03.Model.f_url f) <> []
  /\ sep_onceb (bs "GET") (bs "a.com/x/") = true
  /\ managed false (flows_endpoints [f]) (bs "GET") (bs "a.com/x/") = false
  /\ url_ok_exact (bs "a.com/{p}") (bs "a.com/x/") = false
  /\ managed false (flows_endpoints [f]) (bs "GET") (bs "a.com/x.") = true
  /\ url_ok_exact (bs "a.com/{p}") (bs "a.com/x.") = true.
Proof. vm_compute. repeat split; try reflexivity. discriminate. Qed.

(* hypotheses of C14_found_exactly and of C14_exact_wild / C14_literal_wild *)
Example C14_demo_found_exactly_hypotheses :
  trim_url (bs "a.com/{p}") <> []
  /\ matches (parse_pattern (split_url (bs "a.com/{p}"))) (split_url (bs "a.com/x/")) = true
  /\ sep_onceb (bs "GET") (bs "a.com/x/") = true
  /\ ends_wild (split_url (bs "api.com/v1/*")) = true
  /\ literal_pattern (removelast (split_url (bs "api.com/v1/*"))) = true
  /\ unsplit true (removelast (split_url (bs "api.com/v1/*"))) = bs "api.com/v1"
  /\ re_search (format (bs "GET") (bs "api.com/v1/*")) (bs "xGET:::api.com/v1.2/y") = true
  /\ re_search (format (bs "GET") (bs "api.com/v1/*")) (bs "GET:::api.com/v2/y") = false
  /\ ends_wild (split_url (bs "h.com/*/y")) = false.
Proof. vm_compute. repeat split; try reflexivity. discriminate. Qed.

(* ================================================================
   Configuration histories: loads, reloads, delayed un-management
   ================================================================ *)

(* ---- after ANY history of loads (flows or policies, delayed or immediate
        un-management) and of un-management goroutines running in any order and
        at any time, the proxy holds what the configuration in force registers:
        proc.manage_all when it manages all, every one of its expressions
        otherwise.  (The code with repairs F-C14i + F-C14j.) ---- *)
Theorem C14_managed_after_reloads : forall ops, managed_ok (run Recheck ops init) = true.
Proof. exact managed_after_reloads. Qed.
Print Assumptions C14_managed_after_reloads.

(* ---- composed with the coverage statements: after any configuration history,
        a transaction the engine in force selects a flow for is managed by the
        proxy's CURRENT state (same side conditions as C14_no_bypass_flows_exact) ---- *)
Theorem C14_no_bypass_flows_after_reloads : forall ops fs x f,
  s_cur (run Recheck ops init) = Some (flows_req fs) ->
  C03.Model.load_ok fs = true ->
  In f (C03.Model.get_flow (C03.Proofs.tree_of fs) x) ->
  C03.SpecLocal.kc_at fs f (C03.Proofs.url_of x) = true ->
  url_ok_exact (C03.Model.f_url f) (C03.Model.t_url x) = true ->
  proxy_managed (s_px (run Recheck ops init)) (C03.Model.t_method x) (C03.Model.t_url x) = true.
Proof. exact no_bypass_flows_after_reloads. Qed.
Print Assumptions C14_no_bypass_flows_after_reloads.

Theorem C14_no_bypass_policies_after_reloads : forall ops ds grem gdiag pt m u,
  s_cur (run Recheck ops init) = Some (policy_req ds grem gdiag) ->
  C13.Model.build ds = Some pt -> C13.Model.kind_consistentb ds = true ->
  policy_selected pt m u ->
  (forall d, In d ds -> C13.Model.d_method d = m ->
             matches_kind (parse_pattern (split_url (C13.Model.d_url d))) (split_url u) = true ->
             url_ok_exact (C13.Model.d_url d) u = true) ->
  proxy_managed (s_px (run Recheck ops init)) m u = true.
Proof. exact no_bypass_policies_after_reloads. Qed.
Print Assumptions C14_no_bypass_policies_after_reloads.

Theorem C14_globals_managed_after_reloads : forall ops ds grem gdiag m u,
  s_cur (run Recheck ops init) = Some (policy_req ds grem gdiag) ->
  policy_manage_all grem gdiag = true ->
  proxy_managed (s_px (run Recheck ops init)) m u = true.
Proof. exact globals_managed_after_reloads. Qed.
Print Assumptions C14_globals_managed_after_reloads.

(* ---- what the repair must NOT change: stale expressions still leave the map.
        After any history every key of endpoints.map is registered by the
        configuration in force or is awaited by a pending un-management ---- *)
Theorem C14_stale_expressions_unmanaged : forall ops, no_leak (run Recheck ops init) = true.
Proof. exact no_leak_after_reloads. Qed.
Print Assumptions C14_stale_expressions_unmanaged.

(* ---- ... and they DO leave it: after any history whose clock steps are not
        negative, once the clock has moved by staleVersionTTL (or more) no
        un-management is pending, every key of endpoints.map is an expression of
        the configuration in force, and when that configuration does not manage
        all the keys are EXACTLY its expressions.  (A negative clock step would
        postpone a pending job beyond now + TTL: C14_demo_unmanaged_after_ttl;
        suite reload refuses a case that carries one.) ---- *)
Theorem C14_unmanaged_after_ttl : forall ops d,
  Forall nonneg_op ops -> ttl <= d ->
  let s := run Recheck (ops ++ [Advance d]) init in
  s_pend s = [] /\
  (forall k, In k (p_map (s_px s)) -> In k (cur_eps (s_cur s))) /\
  (forall c, s_cur s = Some c -> q_all c = false ->
             forall k, In k (p_map (s_px s)) <-> In k (q_eps c)).
Proof. exact drained_after_ttl. Qed.
Print Assumptions C14_unmanaged_after_ttl.

(* ---- the code before repair F-C14i: the expressions to un-manage are found
        with lo.Difference over POINTERS to freshly built objects = all the
        previous ones.  Load A; load A again; the delayed un-management runs:
        nothing of A is managed any more. ---- *)
Definition C14_managed_after_reloads_by_pointer_full : Prop :=
  forall ops, managed_ok (run ByPointer ops init) = true.
Theorem C14_managed_after_reloads_by_pointer_full_refuted : ~ C14_managed_after_reloads_by_pointer_full.
Proof.
  intro H.
  specialize (H [Load Flows (flows_req [uf 0 "a/x"]); Load Flows (flows_req [uf 0 "a/x"]); Tick 0]).
  vm_compute in H. discriminate.
Qed.
Print Assumptions C14_managed_after_reloads_by_pointer_full_refuted.

(* ---- repair F-C14i alone (comparison by expression, no re-check when the
        goroutine runs): A, B, A inside one TTL — the un-management computed by
        the reload A->B runs after the reload B->A registered A's expressions
        again (finding F-C14j, repaired) ---- *)
Definition C14_managed_after_reloads_without_recheck_full : Prop :=
  forall ops, managed_ok (run ByExpr ops init) = true.
Theorem C14_managed_after_reloads_without_recheck_full_refuted :
  ~ C14_managed_after_reloads_without_recheck_full.
Proof.
  intro H.
  specialize (H [Load Flows (flows_req [uf 0 "a/x"]); Load Flows (flows_req [uf 0 "b/y"]);
                 Load Flows (flows_req [uf 0 "a/x"]); Tick 0]).
  vm_compute in H. discriminate.
Qed.
Print Assumptions C14_managed_after_reloads_without_recheck_full_refuted.

(* what it does guarantee: histories in which every reload finds no
   un-management pending (reloads further apart than staleVersionTTL) *)
Theorem C14_managed_after_spaced_reloads_without_recheck : forall ops,
  spaced ByExpr ops init = true -> managed_ok (run ByExpr ops init) = true.
Proof. exact managed_after_spaced_reloads. Qed.
Print Assumptions C14_managed_after_spaced_reloads_without_recheck.

(* ---- non-vacuity: a history with reloads in quick succession, a manage-all
        configuration coming and going, jobs running out of order; the
        configuration in force is [demo]; its transactions are managed by the
        proxy's state; the stale expressions are gone once the jobs have run ---- *)
Definition demo_b : list C03.Model.flow := [ mf 0 "api.com/v1/*" []; mf 1 "b.org/y" ["GET"] ].
Definition demo_history : list op :=
  [ Load Flows (flows_req demo); Load Flows (flows_req demo_b);
    Advance 10000000000; Load Flows (flows_req demo); Tick 0; Advance 25000000000;
    Load Flows (flows_req demo_b); Load Flows (flows_req demo); Tick 1 ].

Example C14_demo_history :
  s_cur (run Recheck demo_history init) = Some (flows_req demo)
  /\ List.length (s_pend (run Recheck demo_history init)) = 2%nat
  /\ p_all (s_px (run Recheck demo_history init)) = false
  /\ proxy_managed (s_px (run Recheck demo_history init)) (bs "POST") (bs "eu.api.com/v1/users/7") = true
  /\ proxy_managed (s_px (run Recheck demo_history init)) (bs "GET") (bs "files.example.org/x") = true
  /\ proxy_managed (s_px (run Recheck demo_history init)) (bs "GET") (bs "other.org/x") = false
  /\ managed_ok (run ByPointer demo_history init) = false
  /\ managed_ok (run ByExpr demo_history init) = false
  /\ spaced ByExpr demo_history init = false.
Proof. vm_compute. repeat split; reflexivity. Qed.

(* policies: an enabled global remedy going and coming back inside one TTL; the
   delayed unmanage_global of the first reload must not unset what the second
   one set (immediate un-management in between) *)
Definition g_on : list C13.Model.remedy :=
  [{| C13.Model.r_name := 0; C13.Model.r_type := 0; C13.Model.r_enabled := true |}].
Definition demo_policy_history : list op :=
  [ Load Flows (policy_req [pd "GET" "a.com/x"] g_on []);
    Load (Policies false) (policy_req [pd "GET" "a.com/x"; pd "POST" "b.org/*"] [] []);
    Load (Policies true) (policy_req [pd "POST" "b.org/*"] g_on []);
    Tick 0 ].
Example C14_demo_policy_history :
  s_cur (run Recheck demo_policy_history init) = Some (policy_req [pd "POST" "b.org/*"] g_on [])
  /\ p_all (s_px (run Recheck demo_policy_history init)) = true
  /\ s_pend (run Recheck demo_policy_history init) = []
  /\ proxy_managed (s_px (run Recheck demo_policy_history init)) (bs "GET") (bs "any.where/at/all") = true
  /\ p_all (s_px (run ByExpr demo_policy_history init)) = false
  /\ managed_ok (run ByExpr demo_policy_history init) = false.
Proof. vm_compute. repeat split; reflexivity. Qed.

(* the NON-manage-all case of C14_no_bypass_policies_after_reloads: a global
   remedy is dropped by a reload (delayed un-management) that keeps the endpoint.
   Under manage-all the endpoint's expression was never PUT; the second load PUTs
   it; after the TTL the unmanage_global job has run: proc.manage_all is off, one
   key, the endpoint's transaction is managed by that key and another is not.
   All hypotheses of the theorem hold for it. *)
Definition demo_policy_history_no_all : list op :=
  [ Load Flows (policy_req [pd "GET" "a.com/x"] g_on []);
    Load (Policies false) (policy_req [pd "GET" "a.com/x"] [] []);
    Advance ttl ].
Example C14_demo_policy_history_no_all :
  s_cur (run Recheck demo_policy_history_no_all init) = Some (policy_req [pd "GET" "a.com/x"] [] [])
  /\ policy_manage_all [] [] = false
  /\ p_all (s_px (run Recheck [Load Flows (policy_req [pd "GET" "a.com/x"] g_on [])] init)) = true
  /\ p_map (s_px (run Recheck [Load Flows (policy_req [pd "GET" "a.com/x"] g_on [])] init)) = []
  /\ p_all (s_px (run Recheck demo_policy_history_no_all init)) = false
  /\ List.length (p_map (s_px (run Recheck demo_policy_history_no_all init))) = 1%nat
  /\ s_pend (run Recheck demo_policy_history_no_all init) = []
  /\ (exists pt, C13.Model.build [pd "GET" "a.com/x"] = Some pt)
  /\ C13.Model.kind_consistentb [pd "GET" "a.com/x"] = true
  /\ url_ok_exact (bs "a.com/x") (bs "a.com/x") = true
  /\ proxy_managed (s_px (run Recheck demo_policy_history_no_all init)) (bs "GET") (bs "a.com/x") = true
  /\ proxy_managed (s_px (run Recheck demo_policy_history_no_all init)) (bs "GET") (bs "a.com/y") = false.
Proof. vm_compute. repeat split; try reflexivity. eexists; reflexivity. Qed.

(* hypotheses of C14_unmanaged_after_ttl: the clock steps of demo_history are not
   negative; with a negative step in between, the job scheduled at 0 + TTL is
   still pending after a later step of exactly the TTL (the premise is needed) *)
Example C14_demo_unmanaged_after_ttl :
  Forall nonneg_op demo_history
  /\ s_pend (run Recheck (demo_history ++ [Advance ttl]) init) = []
  /\ strs_same (p_map (s_px (run Recheck (demo_history ++ [Advance ttl]) init)))
                (q_eps (flows_req demo)) = true
  /\ List.length (s_pend (run Recheck [Load Flows (flows_req demo); Load Flows (flows_req demo_b);
                                       Advance (-5); Advance ttl] init)) = 1%nat.
Proof.
  split; [repeat constructor; cbn; discriminate |].
  vm_compute. repeat split; reflexivity.
Qed.

(* the same on the smallest history, with the instant before (the general
   statement is C14_unmanaged_after_ttl): A, then B, TTL elapses: exactly B's
   expressions are left; at TTL-1ns A's are still there (transactions in flight) *)
Example C14_demo_unmanage_effective :
  strs_same (p_map (s_px (run Recheck [Load Flows (flows_req demo); Load Flows (flows_req demo_b);
                                      Advance ttl] init)))
            (q_eps (flows_req demo_b)) = true
  /\ strs_same (p_map (s_px (run Recheck [Load Flows (flows_req demo); Load Flows (flows_req demo_b);
                                         Advance (ttl - 1)] init)))
               (q_eps (flows_req demo) ++ q_eps (flows_req demo_b)) = true
  /\ spaced ByExpr [Load Flows (flows_req demo); Advance ttl; Load Flows (flows_req demo_b); Tick 0;
                    Load Flows (flows_req demo)] init = true.
Proof. vm_compute. repeat split; reflexivity. Qed.

(* ==================================================================== *)
(* Reloads that change what a flow's processors REQUIRE                  *)
(* (C14.ReloadReq: a registration = expression + {body, request capture}) *)

(* ---- requirements are irrelevant to who is managed: the history with
        requirements (comparison of registrations BY EXPRESSION = the code),
        requirements forgotten, is the history of C14.Reload — same clock, same
        proxy state, same pending un-managements, for ALL histories ---- *)
Theorem C14_requirements_irrelevant : forall ops,
  erase_state (qrun SameExpr ops rinit) = run Recheck (map erase_op ops) init.
Proof. intros ops. exact (qrun_erase ops rinit). Qed.
Print Assumptions C14_requirements_irrelevant.

(* ---- hence, whatever the requirements of the flows loaded and however they
        change from one reload to the next: after any history the proxy holds
        what the configuration in force registers ---- *)
Theorem C14_managed_after_reloads_any_requirements : forall ops,
  managed_ok (erase_state (qrun SameExpr ops rinit)) = true.
Proof. intros ops. rewrite C14_requirements_irrelevant. apply C14_managed_after_reloads. Qed.
Print Assumptions C14_managed_after_reloads_any_requirements.

Theorem C14_no_bypass_flows_after_reloads_any_requirements : forall ops frs x f,
  r_cur (qrun SameExpr ops rinit) = Some (flows_rreq frs) ->
  C03.Model.load_ok (map fst frs) = true ->
  In f (C03.Model.get_flow (C03.Proofs.tree_of (map fst frs)) x) ->
  C03.SpecLocal.kc_at (map fst frs) f (C03.Proofs.url_of x) = true ->
  url_ok_exact (C03.Model.f_url f) (C03.Model.t_url x) = true ->
  proxy_managed (r_px (qrun SameExpr ops rinit)) (C03.Model.t_method x) (C03.Model.t_url x) = true.
Proof.
  intros ops frs x f Hcur Hload Hsel Hkc Hok.
  change (r_px (qrun SameExpr ops rinit)) with (s_px (erase_state (qrun SameExpr ops rinit))).
  rewrite C14_requirements_irrelevant.
  apply C14_no_bypass_flows_after_reloads with (fs := map fst frs) (f := f); try assumption.
  rewrite <- C14_requirements_irrelevant. cbn [erase_state s_cur]. rewrite Hcur.
  cbn [option_map]. rewrite flows_rreq_erase. reflexivity.
Qed.
Print Assumptions C14_no_bypass_flows_after_reloads_any_requirements.

Theorem C14_stale_expressions_unmanaged_any_requirements : forall ops,
  no_leak (erase_state (qrun SameExpr ops rinit)) = true.
Proof. intros ops. rewrite C14_requirements_irrelevant. apply C14_stale_expressions_unmanaged. Qed.
Print Assumptions C14_stale_expressions_unmanaged_any_requirements.

(* ---- the suite's run function: [run_reload2] (what ./check evaluates on every
        case of suite reload) threads the states of [qrun SameExpr]: a case it
        accepts shows, after each of its steps, the proxy state of
        [run Recheck] after the history those steps denote (ops_of: a refused
        load denotes no operation; the first policy load is BuildInitialFromFile)
        with the requirements forgotten.  So the theorems above are about the
        function the implementation is compared with. ---- *)
Theorem C14_accepted_reload_case_is_a_run : forall k n o ok all keys,
  run_reload2 k = None ->
  nth_error k n = Some (o, (ok, all, keys)) ->
  let ops := ops_of SameExpr rinit (map fst (firstn (S n) k)) in
  let s := run Recheck (map erase_op ops) init in
  p_all (s_px s) = all /\ strs_same (p_map (s_px s)) keys = true.
Proof. exact accepted_reload_case_is_a_run. Qed.
Print Assumptions C14_accepted_reload_case_is_a_run.

(* an accepted case also has no negative clock step (the premise of
   C14_unmanaged_after_ttl is enforced by the suite) *)
Theorem C14_accepted_reload_case_clock_steps_nonneg : forall k,
  run_reload2 k = None -> neg_adv2 k = false.
Proof. intros k H. exact (proj1 (run_reload2_with_none SameExpr k H)). Qed.
Print Assumptions C14_accepted_reload_case_clock_steps_nonneg.

(* non-vacuity: a three-step case that is accepted; the history it denotes; the
   same case with a wrong observation, and with a negative clock step, is not *)
Definition ft (id : Z) (u : string) (ms : list string) : flow_t := (id, bs u, map bs ms).
Definition demo_case : case_reload2 :=
  [ (R2LoadF [(ft 0 "a.com/x" ["GET"], (true, false))],
     (true, false, q_eps (flows_req [mf 0 "a.com/x" ["GET"]])));
    (R2LoadF [(ft 0 "b.org/y" ["GET"], (false, false))],
     (true, false, q_eps (flows_req [mf 0 "a.com/x" ["GET"]; mf 1 "b.org/y" ["GET"]])));
    (R2Advance ttl, (false, false, q_eps (flows_req [mf 0 "b.org/y" ["GET"]]))) ].
Example C14_demo_accepted_case :
  run_reload2 demo_case = None
  /\ ops_of SameExpr rinit (map fst demo_case)
     = [ QLoad Flows (flows_rreq [(mf 0 "a.com/x" ["GET"], (true, false))]);
         QLoad Flows (flows_rreq [(mf 0 "b.org/y" ["GET"], (false, false))]); QAdvance ttl ]
  /\ run_reload2 (app demo_case [(R2Advance 1, (false, false, []))]) <> None
  /\ run_reload2 (app demo_case [(R2Advance (-1), (false, false, q_eps (flows_req [mf 0 "b.org/y" ["GET"]])))])
     = Some [].
Proof. vm_compute. repeat split; try reflexivity. discriminate. Qed.

(* ---- registrations compared "by value" (same expression AND same
        requirements; seeded change C14-9): a reload that keeps the filter and only
        drops the body-reading processor schedules the old registration for
        un-management, the re-check does not protect it (other requirements =
        another registration), DELETE /managed_endpoint removes the expression
        the configuration in force has just registered ---- *)
Definition C14_managed_after_reloads_same_requirements_full : Prop :=
  forall ops, managed_ok (erase_state (qrun SameExprReq ops rinit)) = true.
Theorem C14_managed_after_reloads_same_requirements_full_refuted :
  ~ C14_managed_after_reloads_same_requirements_full.
Proof.
  intro H.
  specialize (H [QLoad Flows (flows_rreq [(mf 0 "api.demo.com/orders/{id}" ["GET"], (true, false))]);
                 QLoad Flows (flows_rreq [(mf 0 "api.demo.com/orders/{id}" ["GET"], (false, false))]);
                 QAdvance ttl]).
  vm_compute in H. discriminate.
Qed.
Print Assumptions C14_managed_after_reloads_same_requirements_full_refuted.

(* non-vacuity: the same history under the code's comparison — the filter stays
   managed, nothing was scheduled; with a filter leaving at the same reload its
   expression (and only it) is un-managed at the TTL; under "by value" the
   transaction of the flow in force is not managed any more *)
Definition req_a : list (C03.Model.flow * (bool * bool)) :=
  [ (mf 0 "api.demo.com/orders/{id}" ["GET"], (true, false)); (mf 1 "b.org/y" ["GET"], (false, true)) ].
Definition req_b : list (C03.Model.flow * (bool * bool)) :=
  [ (mf 0 "api.demo.com/orders/{id}" ["GET"], (false, false)) ].
Definition req_history : list rqop :=
  [ QLoad Flows (flows_rreq req_a); QLoad Flows (flows_rreq req_b); QAdvance ttl ].
Example C14_demo_requirements :
  r_cur (qrun SameExpr req_history rinit) = Some (flows_rreq req_b)
  /\ rq_eps (flows_rreq req_a) <> rq_eps (flows_rreq req_b)
  /\ strs_same (p_map (r_px (qrun SameExpr req_history rinit))) (q_eps (erase (flows_rreq req_b))) = true
  /\ proxy_managed (r_px (qrun SameExpr req_history rinit)) (bs "GET") (bs "api.demo.com/orders/1017") = true
  /\ proxy_managed (r_px (qrun SameExpr req_history rinit)) (bs "GET") (bs "b.org/y") = false
  /\ r_pend (qrun SameExpr req_history rinit) = []
  /\ p_map (r_px (qrun SameExprReq req_history rinit)) = []
  /\ proxy_managed (r_px (qrun SameExprReq req_history rinit)) (bs "GET") (bs "api.demo.com/orders/1017") = false.
Proof. vm_compute. repeat split; try reflexivity. discriminate. Qed.

(* ======================================================================
   The request host may name a PORT (Port.v).  txn.host is the Host /
   x-lunar-host header as sent; the engine's reading of "name:digits" is a
   parameter (AsSent = the code; HostNameFallback = look the URL up again
   without the port when the tree finds nothing for it, seeded change C14-12);
   the registered expressions come from the declared URL in both.
   ====================================================================== *)

(* the code: every request URL, port or not, declared with a port or not.
   NOTE: get_flow_v AsSent is C03.Model.get_flow by definition
   (Port.get_flow_as_sent, reflexivity), so this is C14_cover_flows_exact +
   C14_no_bypass_flows_exact VERBATIM — those already quantify over all request
   URL byte strings; it adds no content and is kept as the "code" row next to the
   refuted HostNameFallback row. *)
Theorem C14_no_bypass_flows_any_request_host : forall fs x f,
  C03.Model.load_ok fs = true ->
  In f (get_flow_v AsSent (C03.Proofs.tree_of fs) x) ->
  C03.SpecLocal.kc_at fs f (C03.Proofs.url_of x) = true ->
  url_ok_exact (C03.Model.f_url f) (C03.Model.t_url x) = true ->
  In f fs /\
  (exists e, In e (flow_endpoints f) /\
             re_search e (subject (C03.Model.t_method x) (C03.Model.t_url x)) = true) /\
  managed (flows_manage_all fs) (flows_endpoints fs)
          (C03.Model.t_method x) (C03.Model.t_url x) = true.
Proof.
  intros fs x f HL HI HK HU. rewrite get_flow_as_sent in HI.
  destruct (C14_cover_flows_exact fs x f HL HI HK HU) as [HF HE].
  split; [exact HF|]. split; [exact HE|].
  exact (C14_no_bypass_flows_exact fs x f HL HI HK HU).
Qed.
Print Assumptions C14_no_bypass_flows_any_request_host.

(* the full statement under the fallback reading: refuted.  Filter
   api.acme.com/v1/orders [GET], request GET api.acme.com:8443/v1/orders: the tree
   finds nothing for the URL as sent, the port-less URL selects the flow, the
   registered expression GET:::api\.acme\.com/v1/orders$ does not find the subject *)
Definition C14_no_bypass_flows_host_name_fallback_full : Prop := forall fs x f,
  C03.Model.load_ok fs = true ->
  In f (get_flow_v HostNameFallback (C03.Proofs.tree_of fs) x) ->
  C03.SpecLocal.kc_at fs f (C03.Proofs.url_of x) = true ->
  url_ok_exact (C03.Model.f_url f) (C03.Model.t_url x) = true ->
  managed (flows_manage_all fs) (flows_endpoints fs)
          (C03.Model.t_method x) (C03.Model.t_url x) = true.
Theorem C14_no_bypass_flows_host_name_fallback_full_refuted :
  ~ C14_no_bypass_flows_host_name_fallback_full.
Proof.
  intro H.
  specialize (H [mf 0 "api.acme.com/v1/orders" ["GET"]] (tx "GET" "api.acme.com:8443/v1/orders")
                (mf 0 "api.acme.com/v1/orders" ["GET"]) eq_refl).
  assert (E : managed (flows_manage_all [mf 0 "api.acme.com/v1/orders" ["GET"]])
                      (flows_endpoints [mf 0 "api.acme.com/v1/orders" ["GET"]])
                      (C03.Model.t_method (tx "GET" "api.acme.com:8443/v1/orders"))
                      (C03.Model.t_url (tx "GET" "api.acme.com:8443/v1/orders")) = false)
    by (vm_compute; reflexivity).
  rewrite H in E; [discriminate | vm_compute; left; reflexivity
                   | vm_compute; reflexivity | vm_compute; reflexivity].
Qed.
Print Assumptions C14_no_bypass_flows_host_name_fallback_full_refuted.

(* what the fallback reading keeps: the requests whose host names no port
   (names_port: decidable; the monitor files an unmanaged selection under
   bypass:host-port when the request host ends in :digits - after the LAST colon,
   so that a bracketed IPv6 literal with a port counts too - and the same request
   without the port is managed), and every selection the tree makes for the URL
   as sent *)
Theorem C14_no_bypass_flows_holds_outside_host_port : forall fs x f,
  C03.Model.load_ok fs = true ->
  names_port (C03.Model.t_url x) = false ->
  In f (get_flow_v HostNameFallback (C03.Proofs.tree_of fs) x) ->
  C03.SpecLocal.kc_at fs f (C03.Proofs.url_of x) = true ->
  url_ok_exact (C03.Model.f_url f) (C03.Model.t_url x) = true ->
  managed (flows_manage_all fs) (flows_endpoints fs)
          (C03.Model.t_method x) (C03.Model.t_url x) = true.
Proof.
  intros fs x f HL HP HI HK HU. rewrite (get_flow_fallback_no_port _ _ HP) in HI.
  exact (C14_no_bypass_flows_exact fs x f HL HI HK HU).
Qed.
Print Assumptions C14_no_bypass_flows_holds_outside_host_port.

Theorem C14_host_name_fallback_only_adds : forall t x f,
  In f (C03.Model.get_flow t x) -> In f (get_flow_v HostNameFallback t x).
Proof. exact get_flow_fallback_found_as_sent. Qed.
Print Assumptions C14_host_name_fallback_only_adds.

(* non-vacuity, on the modelled code (AsSent): a filter declared WITH a port
   selects and manages the request that names that port and nothing else; a filter
   declared without one does not select a request that names a port (so nothing
   is demanded), except through a wildcard, whose expression is open on the right;
   strip_port reads name:digits only *)
Definition demo_ports : list C03.Model.flow :=
  [ mf 0 "acme.com:8080/{id}" ["GET"]; mf 1 "api.acme.com/v1/orders" ["GET"];
    mf 2 "{tenant}.acme.org:443/v1" []; mf 3 "files.acme.net/*" ["GET"] ].
Definition sel (v : host_reading) (m u : string) : list Z :=
  map C03.Model.f_id (get_flow_v v (C03.Proofs.tree_of demo_ports) (tx m u)).
Example C14_demo_ports :
  C03.Model.load_ok demo_ports = true
  /\ sel AsSent "GET" "acme.com:8080/7" = [0]
  /\ managed false (flows_endpoints demo_ports) (bs "GET") (bs "acme.com:8080/7") = true
  /\ sel AsSent "GET" "acme.com/7" = [] /\ sel AsSent "GET" "acme.com:80800/7" = []
  /\ sel AsSent "HEAD" "eu.acme.org:443/v1" = [2]
  /\ managed false (flows_endpoints demo_ports) (bs "HEAD") (bs "eu.acme.org:443/v1") = true
  /\ sel AsSent "GET" "api.acme.com:8443/v1/orders" = []
  /\ sel HostNameFallback "GET" "api.acme.com:8443/v1/orders" = [1]
  /\ managed false (flows_endpoints demo_ports) (bs "GET") (bs "api.acme.com:8443/v1/orders") = false
  /\ sel HostNameFallback "GET" "api.acme.com:http/v1/orders" = []
  /\ sel HostNameFallback "GET" "acme.com:8080/7" = [0]
  /\ sel HostNameFallback "GET" "files.acme.net:8443/a/b" = [3]
  /\ managed false (flows_endpoints demo_ports) (bs "GET") (bs "files.acme.net:8443/a/b") = true
  /\ names_port (bs "api.acme.com:8443/v1/orders") = true
  /\ strip_port (bs "acme.com:8080") = Some (bs "acme.com")
  /\ names_port (bs "api.acme.com/v1/x:80") = false
  /\ names_port (bs "[::1]:8080/x") = false
  /\ names_port (bs ":8080/x") = false /\ names_port (bs "acme.com:/x") = false.
Proof. vm_compute. repeat split; reflexivity. Qed.

(* hypotheses of C14_no_bypass_flows_holds_outside_host_port, all at once: the
   fallback reading, a request whose host names no port, a flow selected, the two
   side conditions — and the conclusion *)
Example C14_demo_outside_host_port :
  let f := mf 1 "api.acme.com/v1/orders" ["GET"] in
  let x := tx "GET" "api.acme.com/v1/orders" in
  C03.Model.load_ok demo_ports = true
  /\ names_port (C03.Model.t_url x) = false
  /\ sel HostNameFallback "GET" "api.acme.com/v1/orders" = [1]
  /\ In f (get_flow_v HostNameFallback (C03.Proofs.tree_of demo_ports) x)
  /\ C03.SpecLocal.kc_at demo_ports f (C03.Proofs.url_of x) = true
  /\ url_ok_exact (C03.Model.f_url f) (C03.Model.t_url x) = true
  /\ managed (flows_manage_all demo_ports) (flows_endpoints demo_ports)
             (C03.Model.t_method x) (C03.Model.t_url x) = true.
Proof. vm_compute. repeat split; try reflexivity. left; reflexivity. Qed.
