(* C14 — Traffic a flow or policy must see is always registered as managed.
   Final statements only; proofs are in Lib/Regex.v, Proofs.v, Bridge.v,
   Literal.v.  The model is the code with patches/C14/fix-F-C14{a,b,f,d}.patch.

   Objects
     format m p / format_any p   the expression registered for method m (for a
                                 filter without methods) and configured URL p
                                 (HaproxyEndpointFormat / HaproxyAnyMethodEndpointFormat)
     print_expr e                its concrete syntax (compared byte for byte
                                 with the Go string on every check run)
     re_search e s               HAProxy's map_reg: unanchored search of e in s
                                 (proved equal to the semantics [searches])
     subject m u                 "METHOD:::host/path", what HAProxy searches in
     managed all es m u          acl is_managed: manage-all, or some registered
                                 expression finds the subject
     engine side                 flows: C03.Model.get_flow (C03.Proofs.tree_of fs)
                                 policies: C13.Model endpoint_remedies / endpoint_diagnoses
   Hypotheses (all decidable)
     load_ok / stars_last / kind_consistent (flows), build = Some / kind_consistentb
     (policies): those of C03_sound_lax and C13_sound (kind consistency = open
     findings F-C03c / F-C13e);
     url_ok p u = trimmed u && params_nonempty ..: the request URL is spelled
     without leading/trailing '.' '/' (open finding F-C14c) and no part of it
     standing at a parameter position of p is empty (open finding F-C14e).
     This is exactly what the monitor's classifier computes. *)
From Coq Require Import List ZArith Bool String.
From Verif Require Import Lib.UrlTree Lib.Regex.
From Verif Require Import C14.Model C14.Proofs C14.Bridge C14.Literal.
From Verif Require C03.Trie C03.Model C03.Spec C03.Proofs C13.Model.
Import ListNotations.
Open Scope Z_scope.

(* ---- the executable matcher decides the language semantics ---- *)
Theorem C14_matcher_correct : forall e s, re_search e s = true <-> searches e s.
Proof. exact re_search_spec. Qed.
Print Assumptions C14_matcher_correct.

(* ---- the AST prints to the string the Go code writes ---- *)
Theorem C14_printed_expression : forall m p,
  print_expr (format m p) = format_bytes m p /\
  print_expr (format_any p) = format_any_bytes p.
Proof. intros m p. split; [apply print_format | apply print_format_any]. Qed.
Print Assumptions C14_printed_expression.

(* ---- flows: a filter the engine selects for (method, URL) has a registered
        expression that finds "METHOD:::URL" ---- *)
Theorem C14_cover_flows : forall fs x f,
  C03.Model.load_ok fs = true -> C03.Spec.stars_last fs = true ->
  C03.Spec.kind_consistent fs = true ->
  In f (C03.Model.get_flow (C03.Proofs.tree_of fs) x) ->
  url_ok (C03.Model.f_url f) (C03.Model.t_url x) = true ->
  In f fs /\
  exists e, In e (flow_endpoints f) /\
            re_search e (subject (C03.Model.t_method x) (C03.Model.t_url x)) = true.
Proof. exact cover_flows. Qed.
Print Assumptions C14_cover_flows.

(* the same statement under the name that says which findings delimit it *)
Corollary C14_cover_holds_outside_untrimmed_url_and_empty_parameter : forall fs x f,
  C03.Model.load_ok fs = true -> C03.Spec.stars_last fs = true ->
  C03.Spec.kind_consistent fs = true ->
  In f (C03.Model.get_flow (C03.Proofs.tree_of fs) x) ->
  url_ok (C03.Model.f_url f) (C03.Model.t_url x) = true ->
  In f fs /\
  exists e, In e (flow_endpoints f) /\
            re_search e (subject (C03.Model.t_method x) (C03.Model.t_url x)) = true.
Proof. exact cover_flows. Qed.
Print Assumptions C14_cover_holds_outside_untrimmed_url_and_empty_parameter.

(* so the transaction does not bypass the engine *)
Theorem C14_no_bypass_flows : forall fs x f,
  C03.Model.load_ok fs = true -> C03.Spec.stars_last fs = true ->
  C03.Spec.kind_consistent fs = true ->
  In f (C03.Model.get_flow (C03.Proofs.tree_of fs) x) ->
  url_ok (C03.Model.f_url f) (C03.Model.t_url x) = true ->
  managed (flows_manage_all fs) (flows_endpoints fs)
          (C03.Model.t_method x) (C03.Model.t_url x) = true.
Proof. exact no_bypass_flows. Qed.
Print Assumptions C14_no_bypass_flows.

(* ---- policies: an endpoint whose remedy / diagnosis the dispatcher selects
        for (method, URL) is registered with an expression that finds it ---- *)
Theorem C14_cover_policies : forall ds pt m u,
  C13.Model.build ds = Some pt -> C13.Model.kind_consistentb ds = true ->
  policy_selected pt m u ->
  exists d, In d ds /\ C13.Model.d_method d = m /\
            matches (parse_pattern (split_url (C13.Model.d_url d))) (split_url u) = true /\
            In (format m (C13.Model.d_url d)) (policy_endpoints ds) /\
            (url_ok (C13.Model.d_url d) u = true ->
             re_search (format m (C13.Model.d_url d)) (subject m u) = true).
Proof. exact cover_policies. Qed.
Print Assumptions C14_cover_policies.

Theorem C14_no_bypass_policies : forall ds grem gdiag pt m u,
  C13.Model.build ds = Some pt -> C13.Model.kind_consistentb ds = true ->
  policy_selected pt m u ->
  (forall d, In d ds -> url_ok (C13.Model.d_url d) u = true) ->
  managed (policy_manage_all grem gdiag) (policy_endpoints ds) m u = true.
Proof. exact no_bypass_policies. Qed.
Print Assumptions C14_no_bypass_policies.

(* an enabled global remedy / diagnosis manages every transaction *)
Theorem C14_globals_manage_all : forall grem gdiag es m u,
  policy_manage_all grem gdiag = true -> managed (policy_manage_all grem gdiag) es m u = true.
Proof. exact globals_manage_all. Qed.
Print Assumptions C14_globals_manage_all.

(* ---- literal characters are matched literally ----
   For a configured URL without parameter and wildcard parts the expression
   finds exactly the subjects that END with "METHOD:::URL" (URL in the trimmed
   spelling the engine uses); the left end is open because the proxy searches
   (the code's choice: map_reg, no "^").  Method characters are literal too. *)
Theorem C14_literal : forall m p w,
  literal_pattern (split_url p) = true ->
  (re_search (format m p) w = true <-> exists pre, w = pre ++ subject m (trim_url p)).
Proof. exact literal_format. Qed.
Print Assumptions C14_literal.

(* hence a URL of the same length differing in any character is not found *)
Theorem C14_literal_same_length : forall m p u,
  literal_pattern (split_url p) = true ->
  List.length u = List.length (trim_url p) ->
  re_search (format m p) (subject m u) = true -> u = trim_url p.
Proof. exact literal_same_length. Qed.
Print Assumptions C14_literal_same_length.

(* with parameters: exactly the instances of the pattern ([inst]: literal parts
   by their own characters, a parameter by a non-empty run of non-separators) *)
Theorem C14_exact : forall m p w,
  wild_free (split_url p) = true ->
  (re_search (format m p) w = true <->
   exists pre u, w = pre ++ subject m u /\ inst true (split_url p) u).
Proof. exact exact_format. Qed.
Print Assumptions C14_exact.

Theorem C14_literal_any_method : forall p w,
  literal_pattern (split_url p) = true ->
  (re_search (format_any p) w = true <-> exists pre, w = pre ++ sep3 ++ trim_url p).
Proof. exact literal_format_any. Qed.
Print Assumptions C14_literal_any_method.

(* ======== open findings: the unrestricted statements are false ======== *)
Definition uf := C03.Model.uf.
Definition rq := C03.Model.rq.

(* F-C14c: the engine trims a trailing "/" (and leading/trailing '.' '/'), the
   expression ends in "$": GET a/x/ selects the flow of a/x and is not managed *)
Definition C14_cover_full : Prop := forall fs x f,
  C03.Model.load_ok fs = true -> C03.Spec.stars_last fs = true ->
  C03.Spec.kind_consistent fs = true ->
  In f (C03.Model.get_flow (C03.Proofs.tree_of fs) x) ->
  managed (flows_manage_all fs) (flows_endpoints fs)
          (C03.Model.t_method x) (C03.Model.t_url x) = true.
Theorem C14_cover_full_refuted : ~ C14_cover_full.
Proof.
  intro H. specialize (H [uf 0 "a/x"] (rq "a/x/") (uf 0 "a/x") eq_refl eq_refl eq_refl).
  assert (E : managed (flows_manage_all [uf 0 "a/x"]) (flows_endpoints [uf 0 "a/x"])
                      (C03.Model.t_method (rq "a/x/")) (C03.Model.t_url (rq "a/x/")) = false)
    by (vm_compute; reflexivity).
  rewrite H in E; [discriminate | vm_compute; left; reflexivity].
Qed.
Print Assumptions C14_cover_full_refuted.

(* F-C14e: a parameter node accepts an EMPTY URL part, "[^/]+" does not:
   GET a//x selects the flow of a/{p}/x and is not managed (the URL is trimmed) *)
Definition C14_cover_trimmed_full : Prop := forall fs x f,
  C03.Model.load_ok fs = true -> C03.Spec.stars_last fs = true ->
  C03.Spec.kind_consistent fs = true ->
  In f (C03.Model.get_flow (C03.Proofs.tree_of fs) x) ->
  trimmed (C03.Model.t_url x) = true ->
  managed (flows_manage_all fs) (flows_endpoints fs)
          (C03.Model.t_method x) (C03.Model.t_url x) = true.
Theorem C14_cover_trimmed_full_refuted : ~ C14_cover_trimmed_full.
Proof.
  intro H. specialize (H [uf 0 "a/{p}/x"] (rq "a//x") (uf 0 "a/{p}/x") eq_refl eq_refl eq_refl).
  assert (E : managed (flows_manage_all [uf 0 "a/{p}/x"]) (flows_endpoints [uf 0 "a/{p}/x"])
                      (C03.Model.t_method (rq "a//x")) (C03.Model.t_url (rq "a//x")) = false)
    by (vm_compute; reflexivity).
  rewrite H in E; [discriminate | vm_compute; left; reflexivity | vm_compute; reflexivity].
Qed.
Print Assumptions C14_cover_trimmed_full_refuted.

(* F-C03c (host label / path segment collision in the trie): with a.b/c loaded
   before a/b/d, GET a.b/d selects the flow of a/b/d; neither expression finds it *)
Definition C14_cover_any_kinds_full : Prop := forall fs x f,
  C03.Model.load_ok fs = true -> C03.Spec.stars_last fs = true ->
  In f (C03.Model.get_flow (C03.Proofs.tree_of fs) x) ->
  url_ok (C03.Model.f_url f) (C03.Model.t_url x) = true ->
  managed (flows_manage_all fs) (flows_endpoints fs)
          (C03.Model.t_method x) (C03.Model.t_url x) = true.
Theorem C14_cover_any_kinds_full_refuted : ~ C14_cover_any_kinds_full.
Proof.
  intro H.
  specialize (H [uf 0 "a.b/c"; uf 1 "a/b/d"] (rq "a.b/d") (uf 1 "a/b/d") eq_refl eq_refl).
  assert (E : managed (flows_manage_all [uf 0 "a.b/c"; uf 1 "a/b/d"])
                      (flows_endpoints [uf 0 "a.b/c"; uf 1 "a/b/d"])
                      (C03.Model.t_method (rq "a.b/d")) (C03.Model.t_url (rq "a.b/d")) = false)
    by (vm_compute; reflexivity).
  rewrite H in E; [discriminate | vm_compute; left; reflexivity | vm_compute; reflexivity].
Qed.
Print Assumptions C14_cover_any_kinds_full_refuted.

(* the same two URL spellings on the policy side *)
Definition pd (m u : string) : C13.Model.decl :=
  {| C13.Model.d_method := bs m; C13.Model.d_url := bs u;
     C13.Model.d_rem := [{| C13.Model.r_name := 1; C13.Model.r_type := 0; C13.Model.r_enabled := true |}];
     C13.Model.d_diag := [] |}.

Definition C14_cover_policies_full : Prop := forall ds pt m u,
  C13.Model.build ds = Some pt -> C13.Model.kind_consistentb ds = true ->
  policy_selected pt m u ->
  managed false (policy_endpoints ds) m u = true.
Theorem C14_cover_policies_full_refuted : ~ C14_cover_policies_full.
Proof.
  intro H.
  destruct (C13.Model.build [pd "GET" "a/x"]) as [pt|] eqn:HB; [|vm_compute in HB; discriminate].
  specialize (H [pd "GET" "a/x"] pt (bs "GET") (bs "a/x/") HB eq_refl).
  assert (E : managed false (policy_endpoints [pd "GET" "a/x"]) (bs "GET") (bs "a/x/") = false)
    by (vm_compute; reflexivity).
  rewrite H in E; [discriminate|].
  left. vm_compute in HB. inversion HB; subst pt. eexists. vm_compute. left. reflexivity.
Qed.
Print Assumptions C14_cover_policies_full_refuted.

(* ======== non-vacuity ======== *)
Open Scope string_scope.
Definition mf (id : Z) (u : string) (ms : list string) : C03.Model.flow :=
  C03.Model.mkFlow id 0 (bs u) (map bs ms) [] [] [].
Definition tx (m u : string) : C03.Model.txn := mk_txn (bs m) (bs u).

Definition demo : list C03.Model.flow :=
  [ mf 0 "api.com/v1/*" [];
    mf 1 "{tenant}.api.com/v1/users/{user.id}" ["POST"];
    mf 2 "api.com/a+b(1)/$x" ["GET"; "M-SEARCH"];
    mf 3 "files.*" ["GET"] ].

Example C14_demo_hypotheses :
  C03.Model.load_ok demo = true /\ C03.Spec.stars_last demo = true /\
  C03.Spec.kind_consistent demo = true.
Proof. vm_compute. auto. Qed.

Example C14_demo_expressions :
  map print_expr (flows_endpoints demo) =
  [ bs ".*:::api\.com/v1(/.*)?";
    bs "POST:::[^/.]+\.api\.com/v1/users/[^/]+$";
    bs "GET:::api\.com/a\+b\(1\)/\$x$";
    bs "M-SEARCH:::api\.com/a\+b\(1\)/\$x$";
    bs "GET:::files([./].*)?" ].
Proof. vm_compute. reflexivity. Qed.

(* selected by the engine, side condition met, managed — and the unselected
   neighbours (one literal character changed, other verb) are not managed *)
Example C14_demo_covered :
  map C03.Model.f_id (C03.Model.get_flow (C03.Proofs.tree_of demo) (tx "POST" "eu.api.com/v1/users/7")) = [1]
  /\ url_ok (bs "{tenant}.api.com/v1/users/{user.id}") (bs "eu.api.com/v1/users/7") = true
  /\ managed false (flows_endpoints demo) (bs "POST") (bs "eu.api.com/v1/users/7") = true
  /\ map C03.Model.f_id (C03.Model.get_flow (C03.Proofs.tree_of demo) (tx "GET" "api.com/a+b(1)/$x")) = [2]
  /\ managed false (flows_endpoints demo) (bs "GET") (bs "api.com/a+b(1)/$x") = true
  /\ managed false (flows_endpoints demo) (bs "GET") (bs "api.com/aab(1)/$x") = false
  /\ managed false (flows_endpoints demo) (bs "PUT") (bs "api.com/a+b(1)/$x") = false
  /\ map C03.Model.f_id (C03.Model.get_flow (C03.Proofs.tree_of demo) (tx "HEAD" "api.com/v1/x")) = [0]
  /\ managed false (flows_endpoints demo) (bs "HEAD") (bs "api.com/v1/x") = true
  /\ map C03.Model.f_id (C03.Model.get_flow (C03.Proofs.tree_of demo) (tx "GET" "files.example.org/x")) = [3]
  /\ managed false (flows_endpoints demo) (bs "GET") (bs "files.example.org/x") = true.
Proof. vm_compute. repeat split; reflexivity. Qed.

Example C14_demo_literal :
  literal_pattern (split_url (bs "api.com/a+b(1)/$x")) = true /\
  wild_free (split_url (bs "{tenant}.api.com/v1/users/{user.id}")) = true.
Proof. vm_compute. auto. Qed.

Example C14_demo_policies :
  exists pt, C13.Model.build [pd "GET" "a.com/x/{id}"; pd "POST" "a.com/x/*"] = Some pt /\
    C13.Model.kind_consistentb [pd "GET" "a.com/x/{id}"; pd "POST" "a.com/x/*"] = true /\
    policy_selected pt (bs "GET") (bs "a.com/x/7") /\
    url_ok (bs "a.com/x/{id}") (bs "a.com/x/7") = true /\
    managed false (policy_endpoints [pd "GET" "a.com/x/{id}"; pd "POST" "a.com/x/*"]) (bs "GET") (bs "a.com/x/7") = true.
Proof.
  destruct (C13.Model.build [pd "GET" "a.com/x/{id}"; pd "POST" "a.com/x/*"]) as [pt|] eqn:HB;
    [|vm_compute in HB; discriminate].
  exists pt. split; [reflexivity|]. split; [vm_compute; reflexivity|].
  split; [|split; vm_compute; reflexivity].
  left. vm_compute in HB. inversion HB; subst pt. eexists. vm_compute. left. reflexivity.
Qed.
