(* C14 — bridges to the engine-side models: what the flow lookup (C03) and the
   policy lookup (C13) select implies the specification matcher of Lib/UrlTree
   on the pattern of the selected filter / endpoint, hence (Proofs.v) a match
   of the registered expression. *)
From Coq Require Import List ZArith Bool Lia.
From Verif Require Import Lib.UrlTree Lib.UrlTreeProofs Lib.Regex C14.Model C14.Proofs C14.Cover.
From Verif Require C03.Trie C03.Model C03.Spec C03.SpecLocal C03.Basics C03.Proofs C03.Property.
From Verif Require C13.Model C13.Property.
Import ListNotations.
Open Scope Z_scope.

(* ------------------------------------------------------------------ *)
(* C03's URL syntax is Lib/UrlTree's                                    *)

Lemma trim_left_drop : forall p s, C03.Trie.trim_left p s = drop_while p s.
Proof. intros p. induction s as [|c s IH]; cbn; [reflexivity|]. destruct (p c); auto. Qed.

Lemma c03_trim_url : forall u, C03.Trie.trim_url u = trim_url u.
Proof.
  intro u. unfold C03.Trie.trim_url, C03.Trie.trim, trim_url, trim.
  rewrite !trim_left_drop. reflexivity.
Qed.

Lemma c03_split_on : forall c s, C03.Trie.split_on c s = split_on c s.
Proof.
  intros c. induction s as [|x s IH]; cbn; [reflexivity|]. rewrite IH. reflexivity.
Qed.

Lemma c03_split_url : forall u, C03.Trie.split_url u = split_url u.
Proof.
  intro u. unfold C03.Trie.split_url, split_url.
  rewrite c03_trim_url, c03_split_on.
  change C03.Trie.ch_slash with c_slash. change C03.Trie.ch_dot with c_dot.
  destruct (split_on c_slash (trim_url u)) as [|h path]; [reflexivity|].
  rewrite c03_split_on. reflexivity.
Qed.

Lemma tok_eqb_str_eqb : forall a b, C03.Trie.tok_eqb a b = str_eqb a b.
Proof. intros a b. reflexivity. Qed.

Lemma rev_last : forall (t : list Z) d, t <> [] -> exists r, rev t = last t d :: r.
Proof.
  induction t as [|x t IH]; intros d Hn; [congruence|].
  destruct t as [|y t].
  - exists []. reflexivity.
  - destruct (IH d) as [r Hr]; [discriminate|].
    exists (r ++ [x]). change (rev (x :: y :: t)) with (rev (y :: t) ++ [x]).
    rewrite Hr. reflexivity.
Qed.

Lemma is_param_is_brace : forall t, C03.Trie.is_param t = is_brace t.
Proof.
  intro t. unfold C03.Trie.is_param, is_brace. destruct t as [|c r]; [reflexivity|].
  destruct (rev_last (c :: r) 0) as [q Hq]; [discriminate|].
  rewrite Hq. reflexivity.
Qed.

(* the step of a declared part in C03.Trie vs its class in Lib/UrlTree *)
Lemma step_classify : forall t,
  match C03.Trie.step_of t with
  | C03.Trie.SConst c => c = t /\ classify t = PConst t
  | C03.Trie.SParam => classify t = PParam (brace_name t)
  | C03.Trie.SWild => classify t = PWild
  end.
Proof.
  intro t. unfold C03.Trie.step_of, C03.Trie.is_wild, classify.
  rewrite tok_eqb_str_eqb, is_param_is_brace.
  change [C03.Trie.ch_star] with star.
  destruct (str_eqb t star); [reflexivity|].
  destruct (is_brace t); [reflexivity | split; reflexivity].
Qed.

(* the reading of the flow lookup (trailing wildcard swallows parts of any kind)
   implies the most permissive specification matcher *)
Lemma lax_matches : forall pat b url,
  C03.Spec.matches_from true b pat url = true -> matches (parse_pattern pat) url = true.
Proof.
  induction pat as [|[ph pv] prest IH]; intros b url H.
  - cbn in *. destruct url; [reflexivity | discriminate].
  - cbn [parse_pattern map fst snd]. cbn [C03.Spec.matches_from] in H.
    pose proof (C03.Basics.classify_step pv) as HS. pose proof (step_classify pv) as HC.
    destruct (C03.Trie.step_of pv) as [c| |].
    + destruct HS as [HS ->]. destruct HC as [_ HC]. rewrite HS in H. rewrite HC. cbn [matches].
      destruct url as [|[uh uv] urest]; [discriminate|].
      apply andb_true_iff in H. destruct H as [H1 H]. apply andb_true_iff in H1. destruct H1 as [Hk Ht].
      rewrite tok_eqb_str_eqb in Ht.
      rewrite (eqb_true_iff uh ph) in Hk. subst uh. rewrite eqb_reflx, Ht. cbn [andb].
      exact (IH _ _ H).
    + rewrite HS in H. rewrite HC. cbn [matches].
      destruct url as [|[uh uv] urest]; [discriminate|].
      apply andb_true_iff in H. destruct H as [Hk H].
      rewrite (eqb_true_iff uh ph) in Hk. subst uh. rewrite eqb_reflx. cbn [andb].
      exact (IH _ _ H).
    + rewrite HS in H. rewrite HC. cbn [matches].
      destruct prest; [reflexivity | discriminate].
Qed.

(* ------------------------------------------------------------------ *)
(* Flows                                                               *)

Definition url_of_txn (x : C03.Model.txn) : str := C03.Model.t_url x.

Lemma flow_selected_matches : forall fs x f,
  C03.Model.load_ok fs = true -> C03.Spec.stars_last fs = true ->
  C03.Spec.kind_consistent fs = true ->
  In f (C03.Model.get_flow (C03.Proofs.tree_of fs) x) ->
  In f fs /\
  matches (parse_pattern (split_url (C03.Model.f_url f))) (split_url (C03.Model.t_url x)) = true /\
  C03.Spec.method_holds f x.
Proof.
  intros fs x f HL HS HK H.
  destruct (C03.Property.C03_sound_lax fs x f HL HS HK H) as (Hin & HM & HC & _).
  split; [exact Hin|]. split; [|exact HC].
  unfold C03.Spec.matches_lax, C03.Model.pat, C03.Proofs.url_of in HM.
  rewrite !c03_split_url in HM. exact (lax_matches _ _ _ HM).
Qed.

Lemma cover_flows : forall fs x f,
  C03.Model.load_ok fs = true -> C03.Spec.stars_last fs = true ->
  C03.Spec.kind_consistent fs = true ->
  In f (C03.Model.get_flow (C03.Proofs.tree_of fs) x) ->
  url_ok (C03.Model.f_url f) (C03.Model.t_url x) = true ->
  In f fs /\
  exists e, In e (flow_endpoints f) /\
            re_search e (subject (C03.Model.t_method x) (C03.Model.t_url x)) = true.
Proof.
  intros fs x f HL HS HK H HO.
  destruct (flow_selected_matches fs x f HL HS HK H) as (Hin & HM & Hm).
  split; [exact Hin|].
  unfold flow_endpoints, C03.Spec.method_holds in *.
  destruct (C03.Model.f_methods f) as [|m0 ms] eqn:Em.
  - exists (format_any (C03.Model.f_url f)). split; [left; reflexivity|].
    apply cover_format_any; assumption.
  - exists (format (C03.Model.t_method x) (C03.Model.f_url f)). split.
    + apply (in_map (fun m => format m (C03.Model.f_url f))) in Hm. exact Hm.
    + apply cover_format; assumption.
Qed.

Lemma managed_of_endpoint : forall all es e m u,
  In e es -> re_search e (subject m u) = true -> managed all es m u = true.
Proof.
  intros all es e m u Hin H. unfold managed. apply orb_true_iff. right.
  apply existsb_exists. exists e. auto.
Qed.

Lemma no_bypass_flows : forall fs x f,
  C03.Model.load_ok fs = true -> C03.Spec.stars_last fs = true ->
  C03.Spec.kind_consistent fs = true ->
  In f (C03.Model.get_flow (C03.Proofs.tree_of fs) x) ->
  url_ok (C03.Model.f_url f) (C03.Model.t_url x) = true ->
  managed (flows_manage_all fs) (flows_endpoints fs)
          (C03.Model.t_method x) (C03.Model.t_url x) = true.
Proof.
  intros fs x f HL HS HK H HO.
  destruct (cover_flows fs x f HL HS HK H HO) as (Hin & e & He & Hs).
  apply (managed_of_endpoint _ _ e); [|exact Hs].
  unfold flows_endpoints. apply in_flat_map. exists f. auto.
Qed.

(* ------------------------------------------------------------------ *)
(* Policies                                                            *)

(* the dispatcher selects an endpoint-scoped remedy or diagnosis *)
Definition policy_selected (pt : C13.Model.ptree) (m u : str) : Prop :=
  (exists r, In r (C13.Model.endpoint_remedies pt m u)) \/
  (exists g, In g (C13.Model.endpoint_diagnoses pt m u)).

Lemma existsb_in : forall (A : Type) (f : A -> bool) l x, In x l -> f x = true -> existsb f l = true.
Proof. intros A f l x Hin Hf. apply existsb_exists. exists x. auto. Qed.

Lemma policy_selected_matches : forall ds pt m u,
  C13.Model.build ds = Some pt -> C13.Model.kind_consistentb ds = true ->
  policy_selected pt m u ->
  exists d, In d ds /\ C13.Model.d_method d = m /\ decl_enabled d = true /\
            matches (parse_pattern (split_url (C13.Model.d_url d))) (split_url u) = true.
Proof.
  intros ds pt m u HB HK HS.
  destruct (C13.Property.C13_sound_lax ds HK pt m u HB) as [HR HD].
  destruct HS as [[r Hr]|[g Hg]].
  - destruct (HR r Hr) as (d & Hd & Hm & Hin & Hen & HM).
    exists d. repeat split; try assumption.
    unfold decl_enabled. apply orb_true_iff. left. eapply existsb_in; eauto.
  - destruct (HD g Hg) as (d & Hd & Hm & Hin & Hen & HM).
    exists d. repeat split; try assumption.
    unfold decl_enabled. apply orb_true_iff. right. eapply existsb_in; eauto.
Qed.

Lemma cover_policies : forall ds pt m u,
  C13.Model.build ds = Some pt -> C13.Model.kind_consistentb ds = true ->
  policy_selected pt m u ->
  exists d, In d ds /\ C13.Model.d_method d = m /\
            matches (parse_pattern (split_url (C13.Model.d_url d))) (split_url u) = true /\
            In (format m (C13.Model.d_url d)) (policy_endpoints ds) /\
            (url_ok (C13.Model.d_url d) u = true ->
             re_search (format m (C13.Model.d_url d)) (subject m u) = true).
Proof.
  intros ds pt m u HB HK HS.
  destruct (policy_selected_matches ds pt m u HB HK HS) as (d & Hd & Hm & He & HM).
  exists d. repeat split; try assumption.
  - unfold policy_endpoints. apply in_flat_map. exists d. split; [exact Hd|].
    rewrite He, Hm. left. reflexivity.
  - intro HO. apply cover_format; assumption.
Qed.

Lemma no_bypass_policies : forall ds grem gdiag pt m u,
  C13.Model.build ds = Some pt -> C13.Model.kind_consistentb ds = true ->
  policy_selected pt m u ->
  (forall d, In d ds -> url_ok (C13.Model.d_url d) u = true) ->
  managed (policy_manage_all grem gdiag) (policy_endpoints ds) m u = true.
Proof.
  intros ds grem gdiag pt m u HB HK HS HO.
  destruct (cover_policies ds pt m u HB HK HS) as (d & Hd & _ & _ & Hin & Hc).
  eapply managed_of_endpoint; [exact Hin | apply Hc, HO, Hd].
Qed.

(* enabled global plugins: everything is managed *)
Lemma globals_manage_all : forall grem gdiag es m u,
  policy_manage_all grem gdiag = true -> managed (policy_manage_all grem gdiag) es m u = true.
Proof. intros. unfold managed. rewrite H. reflexivity. Qed.

(* ================================================================
   The same with the narrowest hypotheses
   ================================================================ *)


(* ------------------------------------------------------------------ *)
(* Flows, with the collision finding localised to the selected flow and
   the request URL (C03_sound_lax_at) and the exact spelling condition    *)

Lemma flow_selected_matches_at : forall fs x f,
  C03.Model.load_ok fs = true ->
  In f (C03.Model.get_flow (C03.Proofs.tree_of fs) x) ->
  C03.SpecLocal.kc_at fs f (C03.Proofs.url_of x) = true ->
  In f fs /\
  matches (parse_pattern (split_url (C03.Model.f_url f))) (split_url (C03.Model.t_url x)) = true /\
  C03.Spec.method_holds f x.
Proof.
  intros fs x f HL H HK.
  destruct (C03.Property.C03_sound_lax_at fs x f HL H HK) as (Hin & HM & HC & _).
  split; [exact Hin|]. split; [|exact HC].
  unfold C03.Spec.matches_lax, C03.Model.pat, C03.Proofs.url_of in HM.
  rewrite !c03_split_url in HM. exact (lax_matches _ _ _ HM).
Qed.

Lemma cover_flows_at : forall fs x f,
  C03.Model.load_ok fs = true ->
  In f (C03.Model.get_flow (C03.Proofs.tree_of fs) x) ->
  C03.SpecLocal.kc_at fs f (C03.Proofs.url_of x) = true ->
  url_ok_exact (C03.Model.f_url f) (C03.Model.t_url x) = true ->
  In f fs /\
  exists e, In e (flow_endpoints f) /\
            re_search e (subject (C03.Model.t_method x) (C03.Model.t_url x)) = true.
Proof.
  intros fs x f HL H HK HO.
  destruct (flow_selected_matches_at fs x f HL H HK) as (Hin & HM & Hm).
  split; [exact Hin|].
  unfold flow_endpoints, C03.Spec.method_holds in *.
  destruct (C03.Model.f_methods f) as [|m0 ms] eqn:Em.
  - exists (format_any (C03.Model.f_url f)). split; [left; reflexivity|].
    apply cover_format_any_exact; assumption.
  - exists (format (C03.Model.t_method x) (C03.Model.f_url f)). split.
    + apply (in_map (fun m => format m (C03.Model.f_url f))) in Hm. exact Hm.
    + apply cover_format_exact; assumption.
Qed.

Lemma no_bypass_flows_at : forall fs x f,
  C03.Model.load_ok fs = true ->
  In f (C03.Model.get_flow (C03.Proofs.tree_of fs) x) ->
  C03.SpecLocal.kc_at fs f (C03.Proofs.url_of x) = true ->
  url_ok_exact (C03.Model.f_url f) (C03.Model.t_url x) = true ->
  managed (flows_manage_all fs) (flows_endpoints fs)
          (C03.Model.t_method x) (C03.Model.t_url x) = true.
Proof.
  intros fs x f HL H HK HO.
  destruct (cover_flows_at fs x f HL H HK HO) as (Hin & e & He & Hs).
  apply (managed_of_endpoint _ _ e); [|exact Hs].
  unfold flows_endpoints. apply in_flat_map. exists f. auto.
Qed.

(* the older hypotheses imply the new ones *)
Lemma old_hyps_imply_new : forall fs x f,
  C03.Spec.kind_consistent fs = true -> In f fs ->
  C03.SpecLocal.kc_at fs f (C03.Proofs.url_of x) = true.
Proof.
  intros fs x f HK Hf.
  destruct (C03.Property.C03_kind_consistent_implies_local fs (C03.Proofs.url_of x) HK) as [_ H].
  exact (H f Hf).
Qed.

(* ------------------------------------------------------------------ *)
(* Policies, through the kind-aware C13_sound                            *)

Lemma policy_selected_matches_kind : forall ds pt m u,
  C13.Model.build ds = Some pt -> C13.Model.kind_consistentb ds = true ->
  policy_selected pt m u ->
  exists d, In d ds /\ C13.Model.d_method d = m /\ decl_enabled d = true /\
            matches_kind (parse_pattern (split_url (C13.Model.d_url d))) (split_url u) = true.
Proof.
  intros ds pt m u HB HK HS.
  destruct (C13.Property.C13_sound ds HK pt m u HB) as [HR HD].
  destruct HS as [[r Hr]|[g Hg]].
  - destruct (HR r Hr) as (d & Hd & Hm & Hin & Hen & HM).
    exists d. repeat split; try assumption.
    unfold decl_enabled. apply orb_true_iff. left. eapply existsb_in; eauto.
  - destruct (HD g Hg) as (d & Hd & Hm & Hin & Hen & HM).
    exists d. repeat split; try assumption.
    unfold decl_enabled. apply orb_true_iff. right. eapply existsb_in; eauto.
Qed.

Lemma cover_policies_kind : forall ds pt m u,
  C13.Model.build ds = Some pt -> C13.Model.kind_consistentb ds = true ->
  policy_selected pt m u ->
  exists d, In d ds /\ C13.Model.d_method d = m /\
            matches_kind (parse_pattern (split_url (C13.Model.d_url d))) (split_url u) = true /\
            In (format m (C13.Model.d_url d)) (policy_endpoints ds) /\
            (url_ok_exact (C13.Model.d_url d) u = true ->
             re_search (format m (C13.Model.d_url d)) (subject m u) = true).
Proof.
  intros ds pt m u HB HK HS.
  destruct (policy_selected_matches_kind ds pt m u HB HK HS) as (d & Hd & Hm & He & HM).
  exists d. repeat split; try assumption.
  - unfold policy_endpoints. apply in_flat_map. exists d. split; [exact Hd|].
    rewrite He, Hm. left. reflexivity.
  - intro HO. apply cover_format_exact; [apply matches_kind_matches; exact HM | exact HO].
Qed.

(* the spelling condition only for the declarations of this method whose
   pattern matches this URL (kind-aware) *)
Lemma no_bypass_policies_at : forall ds grem gdiag pt m u,
  C13.Model.build ds = Some pt -> C13.Model.kind_consistentb ds = true ->
  policy_selected pt m u ->
  (forall d, In d ds -> C13.Model.d_method d = m ->
             matches_kind (parse_pattern (split_url (C13.Model.d_url d))) (split_url u) = true ->
             url_ok_exact (C13.Model.d_url d) u = true) ->
  managed (policy_manage_all grem gdiag) (policy_endpoints ds) m u = true.
Proof.
  intros ds grem gdiag pt m u HB HK HS HO.
  destruct (cover_policies_kind ds pt m u HB HK HS) as (d & Hd & Hm & HM & Hin & Hc).
  eapply managed_of_endpoint; [exact Hin | apply Hc, HO; assumption].
Qed.
