(* C14 — configuration histories, the REQUIREMENTS dimension.

   config/update_endpoints.go: a registration is an HAProxyEndpointData =
   (Endpoint string, Requirements {IsBodyRequired, IsReqCaptureRequired}).  The
   requirements say whether the expression is ALSO put into spoe_with_body.map /
   req_capture.map; who is managed (endpoints.map, keyed by the expression
   alone) does not depend on them.  A reload may keep a filter's expression and
   change only what its processors require (a body-reading processor is
   removed / added, a Retry processor — request capture — appears).

   C14.Reload abstracts a request to its expression strings.  Here the request
   carries the requirements, and the comparison made by EndpointsToUnmanage —
   used twice: when a reload computes what it dropped, and when a delayed
   un-management re-checks its list against the request in force — is a
   parameter:
     [SameExpr]     the code: same expression (requirements ignored)
     [SameExprReq]  "same registration by value": same expression AND the same
                    requirements (seeded change C14-9)
   Result (below): with [SameExpr] the proxy's state after ANY history is the one
   C14.Reload computes from the erased history (requirements are irrelevant to
   who is managed), so every theorem about [run Recheck] carries over; with
   [SameExprReq] a reload that only changes a flow's requirements un-manages the
   expression the configuration in force registers.

   The code modelled is the one with fixes F-C14i and F-C14j (variant Recheck of
   C14.Reload).  Executable definitions first, then the proofs. *)
From Coq Require Import List ZArith Bool.
From Verif Require Import Lib.UrlTree Lib.Regex C14.Reader C14.Model C14.Reload.
From Verif Require C03.Model C13.Model.
Import ListNotations.
Open Scope Z_scope.

(* HAProxyEndpointData *)
Record ep := mkEp { e_key : str; e_body : bool; e_cap : bool }.

(* HAProxyEndpointsRequest *)
Record rreq := mkRReq { rq_all : bool; rq_eps : list ep }.
Definition empty_rreq : rreq := mkRReq false [].

Definition erase (c : rreq) : req := mkReq (rq_all c) (map e_key (rq_eps c)).

Inductive sameness := SameExpr | SameExprReq.

Definition ep_same (w : sameness) (a b : ep) : bool :=
  str_eqb (e_key a) (e_key b) &&
  match w with
  | SameExpr => true
  | SameExprReq => eqb (e_body a) (e_body b) && eqb (e_cap a) (e_cap b)
  end.

(* EndpointsToUnmanage(previous, current) *)
Definition to_unmanage (w : sameness) (prev cur : list ep) : list ep :=
  filter (fun e => negb (existsb (ep_same w e) cur)) prev.

Inductive rjob := RJDel (es : list ep) | RJGlobal.

(* unmanageHAProxyEndpoints / unmanageGlobal: re-check against the request in
   force with the SAME comparison, then DELETE by expression (all three maps;
   endpoints.map is the one modelled) *)
Definition rfire (w : sameness) (cur : option rreq) (j : rjob) (p : proxy) : proxy :=
  let c := match cur with Some c => c | None => empty_rreq end in
  match j with
  | RJDel es => mkProxy (p_all p) (del_all (map e_key (to_unmanage w es (rq_eps c))) (p_map p))
  | RJGlobal => if rq_all c then p else mkProxy false (p_map p)
  end.

Record rstate := mkRState {
  r_now : Z;
  r_px : proxy;
  r_cur : option rreq;
  r_pend : list (Z * rjob)
}.

Definition rinit : rstate := mkRState 0 (mkProxy false []) None [].

Definition rload (w : sameness) (k : kind) (c : rreq) (s : rstate) : rstate :=
  let prev := match r_cur s with Some p => p | None => empty_rreq end in
  let px := manage (erase c) (r_px s) in
  let rm := to_unmanage w (rq_eps prev) (rq_eps c) in
  let due := r_now s + ttl in
  let jdel := if is_nil rm then [] else [(due, RJDel rm)] in
  match k with
  | Flows => mkRState (r_now s) px (Some c) (r_pend s ++ jdel)
  | Policies imm =>
      let g := rq_all prev && negb (rq_all c) in
      if imm then
        let px1 := rfire w (Some c) (RJDel rm) px in
        let px2 := if g then rfire w (Some c) RJGlobal px1 else px1 in
        mkRState (r_now s) px2 (Some c) (r_pend s)
      else
        mkRState (r_now s) px (Some c) (r_pend s ++ (if g then [(due, RJGlobal)] else []) ++ jdel)
  end.

Definition rtick (w : sameness) (i : nat) (s : rstate) : rstate :=
  match nth_error (r_pend s) i with
  | Some (_, j) => mkRState (r_now s) (rfire w (r_cur s) j (r_px s)) (r_cur s) (remove_nth i (r_pend s))
  | None => s
  end.

Fixpoint rfire_due (w : sameness) (cur : option rreq) (now : Z) (pend : list (Z * rjob)) (p : proxy)
  : proxy * list (Z * rjob) :=
  match pend with
  | [] => (p, [])
  | (due, j) :: rest =>
      if due <=? now
      then rfire_due w cur now rest (rfire w cur j p)
      else let '(p', rest') := rfire_due w cur now rest p in (p', (due, j) :: rest')
  end.

Definition radvance (w : sameness) (d : Z) (s : rstate) : rstate :=
  let now := r_now s + d in
  let '(p, pend) := rfire_due w (r_cur s) now (r_pend s) (r_px s) in
  mkRState now p (r_cur s) pend.

Inductive rqop := QLoad (k : kind) (c : rreq) | QTick (i : nat) | QAdvance (d : Z).

Definition qstep (w : sameness) (s : rstate) (o : rqop) : rstate :=
  match o with
  | QLoad k c => rload w k c s
  | QTick i => rtick w i s
  | QAdvance d => radvance w d s
  end.

Definition qrun (w : sameness) (ops : list rqop) (s : rstate) : rstate := fold_left (qstep w) ops s.

(* forgetting the requirements *)
Definition erase_job (j : rjob) : job :=
  match j with RJDel es => JDel (map e_key es) | RJGlobal => JGlobal end.
Definition erase_pend (l : list (Z * rjob)) : list (Z * job) :=
  map (fun dj => (fst dj, erase_job (snd dj))) l.
Definition erase_state (s : rstate) : state :=
  mkState (r_now s) (r_px s) (option_map erase (r_cur s)) (erase_pend (r_pend s)).
Definition erase_op (o : rqop) : op :=
  match o with
  | QLoad k c => Load k (erase c)
  | QTick i => Tick i
  | QAdvance d => Advance d
  end.

(* the requests the engine builds: every expression of a flow carries what the
   flow's processors require (streams.Initialize: filter requirements := union
   over the flow's processors; buildHAProxyFlowsEndpointsRequest); every policy
   endpoint carries {body} (BuildHAProxyEndpointsRequest: defaultPoliciesRequirements) *)
Definition flow_eps (fr : C03.Model.flow * (bool * bool)) : list ep :=
  map (fun e => mkEp (print_expr e) (fst (snd fr)) (snd (snd fr))) (flow_endpoints (fst fr)).

Definition flows_rreq (frs : list (C03.Model.flow * (bool * bool))) : rreq :=
  mkRReq (flows_manage_all (map fst frs)) (flat_map flow_eps frs).

Definition policy_rreq (ds : list C13.Model.decl) (grem : list C13.Model.remedy)
           (gdiag : list C13.Model.diagnosis) : rreq :=
  mkRReq (policy_manage_all grem gdiag)
         (map (fun e => mkEp (print_expr e) true false) (policy_endpoints ds)).

(* ------------------------------------------------------------------ *)
(* Correspondence entry point, suite "reload" (with requirements)       *)

Inductive rop2 :=
| R2LoadF (fl : list (flow_t * (bool * bool)))      (* flow, (needs body, needs request capture) *)
| R2LoadP (dl : list pdecl_t) (g : list bool * list bool) (imm : bool)
| R2Advance (ns : Z).

Definition case_reload2 := list (rop2 * (bool * bool * list str)).

Definition rstep2 (w : sameness) (s : rstate) (o : rop2) : rstate * bool :=
  match o with
  | R2LoadF fl =>
      let frs := map (fun x => (mk_flow (fst x), snd x)) fl in
      if C03.Model.load_ok (map fst frs) then (rload w Flows (flows_rreq frs) s, true) else (s, false)
  | R2LoadP dl (gr, gd) imm =>
      let ds := map mk_decl dl in
      let grem := map (fun e => {| C13.Model.r_name := 0; C13.Model.r_type := 0;
                                   C13.Model.r_enabled := e |}) gr in
      let gdiag := map (fun e => {| C13.Model.g_name := 0; C13.Model.g_enabled := e |}) gd in
      match C13.Model.build ds with
      | Some _ =>
          match r_cur s with
          | None => (rload w Flows (policy_rreq ds grem gdiag) s, true)
          | Some _ => (rload w (Policies imm) (policy_rreq ds grem gdiag) s, true)
          end
      | None => (s, false)
      end
  | R2Advance ns => (radvance w ns s, false)
  end.

Fixpoint rrun2 (w : sameness) (s : rstate) (k : case_reload2) : list (bool * bool * list str) * bool :=
  match k with
  | [] => ([], true)
  | (o, (ok, all, keys)) :: k' =>
      let '(s', mok) := rstep2 w s o in
      let agree := eqb mok ok && eqb (p_all (r_px s')) all && strs_same (p_map (r_px s')) keys in
      let '(outs, rest) := rrun2 w s' k' in
      ((mok, p_all (r_px s'), p_map (r_px s')) :: outs, agree && rest)
  end.

Definition run_reload2_with (w : sameness) (k : case_reload2)
  : option (list (bool * bool * list str)) :=
  let '(outs, agree) := rrun2 w rinit k in
  if agree then None else Some outs.

(* the code: registrations compared by expression *)
Definition run_reload2 : case_reload2 -> option (list (bool * bool * list str)) :=
  run_reload2_with SameExpr.

(* ------------------------------------------------------------------ *)
(* Proofs: with [SameExpr] the requirements are irrelevant              *)

Lemma existsb_same_expr : forall e cur,
  existsb (ep_same SameExpr e) cur = str_mem (e_key e) (map e_key cur).
Proof.
  intros e cur. unfold str_mem. induction cur as [| c cur IH]; [reflexivity |].
  cbn [existsb map]. rewrite IH. unfold ep_same. rewrite andb_true_r. reflexivity.
Qed.

Lemma to_unmanage_erase : forall prev cur,
  map e_key (to_unmanage SameExpr prev cur) = kminus (map e_key prev) (map e_key cur).
Proof.
  intros prev cur. unfold to_unmanage, kminus.
  induction prev as [| e prev IH]; [reflexivity |].
  cbn [filter map]. rewrite existsb_same_expr.
  destruct (negb (str_mem (e_key e) (map e_key cur))); cbn [map]; rewrite IH; reflexivity.
Qed.

Lemma is_nil_map : forall (A B : Type) (f : A -> B) l, is_nil (map f l) = is_nil l.
Proof. intros A B f l. destruct l; reflexivity. Qed.

Lemma rfire_erase : forall cur j p,
  rfire SameExpr cur j p = fire Recheck (option_map erase cur) (erase_job j) p.
Proof.
  intros cur j p. destruct j as [es |]; destruct cur as [c |]; cbn; try reflexivity.
  - rewrite to_unmanage_erase. reflexivity.
  - rewrite to_unmanage_erase. reflexivity.
Qed.

Lemma erase_pend_app : forall a b, erase_pend (a ++ b) = erase_pend a ++ erase_pend b.
Proof. intros a b. unfold erase_pend. apply map_app. Qed.

Lemma rload_erase : forall k c s,
  erase_state (rload SameExpr k c s) = load Recheck k (erase c) (erase_state s).
Proof.
  intros k c s. unfold rload, load, erase_state.
  cbn [s_cur s_px s_now s_pend].
  assert (Hprev : q_eps (match option_map erase (r_cur s) with Some p => p | None => empty_req end)
                  = map e_key (rq_eps (match r_cur s with Some p => p | None => empty_rreq end))).
  { destruct (r_cur s); reflexivity. }
  assert (Hall : q_all (match option_map erase (r_cur s) with Some p => p | None => empty_req end)
                 = rq_all (match r_cur s with Some p => p | None => empty_rreq end)).
  { destruct (r_cur s); reflexivity. }
  rewrite Hprev, Hall. cbn [difference erase q_eps q_all].
  rewrite <- to_unmanage_erase.
  set (rm := to_unmanage SameExpr _ _).
  rewrite is_nil_map.
  destruct k as [| imm].
  - cbn [r_now r_px r_cur r_pend option_map]. rewrite erase_pend_app.
    destruct (is_nil rm); reflexivity.
  - destruct imm.
    + cbn [r_now r_px r_cur r_pend option_map].
      rewrite !rfire_erase. cbn [option_map erase_job erase].
      destruct (_ && _); reflexivity.
    + cbn [r_now r_px r_cur r_pend option_map]. rewrite !erase_pend_app.
      destruct (_ && _); destruct (is_nil rm); reflexivity.
Qed.

Lemma remove_nth_map : forall (A B : Type) (f : A -> B) i l,
  remove_nth i (map f l) = map f (remove_nth i l).
Proof.
  intros A B f i l. revert i. induction l as [| x l IH]; intros i; destruct i; cbn; try reflexivity.
  rewrite IH. reflexivity.
Qed.

Lemma rtick_erase : forall i s,
  erase_state (rtick SameExpr i s) = tick Recheck i (erase_state s).
Proof.
  intros i s. unfold rtick, tick, erase_state. cbn [s_pend s_cur s_px s_now].
  unfold erase_pend. rewrite nth_error_map.
  destruct (nth_error (r_pend s) i) as [[due j] |]; cbn [option_map fst snd].
  - cbn [r_now r_px r_cur r_pend]. rewrite rfire_erase.
    rewrite remove_nth_map. reflexivity.
  - reflexivity.
Qed.

Lemma rfire_due_erase : forall cur now pend p,
  (let '(p', pend') := rfire_due SameExpr cur now pend p in (p', erase_pend pend'))
  = fire_due Recheck (option_map erase cur) now (erase_pend pend) p.
Proof.
  intros cur now pend. induction pend as [| [due j] rest IH]; intros p; [reflexivity |].
  cbn [rfire_due erase_pend map fire_due fst snd]. fold (erase_pend rest).
  destruct (due <=? now).
  - rewrite <- rfire_erase. apply IH.
  - rewrite <- IH. destruct (rfire_due SameExpr cur now rest p). reflexivity.
Qed.

Lemma radvance_erase : forall d s,
  erase_state (radvance SameExpr d s) = advance Recheck d (erase_state s).
Proof.
  intros d s. unfold radvance, advance, erase_state. cbn [s_pend s_cur s_px s_now].
  rewrite <- rfire_due_erase.
  destruct (rfire_due SameExpr (r_cur s) (r_now s + d) (r_pend s) (r_px s)). reflexivity.
Qed.

Lemma qstep_erase : forall s o,
  erase_state (qstep SameExpr s o) = step Recheck (erase_state s) (erase_op o).
Proof.
  intros s o. destruct o; cbn [qstep erase_op step].
  - apply rload_erase.
  - apply rtick_erase.
  - apply radvance_erase.
Qed.

(* the simulation: the history with requirements, requirements forgotten, is the
   history of C14.Reload *)
Theorem qrun_erase : forall ops s,
  erase_state (qrun SameExpr ops s) = run Recheck (map erase_op ops) (erase_state s).
Proof.
  induction ops as [| o ops IH]; intros s; [reflexivity |].
  cbn [qrun run fold_left map]. fold (qrun SameExpr ops (qstep SameExpr s o)).
  rewrite IH, qstep_erase. reflexivity.
Qed.

(* flows_rreq / policy_rreq erase to the requests of C14.Reload *)
Lemma flows_rreq_erase : forall frs, erase (flows_rreq frs) = flows_req (map fst frs).
Proof.
  intros frs. unfold erase, flows_rreq, flows_req, flows_endpoints. cbn [rq_all rq_eps]. f_equal.
  induction frs as [| fr frs IH]; [reflexivity |].
  cbn [flat_map map]. rewrite !map_app, IH. f_equal.
  unfold flow_eps. rewrite map_map. reflexivity.
Qed.

Lemma policy_rreq_erase : forall ds grem gdiag,
  erase (policy_rreq ds grem gdiag) = policy_req ds grem gdiag.
Proof.
  intros ds grem gdiag. unfold erase, policy_rreq, policy_req. cbn [rq_all rq_eps]. f_equal.
  rewrite map_map. reflexivity.
Qed.
