(* C14 — configuration histories, the REQUIREMENTS dimension.

   config/update_endpoints.go: a registration is an HAProxyEndpointData =
   (Endpoint string, Requirements {IsBodyRequired, IsReqCaptureRequired}).  The
   requirements say whether the expression is ALSO put into spoe_with_body.map /
   req_capture.map; who is managed (endpoints.map, keyed by the expression
   alone) does not depend on them.  A reload may keep a filter's expression and
   change only what its processors require (a body-reading processor is
   removed / added, a Retry processor — request capture — appears).

   C14.Reload abstracts a request to its expression strings.  Here the request
   carries the requirements, and the comparison made by EndpointsToUnmanage —
   used twice: when a reload computes what it dropped, and when a delayed
   un-management re-checks its list against the request in force — is a
   parameter:
     [SameExpr]     the code: same expression (requirements ignored)
     [SameExprReq]  "same registration by value": same expression AND the same
                    requirements (seeded change C14-9)
   Result (below): with [SameExpr] the proxy's state after ANY history is the one
   C14.Reload computes from the erased history (requirements are irrelevant to
   who is managed), so every theorem about [run Recheck] carries over; with
   [SameExprReq] a reload that only changes a flow's requirements un-manages the
   expression the configuration in force registers.

   The code modelled is the one with fixes F-C14i and F-C14j (variant Recheck of
   C14.Reload).  Executable definitions first, then the proofs. *)
From Coq Require Import List ZArith Bool.
From Verif Require Import Lib.UrlTree Lib.Regex C14.Reader C14.Model C14.Reload.
From Verif Require C03.Model C13.Model.
Import ListNotations.
Open Scope Z_scope.

(* HAProxyEndpointData *)
Record ep := mkEp { e_key : str; e_body : bool; e_cap : bool }.

(* HAProxyEndpointsRequest *)
Record rreq := mkRReq { rq_all : bool; rq_eps : list ep }.
Definition empty_rreq : rreq := mkRReq false [].

Definition erase (c : rreq) : req := mkReq (rq_all c) (map e_key (rq_eps c)).

Inductive sameness := SameExpr | SameExprReq.

Definition ep_same (w : sameness) (a b : ep) : bool :=
  str_eqb (e_key a) (e_key b) &&
  match w with
  | SameExpr => true
  | SameExprReq => eqb (e_body a) (e_body b) && eqb (e_cap a) (e_cap b)
  end.

(* EndpointsToUnmanage(previous, current) *)
Definition to_unmanage (w : sameness) (prev cur : list ep) : list ep :=
  filter (fun e => negb (existsb (ep_same w e) cur)) prev.

Inductive rjob := RJDel (es : list ep) | RJGlobal.

(* unmanageHAProxyEndpoints / unmanageGlobal: re-check against the request in
   force with the SAME comparison, then DELETE by expression (all three maps;
   endpoints.map is the one modelled) *)
Definition rfire (w : sameness) (cur : option rreq) (j : rjob) (p : proxy) : proxy :=
  let c := match cur with Some c => c | None => empty_rreq end in
  match j with
  | RJDel es => mkProxy (p_all p) (del_all (map e_key (to_unmanage w es (rq_eps c))) (p_map p))
  | RJGlobal => if rq_all c then p else mkProxy false (p_map p)
  end.

Record rstate := mkRState {
  r_now : Z;
  r_px : proxy;
  r_cur : option rreq;
  r_pend : list (Z * rjob)
}.

Definition rinit : rstate := mkRState 0 (mkProxy false []) None [].

Definition rload (w : sameness) (k : kind) (c : rreq) (s : rstate) : rstate :=
  let prev := match r_cur s with Some p => p | None => empty_rreq end in
  let px := manage (erase c) (r_px s) in
  let rm := to_unmanage w (rq_eps prev) (rq_eps c) in
  let due := r_now s + ttl in
  let jdel := if is_nil rm then [] else [(due, RJDel rm)] in
  match k with
  | Flows => mkRState (r_now s) px (Some c) (r_pend s ++ jdel)
  | Policies imm =>
      let g := rq_all prev && negb (rq_all c) in
      if imm then
        let px1 := rfire w (Some c) (RJDel rm) px in
        let px2 := if g then rfire w (Some c) RJGlobal px1 else px1 in
        mkRState (r_now s) px2 (Some c) (r_pend s)
      else
        mkRState (r_now s) px (Some c) (r_pend s ++ (if g then [(due, RJGlobal)] else []) ++ jdel)
  end.

Definition rtick (w : sameness) (i : nat) (s : rstate) : rstate :=
  match nth_error (r_pend s) i with
  | Some (_, j) => mkRState (r_now s) (rfire w (r_cur s) j (r_px s)) (r_cur s) (remove_nth i (r_pend s))
  | None => s
  end.

Fixpoint rfire_due (w : sameness) (cur : option rreq) (now : Z) (pend : list (Z * rjob)) (p : proxy)
  : proxy * list (Z * rjob) :=
  match pend with
  | [] => (p, [])
  | (due, j) :: rest =>
      if due <=? now
      then rfire_due w cur now rest (rfire w cur j p)
      else let '(p', rest') := rfire_due w cur now rest p in (p', (due, j) :: rest')
  end.

Definition radvance (w : sameness) (d : Z) (s : rstate) : rstate :=
  let now := r_now s + d in
  let '(p, pend) := rfire_due w (r_cur s) now (r_pend s) (r_px s) in
  mkRState now p (r_cur s) pend.

Inductive rqop := QLoad (k : kind) (c : rreq) | QTick (i : nat) | QAdvance (d : Z).

Definition qstep (w : sameness) (s : rstate) (o : rqop) : rstate :=
  match o with
  | QLoad k c => rload w k c s
  | QTick i => rtick w i s
  | QAdvance d => radvance w d s
  end.

Definition qrun (w : sameness) (ops : list rqop) (s : rstate) : rstate := fold_left (qstep w) ops s.

(* forgetting the requirements *)
Definition erase_job (j : rjob) : job :=
  match j with RJDel es => JDel (map e_key es) | RJGlobal => JGlobal end.
Definition erase_pend (l : list (Z * rjob)) : list (Z * job) :=
  map (fun dj => (fst dj, erase_job (snd dj))) l.
Definition erase_state (s : rstate) : state :=
  mkState (r_now s) (r_px s) (option_map erase (r_cur s)) (erase_pend (r_pend s)).
Definition erase_op (o : rqop) : op :=
  match o with
  | QLoad k c => Load k (erase c)
  | QTick i => Tick i
  | QAdvance d => Advance d
  end.

(* the requests the engine builds: every expression of a flow carries what the
   flow's processors require (streams.Initialize: filter requirements := union
   over the flow's processors; buildHAProxyFlowsEndpointsRequest); every policy
   endpoint carries {body} (BuildHAProxyEndpointsRequest: defaultPoliciesRequirements) *)
Definition flow_eps (fr : C03.Model.flow * (bool * bool)) : list ep :=
  map (fun e => mkEp (print_expr e) (fst (snd fr)) (snd (snd fr))) (flow_endpoints (fst fr)).

Definition flows_rreq (frs : list (C03.Model.flow * (bool * bool))) : rreq :=
  mkRReq (flows_manage_all (map fst frs)) (flat_map flow_eps frs).

Definition policy_rreq (ds : list C13.Model.decl) (grem : list C13.Model.remedy)
           (gdiag : list C13.Model.diagnosis) : rreq :=
  mkRReq (policy_manage_all grem gdiag)
         (map (fun e => mkEp (print_expr e) true false) (policy_endpoints ds)).

(* ------------------------------------------------------------------ *)
(* Correspondence entry point, suite "reload" (with requirements)       *)

Inductive rop2 :=
| R2LoadF (fl : list (flow_t * (bool * bool)))      (* flow, (needs body, needs request capture) *)
| R2LoadP (dl : list pdecl_t) (g : list bool * list bool) (imm : bool)
| R2Advance (ns : Z).

Definition case_reload2 := list (rop2 * (bool * bool * list str)).

Definition rstep2 (w : sameness) (s : rstate) (o : rop2) : rstate * bool :=
  match o with
  | R2LoadF fl =>
      let frs := map (fun x => (mk_flow (fst x), snd x)) fl in
      if C03.Model.load_ok (map fst frs) then (rload w Flows (flows_rreq frs) s, true) else (s, false)
  | R2LoadP dl (gr, gd) imm =>
      let ds := map mk_decl dl in
      let grem := map (fun e => {| C13.Model.r_name := 0; C13.Model.r_type := 0;
                                   C13.Model.r_enabled := e |}) gr in
      let gdiag := map (fun e => {| C13.Model.g_name := 0; C13.Model.g_enabled := e |}) gd in
      match C13.Model.build ds with
      | Some _ =>
          match r_cur s with
          | None => (rload w Flows (policy_rreq ds grem gdiag) s, true)
          | Some _ => (rload w (Policies imm) (policy_rreq ds grem gdiag) s, true)
          end
      | None => (s, false)
      end
  | R2Advance ns => (radvance w ns s, false)
  end.

Fixpoint rrun2 (w : sameness) (s : rstate) (k : case_reload2) : list (bool * bool * list str) * bool :=
  match k with
  | [] => ([], true)
  | (o, (ok, all, keys)) :: k' =>
      let '(s', mok) := rstep2 w s o in
      let agree := eqb mok ok && eqb (p_all (r_px s')) all && strs_same (p_map (r_px s')) keys in
      let '(outs, rest) := rrun2 w s' k' in
      ((mok, p_all (r_px s'), p_map (r_px s')) :: outs, agree && rest)
  end.

(* a clock step of the suite is never negative (the harness only moves the mock
   clock forward); a case that carries one is REFUSED before anything is
   compared — [Some []], which is not a list of observations of a non-empty
   case — so that an accepted case satisfies the premise of the drain theorem
   (ReloadLeak.drained_after_ttl, Property.C14_unmanaged_after_ttl) *)
Definition neg_adv2 (k : case_reload2) : bool :=
  existsb (fun x => match fst x with R2Advance ns => ns <? 0 | _ => false end) k.

Definition run_reload2_with (w : sameness) (k : case_reload2)
  : option (list (bool * bool * list str)) :=
  if neg_adv2 k then Some [] else
  let '(outs, agree) := rrun2 w rinit k in
  if agree then None else Some outs.

(* the code: registrations compared by expression *)
Definition run_reload2 : case_reload2 -> option (list (bool * bool * list str)) :=
  run_reload2_with SameExpr.

(* ------------------------------------------------------------------ *)
(* Proofs: with [SameExpr] the requirements are irrelevant              *)

Lemma existsb_same_expr : forall e cur,
  existsb (ep_same SameExpr e) cur = str_mem (e_key e) (map e_key cur).
Proof.
  intros e cur. unfold str_mem. induction cur as [| c cur IH]; [reflexivity |].
  cbn [existsb map]. rewrite IH. unfold ep_same. rewrite andb_true_r. reflexivity.
Qed.

Lemma to_unmanage_erase : forall prev cur,
  map e_key (to_unmanage SameExpr prev cur) = kminus (map e_key prev) (map e_key cur).
Proof.
  intros prev cur. unfold to_unmanage, kminus.
  induction prev as [| e prev IH]; [reflexivity |].
  cbn [filter map]. rewrite existsb_same_expr.
  destruct (negb (str_mem (e_key e) (map e_key cur))); cbn [map]; rewrite IH; reflexivity.
Qed.

Lemma is_nil_map : forall (A B : Type) (f : A -> B) l, is_nil (map f l) = is_nil l.
Proof. intros A B f l. destruct l; reflexivity. Qed.

Lemma rfire_erase : forall cur j p,
  rfire SameExpr cur j p = fire Recheck (option_map erase cur) (erase_job j) p.
Proof.
  intros cur j p. destruct j as [es |]; destruct cur as [c |]; cbn; try reflexivity.
  - rewrite to_unmanage_erase. reflexivity.
  - rewrite to_unmanage_erase. reflexivity.
Qed.

Lemma erase_pend_app : forall a b, erase_pend (a ++ b) = erase_pend a ++ erase_pend b.
Proof. intros a b. unfold erase_pend. apply map_app. Qed.

Lemma rload_erase : forall k c s,
  erase_state (rload SameExpr k c s) = load Recheck k (erase c) (erase_state s).
Proof.
  intros k c s. unfold rload, load, erase_state.
  cbn [s_cur s_px s_now s_pend].
  assert (Hprev : q_eps (match option_map erase (r_cur s) with Some p => p | None => empty_req end)
                  = map e_key (rq_eps (match r_cur s with Some p => p | None => empty_rreq end))).
  { destruct (r_cur s); reflexivity. }
  assert (Hall : q_all (match option_map erase (r_cur s) with Some p => p | None => empty_req end)
                 = rq_all (match r_cur s with Some p => p | None => empty_rreq end)).
  { destruct (r_cur s); reflexivity. }
  rewrite Hprev, Hall. cbn [difference erase q_eps q_all].
  rewrite <- to_unmanage_erase.
  set (rm := to_unmanage SameExpr _ _).
  rewrite is_nil_map.
  destruct k as [| imm].
  - cbn [r_now r_px r_cur r_pend option_map]. rewrite erase_pend_app.
    destruct (is_nil rm); reflexivity.
  - destruct imm.
    + cbn [r_now r_px r_cur r_pend option_map].
      rewrite !rfire_erase. cbn [option_map erase_job erase].
      destruct (_ && _); reflexivity.
    + cbn [r_now r_px r_cur r_pend option_map]. rewrite !erase_pend_app.
      destruct (_ && _); destruct (is_nil rm); reflexivity.
Qed.

Lemma remove_nth_map : forall (A B : Type) (f : A -> B) i l,
  remove_nth i (map f l) = map f (remove_nth i l).
Proof.
  intros A B f i l. revert i. induction l as [| x l IH]; intros i; destruct i; cbn; try reflexivity.
  rewrite IH. reflexivity.
Qed.

Lemma rtick_erase : forall i s,
  erase_state (rtick SameExpr i s) = tick Recheck i (erase_state s).
Proof.
  intros i s. unfold rtick, tick, erase_state. cbn [s_pend s_cur s_px s_now].
  unfold erase_pend. rewrite nth_error_map.
  destruct (nth_error (r_pend s) i) as [[due j] |]; cbn [option_map fst snd].
  - cbn [r_now r_px r_cur r_pend]. rewrite rfire_erase.
    rewrite remove_nth_map. reflexivity.
  - reflexivity.
Qed.

Lemma rfire_due_erase : forall cur now pend p,
  (let '(p', pend') := rfire_due SameExpr cur now pend p in (p', erase_pend pend'))
  = fire_due Recheck (option_map erase cur) now (erase_pend pend) p.
Proof.
  intros cur now pend. induction pend as [| [due j] rest IH]; intros p; [reflexivity |].
  cbn [rfire_due erase_pend map fire_due fst snd]. fold (erase_pend rest).
  destruct (due <=? now).
  - rewrite <- rfire_erase. apply IH.
  - rewrite <- IH. destruct (rfire_due SameExpr cur now rest p). reflexivity.
Qed.

Lemma radvance_erase : forall d s,
  erase_state (radvance SameExpr d s) = advance Recheck d (erase_state s).
Proof.
  intros d s. unfold radvance, advance, erase_state. cbn [s_pend s_cur s_px s_now].
  rewrite <- rfire_due_erase.
  destruct (rfire_due SameExpr (r_cur s) (r_now s + d) (r_pend s) (r_px s)). reflexivity.
Qed.

Lemma qstep_erase : forall s o,
  erase_state (qstep SameExpr s o) = step Recheck (erase_state s) (erase_op o).
Proof.
  intros s o. destruct o; cbn [qstep erase_op step].
  - apply rload_erase.
  - apply rtick_erase.
  - apply radvance_erase.
Qed.

(* the simulation: the history with requirements, requirements forgotten, is the
   history of C14.Reload *)
Theorem qrun_erase : forall ops s,
  erase_state (qrun SameExpr ops s) = run Recheck (map erase_op ops) (erase_state s).
Proof.
  induction ops as [| o ops IH]; intros s; [reflexivity |].
  cbn [qrun run fold_left map]. fold (qrun SameExpr ops (qstep SameExpr s o)).
  rewrite IH, qstep_erase. reflexivity.
Qed.

(* flows_rreq / policy_rreq erase to the requests of C14.Reload *)
Lemma flows_rreq_erase : forall frs, erase (flows_rreq frs) = flows_req (map fst frs).
Proof.
  intros frs. unfold erase, flows_rreq, flows_req, flows_endpoints. cbn [rq_all rq_eps]. f_equal.
  induction frs as [| fr frs IH]; [reflexivity |].
  cbn [flat_map map]. rewrite !map_app, IH. f_equal.
  unfold flow_eps. rewrite map_map. reflexivity.
Qed.

Lemma policy_rreq_erase : forall ds grem gdiag,
  erase (policy_rreq ds grem gdiag) = policy_req ds grem gdiag.
Proof.
  intros ds grem gdiag. unfold erase, policy_rreq, policy_req. cbn [rq_all rq_eps]. f_equal.
  rewrite map_map. reflexivity.
Qed.

(* ------------------------------------------------------------------ *)
(* The suite's run function IS a run of [qrun] (hence, by [qrun_erase],  *)
(* of [Reload.run Recheck])                                              *)

(* the operation of the transition system a step of the case denotes in state
   [s]; a load the engine refuses denotes none (the state is unchanged) *)
Definition op_of (s : rstate) (o : rop2) : option rqop :=
  match o with
  | R2LoadF fl =>
      let frs := map (fun x => (mk_flow (fst x), snd x)) fl in
      if C03.Model.load_ok (map fst frs) then Some (QLoad Flows (flows_rreq frs)) else None
  | R2LoadP dl (gr, gd) imm =>
      let ds := map mk_decl dl in
      let grem := map (fun e => {| C13.Model.r_name := 0; C13.Model.r_type := 0;
                                   C13.Model.r_enabled := e |}) gr in
      let gdiag := map (fun e => {| C13.Model.g_name := 0; C13.Model.g_enabled := e |}) gd in
      match C13.Model.build ds with
      | Some _ => Some (QLoad (match r_cur s with None => Flows | Some _ => Policies imm end)
                              (policy_rreq ds grem gdiag))
      | None => None
      end
  | R2Advance ns => Some (QAdvance ns)
  end.

Lemma rstep2_qstep : forall w s o,
  fst (rstep2 w s o) = match op_of s o with Some q => qstep w s q | None => s end.
Proof.
  intros w s o. destruct o as [fl | dl [gr gd] imm | ns]; cbn [rstep2 op_of].
  - destruct (C03.Model.load_ok _); reflexivity.
  - destruct (C13.Model.build _); [|reflexivity]. destruct (r_cur s); reflexivity.
  - reflexivity.
Qed.

(* the state [rrun2] threads through the steps [os] of a case *)
Definition rfinal2 (w : sameness) (s : rstate) (os : list rop2) : rstate :=
  fold_left (fun s o => fst (rstep2 w s o)) os s.

(* the history (operations of the transition system) the steps [os] denote from [s] *)
Fixpoint ops_of (w : sameness) (s : rstate) (os : list rop2) : list rqop :=
  match os with
  | [] => []
  | o :: os' =>
      match op_of s o with
      | Some q => q :: ops_of w (qstep w s q) os'
      | None => ops_of w s os'
      end
  end.

Lemma rfinal2_qrun : forall w os s, rfinal2 w s os = qrun w (ops_of w s os) s.
Proof.
  intros w os. unfold rfinal2, qrun.
  induction os as [| o os IH]; intros s; [reflexivity |].
  cbn [fold_left ops_of]. rewrite rstep2_qstep.
  destruct (op_of s o) as [q |]; cbn [fold_left]; apply IH.
Qed.

(* a case the suite accepts: at every step the observation carried by the case
   is that of the state reached by the steps up to there *)
Lemma rrun2_agree_nth : forall w k s n o ok all keys,
  snd (rrun2 w s k) = true ->
  nth_error k n = Some (o, (ok, all, keys)) ->
  p_all (r_px (rfinal2 w s (map fst (firstn (S n) k)))) = all /\
  strs_same (p_map (r_px (rfinal2 w s (map fst (firstn (S n) k))))) keys = true.
Proof.
  intros w k. induction k as [| [o0 [[ok0 all0] keys0]] k IH]; intros s n o ok all keys A N.
  - destruct n; discriminate.
  - cbn [rrun2] in A. destruct (rstep2 w s o0) as [s' mok] eqn:E.
    destruct (rrun2 w s' k) as [outs rest] eqn:R. cbn [snd] in A.
    apply andb_true_iff in A. destruct A as [A1 A2].
    change (firstn (S n) ((o0, (ok0, all0, keys0)) :: k))
      with ((o0, (ok0, all0, keys0)) :: firstn n k).
    unfold rfinal2. cbn [map fst fold_left]. rewrite E. cbn [fst].
    destruct n as [| n].
    + cbn [nth_error] in N. injection N as -> -> -> ->. cbn [firstn map fold_left].
      apply andb_true_iff in A1. destruct A1 as [A1 A3].
      apply andb_true_iff in A1. destruct A1 as [_ A1].
      split; [apply eqb_prop; exact A1 | exact A3].
    + cbn [nth_error] in N. apply (IH s' n o ok all keys); [rewrite R; exact A2 | exact N].
Qed.

Lemma run_reload2_with_none : forall w k,
  run_reload2_with w k = None -> neg_adv2 k = false /\ snd (rrun2 w rinit k) = true.
Proof.
  intros w k H. unfold run_reload2_with in H.
  destruct (neg_adv2 k); [discriminate |]. split; [reflexivity |].
  destruct (rrun2 w rinit k) as [outs agree]. destruct agree; [reflexivity | discriminate].
Qed.

(* THE BRIDGE suite reload -> qrun -> run Recheck.  On a case the suite accepts
   (run_reload2 k = None, what ./check demands of every case), the proxy state
   the implementation showed after step n (manage_all, keys of endpoints.map) is
   the proxy state of [Reload.run Recheck] after the history the first n+1
   steps denote, requirements forgotten. *)
Theorem accepted_reload_case_is_a_run : forall k n o ok all keys,
  run_reload2 k = None ->
  nth_error k n = Some (o, (ok, all, keys)) ->
  let ops := ops_of SameExpr rinit (map fst (firstn (S n) k)) in
  let s := run Recheck (map erase_op ops) init in
  p_all (s_px s) = all /\ strs_same (p_map (s_px s)) keys = true.
Proof.
  intros k n o ok all keys H N ops s.
  destruct (run_reload2_with_none SameExpr k H) as [_ A].
  destruct (rrun2_agree_nth SameExpr k rinit n o ok all keys A N) as [P1 P2].
  rewrite rfinal2_qrun in P1, P2. fold ops in P1, P2.
  assert (E : r_px (qrun SameExpr ops rinit) = s_px s).
  { unfold s. change init with (erase_state rinit). rewrite <- qrun_erase. reflexivity. }
  rewrite E in P1, P2. split; assumption.
Qed.
