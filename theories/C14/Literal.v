(* C14 — literal-ness: what exactly the expression of a wildcard-free pattern
   matches.  Every literal character of the configured URL (and of the method)
   is matched by itself only; a parameter by a non-empty run of characters
   that are not separators of its position; nothing else.  The expression is
   unanchored on the left (the proxy searches), anchored on the right by "$". *)
From Coq Require Import List ZArith Bool Lia.
From Verif Require Import Lib.UrlTree Lib.UrlTreeProofs Lib.Regex C14.Model C14.Proofs.
Import ListNotations.
Open Scope Z_scope.

Lemma wild_free_no_wild : forall ps, wild_free ps = true -> ends_wild ps = false.
Proof.
  induction ps as [|[k s] rest IH]; intro H; [reflexivity|].
  cbn in H. apply andb_true_iff in H. destruct H as [H1 H2]. apply negb_true_iff in H1.
  cbn [ends_wild]. destruct (is_nil rest); [exact H1 | exact (IH H2)].
Qed.

Lemma lang_url_inst : forall ps first w,
  wild_free ps = true -> (lang (url_re first ps) w <-> inst first ps w).
Proof.
  induction ps as [|[k s] rest IH]; intros first w HW.
  - cbn. apply lang_emp.
  - cbn in HW. apply andb_true_iff in HW. destruct HW as [H1 H2]. apply negb_true_iff in H1.
    cbn [url_re inst]. rewrite H1. cbn [andb]. unfold part_re.
    destruct (is_brace s) eqn:Eb; split.
    + intro H. apply lang_seq_inv in H. destruct H as (d & r & -> & Hd & Hr).
      apply lang_seq_inv in Hr. destruct Hr as (v & w' & -> & Hv & Hw').
      apply lang_delim in Hd. subst d. apply lang_param in Hv. destruct Hv as [Hn Hs].
      exists v, w'. repeat split; try assumption. apply IH; assumption.
    + intros (v & w' & -> & Hn & Hs & Hi).
      constructor; [apply lang_delim; reflexivity|].
      constructor; [apply lang_param; split; assumption | apply IH; assumption].
    + intro H. apply lang_seq_inv in H. destruct H as (d & r & -> & Hd & Hr).
      apply lang_seq_inv in Hr. destruct Hr as (v & w' & -> & Hv & Hw').
      apply lang_delim in Hd. subst d. apply lang_lit in Hv. subst v.
      exists w'. split; [reflexivity | apply IH; assumption].
    + intros (w' & -> & Hi).
      constructor; [apply lang_delim; reflexivity|].
      constructor; [apply lang_lit; reflexivity | apply IH; assumption].
Qed.

(* a pattern of literal parts only has exactly one instance: its own text *)
Lemma inst_literal : forall ps first w,
  literal_pattern ps = true -> (inst first ps w <-> w = unsplit first ps).
Proof.
  induction ps as [|[k s] rest IH]; intros first w HL.
  - cbn. reflexivity.
  - cbn in HL. apply andb_true_iff in HL. destruct HL as [H1 H2].
    unfold is_const_part in H1. cbn [snd] in H1. apply andb_true_iff in H1. destruct H1 as [_ Hb].
    apply negb_true_iff in Hb. cbn [inst unsplit]. rewrite Hb. split.
    + intros (w' & -> & Hi). apply IH in Hi; [|exact H2]. subst w'. reflexivity.
    + intros ->. exists (unsplit false rest). split; [reflexivity | apply IH; auto].
Qed.

Lemma literal_wild_free : forall ps, literal_pattern ps = true -> wild_free ps = true.
Proof.
  intros ps H. unfold literal_pattern, wild_free in *. rewrite forallb_forall in *.
  intros p Hp. specialize (H p Hp). unfold is_const_part in H.
  apply andb_true_iff in H. tauto.
Qed.

(* the subjects an expression with an end anchor finds *)
Lemma search_anchored : forall mre p w,
  wild_free (split_url p) = true ->
  (re_search (format_with mre p) w = true <->
   exists pre a u, w = pre ++ a ++ sep3 ++ u /\ lang mre a /\ inst true (split_url p) u).
Proof.
  intros mre p w HW. rewrite re_search_spec. unfold searches. cbn [format_with e_re e_eos].
  rewrite (wild_free_no_wild _ HW). cbn [negb]. split.
  - intros (pre & mid & post & -> & HL & Hp). rewrite (Hp eq_refl), app_nil_r.
    apply lang_seq_inv in HL. destruct HL as (a & r & -> & Ha & Hr).
    apply lang_seq_inv in Hr. destruct Hr as (s3 & u & -> & Hs & Hu).
    apply lang_lit in Hs. subst s3. apply lang_url_inst in Hu; [|exact HW].
    exists pre, a, u. auto.
  - intros (pre & a & u & -> & Ha & Hu). exists pre, (a ++ sep3 ++ u), [].
    rewrite app_nil_r. split; [reflexivity|]. split; [|reflexivity].
    constructor; [exact Ha|]. constructor; [apply lang_lit; reflexivity|].
    apply lang_url_inst; assumption.
Qed.

Lemma exact_format : forall m p w,
  wild_free (split_url p) = true ->
  (re_search (format m p) w = true <->
   exists pre u, w = pre ++ subject m u /\ inst true (split_url p) u).
Proof.
  intros m p w HW. unfold format. rewrite (search_anchored _ _ _ HW). unfold subject. split.
  - intros (pre & a & u & -> & Ha & Hu). apply lang_lit in Ha. subst a. exists pre, u. auto.
  - intros (pre & u & -> & Hu). exists pre, m, u. split; [reflexivity|]. split; [apply lang_lit; reflexivity | exact Hu].
Qed.

Lemma literal_format : forall m p w,
  literal_pattern (split_url p) = true ->
  (re_search (format m p) w = true <-> exists pre, w = pre ++ subject m (trim_url p)).
Proof.
  intros m p w HL. rewrite (exact_format _ _ _ (literal_wild_free _ HL)). split.
  - intros (pre & u & -> & Hu). apply (inst_literal _ _ _ HL) in Hu. subst u.
    rewrite unsplit_split. exists pre. reflexivity.
  - intros (pre & ->). exists pre, (trim_url p). split; [reflexivity|].
    apply (inst_literal _ _ _ HL). symmetry. apply unsplit_split.
Qed.

(* the any-method expression: any text before ":::", then the same *)
Lemma literal_format_any : forall p w,
  literal_pattern (split_url p) = true ->
  (re_search (format_any p) w = true <-> exists pre, w = pre ++ sep3 ++ trim_url p).
Proof.
  intros p w HL. unfold format_any. rewrite (search_anchored _ _ _ (literal_wild_free _ HL)). split.
  - intros (pre & a & u & -> & _ & Hu). apply (inst_literal _ _ _ HL) in Hu. subst u.
    rewrite unsplit_split. exists (pre ++ a). rewrite <- app_assoc. reflexivity.
  - intros (pre & ->). exists pre, [], (trim_url p). split; [reflexivity|].
    split; [apply LStar0|]. apply (inst_literal _ _ _ HL). symmetry. apply unsplit_split.
Qed.

(* consequence in the words of the property: a URL of the same length as the
   configured literal URL is found only if it IS that URL: changing any
   literal character loses the match *)
Lemma literal_same_length : forall m p u,
  literal_pattern (split_url p) = true ->
  length u = length (trim_url p) ->
  re_search (format m p) (subject m u) = true -> u = trim_url p.
Proof.
  intros m p u HL Hlen H. apply (literal_format _ _ _ HL) in H. destruct H as (pre & E).
  assert (Hp : pre = []).
  { apply (f_equal (@length Z)) in E. unfold subject in E. rewrite !app_length in E.
    destruct pre; [reflexivity | cbn [length] in E; lia]. }
  subst pre. cbn [app] in E. unfold subject in E.
  apply app_inv_head in E. apply app_inv_head in E. exact E.
Qed.

(* ================================================================
   Every pattern: not ending in a wildcard (a "*" elsewhere is a literal
   character for the formatter), and ending in one
   ================================================================ *)


(* ---- every pattern that does not END in a wildcard (a "*" elsewhere is a
        literal character for the formatter) ---- *)
Lemma lang_url_nowild : forall ps first w,
  ends_wild ps = false -> (lang (url_re first ps) w <-> inst first ps w).
Proof.
  induction ps as [|[k s] rest IH]; intros first w HW.
  - cbn. apply lang_emp.
  - assert (Hc : str_eqb s star && is_nil rest = false).
    { cbn [ends_wild] in HW. destruct rest; cbn in *; [rewrite andb_true_r; exact HW | apply andb_false_r]. }
    assert (Hr : ends_wild rest = false).
    { cbn [ends_wild] in HW. destruct rest; [reflexivity | exact HW]. }
    cbn [url_re inst]. rewrite Hc. unfold part_re.
    destruct (is_brace s) eqn:Eb; split.
    + intro H. apply lang_seq_inv in H. destruct H as (d & r & -> & Hd & Hr').
      apply lang_seq_inv in Hr'. destruct Hr' as (v & w' & -> & Hv & Hw').
      apply lang_delim in Hd. subst d. apply lang_param in Hv. destruct Hv as [Hn Hs].
      exists v, w'. repeat split; try assumption. apply IH; assumption.
    + intros (v & w' & -> & Hn & Hs & Hi).
      constructor; [apply lang_delim; reflexivity|].
      constructor; [apply lang_param; split; assumption | apply IH; assumption].
    + intro H. apply lang_seq_inv in H. destruct H as (d & r & -> & Hd & Hr').
      apply lang_seq_inv in Hr'. destruct Hr' as (v & w' & -> & Hv & Hw').
      apply lang_delim in Hd. subst d. apply lang_lit in Hv. subst v.
      exists w'. split; [reflexivity | apply IH; assumption].
    + intros (w' & -> & Hi).
      constructor; [apply lang_delim; reflexivity|].
      constructor; [apply lang_lit; reflexivity | apply IH; assumption].
Qed.

(* kind of the trailing wildcard *)
Definition wild_kind (ps : list part) : bool := fst (last ps (false, [])).

(* ---- a pattern that ends in a wildcard: an instance of the parts before
        the wildcard, then the optional group ---- *)
Lemma lang_url_wild : forall ps first w,
  ends_wild ps = true ->
  (lang (url_re first ps) w <->
   exists u g, w = u ++ g /\ inst first (removelast ps) u /\ lang (wild_re (wild_kind ps)) g).
Proof.
  induction ps as [|[k s] rest IH]; intros first w HW.
  - cbn in HW. discriminate.
  - destruct rest as [|r rest'].
    + cbn in HW. cbn [url_re removelast inst wild_kind last fst is_nil]. rewrite HW. cbn [andb]. split.
      * intro H. exists [], w. auto.
      * intros (u & g & -> & -> & Hg). exact Hg.
    + cbn [ends_wild is_nil] in HW.
      change (removelast ((k, s) :: r :: rest')) with ((k, s) :: removelast (r :: rest')).
      change (wild_kind ((k, s) :: r :: rest')) with (wild_kind (r :: rest')).
      cbn [url_re is_nil inst]. rewrite andb_false_r. unfold part_re.
      destruct (is_brace s) eqn:Eb; split.
      * intro H. apply lang_seq_inv in H. destruct H as (d & q & -> & Hd & Hq).
        apply lang_seq_inv in Hq. destruct Hq as (v & w' & -> & Hv & Hw').
        apply lang_delim in Hd. subst d. apply lang_param in Hv. destruct Hv as [Hn Hs].
        apply (IH false w' HW) in Hw'. destruct Hw' as (u & g & -> & Hu & Hg).
        exists (delim_txt first k ++ v ++ u), g. split; [rewrite <- !app_assoc; reflexivity|].
        split; [|exact Hg]. exists v, u. auto.
      * intros (u & g & -> & (v & u' & -> & Hn & Hs & Hi) & Hg).
        rewrite <- !app_assoc.
        constructor; [apply lang_delim; reflexivity|].
        constructor; [apply lang_param; split; assumption|].
        apply (IH false _ HW). exists u', g. auto.
      * intro H. apply lang_seq_inv in H. destruct H as (d & q & -> & Hd & Hq).
        apply lang_seq_inv in Hq. destruct Hq as (v & w' & -> & Hv & Hw').
        apply lang_delim in Hd. subst d. apply lang_lit in Hv. subst v.
        apply (IH false w' HW) in Hw'. destruct Hw' as (u & g & -> & Hu & Hg).
        exists (delim_txt first k ++ s ++ u), g. split; [rewrite <- !app_assoc; reflexivity|].
        split; [|exact Hg]. exists u. auto.
      * intros (u & g & -> & (u' & -> & Hi) & Hg).
        rewrite <- !app_assoc.
        constructor; [apply lang_delim; reflexivity|].
        constructor; [apply lang_lit; reflexivity|].
        apply (IH false _ HW). exists u', g. auto.
Qed.

(* what an expression WITHOUT end anchor finds: the method, ":::", an instance
   of the parts before the wildcard — anywhere in the subject, whatever follows
   (the optional group may be empty and the search does not reach the end) *)
Lemma search_open : forall mre p w,
  ends_wild (split_url p) = true ->
  (re_search (format_with mre p) w = true <->
   exists pre a u rest, w = pre ++ a ++ sep3 ++ u ++ rest /\ lang mre a /\
                        inst true (removelast (split_url p)) u).
Proof.
  intros mre p w HW. rewrite re_search_spec. unfold searches. cbn [format_with e_re e_eos].
  rewrite HW. cbn [negb]. split.
  - intros (pre & mid & post & -> & HL & _).
    apply lang_seq_inv in HL. destruct HL as (a & r & -> & Ha & Hr).
    apply lang_seq_inv in Hr. destruct Hr as (s3 & x & -> & Hs & Hx).
    apply lang_lit in Hs. subst s3. apply (lang_url_wild _ _ _ HW) in Hx.
    destruct Hx as (u & g & -> & Hu & _).
    exists pre, a, u, (g ++ post). rewrite <- !app_assoc. auto.
  - intros (pre & a & u & rest & -> & Ha & Hu).
    exists pre, (a ++ sep3 ++ u), rest. rewrite <- !app_assoc. split; [reflexivity|].
    split; [|discriminate].
    constructor; [exact Ha|]. constructor; [apply lang_lit; reflexivity|].
    apply (lang_url_wild _ _ _ HW). exists u, []. rewrite app_nil_r.
    split; [reflexivity|]. split; [exact Hu | apply LOpt0].
Qed.

(* the anchored case for every pattern not ending in a wildcard *)
Lemma search_anchored_nowild : forall mre p w,
  ends_wild (split_url p) = false ->
  (re_search (format_with mre p) w = true <->
   exists pre a u, w = pre ++ a ++ sep3 ++ u /\ lang mre a /\ inst true (split_url p) u).
Proof.
  intros mre p w HW. rewrite re_search_spec. unfold searches. cbn [format_with e_re e_eos].
  rewrite HW. cbn [negb]. split.
  - intros (pre & mid & post & -> & HL & Hp). rewrite (Hp eq_refl), app_nil_r.
    apply lang_seq_inv in HL. destruct HL as (a & r & -> & Ha & Hr).
    apply lang_seq_inv in Hr. destruct Hr as (s3 & u & -> & Hs & Hu).
    apply lang_lit in Hs. subst s3. apply lang_url_nowild in Hu; [|exact HW].
    exists pre, a, u. auto.
  - intros (pre & a & u & -> & Ha & Hu). exists pre, (a ++ sep3 ++ u), [].
    rewrite app_nil_r. split; [reflexivity|]. split; [|reflexivity].
    constructor; [exact Ha|]. constructor; [apply lang_lit; reflexivity|].
    apply lang_url_nowild; assumption.
Qed.

Lemma exact_format_nowild : forall m p w,
  ends_wild (split_url p) = false ->
  (re_search (format m p) w = true <->
   exists pre u, w = pre ++ subject m u /\ inst true (split_url p) u).
Proof.
  intros m p w HW. unfold format. rewrite (search_anchored_nowild _ _ _ HW). unfold subject. split.
  - intros (pre & a & u & -> & Ha & Hu). apply lang_lit in Ha. subst a. exists pre, u. auto.
  - intros (pre & u & -> & Hu). exists pre, m, u. split; [reflexivity|]. split; [apply lang_lit; reflexivity | exact Hu].
Qed.

Lemma exact_format_wild : forall m p w,
  ends_wild (split_url p) = true ->
  (re_search (format m p) w = true <->
   exists pre u rest, w = pre ++ subject m u ++ rest /\ inst true (removelast (split_url p)) u).
Proof.
  intros m p w HW. unfold format. rewrite (search_open _ _ _ HW). unfold subject. split.
  - intros (pre & a & u & rest & -> & Ha & Hu). apply lang_lit in Ha. subst a.
    exists pre, u, rest. rewrite <- !app_assoc. auto.
  - intros (pre & u & rest & -> & Hu). exists pre, m, u, rest. rewrite <- !app_assoc.
    split; [reflexivity|]. split; [apply lang_lit; reflexivity | exact Hu].
Qed.

Lemma exact_format_any_wild : forall p w,
  ends_wild (split_url p) = true ->
  (re_search (format_any p) w = true <->
   exists pre u rest, w = pre ++ sep3 ++ u ++ rest /\ inst true (removelast (split_url p)) u).
Proof.
  intros p w HW. unfold format_any. rewrite (search_open _ _ _ HW). split.
  - intros (pre & a & u & rest & -> & _ & Hu). exists (pre ++ a), u, rest.
    rewrite <- !app_assoc. auto.
  - intros (pre & u & rest & -> & Hu). exists pre, [], u, rest.
    split; [reflexivity|]. split; [apply LStar0 | exact Hu].
Qed.

(* literal parts before the wildcard: the subject contains "METHOD:::" followed by
   exactly their text *)
Lemma literal_format_wild : forall m p w,
  ends_wild (split_url p) = true ->
  literal_pattern (removelast (split_url p)) = true ->
  (re_search (format m p) w = true <->
   exists pre rest, w = pre ++ subject m (unsplit true (removelast (split_url p))) ++ rest).
Proof.
  intros m p w HW HL. rewrite (exact_format_wild _ _ _ HW). split.
  - intros (pre & u & rest & -> & Hu). apply (inst_literal _ _ _ HL) in Hu. subst u.
    exists pre, rest. reflexivity.
  - intros (pre & rest & ->). exists pre, (unsplit true (removelast (split_url p))), rest.
    split; [reflexivity|]. apply (inst_literal _ _ _ HL). reflexivity.
Qed.
