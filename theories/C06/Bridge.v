(* C06 — lemmas that close gaps between the theorems and what the
   correspondence suites execute / what the code's granularity is:
   - every state the correspondence interpreter goes through is [run c init sch]
     for some schedule (so the theorems speak about exactly those states);
   - the loop of [pops] has enough fuel;
   - the safety invariants do not depend on the shared-queue size test being
     atomic with the registration (its outcome may be any stale value);
   - the size bound under the exact side condition (slots reserved). *)
From Coq Require Import List ZArith Bool Lia.
From Verif Require Import C06.Model C06.Proofs.
Import ListNotations.
Open Scope Z_scope.

(* ------------------------------------------------------------------ reachable states *)

Definition reach (c : cfg) (s : state) : Prop := exists sch, s = run c init sch.

Lemma reach_init c : reach c init.
Proof. exists []. reflexivity. Qed.

Lemma reach_step c s a : reach c s -> reach c (step c s a).
Proof. intros [sch ->]. exists (sch ++ [a]). rewrite run_app. reflexivity. Qed.

Lemma reach_run c s l : reach c s -> reach c (run c s l).
Proof. intros [sch ->]. exists (sch ++ l). rewrite run_app. reflexivity. Qed.

Lemma reach_pop_loop c fuel s : reach c s -> reach c (pop_loop fuel c s).
Proof.
  revert s. induction fuel as [|f IH]; intros s H; cbn; [exact H|].
  destruct (held s); [exact H|]. destruct (heap s); [exact H|]. apply IH, (reach_step c s TickPop), H.
Qed.

Lemma reach_pops c s : reach c s -> reach c (pops c s).
Proof. apply reach_pop_loop. Qed.

Lemma reach_settle c gate s : reach c s -> reach c (fst (settle c gate s)).
Proof.
  intros H. unfold settle.
  set (F := fun (acc : state * list (Z * bool)) (r : Z) =>
      let '(s', o) := acc in
      let i := info s' r in
      match pc i with
      | PWaiting =>
          if 1 <=? dones i
          then let s'' := step c s' (WaiterReturn r) in
               (s'', o ++ [(r, match verdict (info s'' r) with Some true => true | _ => false end)])
          else acc
      | _ => acc
      end).
  assert (H1 : forall l acc, reach c (fst acc) -> reach c (fst (fold_left F l acc))).
  { induction l as [|r l IH]; intros acc Ha; cbn [fold_left]; [exact Ha|]. apply IH.
    destruct acc as [s' o]. cbn [F fst] in *. destruct (pc (info s' r)); try exact Ha.
    destruct (1 <=? dones (info s' r)); [|exact Ha]. cbn [fst]. apply reach_step, Ha. }
  specialize (H1 (sortZ (watch s)) (s, []) H).
  destruct (fold_left F (sortZ (watch s)) (s, [])) as [s1 out]. cbn [fst] in *.
  destruct gate; [|exact H1].
  assert (H2 : forall l s0, reach c s0 ->
     reach c (fold_left (fun s' r => match pc (info s' r) with
                                     | PReturned => step c s' (Remove r)
                                     | _ => s' end) l s0)).
  { induction l as [|r l IH]; intros s0 H0; cbn [fold_left]; [exact H0|]. apply IH.
    destruct (pc (info s0 r)); try exact H0. apply reach_step, H0. }
  apply H2, H1.
Qed.

Lemma reach_hstep c hdr groups h o :
  reach c (hs h) -> reach c (hs (fst (hstep c hdr groups h o))).
Proof.
  intros H. unfold hstep.
  set (pre := match o with
    | HArrive r g =>
        let s' := run c (hs h) [ArriveCheck r (prio_of hdr groups g) (hnow h); ArriveRegister r; ArrivePush r] in
        (s', hnow h, hgate h, hpend h, rejected s' r, false)
    | HCheck r g =>
        let s' := step c (hs h) (ArriveCheck r (prio_of hdr groups g) (hnow h)) in
        (s', hnow h, hgate h, hpend h, rejected s' r, false)
    | HEnter r =>
        let s' := run c (hs h) [ArriveRegister r; ArrivePush r] in
        (s', hnow h, hgate h, hpend h, rejected s' r, false)
    | HTick =>
        if hpend h then (hs h, hnow h, hgate h, hpend h, false, false)
        else (pops c (hs h), hnow h, hgate h, false, false, false)
    | HAnswer b =>
        if b then (hs h, hnow h, hgate h, true, false, false)
        else (step c (hs h) (TickDecide false), hnow h, hgate h, false, false, false)
    | HSignal =>
        if hpend h then (pops c (step c (hs h) (TickDecide true)), hnow h, hgate h, false, false, false)
        else (hs h, hnow h, hgate h, false, false, false)
    | HScan => (step c (hs h) (TtlScan (hnow h)), hnow h, hgate h, hpend h, false, false)
    | HAdvance d => (hs h, hnow h + d, hgate h, hpend h, false, false)
    | HGate b => (hs h, hnow h, b, hpend h, false, false)
    | HDrain =>
        let s' := step c (hs h) Drain in
        (s', hnow h, hgate h, hpend h, false, existsb (fun r => 1 <? dones (info s' r)) (watch s'))
    end).
  assert (Hpre : reach c (fst (fst (fst (fst (fst pre)))))).
  { unfold pre. destruct o as [r g|r g|r| |b| | |d|b| ]; cbn [fst];
      try (apply reach_run; exact H); try (apply reach_step; exact H); try exact H.
    - destruct (hpend h); cbn [fst]; [exact H|apply reach_pops, H].
    - destruct b; cbn [fst]; [exact H|apply reach_step, H].
    - destruct (hpend h); cbn [fst]; [apply reach_pops, reach_step, H|exact H]. }
  destruct pre as [[[[[s1 now1] gate1] pend1] rej] pan]. cbn [fst] in Hpre.
  pose proof (reach_settle c gate1 s1 Hpre) as Hs.
  destruct (settle c gate1 s1) as [s2 out]. cbn [fst hs] in *. exact Hs.
Qed.

(* the hstate the interpreter [hrun] has reached after the operations [ops] *)
Fixpoint hend (c : cfg) (hdr : bool) (groups : list Z) (h : hstate) (ops : list (hop * obs)) : hstate :=
  match ops with
  | [] => h
  | (o, _) :: rest => hend c hdr groups (fst (hstep c hdr groups h o)) rest
  end.

Lemma reach_hend c hdr groups ops h : reach c (hs h) -> reach c (hs (hend c hdr groups h ops)).
Proof.
  revert h. induction ops as [|[o seen] ops IH]; intros h H; cbn [hend]; [exact H|].
  apply IH, reach_hstep, H.
Qed.

(* hrun threads exactly these states: a case on which the model agrees with the
   implementation on every operation is a walk through [hend] *)
Lemma hrun_agrees_prefix c hdr groups ops1 ops2 h n :
  hrun c hdr groups h n (ops1 ++ ops2) = None ->
  hrun c hdr groups h n ops1 = None /\
  hrun c hdr groups (hend c hdr groups h ops1) (n + N.of_nat (length ops1))%N ops2 = None.
Proof.
  revert h n. induction ops1 as [|[o seen] ops1 IH]; intros h n H; cbn [app hend length] in *.
  - split; [reflexivity|]. cbn. rewrite N.add_0_r. exact H.
  - cbn [hrun] in *. destruct (hstep c hdr groups h o) as [h' m]. cbn [fst].
    destruct (eq_obs m seen); [|discriminate].
    destruct (IH h' (n + 1)%N H) as [H1 H2]. split; [exact H1|].
    replace (n + N.of_nat (S (length ops1)))%N with (n + 1 + N.of_nat (length ops1))%N by lia.
    exact H2.
Qed.

(* ------------------------------------------------------------------ fuel of the pop loop *)

Lemma pop_loop_done c fuel s :
  drained s = false -> (length (heap s) < fuel)%nat ->
  held (pop_loop fuel c s) <> None \/ heap (pop_loop fuel c s) = [].
Proof.
  revert s. induction fuel as [|f IH]; intros s Hd Hl; [inversion Hl|]. cbn [pop_loop].
  destruct (held s) eqn:Eh; [left; congruence|].
  destruct (heap s) as [|[[p t] r] h'] eqn:Ehp; [right; exact Ehp|].
  apply IH; cbn [step]; unfold tick_pop; rewrite Hd, Eh, Ehp;
    destruct (memZ r (watch s) && is_enq (info s r)); cbn; auto; cbn in Hl; lia.
Qed.

(* the loop body stops only when it holds a request or the queue is empty
   (or the queue was drained: then process() has returned) *)
Lemma pops_done c s :
  drained s = true \/ held (pops c s) <> None \/ heap (pops c s) = [].
Proof.
  destruct (drained s) eqn:Ed; [now left|]. right. apply pop_loop_done; [exact Ed|lia].
Qed.

(* ------------------------------------------------------------------ the shared-queue size test may be stale *)

(* In the code the shared-queue size is read (queue.Size(), under the queue's
   mutex) before the registration (AddRequestIfBelow, under the watcher's mutex):
   pushes and pops of other goroutines can fall between the two, so the value
   the test uses may be stale.  [ostep] lets the outcome of that test be ANY
   boolean chosen by the environment ([Some full]); [None] = the atomic reading
   of [step].  The invariants below hold for every such schedule, so none of
   them relies on the atomicity of test and registration. *)
Definition with_smax (c : cfg) (x : Z) : cfg :=
  {| qmax := qmax c; smax := x; ttl := ttl c; var := var c |}.

Definition forced (c : cfg) (full : bool) : cfg := with_smax c (if full then 0 else -1).

Definition ostep (c : cfg) (s : state) (oa : option bool * action) : state :=
  match oa with
  | (None, a) => step c s a
  | (Some full, a) => step (forced c full) s a
  end.

Definition orun (c : cfg) (s : state) (l : list (option bool * action)) : state :=
  fold_left (ostep c) l s.

Lemma shared_full_forced c s full : shared_full (forced c full) s = full.
Proof.
  unfold shared_full, forced, with_smax. destruct full; cbn [smax]; [|reflexivity].
  cbn. apply Z.leb_le. lia.
Qed.

(* the forced step is the registration with the test's outcome replaced *)
Lemma forced_register c s r full :
  step (forced c full) s (ArriveRegister r) =
  match pc (info s r) with
  | PChecked =>
      if full || (atomic_reg (var c) && (qmax c <=? count s)) || (closed_after_drain (var c) && drained s)
      then {| info := upd (info s) r (arrive (info s r) PGone (prio (info s r)) (expire (info s r)) (Some false));
              heap := heap s; watch := watch s; count := count s; next_stamp := next_stamp s;
              held := held s; drained := drained s; checked := removeZ r (checked s);
              admits := admits s |}
      else {| info := upd (info s) r (set_pc (info s r) PRegistered);
              heap := heap s; watch := r :: watch s; count := count s + 1;
              next_stamp := next_stamp s; held := held s; drained := drained s;
              checked := removeZ r (checked s); admits := admits s |}
  | _ => s
  end.
Proof. cbn [step]. unfold arrive_register. rewrite shared_full_forced. reflexivity. Qed.

(* only the registration reads the shared size *)
Lemma forced_other c s a full :
  (forall r, a <> ArriveRegister r) -> step (forced c full) s a = step c s a.
Proof. intros H. destruct a; try reflexivity. exfalso. eapply H. reflexivity. Qed.

Lemma InvC_var c c' s : var c' = var c -> InvC c s -> InvC c' s.
Proof. intros E [C1 C2 C3 C4 C5 C6 C7 C8]. constructor; auto. rewrite E. exact C3. Qed.

Lemma Inv_var c c' s : var c' = var c -> Inv c s -> Inv c' s.
Proof.
  intros E (HA & HB & HC & HD). split; [exact HA|]. split; [exact HB|]. split; [|exact HD].
  eapply InvC_var; eassumption.
Qed.

Lemma InvF_var c c' s : var c' = var c -> qmax c' = qmax c -> InvF c s -> InvF c' s.
Proof. intros E Q [F1 F2]. unfold InvF, max0 in *. rewrite E, Q. auto. Qed.

Lemma InvG_var c c' s : var c' = var c -> InvG c s -> InvG c' s.
Proof. intros E [G1 G2]. unfold InvG. rewrite E. auto. Qed.

(* everything the safety theorems rest on *)
Definition InvAll (c : cfg) (s : state) : Prop := Inv c s /\ InvE s /\ InvF c s /\ InvG c s.

Lemma InvAll_init c : InvAll c init.
Proof.
  split; [apply Inv_init|]. split; [intros r; cbn; lia|].
  split; [unfold InvF, max0; cbn; split; intros _; lia|apply InvG_init].
Qed.

Lemma InvAll_step c s a :
  gated_drain (var c) = true -> atomic_reg (var c) = true -> InvAll c s -> InvAll c (step c s a).
Proof.
  intros Hg Ha (HI & HE & HF & HG). pose proof HI as (HA & HB & _).
  split; [apply Inv_step; exact HI|].
  split; [apply (InvE_step c); auto; destruct a; cbn; auto|].
  split; [apply (InvF_step c); auto; left; exact Ha|apply InvG_step; assumption].
Qed.

Lemma InvAll_ostep c s oa :
  gated_drain (var c) = true -> atomic_reg (var c) = true -> InvAll c s -> InvAll c (ostep c s oa).
Proof.
  intros Hg Ha H. destruct oa as [[full|] a]; cbn [ostep]; [|apply InvAll_step; assumption].
  destruct H as (HI & HE & HF & HG).
  assert (H' : InvAll (forced c full) s).
  { split; [eapply Inv_var; [|exact HI]; reflexivity|]. split; [exact HE|].
    split; [eapply InvF_var; [| |exact HF]; reflexivity|eapply InvG_var; [|exact HG]; reflexivity]. }
  apply (InvAll_step (forced c full) s a Hg Ha) in H'. destruct H' as (HI' & HE' & HF' & HG').
  split; [eapply Inv_var; [|exact HI']; reflexivity|]. split; [exact HE'|].
  split; [eapply InvF_var; [| |exact HF']; reflexivity|eapply InvG_var; [|exact HG']; reflexivity].
Qed.

Lemma InvAll_orun c l :
  gated_drain (var c) = true -> atomic_reg (var c) = true -> InvAll c (orun c init l).
Proof.
  intros Hg Ha. unfold orun.
  assert (H : forall s, InvAll c s -> InvAll c (fold_left (ostep c) l s)).
  { induction l as [|oa l IH]; intros s Hs; cbn [fold_left]; [exact Hs|].
    apply IH, InvAll_ostep; assumption. }
  apply H, InvAll_init.
Qed.

(* an atomic schedule is the special case in which no outcome is forced *)
Lemma orun_atomic c sch s : orun c s (map (fun a => (None, a)) sch) = run c s sch.
Proof.
  revert s. induction sch as [|a sch IH]; intros s; [reflexivity|]. cbn. apply IH.
Qed.

(* ------------------------------------------------------------------ the bound under the exact side condition *)

(* When registration is not atomic (tree without fix F-C06b) the bound holds on
   exactly those schedules on which an arrival passes its slot check only while
   the slots already promised (requests between check and registration) still
   leave one free: count + |checked| < queue_size.  [arrival_pre] (no other
   arrival between check and registration at all) is a special case. *)
Definition slot_pre (c : cfg) (s : state) (a : action) : Prop :=
  atomic_reg (var c) = true \/
  match a with
  | ArriveCheck _ _ _ =>
      qmax c <= count s \/ count s + Z.of_nat (length (checked s)) < qmax c
  | _ => True
  end.

Lemma arrival_pre_slot_pre c s a : arrival_pre c s a -> slot_pre c s a.
Proof.
  intros [H|H]; [now left|]. right. destruct a; auto. rewrite H. cbn. lia.
Qed.

Lemma InvF_step_slot c s a : InvA s -> InvF c s -> slot_pre c s a -> InvF c (step c s a).
Proof.
  intros HA HF Hpre.
  destruct a as [r p now|r|r| |b|now r|now|r|r| ];
    try (apply InvF_step; [exact HA|exact HF|right; exact I]).
  destruct Hpre as [Hpre|Hpre]; [apply InvF_step; [exact HA|exact HF|left; exact Hpre]|].
  pose proof HF as [F1 F2]. cbn [step]. unfold arrive_check.
  destruct (pc (info s r)); try exact HF.
  destruct (qmax c <=? count s) eqn:G; [apply (InvF_same c s); auto|].
  apply Z.leb_gt in G. split; cbn [count checked length]; [exact F1|].
  intros Ha. destruct Hpre as [Hpre|Hpre]; [lia|]. unfold max0. lia.
Qed.

Lemma AF_run_slot c sch :
  trace_ok c (slot_pre c) init sch -> InvA (run c init sch) /\ InvF c (run c init sch).
Proof.
  apply (run_inv_pre c (slot_pre c) (fun s => InvA s /\ InvF c s)).
  - intros s a (HA & HF) Hp. split; [apply InvA_step|apply InvF_step_slot]; assumption.
  - split; [apply InvA_init|]. unfold InvF, max0. cbn. split; intros _; lia.
Qed.

Lemma trace_ok_weaken c (P Q : state -> action -> Prop) s sch :
  (forall s a, P s a -> Q s a) -> trace_ok c P s sch -> trace_ok c Q s sch.
Proof.
  intros H. revert s. induction sch as [|a sch IH]; intros s; cbn; [auto|].
  intros [H1 H2]. split; [apply H, H1|apply IH, H2].
Qed.

Lemma count_bound_of_InvF c s : InvF c s -> count s <= max0 c.
Proof.
  intros [F1 F2]. destruct (atomic_reg (var c)); [apply F1; reflexivity|].
  specialize (F2 eq_refl). lia.
Qed.

(* ------------------------------------------------------------------ the state part of the property, as one predicate *)

Definition safe_state (c : cfg) (s : state) : Prop :=
  (forall r, dones (info s r) <= 1) /\
  (forall r, verdict (info s r) = Some true -> In r (admits s)) /\
  (forall r r', picks s r -> is_waiting s r' -> r' <> r ->
     lex_lt (prio (info s r)) (astamp (info s r)) (prio (info s r')) (astamp (info s r'))) /\
  count s = Z.of_nat (length (watch s)) /\ count s <= Z.max 0 (qmax c) /\
  waiting s <= Z.max 0 (qmax c) /\
  (drained s = true -> forall r, In r (watch s) -> dones (info s r) = 1).

Lemma safe_of_InvAll c s :
  keep_stamp (var c) = true -> closed_after_drain (var c) = true -> InvAll c s -> safe_state c s.
Proof.
  intros Hk Hc (HI & HE & HF & HG). pose proof HI as (HA & HB & HC & HD).
  split; [exact HE|]. split; [exact (D_verd s HD)|].
  split; [intros r r'; apply (pick_fifo c); assumption|].
  split; [apply (A_count s HA)|]. split; [apply (count_bound_of_InvF c s HF)|].
  split; [apply (bound_of_InvF c); assumption|].
  intros Hd r Hw. destruct HG as [_ G2]. pose proof (B_d1 s HB r (G2 Hc Hd r Hw)). specialize (HE r). lia.
Qed.
